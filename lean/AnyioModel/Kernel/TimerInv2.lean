/-
Timer invariant, part 2: the primitive operations (`cancel()`, `__enter__`, `__exit__`,
`CancelScope()`, `shield = ...`) preserve it.
-/
import AnyioModel.Kernel.TimerInv

namespace AnyioModel.Kernel

/-! ### building blocks for `TEq` -/

theorem TEq.of_fields {a b : State} (h1 : b.now = a.now) (h2 : b.nScopes = a.nScopes)
    (h3 : b.timers = a.timers) (h4 : b.cur = a.cur) (h5 : b.ready = a.ready)
    (h6 : b.scopes = a.scopes) : TEq a b :=
  ⟨h1, h2, fun _ => by rw [h3], fun _ => by rw [h4], fun _ => by rw [h5],
    fun _ => by rw [h6]; exact SEq.refl _⟩

theorem TEq.setTask (st : State) (t : Nat) (f : Task → Task) : TEq st (st.setTask t f) :=
  TEq.of_fields rfl rfl rfl rfl rfl rfl

theorem TEq.setGroup (st : State) (g : Nat) (f : Group → Group) : TEq st (st.setGroup g f) :=
  TEq.of_fields rfl rfl rfl rfl rfl rfl

theorem TEq.setFut (st : State) (f : Nat) (v : FutSt) : TEq st (st.setFut f v) :=
  TEq.of_fields rfl rfl rfl rfl rfl rfl

theorem TEq.schedule (st : State) (h : Handle) (hh : ∀ s, h ≠ Handle.timeout s) :
    TEq st (st.schedule h) := by
  refine ⟨rfl, rfl, fun _ => rfl, fun _ => rfl, fun s => ?_, fun _ => SEq.refl _⟩
  simp [List.count_append, hh s]

theorem TEq.setScope (st : State) (s : Nat) (f : Scope → Scope) (hf : ∀ x, SEq x (f x)) :
    TEq st (st.setScope s f) := by
  refine ⟨rfl, rfl, fun _ => rfl, fun _ => rfl, fun _ => rfl, fun i => ?_⟩
  by_cases hi : i = s
  · subst hi; simpa using hf _
  · simpa [hi] using SEq.refl _

/-- cancelling a handle that is not a scope's timeout callback -/
theorem TEq.unschedule (st : State) (h : Handle) (hh : ∀ s, h ≠ Handle.timeout s) :
    TEq st (st.unschedule h) := by
  refine ⟨rfl, rfl, fun s => ?_, fun s => ?_, fun s => ?_, fun _ => SEq.refl _⟩
  · show tmL (st.timers.filter (·.2 ≠ h)) s = _
    rw [tmL_filter_ne, if_neg (hh s)]
  · show (st.cur.filter (· ≠ h)).count _ = _
    rw [count_filter_ne, if_neg (hh s).symm]
  · show (st.ready.filter (· ≠ h)).count _ = _
    rw [count_filter_ne, if_neg (hh s).symm]

theorem TEq.resolveFut (st : State) (f : Nat) (v : FutSt) : TEq st (resolveFut st f v) :=
  TEq.of_dframe (DFrame.resolveFut st f v)

theorem TEq.deliver (st : State) (s : Nat) : TEq st (deliver st s) :=
  TEq.of_dframe (DFrame.deliver st s)

theorem TEq.restartInParent (st : State) (s : Nat) : TEq st (restartInParent st s) :=
  TEq.of_dframe (DFrame.restartInParent st s)

theorem TEq.taskCancel (st : State) (t : Nat) (a : Bool) : TEq st (taskCancel st t a) :=
  TEq.of_dframe (DFrame.taskCancel st t a)

theorem TEq.taskUncancel (st : State) (t n : Nat) : TEq st (taskUncancel st t n) :=
  TEq.of_dframe (DFrame.taskUncancel st t n)

/-! ### one scope changes -/

/-- `b` differs from `a` (in what `TInv` reads) only in scope `s` and its handles -/
structure TLoc (s : Nat) (a b : State) : Prop where
  now : b.now = a.now
  nScopes : b.nScopes = a.nScopes
  timers : ∀ i, i ≠ s → tmL b.timers i = tmL a.timers i
  cur : ∀ i, i ≠ s → b.cur.count (Handle.timeout i) = a.cur.count (Handle.timeout i)
  ready : ∀ i, i ≠ s → b.ready.count (Handle.timeout i) = a.ready.count (Handle.timeout i)
  scopes : ∀ i, i ≠ s → SEq (a.scopes i) (b.scopes i)

theorem TEq.loc {a b : State} (h : TEq a b) (s : Nat) : TLoc s a b :=
  ⟨h.now, h.nScopes, fun i _ => h.timers i, fun i _ => h.cur i, fun i _ => h.ready i,
    fun i _ => h.scopes i⟩

theorem TLoc.trans {s : Nat} {a b c : State} (h1 : TLoc s a b) (h2 : TLoc s b c) : TLoc s a c :=
  ⟨h2.now.trans h1.now, h2.nScopes.trans h1.nScopes,
    fun i hi => (h2.timers i hi).trans (h1.timers i hi),
    fun i hi => (h2.cur i hi).trans (h1.cur i hi),
    fun i hi => (h2.ready i hi).trans (h1.ready i hi),
    fun i hi => (h1.scopes i hi).trans (h2.scopes i hi)⟩

/-- a local change that re-establishes `SInv` for the scope it touches -/
theorem TLoc.tevo {s : Nat} {a b : State} (h : TLoc s a b)
    (hs : TInv a → SInv a.now a.nScopes s (tmL b.timers s) (b.cur.count (Handle.timeout s))
      (b.ready.count (Handle.timeout s)) (b.scopes s) ∧ SNorm a.now (a.scopes s) (b.scopes s)) :
    TEvo a b := by
  intro ha
  have key : ∀ i, SNorm a.now (a.scopes i) (b.scopes i) := by
    intro i
    by_cases hi : i = s
    · subst hi; exact (hs ha).2
    · exact SNorm.of_seq (h.scopes i hi)
  refine ⟨fun i => ?_, h.now, by rw [h.nScopes]; exact Nat.le_refl _, fun i => .inl (key i),
    fun i _ => key i⟩
  rw [h.now, h.nScopes]
  by_cases hi : i = s
  · subst hi; exact (hs ha).1
  · rw [h.timers i hi, h.cur i hi, h.ready i hi]
    exact (ha i).congr (h.scopes i hi)

theorem TLoc.setScope (st : State) (s : Nat) (f : Scope → Scope) : TLoc s st (st.setScope s f) :=
  ⟨rfl, rfl, fun _ _ => rfl, fun _ _ => rfl, fun _ _ => rfl,
    fun i hi => by simpa [hi] using SEq.refl _⟩

theorem TLoc.unschedule (st : State) (s : Nat) : TLoc s st (st.unschedule (.timeout s)) := by
  refine ⟨rfl, rfl, fun i hi => ?_, fun i hi => ?_, fun i hi => ?_, fun _ _ => SEq.refl _⟩
  · have : Handle.timeout s ≠ Handle.timeout i := by simpa using Ne.symm hi
    show tmL (st.timers.filter (·.2 ≠ Handle.timeout s)) i = _
    rw [tmL_filter_ne, if_neg this]
  · show (st.cur.filter (· ≠ Handle.timeout s)).count _ = _
    rw [count_filter_ne, if_neg (by simpa using hi)]
  · show (st.ready.filter (· ≠ Handle.timeout s)).count _ = _
    rw [count_filter_ne, if_neg (by simpa using hi)]

/-! ### the component of one scope -/

/-- what `TInv` reads about scope `s` in `st`: its timer entries are `tm`, it has `cu` handles in
the batch, none in the ready queue, and its record agrees with `y` -/
structure Comp (st : State) (s : Nat) (tm : List Nat) (cu : Nat) (y : Scope) : Prop where
  tm : tmL st.timers s = tm
  cu : st.cur.count (Handle.timeout s) = cu
  rd : st.ready.count (Handle.timeout s) = 0
  sc : SEq y (st.scopes s)

theorem Comp.teq {a b : State} {s : Nat} {tm : List Nat} {cu : Nat} {y : Scope}
    (h : Comp a s tm cu y) (e : TEq a b) : Comp b s tm cu y :=
  ⟨(e.timers s).trans h.tm, (e.cur s).trans h.cu, (e.ready s).trans h.rd,
    h.sc.trans (e.scopes s)⟩

theorem Comp.of_tinv {st : State} (h : TInv st) (s : Nat) :
    Comp st s (tmL st.timers s) (st.cur.count (Handle.timeout s)) (st.scopes s) :=
  ⟨rfl, rfl, (h s).ready, SEq.refl _⟩

theorem Comp.setScope {a : State} {s : Nat} {tm : List Nat} {cu : Nat} {y : Scope}
    (h : Comp a s tm cu y) (f : Scope → Scope) (hf : ∀ x x', SEq x x' → SEq (f x) (f x')) :
    Comp (a.setScope s f) s tm cu (f y) :=
  ⟨h.tm, h.cu, h.rd, by simpa using hf _ _ h.sc⟩

theorem SNorm.congr_right {now : Nat} {x y y' : Scope} (h : SNorm now x y) (e : SEq y y') :
    SNorm now x y' := h.trans (SNorm.of_seq e)

/-- the way every primitive is proved: it is local to `s`, and the new component of `s`
satisfies `SInv` and evolved as allowed -/
theorem TLoc.tevo_comp {s : Nat} {a b : State} (h : TLoc s a b)
    (hs : TInv a → ∃ tm cu y, Comp b s tm cu y ∧ SInv a.now a.nScopes s tm cu 0 y ∧
      SNorm a.now (a.scopes s) y) : TEvo a b := by
  apply h.tevo
  intro ha
  obtain ⟨tm, cu, y, hc, hi, he⟩ := hs ha
  rw [hc.tm, hc.cu, hc.rd]
  exact ⟨hi.congr hc.sc, he.congr_right hc.sc⟩

/-- no handle pending, flag clear -/
theorem SInv.idle {now nsc s : Nat} {y : Scope} (h1 : y.timer = false)
    (h2 : y.active = true → y.cancelCalled = false → y.deadline = none)
    (h3 : nsc ≤ s → y.exists_ = false ∧ y.deadline = none)
    (h4 : y.byDeadline = true → y.cancelCalled = true ∧ y.entered = true ∧ y.cancelTime ≤ now)
    (h5 : y.active = true → y.entered = true) : SInv now nsc s [] 0 0 y := by
  constructor <;> simp_all

/-- one handle in the heap, at the deadline, flag set -/
theorem SInv.armed {now nsc s d : Nat} {y : Scope} (h1 : y.timer = true)
    (h2 : y.deadline = some d) (h2' : now < d) (h3 : s < nsc) (h6 : y.active = true)
    (h4 : y.byDeadline = true → y.cancelCalled = true ∧ y.entered = true ∧ y.cancelTime ≤ now)
    (h5 : y.entered = true) : SInv now nsc s [d] 0 0 y := by
  constructor <;> simp_all <;> omega

/-! ### cancelling the timeout handle -/

/-- after `handle.cancel()` of the scope's timeout handle (if the flag is set) nothing of `s` is
pending — given that the flag was accurate -/
theorem disarmed_queues {st b : State} {s : Nat} (h : TInv st)
    (ht : b.timers =
      if (st.scopes s).timer then st.timers.filter (·.2 ≠ Handle.timeout s) else st.timers)
    (hc : b.cur = if (st.scopes s).timer then st.cur.filter (· ≠ Handle.timeout s) else st.cur)
    (hr : b.ready =
      if (st.scopes s).timer then st.ready.filter (· ≠ Handle.timeout s) else st.ready) :
    (tmL b.timers s = [] ∧ b.cur.count (Handle.timeout s) = 0 ∧
      b.ready.count (Handle.timeout s) = 0) ∧
    (∀ i, i ≠ s → tmL b.timers i = tmL st.timers i ∧
      b.cur.count (Handle.timeout i) = st.cur.count (Handle.timeout i) ∧
      b.ready.count (Handle.timeout i) = st.ready.count (Handle.timeout i)) := by
  have hs := h s
  cases htm : (st.scopes s).timer with
  | true =>
    rw [htm] at ht hc hr
    simp only [if_true] at ht hc hr
    rw [ht, hc, hr]
    refine ⟨⟨by rw [tmL_filter_ne, if_pos rfl], by rw [count_filter_ne, if_pos rfl],
      by rw [count_filter_ne, if_pos rfl]⟩, fun i hi => ?_⟩
    have : Handle.timeout s ≠ Handle.timeout i := by simpa using Ne.symm hi
    exact ⟨by rw [tmL_filter_ne, if_neg this], by rw [count_filter_ne, if_neg this.symm],
      by rw [count_filter_ne, if_neg this.symm]⟩
  | false =>
    rw [htm] at ht hc hr
    simp only [Bool.false_eq_true, if_false] at ht hc hr
    rw [ht, hc, hr]
    have hcnt := hs.count
    rw [htm] at hcnt
    simp only [Bool.false_eq_true, if_false] at hcnt
    refine ⟨⟨List.length_eq_zero_iff.1 (by omega), by omega, hs.ready⟩, fun i _ => ⟨rfl, rfl, rfl⟩⟩

theorem disarm_queues (st : State) (s : Nat) :
    (disarm st s).timers =
      (if (st.scopes s).timer then st.timers.filter (·.2 ≠ Handle.timeout s) else st.timers) ∧
    (disarm st s).cur =
      (if (st.scopes s).timer then st.cur.filter (· ≠ Handle.timeout s) else st.cur) ∧
    (disarm st s).ready =
      (if (st.scopes s).timer then st.ready.filter (· ≠ Handle.timeout s) else st.ready) ∧
    (disarm st s).nScopes = st.nScopes := by
  unfold disarm
  split <;> simp

theorem tloc_disarm {st : State} (h : TInv st) (s : Nat) : TLoc s st (disarm st s) := by
  obtain ⟨q1, q2, q3, q4⟩ := disarm_queues st s
  have := (disarmed_queues h q1 q2 q3).2
  refine ⟨disarm_now st s, q4, fun i hi => (this i hi).1, fun i hi => (this i hi).2.1,
    fun i hi => (this i hi).2.2, fun i hi => ?_⟩
  rw [disarm_scopes, upd_other _ _ _ _ hi]
  exact SEq.refl _

theorem comp_disarm {st : State} (h : TInv st) (s : Nat) :
    Comp (disarm st s) s [] 0 { st.scopes s with timer := false } := by
  obtain ⟨q1, q2, q3, _⟩ := disarm_queues st s
  obtain ⟨a, b, c⟩ := (disarmed_queues h q1 q2 q3).1
  refine ⟨a, b, c, ?_⟩
  rw [disarm_scopes, upd_same]
  exact SEq.refl _

/-! ### `cancel()` -/

theorem tloc_cancelMark {st : State} (h : TInv st) (s : Nat) (bd : Bool) :
    TLoc s st (cancelMark st s bd) :=
  (tloc_disarm h s).trans (TLoc.setScope _ _ _)

theorem comp_cancelMark {st : State} (h : TInv st) (s : Nat) (bd : Bool) :
    Comp (cancelMark st s bd) s [] 0
      { st.scopes s with timer := false, cancelCalled := true, byDeadline := bd,
                         cancelTime := st.now } := by
  have c := comp_disarm h s
  refine ⟨c.tm, c.cu, c.rd, ?_⟩
  rw [cancelMark_scopes, upd_same]
  exact SEq.refl _

/-- `scope.cancel()` called by anybody but `_timeout` -/
theorem tevo_cancel (st : State) (s : Nat) : TEvo st (cancelScope st s false) := by
  rw [cancelScope_split]
  split
  · exact TEvo.refl _
  · rename_i hcc
    have key : TEvo st (cancelMark st s false) := by
      intro h
      refine TLoc.tevo_comp (tloc_cancelMark h s false) (fun _ => ?_) h
      refine ⟨_, _, _, comp_cancelMark h s false, ?_, ?_⟩
      · have hs := h s
        have hdf := hs.dflt
        have hae := hs.ae
        apply SInv.idle <;> simp_all
      · constructor <;> simp_all
    split
    · exact key.trans (TEvo.of_teq (TEq.deliver _ _))
    · exact key

/-! ### `_timeout()` -/

theorem disarm_of_clear {st : State} {s : Nat} (ht : (st.scopes s).timer = false) :
    disarm st s = st := by
  simp [disarm, ht]

/-- `_timeout()` on a scope whose flag is clear, by cases; `y` describes the scope's record -/
theorem arm_cases {st : State} {s : Nat} {tm : List Nat} {cu : Nat} {y : Scope}
    (hc : Comp st s tm cu y) (ht : (st.scopes s).timer = false) :
    TLoc s st (armTimeout st s) ∧
    match y.deadline with
    | none => Comp (armTimeout st s) s tm cu y
    | some d =>
      if st.now < d then Comp (armTimeout st s) s (tm ++ [d]) cu { y with timer := true }
      else if y.cancelCalled then Comp (armTimeout st s) s tm cu y
      else Comp (armTimeout st s) s tm cu
        { y with timer := false, cancelCalled := true, byDeadline := true, cancelTime := st.now } := by
  have hdl : (st.scopes s).deadline = y.deadline := hc.sc.deadline
  have hcc : (st.scopes s).cancelCalled = y.cancelCalled := hc.sc.cancelCalled
  cases hd : y.deadline with
  | none =>
    rw [hd] at hdl
    rw [armTimeout_none st s hdl]
    exact ⟨(TEq.refl _).loc s, hc⟩
  | some d =>
    rw [hd] at hdl
    dsimp only
    by_cases hlt : st.now < d
    · rw [if_pos hlt, armTimeout_early st s d hdl hlt]
      refine ⟨⟨rfl, rfl, fun i hi => ?_, fun _ _ => rfl, fun _ _ => rfl, fun i hi => ?_⟩,
        ⟨?_, hc.cu, hc.rd, ?_⟩⟩
      · show tmL (st.timers ++ [(d, Handle.timeout s)]) i = _
        rw [tmL_append, tmL_single_other _ _ _ (by simpa using Ne.symm hi)]; simp
      · simpa [hi] using SEq.refl _
      · show tmL (st.timers ++ [(d, Handle.timeout s)]) s = _
        rw [tmL_append, tmL_single_self, hc.tm]
      · have := hc.sc
        cases this; constructor <;> simp_all
    · rw [if_neg hlt, armTimeout_due st s d hdl (by omega)]
      cases hcy : y.cancelCalled with
      | true =>
        rw [hcy] at hcc
        rw [cancelScope_already st s true hcc]
        exact ⟨(TEq.refl _).loc s, hc⟩
      | false =>
        rw [hcy] at hcc
        simp only [Bool.false_eq_true, if_false]
        have hm : cancelMark st s true = st.setScope s (fun x =>
            { x with cancelCalled := true, byDeadline := true, cancelTime := st.now }) := by
          unfold cancelMark; rw [disarm_of_clear ht]
        have hl : TLoc s st (cancelMark st s true) := by rw [hm]; exact TLoc.setScope _ _ _
        have hcm : Comp (cancelMark st s true) s tm cu
            { y with timer := false, cancelCalled := true, byDeadline := true,
                     cancelTime := st.now } := by
          rw [hm]
          refine ⟨hc.tm, hc.cu, hc.rd, ?_⟩
          have := hc.sc
          cases this; constructor <;> simp_all
        rw [hd] at hcm
        rw [cancelScope_split, if_neg (by simp [hcc])]
        split
        · exact ⟨hl.trans ((TEq.deliver _ _).loc s), hcm.teq (TEq.deliver _ _)⟩
        · exact ⟨hl, hcm⟩

/-! ### `__enter__` -/

theorem teq_enterLink (st : State) (t s : Nat) : TEq st (enterLink st t s) := by
  have hq : (enterLink st t s).now = st.now ∧ (enterLink st t s).nScopes = st.nScopes ∧
      (enterLink st t s).timers = st.timers ∧ (enterLink st t s).cur = st.cur ∧
      (enterLink st t s).ready = st.ready := by
    unfold enterLink
    dsimp only
    split
    · exact ⟨rfl, rfl, rfl, rfl, rfl⟩
    · split <;> exact ⟨rfl, rfl, rfl, rfl, rfl⟩
  obtain ⟨q1, q2, q3, q4, q5⟩ := hq
  exact ⟨q1, q2, fun _ => by rw [q3], fun _ => by rw [q4], fun _ => by rw [q5],
    fun i => SEq.of_unlinked (enterLink_unlinked st t s i)⟩

theorem activate_congr (x x' : Scope) (e : SEq x x') :
    SEq { x with active := true, entered := true } { x' with active := true, entered := true } := by
  cases e; constructor <;> simp_all

theorem tevo_enterScope {st st' : State} {t s : Nat} (h : enterScope st t s = some st') :
    TEvo st st' := by
  rw [enterScope_split] at h
  split at h
  · cases h
  · rename_i hg
    have hg' : (st.scopes s).active = false ∧ (st.scopes s).entered = false := by
      cases h1 : (st.scopes s).active <;> cases h2 : (st.scopes s).entered <;> simp_all
    simp only [Option.some.injEq] at h
    have e1 := teq_enterLink st t s
    -- everything up to the optional first delivery
    have key : TEvo st ((armTimeout (enterLink st t s) s).setScope s
        (fun x => { x with active := true, entered := true })) := by
      intro hi
      have hs := hi s
      have htf : (st.scopes s).timer = false := by
        cases htm : (st.scopes s).timer with
        | false => rfl
        | true => have := hs.act htm; simp_all
      have hcnt := hs.count
      rw [htf] at hcnt
      simp only [Bool.false_eq_true, if_false] at hcnt
      have htm0 : tmL st.timers s = [] := List.length_eq_zero_iff.1 (by omega)
      have hc0 : Comp (enterLink st t s) s [] 0 (st.scopes s) := by
        have := (Comp.of_tinv hi s).teq e1
        rw [htm0] at this
        rw [show st.cur.count (Handle.timeout s) = 0 by omega] at this
        exact this
      have htl : ((enterLink st t s).scopes s).timer = false := by
        rw [(e1.scopes s).timer]; exact htf
      obtain ⟨hloc, hcomp⟩ := arm_cases hc0 htl
      have hloc' : TLoc s st ((armTimeout (enterLink st t s) s).setScope s
          (fun x => { x with active := true, entered := true })) :=
        ((e1.loc s).trans hloc).trans (TLoc.setScope _ _ _)
      refine TLoc.tevo_comp hloc' (fun _ => ?_) hi
      rw [e1.now] at hcomp
      cases hd : (st.scopes s).deadline with
      | none =>
        rw [hd] at hcomp
        refine ⟨_, _, _, hcomp.setScope _ activate_congr, ?_, ?_⟩
        · have hbd := hs.bd
          have hdf := hs.dflt
          apply SInv.idle <;> simp_all
        · constructor <;> simp_all
      | some d =>
        rw [hd] at hcomp
        dsimp only at hcomp
        have hlt : s < st.nScopes := by
          apply Classical.byContradiction
          intro hn
          have := (hs.dflt (by omega)).2.2
          simp_all
        by_cases hnow : st.now < d
        · rw [if_pos hnow] at hcomp
          refine ⟨_, _, _, hcomp.setScope _ activate_congr, ?_, ?_⟩
          · have hbd := hs.bd
            apply SInv.armed (d := d) <;> simp_all
          · constructor <;> simp_all
        · rw [if_neg hnow] at hcomp
          cases hcc : (st.scopes s).cancelCalled with
          | true =>
            rw [hcc] at hcomp
            simp only [if_true] at hcomp
            refine ⟨_, _, _, hcomp.setScope _ activate_congr, ?_, ?_⟩
            · have hbd := hs.bd
              have hdf := hs.dflt
              apply SInv.idle <;> simp_all
            · constructor <;> simp_all
          | false =>
            rw [hcc] at hcomp
            simp only [Bool.false_eq_true, if_false] at hcomp
            refine ⟨_, _, _, hcomp.setScope _ activate_congr, ?_, ?_⟩
            · apply SInv.idle <;> simp_all
            · constructor <;> simp_all
    split at h
    · subst h; exact key.trans (TEvo.of_teq (TEq.deliver _ _))
    · subst h; exact key

end AnyioModel.Kernel
