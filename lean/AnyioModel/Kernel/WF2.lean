/-
`WF`, part 2: the forest part is preserved by the pure updates of `__enter__` and `__exit__`.
-/
import AnyioModel.Kernel.WF

namespace AnyioModel.Kernel

theorem Forest.entered_of_task_scope {sc tk} (h : Forest sc tk) {t s : Nat}
    (hs : (tk t).scope = some s) : (sc s).entered = true := by
  have hm := (h.tasks_mem s t).mpr ⟨h.task_scope t s hs, hs⟩
  cases he : (sc s).entered
  · have := (h.not_entered s he).2.2.1
    simp [this] at hm
  · rfl

theorem Forest.parent_ne {sc tk} (h : Forest sc tk) {s : Nat} : (sc s).parent ≠ some s := by
  intro hp
  have he := h.parent_entered s s hp
  have := h.chain_spec s he
  rw [hp] at this
  have := congrArg List.length this
  simp at this

/-- `__enter__` by a task that has no current scope -/
theorem Forest.enter_none {sc : Nat → Scope} {tk : Nat → Task} (h : Forest sc tk) {t s : Nat}
    (he : (sc s).entered = false) (hx : (sc s).exists_ = true)
    (hc : (tk t).st ≠ .created) (hd : (tk t).st ≠ .done)
    (hp : (tk t).hasState = false ∨ (tk t).scope = none) :
    Forest
      (upd sc s { sc s with host := some t, tasks := [t], parent := none, chain := [s],
                            active := true, entered := true })
      (upd tk t { tk t with hasState := true, scope := some s }) := by
  have hne := h.not_entered s he
  have hes := fun u => h.entered_of_task_scope (t := u) (s := s)
  obtain ⟨h1, h2, h3, h4, h5, h6, h7, h8, h9, h10, h11, h12, h13, h14, h15, h16⟩ := h
  constructor
  case host_scope =>
    intro x u hh
    by_cases hxs : x = s
    · subst hxs
      simp at hh; subst hh
      left; simp
    · simp [hxs] at hh
      have hut : u ≠ t := by
        rintro rfl
        rcases h15 x u hh with ⟨a, s0, b, _⟩ | a
        · rcases hp with hp | hp <;> simp_all
        · exact hd a
      rcases h15 x u hh with ⟨a, s0, b, c⟩ | a
      · left
        have : s0 ≠ s := by
          rintro rfl; have := hes u b; simp_all
        exact ⟨by simpa [hut] using a, s0, by simpa [hut] using b, by simpa [this] using c⟩
      · right; simp [hut, a]
  all_goals grind
