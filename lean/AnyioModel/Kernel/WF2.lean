/-
`WF`, part 2: the forest part is preserved by the pure updates of `__enter__` and `__exit__`.
-/
import AnyioModel.Kernel.WF

namespace AnyioModel.Kernel

theorem Forest.entered_of_task_scope {sc tk} (h : Forest sc tk) {t s : Nat}
    (hs : (tk t).scope = some s) : (sc s).entered = true := by
  have hm := (h.tasks_mem s t).mpr ⟨h.task_scope t s hs, hs⟩
  cases he : (sc s).entered
  · have := (h.not_entered s he).2.2.1
    simp [this] at hm
  · rfl

theorem Forest.parent_ne {sc tk} (h : Forest sc tk) {s : Nat} : (sc s).parent ≠ some s := by
  intro hp
  have he := h.parent_entered s s hp
  have := h.chain_spec s he
  rw [hp] at this
  have := congrArg List.length this
  simp at this

/-- `__enter__` by a task that has no current scope: scope `s` gets the record `S`, task `t`
the record `T` -/
theorem Forest.enter_none {sc : Nat → Scope} {tk : Nat → Task} (h : Forest sc tk) {t s : Nat}
    (he : (sc s).entered = false)
    (hc : (tk t).st ≠ .created) (hd : (tk t).st ≠ .done)
    (hp : (tk t).hasState = false ∨ (tk t).scope = none) (S : Scope) (T : Task)
    (S1 : S.host = some t) (S2 : S.tasks = [t]) (S3 : S.parent = none) (S4 : S.chain = [s])
    (S5 : S.active = true) (S6 : S.entered = true) (S7 : S.exists_ = true) (S8 : S.children = [])
    (T1 : T.hasState = true) (T2 : T.scope = some s) (T3 : T.st = (tk t).st) :
    Forest (upd sc s S) (upd tk t T) := by
  have hne := h.not_entered s he
  have hes := fun u => h.entered_of_task_scope (t := u) (s := s)
  obtain ⟨h1, h2, h3, h4, h5, h6, h7, h8, h9, h10, h11, h12, h13, h14, h15, h16⟩ := h
  constructor
  case host_scope =>
    intro x u hh
    by_cases hxs : x = s
    · subst hxs
      simp [S1] at hh; subst hh
      left; simp [T1, T2, S4]
    · simp [hxs] at hh
      have hut : u ≠ t := by
        rintro rfl
        rcases h15 x u hh with ⟨a, s0, b, _⟩ | a
        · rcases hp with hp | hp <;> simp_all
        · exact hd a
      rcases h15 x u hh with ⟨a, s0, b, c⟩ | a
      · left
        have : s0 ≠ s := by
          rintro rfl; have := hes u b; simp_all
        exact ⟨by simpa [hut] using a, s0, by simpa [hut] using b, by simpa [this] using c⟩
      · right; simp [hut, a]
  all_goals grind

/-- `__enter__` by a task whose current scope is `p`: scope `s` gets the record `S`, scope `p`
the record `P`, task `t` the record `T` -/
theorem Forest.enter_some {sc : Nat → Scope} {tk : Nat → Task} (h : Forest sc tk) {t s p : Nat}
    (he : (sc s).entered = false)
    (hc : (tk t).st ≠ .created) (hd : (tk t).st ≠ .done)
    (hp : (tk t).scope = some p) (S P : Scope) (T : Task)
    (S1 : S.host = some t) (S2 : S.tasks = [t]) (S3 : S.parent = some p)
    (S4 : S.chain = s :: (sc p).chain)
    (S5 : S.active = true) (S6 : S.entered = true) (S7 : S.exists_ = true) (S8 : S.children = [])
    (P1 : P.host = (sc p).host) (P2 : P.tasks = (sc p).tasks.erase t) (P3 : P.parent = (sc p).parent)
    (P4 : P.chain = (sc p).chain) (P5 : P.active = (sc p).active) (P6 : P.entered = (sc p).entered)
    (P7 : P.exists_ = (sc p).exists_) (P8 : P.children = s :: (sc p).children)
    (T1 : T.hasState = true) (T2 : T.scope = some s) (T3 : T.st = (tk t).st) :
    Forest (upd (upd sc s S) p P) (upd tk t T) := by
  have hne := h.not_entered s he
  have hes := fun u => h.entered_of_task_scope (t := u) (s := s)
  have hep := h.entered_of_task_scope hp
  have hps : p ≠ s := by rintro rfl; simp_all
  have hhs := h.task_scope t p hp
  obtain ⟨h1, h2, h3, h4, h5, h6, h7, h8, h9, h10, h11, h12, h13, h14, h15, h16⟩ := h
  constructor
  case host_scope =>
    intro x u hh
    by_cases hxs : x = s
    · subst hxs
      simp [Ne.symm hps, S1] at hh; subst hh
      left; simp [Ne.symm hps, T1, T2, S4]
    · have hh' : (sc x).host = some u := by
        by_cases hxp : x = p
        · subst hxp; simpa [P1] using hh
        · simpa [hxp, hxs] using hh
      by_cases hut : u = t
      · subst hut
        rcases h15 x u hh' with ⟨a, s0, b, c⟩ | a
        · left
          have : s0 = p := by simp_all
          subst this
          simp [Ne.symm hps, c, T1, T2, S4]
        · exact absurd a hd
      · rcases h15 x u hh' with ⟨a, s0, b, c⟩ | a
        · left
          have h0 : s0 ≠ s := by
            rintro rfl; have := hes u b; simp_all
          refine ⟨by simpa [hut] using a, s0, by simpa [hut] using b, ?_⟩
          by_cases h0p : s0 = p
          · subst h0p; simpa [P4] using c
          · simpa [h0, h0p] using c
        · right; simp [hut, a]
  all_goals grind

end AnyioModel.Kernel
