/-
The cancellation-count invariant `CI` of the kernel model (property C05), part 1: definition, the
sum of pending uncancellations a task is owed (`pendH`), and preservation of `CI` by the helpers of
`Kernel/Scope.lean` (`resolveFut`, `hitTask`, `deliver`, `cancelScope`, `armTimeout`, `setShield`,
`setDeadline`, `enterScope`, `exitScope`).

`CI` is phrased with "scope `s` is hosted by `t`" (`host s = some t`) rather than "hosted and
active": inside `__enter__` the host is set before `active`, and `_timeout()` may already deliver
from there.  At step boundaries `WF.host_active` makes the two coincide (`Props/C05.lean`).
-/
import AnyioModel.Kernel.FrameGhost
import AnyioModel.Kernel.WF

namespace AnyioModel.Kernel

/-- what scope `s` contributes to the uncancellations task `t` is owed -/
def contrib (sc : Nat → Scope) (t s : Nat) : Nat :=
  if (sc s).host = some t then (sc s).pending else 0

/-- `Σ_{s < n, host s = some t} pending s` -/
def pendH : Nat → (Nat → Scope) → Nat → Nat
  | 0, _, _ => 0
  | n + 1, sc, t => pendH n sc t + contrib sc t n

theorem pendH_congr {n : Nat} {sc sc' : Nat → Scope} {t : Nat}
    (h : ∀ s, s < n → contrib sc' t s = contrib sc t s) : pendH n sc' t = pendH n sc t := by
  induction n with
  | zero => rfl
  | succ n ih =>
    simp only [pendH]
    rw [ih (fun s hs => h s (by omega)), h n (by omega)]

theorem pendH_upd {n : Nat} {sc sc' : Nat → Scope} {t k : Nat} (hk : k < n)
    (h : ∀ s, s ≠ k → contrib sc' t s = contrib sc t s) :
    pendH n sc' t + contrib sc t k = pendH n sc t + contrib sc' t k := by
  induction n with
  | zero => omega
  | succ n ih =>
    simp only [pendH]
    by_cases hkn : k = n
    · subst hkn
      rw [pendH_congr (fun s hs => h s (by omega))]
      omega
    · rw [h n (fun e => hkn e.symm)]
      have := ih (by omega)
      omega

theorem pendH_ge {n : Nat} {sc : Nat → Scope} {t k : Nat} (hk : k < n) :
    contrib sc t k ≤ pendH n sc t := by
  induction n with
  | zero => omega
  | succ n ih =>
    simp only [pendH]
    by_cases hkn : k = n
    · subst hkn; omega
    · have := ih (by omega); omega

theorem pendH_extend {n m : Nat} {sc : Nat → Scope} {t : Nat} (hnm : n ≤ m)
    (h : ∀ s, n ≤ s → contrib sc t s = 0) : pendH m sc t = pendH n sc t := by
  induction m with
  | zero => have : n = 0 := by omega
            subst this; rfl
  | succ m ih =>
    by_cases hm : n = m + 1
    · subst hm; rfl
    · simp only [pendH]
      rw [ih (by omega), h m (by omega)]; rfl

theorem pendH_zero {n : Nat} {sc : Nat → Scope} {t : Nat}
    (h : ∀ s, s < n → contrib sc t s = 0) : pendH n sc t = 0 := by
  induction n with
  | zero => rfl
  | succ n ih =>
    simp only [pendH]
    rw [ih (fun s hs => h s (by omega)), h n (by omega)]

/-! ### the invariant -/

structure CI (st : State) : Prop where
  /-- every outstanding cancellation request of `t` is accounted for -/
  count : ∀ t, (st.tasks t).ncancel + (st.tasks t).nUserUncancel =
    (st.tasks t).nNative + (st.tasks t).nForeign + (st.tasks t).nDropped +
      pendH st.nScopes st.scopes t
  user : ∀ t, (st.tasks t).nUserUncancel ≤ (st.tasks t).nNative
  nohost : ∀ s, (st.scopes s).host = none → (st.scopes s).pending = 0
  host_lt : ∀ s t, (st.scopes s).host = some t → s < st.nScopes
  anyio : ∀ t, (st.tasks t).nAnyio = (st.tasks t).nOwn + (st.tasks t).nForeign
  total : ∀ t, (st.tasks t).ncancel + (st.tasks t).nUncancel =
    (st.tasks t).nNative + (st.tasks t).nAnyio

theorem ci_init : CI init := by
  have key : ∀ t : Nat, (if t = 0 then ({ st := TSt.running } : Task) else {}).ncancel = 0 ∧
      (if t = 0 then ({ st := TSt.running } : Task) else {}).nUserUncancel = 0 ∧
      (if t = 0 then ({ st := TSt.running } : Task) else {}).nNative = 0 ∧
      (if t = 0 then ({ st := TSt.running } : Task) else {}).nForeign = 0 ∧
      (if t = 0 then ({ st := TSt.running } : Task) else {}).nDropped = 0 ∧
      (if t = 0 then ({ st := TSt.running } : Task) else {}).nAnyio = 0 ∧
      (if t = 0 then ({ st := TSt.running } : Task) else {}).nOwn = 0 ∧
      (if t = 0 then ({ st := TSt.running } : Task) else {}).nUncancel = 0 := by
    intro t; split <;> simp
  constructor <;> simp [init, key, pendH]

/-- the host never has fewer outstanding requests than one of its scopes would take back -/
theorem CI.pending_le {st : State} (h : CI st) {s t : Nat} (hs : (st.scopes s).host = some t) :
    (st.scopes s).pending ≤ (st.tasks t).ncancel := by
  have h1 := h.count t
  have h2 := h.user t
  have h3 := pendH_ge (sc := st.scopes) (t := t) (h.host_lt s t hs)
  simp only [contrib, hs, if_true] at h3
  omega

/-! ### ghost frames: nothing the invariant reads changes -/

/-- `host` and `pending` agree -/
def SG (x y : Scope) : Prop := y.host = x.host ∧ y.pending = x.pending

structure GF (a b : State) : Prop where
  nScopes : a.nScopes ≤ b.nScopes
  scopes : ∀ s, SG (a.scopes s) (b.scopes s)
  tasks : ∀ t, GhostEq (a.tasks t) (b.tasks t)

theorem GF.refl (a : State) : GF a a := ⟨Nat.le_refl _, fun _ => ⟨rfl, rfl⟩, fun _ => GhostEq.refl _⟩

theorem GF.trans {a b c : State} (h1 : GF a b) (h2 : GF b c) : GF a c :=
  ⟨Nat.le_trans h1.nScopes h2.nScopes,
    fun s => ⟨(h2.scopes s).1.trans (h1.scopes s).1, (h2.scopes s).2.trans (h1.scopes s).2⟩,
    fun t => (h1.tasks t).trans (h2.tasks t)⟩

theorem contrib_sg {sc sc' : Nat → Scope} {t s : Nat} (h : SG (sc s) (sc' s)) :
    contrib sc' t s = contrib sc t s := by
  simp only [contrib, h.1, h.2]

theorem CI.gf {a b : State} (h : CI a) (f : GF a b) : CI b := by
  have hp : ∀ t, pendH b.nScopes b.scopes t = pendH a.nScopes a.scopes t := by
    intro t
    rw [pendH_extend f.nScopes (sc := b.scopes) (t := t)]
    · exact pendH_congr (fun s _ => contrib_sg (f.scopes s))
    · intro s hs
      rw [contrib_sg (f.scopes s)]
      simp only [contrib]
      split
      · rename_i hh; have := h.host_lt s t hh; omega
      · rfl
  constructor
  · intro t
    obtain ⟨g1, g2, g3, g4, g5, g6, g7, g8⟩ := f.tasks t
    rw [g1, g2, g5, g7, g8, hp]; exact h.count t
  · intro t
    obtain ⟨g1, g2, g3, g4, g5, g6, g7, g8⟩ := f.tasks t
    rw [g2, g5]; exact h.user t
  · intro s; rw [(f.scopes s).1, (f.scopes s).2]; exact h.nohost s
  · intro s t; rw [(f.scopes s).1]; intro hh
    exact Nat.lt_of_lt_of_le (h.host_lt s t hh) f.nScopes
  · intro t
    obtain ⟨g1, g2, g3, g4, g5, g6, g7, g8⟩ := f.tasks t
    rw [g3, g6, g7]; exact h.anyio t
  · intro t
    obtain ⟨g1, g2, g3, g4, g5, g6, g7, g8⟩ := f.tasks t
    rw [g1, g2, g3, g4]; exact h.total t

theorem GF.of_setTask (st : State) (t : Nat) (f : Task → Task)
    (h : GhostEq (st.tasks t) (f (st.tasks t))) : GF st (st.setTask t f) := by
  refine ⟨Nat.le_refl _, fun _ => ⟨rfl, rfl⟩, fun u => ?_⟩
  by_cases hu : u = t
  · subst hu; simpa using h
  · simpa [hu] using GhostEq.refl _

theorem GF.of_setScope (st : State) (s : Nat) (f : Scope → Scope)
    (h : SG (st.scopes s) (f (st.scopes s))) : GF st (st.setScope s f) := by
  refine ⟨Nat.le_refl _, fun u => ?_, fun _ => GhostEq.refl _⟩
  by_cases hu : u = s
  · subst hu; simpa using h
  · simp [hu, SG]

theorem GF.of_eq {a b : State} (h1 : b.nScopes = a.nScopes) (h2 : b.scopes = a.scopes)
    (h3 : b.tasks = a.tasks) : GF a b :=
  ⟨by omega, fun s => by rw [h2]; exact ⟨rfl, rfl⟩, fun t => by rw [h3]; exact GhostEq.refl _⟩

theorem GF.of_setGroup (st : State) (g : Nat) (f : Group → Group) : GF st (st.setGroup g f) :=
  GF.of_eq rfl rfl rfl
theorem GF.of_setFut (st : State) (f : Nat) (v : FutSt) : GF st (st.setFut f v) :=
  GF.of_eq rfl rfl rfl
theorem GF.of_schedule (st : State) (h : Handle) : GF st (st.schedule h) := GF.of_eq rfl rfl rfl
theorem GF.of_unschedule (st : State) (h : Handle) : GF st (st.unschedule h) :=
  GF.of_eq rfl rfl rfl

theorem gf_resolveFut (st : State) (f : Nat) (v : FutSt) : GF st (resolveFut st f v) :=
  ⟨by rw [(frame_resolveFut st f v).nScopes]; exact Nat.le_refl _,
    fun s => by rw [resolveFut_scopes]; exact ⟨rfl, rfl⟩, fun t => resolveFut_ghost st f v t⟩

/-- allocation of a scope -/
theorem ci_newScope {st : State} (h : CI st) (sh : Bool) (d : Option Nat) :
    CI (newScope st sh d).1 := by
  apply h.gf
  refine ⟨by simp [newScope], fun s => ?_, fun t => by simpa [newScope] using GhostEq.refl _⟩
  by_cases hs : s = st.nScopes
  · subst hs
    have h1 : (st.scopes st.nScopes).host = none := by
      cases hh : (st.scopes st.nScopes).host with
      | none => rfl
      | some t => have := h.host_lt _ _ hh; omega
    simp [newScope, SG, h1, h.nohost _ h1]
  · simp [newScope, SG, hs]

theorem gf_newFut (st : State) : GF st (newFut st).1 := GF.of_eq rfl rfl rfl

/-! ### local changes: one task, at most one scope -/

/-- only the counters of task `t` change -/
theorem CI.change0 {a b : State} (h : CI a) (t : Nat) (nS : b.nScopes = a.nScopes)
    (hs : ∀ s, SG (a.scopes s) (b.scopes s))
    (hto : ∀ u, u ≠ t → GhostEq (a.tasks u) (b.tasks u))
    (hcount : (b.tasks t).ncancel + (b.tasks t).nUserUncancel + ((a.tasks t).nNative +
        (a.tasks t).nForeign + (a.tasks t).nDropped) =
      (a.tasks t).ncancel + (a.tasks t).nUserUncancel + ((b.tasks t).nNative +
        (b.tasks t).nForeign + (b.tasks t).nDropped))
    (huser : (b.tasks t).nUserUncancel ≤ (b.tasks t).nNative)
    (hanyio : (b.tasks t).nAnyio = (b.tasks t).nOwn + (b.tasks t).nForeign)
    (htotal : (b.tasks t).ncancel + (b.tasks t).nUncancel = (b.tasks t).nNative + (b.tasks t).nAnyio) :
    CI b := by
  have hp : ∀ u, pendH b.nScopes b.scopes u = pendH a.nScopes a.scopes u := by
    intro u; rw [nS]; exact pendH_congr (fun s _ => contrib_sg (hs s))
  constructor
  · intro u
    by_cases hu : u = t
    · subst hu; have := h.count u; rw [hp]; omega
    · obtain ⟨g1, g2, g3, g4, g5, g6, g7, g8⟩ := hto u hu
      rw [g1, g2, g5, g7, g8, hp]; exact h.count u
  · intro u
    by_cases hu : u = t
    · subst hu; exact huser
    · obtain ⟨g1, g2, g3, g4, g5, g6, g7, g8⟩ := hto u hu
      rw [g2, g5]; exact h.user u
  · intro s; rw [(hs s).1, (hs s).2]; exact h.nohost s
  · intro s u; rw [(hs s).1, nS]; exact h.host_lt s u
  · intro u
    by_cases hu : u = t
    · subst hu; exact hanyio
    · obtain ⟨g1, g2, g3, g4, g5, g6, g7, g8⟩ := hto u hu
      rw [g3, g6, g7]; exact h.anyio u
  · intro u
    by_cases hu : u = t
    · subst hu; exact htotal
    · obtain ⟨g1, g2, g3, g4, g5, g6, g7, g8⟩ := hto u hu
      rw [g1, g2, g3, g4]; exact h.total u

/-- the counters of task `t` and `host`/`pending` of scope `k` change, and what `k` contributes
to every other task stays the same -/
theorem CI.change1 {a b : State} (h : CI a) (t k : Nat) (nS : b.nScopes = a.nScopes)
    (hk : k < a.nScopes)
    (hs : ∀ s, s ≠ k → SG (a.scopes s) (b.scopes s))
    (hko : ∀ u, u ≠ t → contrib b.scopes u k = contrib a.scopes u k)
    (hto : ∀ u, u ≠ t → GhostEq (a.tasks u) (b.tasks u))
    (hcount : (b.tasks t).ncancel + (b.tasks t).nUserUncancel + ((a.tasks t).nNative +
        (a.tasks t).nForeign + (a.tasks t).nDropped) + contrib a.scopes t k =
      (a.tasks t).ncancel + (a.tasks t).nUserUncancel + ((b.tasks t).nNative +
        (b.tasks t).nForeign + (b.tasks t).nDropped) + contrib b.scopes t k)
    (huser : (b.tasks t).nUserUncancel ≤ (b.tasks t).nNative)
    (hnohost : (b.scopes k).host = none → (b.scopes k).pending = 0)
    (hanyio : (b.tasks t).nAnyio = (b.tasks t).nOwn + (b.tasks t).nForeign)
    (htotal : (b.tasks t).ncancel + (b.tasks t).nUncancel = (b.tasks t).nNative + (b.tasks t).nAnyio) :
    CI b := by
  have hp : ∀ u, pendH b.nScopes b.scopes u + contrib a.scopes u k =
      pendH a.nScopes a.scopes u + contrib b.scopes u k := by
    intro u; rw [nS]; exact pendH_upd hk (fun s hs' => contrib_sg (hs s hs'))
  constructor
  · intro u
    by_cases hu : u = t
    · subst hu; have := h.count u; have := hp u; omega
    · obtain ⟨g1, g2, g3, g4, g5, g6, g7, g8⟩ := hto u hu
      have := hp u; have := hko u hu; have := h.count u
      rw [g1, g2, g5, g7, g8]; omega
  · intro u
    by_cases hu : u = t
    · subst hu; exact huser
    · obtain ⟨g1, g2, g3, g4, g5, g6, g7, g8⟩ := hto u hu
      rw [g2, g5]; exact h.user u
  · intro s
    by_cases hsk : s = k
    · subst hsk; exact hnohost
    · rw [(hs s hsk).1, (hs s hsk).2]; exact h.nohost s
  · intro s u
    by_cases hsk : s = k
    · subst hsk; intro _; omega
    · rw [(hs s hsk).1, nS]; exact h.host_lt s u
  · intro u
    by_cases hu : u = t
    · subst hu; exact hanyio
    · obtain ⟨g1, g2, g3, g4, g5, g6, g7, g8⟩ := hto u hu
      rw [g3, g6, g7]; exact h.anyio u
  · intro u
    by_cases hu : u = t
    · subst hu; exact htotal
    · obtain ⟨g1, g2, g3, g4, g5, g6, g7, g8⟩ := hto u hu
      rw [g1, g2, g3, g4]; exact h.total u

end AnyioModel.Kernel
