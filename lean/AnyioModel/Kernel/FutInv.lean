/-
Fresh-allocation invariant for futures of the kernel model, part 1: roles, and what the
cancellation machinery does to futures.

Every future id the library stores somewhere has exactly one *role* (`HasRole`): start future of
a child (`Task.startFut`), `_on_completed_fut` of a group, a `TaskHandle.wait()` future in the
`hwaiters` of a task, a `sleep()` future (referenced by `Lib.sleeping` and by the `sleepDone`
timer handle), or a user future (`userFut`).

`XC a b` ("`b` is `a` after cancellation machinery"): `CFrame`, `userFut` unchanged, and `FutC`:
a future changes only from pending to cancelled, and only if a task was blocked on it; a task
goes from `blocked f` to `woken f` only together with `f` becoming cancelled.  Everything in
`Kernel/Scope.lean` is an `XC` (after an explicit pure update of scopes for `enterScope`,
`exitScope`, `setShield`, `setDeadline`).
-/
import AnyioModel.Kernel.GroupInv7

namespace AnyioModel.Kernel

/-- a `sleepDone f` handle is pending somewhere in the loop's queues -/
def sdIn (st : State) (f : Nat) : Prop :=
  Handle.sleepDone f ∈ st.ready ∨ Handle.sleepDone f ∈ st.cur ∨
    ∃ d, (d, Handle.sleepDone f) ∈ st.timers

inductive Role where
  | start (u : Nat)
  | onC (g : Nat)
  | hw (u : Nat)
  | sleep
  | user
  deriving DecidableEq

/-- future `f` is stored in the field that goes with role `r` -/
def HasRole (st : State) (f : Nat) : Role → Prop
  | .start u => (st.tasks u).startFut = some f
  | .onC g => (st.groups g).onCompleted = some f
  | .hw u => f ∈ (st.tasks u).hwaiters
  | .sleep => (∃ t, (st.tasks t).lib = .sleeping f) ∨ sdIn st f
  | .user => st.userFut f = true

/-! ### futures under the cancellation machinery -/

structure FutC (a b : State) : Prop where
  futs : ∀ f, b.futs f = a.futs f ∨
    (a.futs f = .pending ∧ (∃ an, b.futs f = .cancelled an) ∧ ∃ t, (a.tasks t).st = .blocked f)
  woke : ∀ t f, (a.tasks t).st = .blocked f → (b.tasks t).st = .woken f →
    a.futs f = .pending ∧ ∃ an, b.futs f = .cancelled an

structure XC (a b : State) : Prop where
  c : CFrame a b
  u : b.userFut = a.userFut
  x : FutC a b

theorem FutC.refl (a : State) : FutC a a :=
  ⟨fun _ => .inl rfl, fun t f h1 h2 => by rw [h1] at h2; cases h2⟩

theorem XC.refl (a : State) : XC a a := ⟨CFrame.refl a, rfl, FutC.refl a⟩

theorem XC.trans {a b c : State} (h1 : XC a b) (h2 : XC b c) : XC a c := by
  refine ⟨h1.c.trans h2.c, h2.u.trans h1.u, ?_, ?_⟩
  · intro f
    rcases h2.x.futs f with e | ⟨hp, ⟨an, hc⟩, t, ht⟩
    · rw [e]
      rcases h1.x.futs f with e1 | ⟨hp1, ⟨an1, hc1⟩, t1, ht1⟩
      · exact .inl e1
      · exact .inr ⟨hp1, ⟨an1, hc1⟩, t1, ht1⟩
    · right
      have ha : a.futs f = .pending := by
        rcases h1.x.futs f with e1 | ⟨hp1, _⟩
        · rw [← e1]; exact hp
        · exact hp1
      exact ⟨ha, ⟨an, hc⟩, t, (h1.c.tasks t).st_blocked ht⟩
  · intro t f hb hw
    rcases (h1.c.tasks t).st with e | ⟨f', hb', hw'⟩
    · have hb2 : (b.tasks t).st = .blocked f := by rw [e]; exact hb
      obtain ⟨hp, an, hc⟩ := h2.x.woke t f hb2 hw
      refine ⟨?_, an, hc⟩
      rcases h1.x.futs f with e1 | ⟨hp1, _⟩
      · rw [← e1]; exact hp
      · exact hp1
    · rw [hb] at hb'; cases hb'
      obtain ⟨hp, an, hc⟩ := h1.x.woke t f hb hw'
      refine ⟨hp, an, ?_⟩
      rw [h2.c.futs f (by rw [hc]; rfl)]; exact hc

/-- a step that touches neither the `st` of a task nor a future -/
theorem XC.of_pure {a b : State} (c : CFrame a b) (hu : b.userFut = a.userFut)
    (ht : ∀ t, (b.tasks t).st = (a.tasks t).st) (hf : b.futs = a.futs) : XC a b := by
  refine ⟨c, hu, fun f => .inl (by rw [hf]), ?_⟩
  intro t f h1 h2
  rw [ht, h1] at h2; cases h2

theorem xc_setTask (st : State) (t : Nat) (f : Task → Task)
    (h : TaskFrame (st.tasks t) (f (st.tasks t))) (hs : (f (st.tasks t)).st = (st.tasks t).st) :
    XC st (st.setTask t f) := by
  refine XC.of_pure (Frame.of_setTask st t f h).cframe rfl (fun u => ?_) rfl
  by_cases hu : u = t
  · subst hu; simpa using hs
  · simp [hu]

theorem xc_setScopeF (st : State) (s : Nat) (f : Scope → Scope)
    (h : ScopeForestEq (st.scopes s) (f (st.scopes s))) : XC st (st.setScope s f) :=
  XC.of_pure (CFrame.of_setScope st s f h) rfl (fun _ => rfl) rfl

theorem xc_setScope (st : State) (s : Nat) (f : Scope → Scope)
    (h : ScopeStructEq (st.scopes s) (f (st.scopes s))) : XC st (st.setScope s f) :=
  XC.of_pure (Frame.of_setScope st s f h).cframe rfl (fun _ => rfl) rfl

theorem xc_unschedule (st : State) (h : Handle) : XC st (st.unschedule h) :=
  XC.of_pure (CFrame.of_unschedule st h) rfl (fun _ => rfl) rfl

theorem xc_schedule (st : State) (h : Handle) (hn : NewH st h) : XC st (st.schedule h) :=
  XC.of_pure (Frame.of_schedule st h hn).cframe rfl (fun _ => rfl) rfl

theorem futSt_pending_of_not_done {v : FutSt} (h : v.done = false) : v = .pending := by
  cases v <;> simp [FutSt.done] at h ⊢

theorem rf_futs (st : State) (f : Nat) (v : FutSt) (f' : Nat) :
    (resolveFut st f v).futs f' =
      if f' = f ∧ (st.futs f).done = false then v else st.futs f' := by
  unfold resolveFut
  split
  · rename_i hd; simp [hd]
  · rename_i hd
    have hd' : (st.futs f).done = false := by simpa using hd
    simp only []
    by_cases hf : f' = f
    · subst hf
      split
      · split <;> simp [hd']
      · simp [hd']
    · split
      · split <;> simp [hf]
      · simp [hf]

theorem rf_st (st : State) (f : Nat) (v : FutSt) (t : Nat) :
    ((resolveFut st f v).tasks t).st =
      if (st.futs f).done = false ∧ st.futWaiter f = some t ∧ (st.tasks t).st = .blocked f
      then .woken f else (st.tasks t).st := by
  unfold resolveFut
  split
  · rename_i hd; simp [hd]
  · rename_i hd
    have hd' : (st.futs f).done = false := by simpa using hd
    simp only []
    split
    · rename_i w hw
      simp only [setFut_futWaiter] at hw
      split
      · rename_i hb
        simp only [setFut_tasks] at hb
        by_cases htw : t = w
        · subst htw; simp [hd', hw, hb]
        · have : ¬ (some w = some t) := by simpa using fun h => htw h.symm
          simp [htw, hw, this]
      · rename_i hb
        simp only [setFut_tasks] at hb
        by_cases htw : t = w
        · subst htw; simp [hb]
        · have : ¬ (some w = some t) := by simpa using fun h => htw h.symm
          simp [hw, this]
    · rename_i hw
      simp only [setFut_futWaiter] at hw
      simp [hw]

theorem xc_resolveFut_cancel (st : State) (f : Nat) (an : Bool)
    (hb : ∃ t, (st.tasks t).st = .blocked f) : XC st (resolveFut st f (.cancelled an)) := by
  refine ⟨(frame_resolveFut st f _).cframe, resolveFut_userFut st f _, ?_, ?_⟩
  · intro f'
    rw [rf_futs]
    split
    · rename_i h
      obtain ⟨rfl, hd⟩ := h
      exact .inr ⟨futSt_pending_of_not_done hd, ⟨an, rfl⟩, hb⟩
    · exact .inl rfl
  · intro t f' h1 h2
    rw [rf_st] at h2
    split at h2
    · rename_i h
      rw [h1] at h
      obtain ⟨hd, _, hbb⟩ := h
      cases hbb
      refine ⟨futSt_pending_of_not_done hd, an, ?_⟩
      rw [rf_futs]; simp [hd]
    · rw [h1] at h2; cases h2

theorem xc_taskCancel (st : State) (t : Nat) (a : Bool) : XC st (taskCancel st t a) := by
  unfold taskCancel
  simp only []
  split
  · exact XC.refl _
  · have h1 : XC st (st.setTask t (fun x =>
        { x with ncancel := x.ncancel + 1,
                 nNative := if a then x.nNative else x.nNative + 1,
                 nAnyio := if a then x.nAnyio + 1 else x.nAnyio })) :=
      xc_setTask _ _ _ (by constructor <;> simp) rfl
    split
    · rename_i f hf
      exact h1.trans (xc_resolveFut_cancel _ _ _ ⟨t, by simpa using hf⟩)
    · exact h1.trans (xc_setTask _ _ _ (by constructor <;> simp) rfl)

theorem xc_taskUncancel (st : State) (t n : Nat) : XC st (taskUncancel st t n) :=
  xc_setTask _ _ _ (by constructor <;> simp) rfl

theorem foldl_xc {α β : Type} (f : State × β → α → State × β)
    (hf : ∀ acc x, XC acc.1 (f acc x).1) (l : List α) (acc : State × β) :
    XC acc.1 (l.foldl f acc).1 := by
  induction l generalizing acc with
  | nil => exact XC.refl _
  | cons x l ih => exact (hf acc x).trans (ih _)

theorem xc_hitTask (origin s : Nat) (acc : State × Bool) (t : Nat) :
    XC acc.1 (hitTask origin s acc t).1 := by
  unfold hitTask
  simp only []
  split
  · exact XC.refl _
  · split
    · exact XC.refl _
    · split
      · split
        · exact XC.refl _
        · simp only []
          split
          · exact ((xc_taskCancel _ _ _).trans
              (xc_setScope _ _ _ (by constructor <;> rfl))).trans
              (xc_setTask _ _ _ (by constructor <;> simp) rfl)
          · exact (xc_taskCancel _ _ _).trans
              (xc_setTask _ _ _ (by constructor <;> simp) rfl)
      · exact XC.refl _

theorem xc_deliverGo (fuel : Nat) (st : State) (origin s : Nat) :
    XC st (deliverGo fuel st origin s).1 := by
  induction fuel generalizing st s with
  | zero => exact XC.refl _
  | succ n ih =>
    unfold deliverGo
    simp only []
    refine XC.trans (b := ((st.scopes s).tasks.foldl (hitTask origin s) (st, false)).1)
      (foldl_xc (hitTask origin s) (xc_hitTask origin s) _ (st, false)) ?_
    apply foldl_xc
    intro acc c
    split
    · exact ih _ _
    · exact XC.refl _

theorem xc_deliver (st : State) (origin : Nat) : XC st (deliver st origin) := by
  unfold deliver
  simp only []
  have h1 := xc_deliverGo (st.nScopes + 1) st origin origin
  split
  · rename_i hr
    have h2 := deliverGo_true hr
    refine h1.trans ((xc_setScope _ _ _ (by constructor <;> rfl)).trans
      (xc_schedule _ _ ?_))
    right
    refine ⟨origin, rfl, ?_⟩
    have e1 := (h1.c.scopes origin).tasks
    have e2 := (h1.c.scopes origin).children
    simpa [e1, e2] using h2
  · exact h1.trans (xc_setScope _ _ _ (by constructor <;> rfl))

theorem xc_restartList (st : State) (l : List Nat) : XC st (restartList st l) := by
  induction l with
  | nil => exact XC.refl _
  | cons s rest ih =>
    unfold restartList
    split
    · split
      · exact XC.refl _
      · exact xc_deliver _ _
    · split
      · exact XC.refl _
      · exact ih

theorem xc_restartInParent (st : State) (s : Nat) : XC st (restartInParent st s) :=
  xc_restartList _ _

theorem xc_cancelScope (st : State) (s : Nat) (b : Bool) : XC st (cancelScope st s b) := by
  unfold cancelScope
  split
  · exact XC.refl _
  · have h1 : XC st (if (st.scopes s).timer then
        (st.unschedule (.timeout s)).setScope s (fun x => { x with timer := false }) else st) := by
      split
      · exact (xc_unschedule _ _).trans (xc_setScopeF _ _ _ (by constructor <;> simp))
      · exact XC.refl _
    simp only []
    refine h1.trans ?_
    generalize (if (st.scopes s).timer then _ else st) = st1
    have h2 : XC st1 (st1.setScope s (fun x =>
        { x with cancelCalled := true, byDeadline := b, cancelTime := st1.now })) :=
      xc_setScopeF _ _ _ (by constructor <;> simp)
    split
    · exact h2.trans (xc_deliver _ _)
    · exact h2

theorem xc_armTimeout (st : State) (s : Nat) : XC st (armTimeout st s) := by
  refine ⟨cframe_armTimeout st s, (mcframe_armTimeout st s).m.userFut, ?_⟩
  unfold armTimeout
  split
  · exact FutC.refl _
  · split
    · exact (xc_cancelScope _ _ _).x
    · exact ⟨fun _ => .inl rfl, fun t f h1 h2 => by
        simp only [setScope_tasks] at h2; rw [h1] at h2; cases h2⟩

theorem xc_setShield (st : State) (s : Nat) (b : Bool) :
    XC (st.setScope s (fun x => { x with shield := b })) (setShield st s b) := by
  refine ⟨(frame_setShield st s b).cframe, (mframe_setShield st s b).m.userFut, ?_⟩
  unfold setShield
  split
  · exact ⟨fun _ => .inl rfl, fun t f h1 h2 => by
      simp only [setScope_tasks] at h1; rw [h1] at h2; cases h2⟩
  · simp only []
    split
    · exact FutC.refl _
    · exact (xc_restartInParent _ _).x

theorem xc_setDeadline (st : State) (s : Nat) (d : Option Nat) :
    XC (st.setScope s (fun x => { x with deadline := d })) (setDeadline st s d) := by
  unfold setDeadline
  simp only []
  generalize st.setScope s (fun x => { x with deadline := d }) = st0
  have h1 : XC st0 (if (st0.scopes s).timer then
      (st0.unschedule (.timeout s)).setScope s (fun x => { x with timer := false }) else st0) := by
    split
    · exact (xc_unschedule _ _).trans (xc_setScopeF _ _ _ (by constructor <;> simp))
    · exact XC.refl _
  generalize (if (st0.scopes s).timer then _ else st0) = st1 at h1
  split
  · exact h1.trans (xc_armTimeout _ _)
  · exact h1

theorem xc_spawnTail (st : State) (gs : Nat) : XC st (spawnTail st gs) := by
  unfold spawnTail
  split
  · split
    · exact XC.refl _
    · exact xc_deliver _ _
  · split
    · exact XC.refl _
    · exact xc_restartInParent _ _

/-! ### `FSame`: two states agree on what the future invariants read, up to cancellations -/

structure FTask (a b : State) (t : Nat) : Prop where
  lib : (b.tasks t).lib = (a.tasks t).lib
  startFut : (b.tasks t).startFut = (a.tasks t).startFut
  hwaiters : (b.tasks t).hwaiters = (a.tasks t).hwaiters
  finished : (b.tasks t).finished = (a.tasks t).finished
  st : (b.tasks t).st = (a.tasks t).st ∨ ∃ f an, (a.tasks t).st = .blocked f ∧
    (b.tasks t).st = .woken f ∧ a.futs f = .pending ∧ b.futs f = .cancelled an

structure FSame (a b : State) : Prop where
  tasks : ∀ t, FTask a b t
  futs : ∀ f, b.futs f = a.futs f ∨
    (a.futs f = .pending ∧ (∃ an, b.futs f = .cancelled an) ∧ ∃ t, (a.tasks t).st = .blocked f)
  onc : ∀ g, (b.groups g).onCompleted = (a.groups g).onCompleted ∨
    (b.groups g).onCompleted = none
  userFut : b.userFut = a.userFut
  nFuts : b.nFuts = a.nFuts
  nTasks : b.nTasks = a.nTasks
  sd : ∀ f, sdIn b f → sdIn a f

theorem FSame.refl (a : State) : FSame a a :=
  ⟨fun _ => ⟨rfl, rfl, rfl, rfl, .inl rfl⟩, fun _ => .inl rfl, fun _ => .inl rfl, rfl, rfl, rfl,
    fun _ h => h⟩

theorem FTask.blocked {a b : State} {t f : Nat} (h : FTask a b t)
    (hb : (b.tasks t).st = .blocked f) : (a.tasks t).st = .blocked f := by
  rcases h.st with e | ⟨f', an, _, hw, _⟩
  · rw [← e]; exact hb
  · rw [hw] at hb; cases hb

theorem FSame.trans {a b c : State} (h1 : FSame a b) (h2 : FSame b c) : FSame a c := by
  have hfuts : ∀ f, c.futs f = a.futs f ∨
      (a.futs f = .pending ∧ (∃ an, c.futs f = .cancelled an) ∧
        ∃ t, (a.tasks t).st = .blocked f) := by
    intro f
    rcases h2.futs f with e | ⟨hp, ⟨an, hc⟩, t, ht⟩
    · rw [e]; exact h1.futs f
    · right
      have ha : a.futs f = .pending := by
        rcases h1.futs f with e1 | ⟨hp1, _⟩
        · rw [← e1]; exact hp
        · exact hp1
      exact ⟨ha, ⟨an, hc⟩, t, (h1.tasks t).blocked ht⟩
  refine ⟨fun t => ?_, hfuts, fun g => ?_, h2.userFut.trans h1.userFut, h2.nFuts.trans h1.nFuts,
    h2.nTasks.trans h1.nTasks, fun f h => h1.sd f (h2.sd f h)⟩
  · have t1 := h1.tasks t
    have t2 := h2.tasks t
    refine ⟨t2.lib.trans t1.lib, t2.startFut.trans t1.startFut, t2.hwaiters.trans t1.hwaiters,
      t2.finished.trans t1.finished, ?_⟩
    rcases t2.st with e2 | ⟨f, an, hb, hw, hp, hc⟩
    · rw [e2]
      rcases t1.st with e1 | ⟨f, an, hb, hw, hp, hc⟩
      · exact .inl e1
      · right
        refine ⟨f, an, hb, hw, hp, ?_⟩
        rcases h2.futs f with e | ⟨hp2, _⟩
        · rw [e]; exact hc
        · rw [hc] at hp2; cases hp2
    · right
      refine ⟨f, an, t1.blocked hb, hw, ?_, hc⟩
      rcases h1.futs f with e1 | ⟨hp1, _⟩
      · rw [← e1]; exact hp
      · exact hp1
  · rcases h2.onc g with e | e
    · rw [e]; exact h1.onc g
    · exact .inr e

theorem sdIn_of_cframe {a b : State} (c : CFrame a b) {f : Nat} (h : sdIn b f) : sdIn a f := by
  rcases h with h | h | ⟨d, h⟩
  · rcases c.ready _ h with h | ⟨t, f', e, _⟩ | ⟨s, e, _⟩
    · exact .inl h
    · cases e
    · cases e
  · exact .inr (.inl (c.cur _ h))
  · rcases c.timers _ h with h | ⟨s, e, _⟩
    · exact .inr (.inr ⟨d, h⟩)
    · cases e

theorem FSame.of_xc {a b : State} (h : XC a b) : FSame a b := by
  refine ⟨fun t => ?_, h.x.futs, fun g => .inl (by rw [h.c.groups]), h.u, h.c.nFuts, h.c.nTasks,
    fun f hf => sdIn_of_cframe h.c hf⟩
  have tf := h.c.tasks t
  refine ⟨tf.lib, tf.startFut, tf.hwaiters, tf.finished, ?_⟩
  rcases tf.st with e | ⟨f, hb, hw⟩
  · exact .inl e
  · obtain ⟨hp, an, hc⟩ := h.x.woke t f hb hw
    exact .inr ⟨f, an, hb, hw, hp, hc⟩

/-- a pure update that touches nothing the future invariants read -/
theorem FSame.of_view {a b : State}
    (ht : ∀ t, (b.tasks t).lib = (a.tasks t).lib ∧ (b.tasks t).startFut = (a.tasks t).startFut ∧
      (b.tasks t).hwaiters = (a.tasks t).hwaiters ∧ (b.tasks t).finished = (a.tasks t).finished ∧
      (b.tasks t).st = (a.tasks t).st)
    (hf : b.futs = a.futs)
    (hg : ∀ g, (b.groups g).onCompleted = (a.groups g).onCompleted ∨
      (b.groups g).onCompleted = none)
    (hu : b.userFut = a.userFut) (h1 : b.nFuts = a.nFuts) (h2 : b.nTasks = a.nTasks)
    (hsd : ∀ f, sdIn b f → sdIn a f) : FSame a b :=
  ⟨fun t => ⟨(ht t).1, (ht t).2.1, (ht t).2.2.1, (ht t).2.2.2.1, .inl (ht t).2.2.2.2⟩,
    fun f => .inl (by rw [hf]), hg, hu, h1, h2, hsd⟩

theorem FutC.congr {a b a' b' : State} (h : FutC a b) (h1 : a'.tasks = a.tasks)
    (h2 : a'.futs = a.futs) (h3 : b'.tasks = b.tasks) (h4 : b'.futs = b.futs) : FutC a' b' := by
  refine ⟨fun f => ?_, fun t f => ?_⟩
  · rw [h1, h2, h4]; exact h.futs f
  · rw [h1, h2, h3, h4]; exact h.woke t f

theorem enterPre_userFut (st : State) (t s : Nat) : (enterPre st t s).userFut = st.userFut := by
  unfold enterPre enterCore
  simp only []
  split
  · rfl
  · split <;> rfl

theorem xc_enterScope {st st' : State} {t s : Nat} (h : enterScope st t s = some st') :
    XC (enterPre st t s) st' := by
  have hc := (enterScope_spec h).2.2
  have hm := mcok_enterScope h
  refine ⟨hc, hm.userFut, ?_⟩
  rw [enterScope_eq] at h
  split at h
  · contradiction
  · simp only [Option.some.injEq] at h
    subst h
    have h1 : FutC (enterPre st t s) ((armTimeout (enterCore st t s) s).setScope s
        (fun x => { x with active := true, entered := true })) :=
      (xc_armTimeout (enterCore st t s) s).x.congr rfl rfl rfl rfl
    have c1 : CFrame (enterPre st t s) ((armTimeout (enterCore st t s) s).setScope s
        (fun x => { x with active := true, entered := true })) := by
      apply CFrame.congr_setScope (cframe_armTimeout _ _)
      · intro x y hxy; cases hxy; constructor <;> simp_all
      · intro x; simp
    split
    · exact ((XC.mk c1 (by simp only [enterPre, setScope_userFut]; exact (mcframe_armTimeout _ _).m.userFut) h1).trans (xc_deliver _ _)).x
    · exact h1

theorem fsame_enterScope {st st' : State} {t s : Nat} (h : enterScope st t s = some st') :
    FSame st st' := by
  refine FSame.trans ?_ (FSame.of_xc (xc_enterScope h))
  have f := enterPre_frame st t s
  refine FSame.of_view (fun u => ?_) f.2.2.2.2.2.2.2.2.2.2.1 (fun g => .inl (by rw [f.2.2.2.2.1]))
    (enterPre_userFut st t s) f.2.2.1 f.1 ?_
  · have := enterPre_task st t s u
    exact ⟨this.2.2.2.2.2.1, this.2.2.2.1, this.2.2.2.2.2.2.2.1, this.2.2.2.2.2.2.1, this.1⟩
  · intro x hx
    unfold sdIn at hx ⊢
    rw [f.2.2.2.2.2.2.2.1, f.2.2.2.2.2.2.2.2.1, f.2.2.2.2.2.2.2.2.2.1] at hx
    exact hx

theorem exitPre_userFut (st : State) (t s : Nat) : (exitPre st t s).userFut = st.userFut := by
  unfold exitPre
  simp only [setScope_userFut]
  exact exitCore_userFut st t s

theorem FutC.congr_right {a b c : State} (h : FutC a b)
    (ht : ∀ u, (c.tasks u).st = (b.tasks u).st) (hf : c.futs = b.futs) : FutC a c := by
  refine ⟨fun f => ?_, fun u f => ?_⟩
  · rw [hf]; exact h.futs f
  · rw [ht, hf]; exact h.woke u f

theorem exitTail_view (st : State) (t s : Nat) (ev : ExcVal) :
    (∀ u, ((exitTail st t s ev).1.tasks u).st = (st.tasks u).st) ∧
      (exitTail st t s ev).1.futs = st.futs := by
  have stU : ∀ (a : State) (n : Nat) (u : Nat),
      ((taskUncancel a t n).tasks u).st = (a.tasks u).st := by
    intro a n u
    unfold taskUncancel
    by_cases h : u = t
    · subst h; simp
    · simp [h]
  have stD : ∀ (a : State) (n : Nat) (u : Nat),
      ((a.setTask t (fun x => { x with nDropped := x.nDropped + n })).tasks u).st =
        (a.tasks u).st := by
    intro a n u
    by_cases h : u = t
    · subst h; simp
    · simp [h]
  unfold exitTail
  simp only []
  split
  · split
    · split
      · exact ⟨fun u => by simp [stU], by simp [taskUncancel]⟩
      · split <;> exact ⟨fun u => by simp [stU], by simp [taskUncancel]⟩
    · exact ⟨fun u => by simp [stU], by simp [taskUncancel]⟩
    · exact ⟨fun u => by simp [stU], by simp [taskUncancel]⟩
  · refine ⟨fun u => ?_, ?_⟩
    · simp only [setScope_tasks]
      split
      · simp only [setScope_tasks]
        split
        · split
          · rfl
          · exact stD _ _ _
        · exact stD _ _ _
      · rfl
    · simp only [setScope_futs]
      split
      · simp only [setScope_futs]
        split
        · split <;> rfl
        · rfl
      · rfl

theorem fsame_exitScope {st st' : State} {t s : Nat} {ev : ExcVal} {r : ExitResult}
    (h : exitScope st t s ev = some (st', r)) : FSame st st' := by
  have hc := (exitScope_spec h).2.2.2.2
  rw [exitScope_eq] at h
  split at h
  · contradiction
  · simp only [Option.some.injEq] at h
    have e : st' = (exitTail (restartInParent (exitCore st t s) s) t s ev).1 := by rw [h]
    have x1 := xc_restartInParent (exitCore st t s) s
    have x2 := exitTail_view (restartInParent (exitCore st t s) s) t s ev
    have f0 := exitPre_frame st t s
    have step1 : FSame st (exitPre st t s) := by
      refine FSame.of_view (fun u => ?_) f0.2.2.2.2.2.2.2.2.2.2.1
        (fun g => .inl (by rw [f0.2.2.2.2.1])) (exitPre_userFut st t s) f0.2.2.1 f0.1 ?_
      · rw [exitPre_task]
        by_cases hu : u = t
        · subst hu; simp
        · simp [hu]
      · intro x hx
        rcases hx with hx | hx | ⟨d, hx⟩
        · exact .inl (f0.2.2.2.2.2.2.2.1 _ hx)
        · exact .inr (.inl (f0.2.2.2.2.2.2.2.2.1 _ hx))
        · exact .inr (.inr ⟨d, f0.2.2.2.2.2.2.2.2.2.1 _ hx⟩)
    refine step1.trans (FSame.of_xc ⟨hc, ?_, ?_⟩)
    · rw [e, exitTail_userFut, x1.u, exitPre_userFut, exitCore_userFut]
    · have hx : FutC (exitCore st t s) st' := by
        rw [e]
        exact x1.x.congr_right x2.1 x2.2
      exact hx.congr rfl rfl rfl rfl

end AnyioModel.Kernel
