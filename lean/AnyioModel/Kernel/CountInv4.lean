/-
The cancellation-count invariant `CI`, part 4: every transition of a well-formed state preserves it.
-/
import AnyioModel.Kernel.CountInv3

namespace AnyioModel.Kernel

/-- removing handles from the current batch keeps `WF` -/
theorem wf_shrinkCur {st : State} (h : WF st) (c : List Handle) (hc : ∀ x ∈ c, x ∈ st.cur) :
    WF { st with cur := c } := by
  apply wf_congr h
  case tk => intro u; simp
  case tkst => intro u; simp
  case run => exact h.running_spec
  case scx => exact h.scope_exists
  case scd => exact h.deadline_exists
  case grs => intro g h1 h2; exact absurd h2 (by simp; exact h1)
  case cu => exact fun x hx => .inl (hc x hx)
  all_goals first | (exact fun _ h => Or.inl h) | (exact fun _ _ h => Or.inl h) | simp

theorem ci_runHandle {st st' : State} {x : Handle} {o : Out} (w : WF st) (h : CI st)
    (hs : step st (.run x) = some (st', o)) : CI st' := by
  simp only [step] at hs
  split at hs
  · contradiction
  · rename_i hg
    have hrun : st.running = none := by
      cases hr : st.running <;> simp_all
    have hxc : x ∈ st.cur := by
      apply Classical.byContradiction; intro hx; exact hg (.inr hx)
    have hok := w.cur_ok x hxc
    have w1 : WF { st with cur := st.cur.erase x } :=
      wf_shrinkCur w _ (fun y hy => List.mem_of_mem_erase hy)
    have h1 : CI { st with cur := st.cur.erase x } := h.gf (GF.of_eq rfl rfl rfl)
    cases x with
    | step t =>
      simp only [] at hs
      split at hs
      · rename_i hst
        refine ci_runTask w1 h1 hrun hok ?_ hs
        rcases hst with hst | hst <;> simp_all
      · contradiction
    | wakeup t =>
      simp only [] at hs
      split at hs
      · rename_i f hst
        refine ci_runTask w1 h1 hrun hok ?_ hs
        simp_all
      · contradiction
    | deliver s =>
      simp only [Option.some.injEq, Prod.mk.injEq] at hs
      obtain ⟨rfl, _⟩ := hs
      exact ci_deliver h1 _
    | timeout s =>
      simp only [Option.some.injEq, Prod.mk.injEq] at hs
      obtain ⟨rfl, _⟩ := hs
      exact ci_armTimeout (h1.gf (GF.of_setScope _ _ _ ⟨rfl, rfl⟩)) _
    | sleepDone f =>
      simp only [Option.some.injEq, Prod.mk.injEq] at hs
      obtain ⟨rfl, _⟩ := hs
      exact h1.gf (gf_resolveFut _ _ _)
    | taskDone u =>
      simp only [] at hs
      split at hs
      · rename_i st1 htd
        simp only [Option.some.injEq, Prod.mk.injEq] at hs
        obtain ⟨rfl, _⟩ := hs
        exact ci_runTaskDone h1 htd
      · contradiction

/-- the first part of `__aexit__`: an exception from the body cancels the group -/
def aexitPrep' (st : State) (g : Nat) (ev : ExcVal) : State :=
  if ev ≠ .none then
    let st := cancelScope st (st.groups g).scope false
    if ev.isCancelledError then st
    else st.setGroup g (fun x =>
      { x with exceptions := x.exceptions ++ ev.leaves, bodyErrs := ev.leaves })
  else st

theorem step_aexit' (st : State) (g : Nat) (ev : ExcVal) :
    step st (.aexit g ev) =
      match st.running with
      | none => none
      | some t =>
        if g ≥ st.nGroups ∨ (st.tasks t).lib ≠ .none ∨ !(st.groups g).entered ∨ (st.groups g).exited
            ∨ (st.tasks t).scope ≠ some (st.groups g).scope
        then none else
        let st := aexitPrep' st g ev
        if (st.groups g).tasks = [] then
          let (st, s) := newScope st true none
          match enterScope st t s with
          | none => none
          | some st =>
            some (doYield (st.setTask t (fun x => { x with lib := .aexitChk g s ev })) t, .susp)
        else aexitAfterChk st t g ev := rfl

theorem wfr_aexitPrep' {st : State} {t : Nat} (h : WFR st t) (g : Nat) (ev : ExcVal) :
    WFR (aexitPrep' st g ev) t := by
  unfold aexitPrep'
  split
  · simp only []
    split
    · exact h.cframe (cframe_cancelScope _ _ _)
    · exact (h.cframe (cframe_cancelScope _ _ _)).setGroup_inert g _ (fun x => by simp)
  · exact h

theorem ci_aexitPrep' {st : State} (h : CI st) (g : Nat) (ev : ExcVal) :
    CI (aexitPrep' st g ev) := by
  unfold aexitPrep'
  split
  · simp only []
    split
    · exact ci_cancelScope h _ _
    · exact (ci_cancelScope h _ _).gf (GF.of_setGroup _ _ _)
  · exact h

theorem ci_aexit {st st' : State} {g : Nat} {ev : ExcVal} {o : Out} (w : WF st) (h : CI st)
    (hs : step st (.aexit g ev) = some (st', o)) : CI st' := by
  rw [step_aexit'] at hs
  split at hs
  · contradiction
  · rename_i t hr
    split at hs
    · contradiction
    · have w1 := wfr_aexitPrep' ⟨w, hr⟩ g ev
      have h1 := ci_aexitPrep' h g ev
      simp only [] at hs
      split at hs
      · have w2 := w1.mkScope true none
        split at hs
        · contradiction
        · rename_i st1 hen
          simp only [Option.some.injEq, Prod.mk.injEq] at hs
          obtain ⟨rfl, _⟩ := hs
          exact ((ci_enterScope' w2.1.1 (ci_newScope h1 true none) w2.2 hen).gf
            (GF.of_setTask _ _ _ (by constructor <;> rfl))).gf (gf_doYield _ _)
      · exact ci_aexitAfterChk w1 h1 hs

theorem ci_step {st st' : State} {e : Ev} {o : Out} (w : WF st) (h : CI st)
    (hs : step st e = some (st', o)) : CI st' := by
  cases e with
  | beginCycle now =>
    simp only [step] at hs
    split at hs
    · contradiction
    · simp only [Option.some.injEq, Prod.mk.injEq] at hs
      obtain ⟨rfl, _⟩ := hs
      exact h.gf (GF.of_eq rfl rfl rfl)
  | run x => exact ci_runHandle w h hs
  | mkScope sh d =>
    simp only [step, Option.some.injEq, Prod.mk.injEq] at hs
    obtain ⟨rfl, _⟩ := hs
    exact ci_newScope h sh d
  | enter s =>
    simp only [step] at hs
    split at hs
    · contradiction
    · rename_i t hr
      split at hs
      · contradiction
      · rename_i hg
        have hx : (st.scopes s).exists_ = true := by
          cases hx : (st.scopes s).exists_ <;> simp_all
        split at hs
        · simp only [Option.some.injEq, Prod.mk.injEq] at hs
          obtain ⟨rfl, _⟩ := hs; exact h
        · rename_i st1 hen
          simp only [Option.some.injEq, Prod.mk.injEq] at hs
          obtain ⟨rfl, _⟩ := hs
          exact ci_enterScope' w h hx hen
  | exit s ev =>
    simp only [step] at hs
    split at hs
    · contradiction
    · rename_i t hr
      split at hs
      · contradiction
      · split at hs
        · simp only [Option.some.injEq, Prod.mk.injEq] at hs
          obtain ⟨rfl, _⟩ := hs; exact h
        · rename_i st1 r hex
          simp only [Option.some.injEq, Prod.mk.injEq] at hs
          obtain ⟨rfl, _⟩ := hs
          exact ci_exitScope' w h hex
  | cancel s =>
    simp only [step] at hs
    split at hs
    · contradiction
    · simp only [Option.some.injEq, Prod.mk.injEq] at hs
      obtain ⟨rfl, _⟩ := hs
      exact ci_cancelScope h _ _
  | setShield s b =>
    simp only [step] at hs
    split at hs
    · contradiction
    · simp only [Option.some.injEq, Prod.mk.injEq] at hs
      obtain ⟨rfl, _⟩ := hs
      exact ci_setShield h _ _
  | setDeadline s d =>
    simp only [step] at hs
    split at hs
    · contradiction
    · simp only [Option.some.injEq, Prod.mk.injEq] at hs
      obtain ⟨rfl, _⟩ := hs
      exact ci_setDeadline h _ _
  | yield =>
    simp only [step] at hs
    split at hs
    · contradiction
    · rename_i t hr
      split at hs
      · contradiction
      · simp only [Option.some.injEq, Prod.mk.injEq] at hs
        obtain ⟨rfl, _⟩ := hs
        exact h.gf (gf_doYield _ _)
  | mkFut =>
    simp only [step, Option.some.injEq, Prod.mk.injEq] at hs
    obtain ⟨rfl, _⟩ := hs
    exact h.gf (GF.of_eq rfl rfl rfl)
  | setFut f =>
    simp only [step] at hs
    split at hs
    · contradiction
    · simp only [Option.some.injEq, Prod.mk.injEq] at hs
      obtain ⟨rfl, _⟩ := hs
      exact h.gf (gf_resolveFut _ _ _)
  | awaitFut f =>
    simp only [step] at hs
    split at hs
    · contradiction
    · rename_i t hr
      split at hs
      · contradiction
      · split at hs
        · split at hs
          · contradiction
          · simp only [Option.some.injEq, Prod.mk.injEq] at hs
            obtain ⟨rfl, _⟩ := hs
            exact h.gf (gf_blockOn _ _ _)
        all_goals
          simp only [Option.some.injEq, Prod.mk.injEq] at hs
          obtain ⟨rfl, _⟩ := hs; exact h
  | sleep d =>
    simp only [step] at hs
    split at hs
    · contradiction
    · rename_i t hr
      split at hs
      · contradiction
      · simp only [Option.some.injEq, Prod.mk.injEq] at hs
        obtain ⟨rfl, _⟩ := hs
        have h2 : CI { (newFut st).1 with timers := (newFut st).1.timers ++
            [((newFut st).1.now + d, Handle.sleepDone (newFut st).2)] } :=
          h.gf (GF.of_eq rfl rfl rfl)
        exact (h2.gf (GF.of_setTask _ _ _ (by constructor <;> rfl))).gf (gf_blockOn _ _ _)
  | chkIfCancelled =>
    simp only [step] at hs
    split at hs
    · contradiction
    · rename_i t hr
      split at hs
      · contradiction
      · split at hs
        · split at hs
          · simp only [Option.some.injEq, Prod.mk.injEq] at hs
            obtain ⟨rfl, _⟩ := hs
            exact (h.gf (GF.of_setTask _ _ _ (by constructor <;> rfl))).gf (gf_doYield _ _)
          · simp only [Option.some.injEq, Prod.mk.injEq] at hs
            obtain ⟨rfl, _⟩ := hs; exact h
        · simp only [Option.some.injEq, Prod.mk.injEq] at hs
          obtain ⟨rfl, _⟩ := hs; exact h
  | shieldedChk =>
    simp only [step] at hs
    split at hs
    · contradiction
    · rename_i t hr
      split at hs
      · contradiction
      · have w1 := WFR.mkScope ⟨w, hr⟩ true none
        split at hs
        · contradiction
        · rename_i st1 hen
          simp only [Option.some.injEq, Prod.mk.injEq] at hs
          obtain ⟨rfl, _⟩ := hs
          exact ((ci_enterScope' w1.1.1 (ci_newScope h true none) w1.2 hen).gf
            (GF.of_setTask _ _ _ (by constructor <;> rfl))).gf (gf_doYield _ _)
  | nativeCancel u =>
    simp only [step] at hs
    split at hs
    · contradiction
    · simp only [Option.some.injEq, Prod.mk.injEq] at hs
      obtain ⟨rfl, _⟩ := hs
      exact ci_taskCancel_native h _
  | uncancel =>
    simp only [step] at hs
    split at hs
    · contradiction
    · rename_i t hr
      split at hs
      · contradiction
      · rename_i hg
        simp only [Option.some.injEq, Prod.mk.injEq] at hs
        obtain ⟨rfl, _⟩ := hs
        exact ci_userUncancel h t (by omega)
  | mkGroup =>
    simp only [step, Option.some.injEq, Prod.mk.injEq] at hs
    obtain ⟨rfl, _⟩ := hs
    exact (ci_newScope h false none).gf (GF.of_eq rfl rfl rfl)
  | groupEnter g =>
    simp only [step] at hs
    split at hs
    · contradiction
    · rename_i t hr
      split at hs
      · contradiction
      · rename_i hg
        split at hs
        · simp only [Option.some.injEq, Prod.mk.injEq] at hs
          obtain ⟨rfl, _⟩ := hs; exact h
        · split at hs
          · contradiction
          · rename_i st1 hen
            simp only [Option.some.injEq, Prod.mk.injEq] at hs
            obtain ⟨rfl, _⟩ := hs
            have hx := (w.scope_exists _).mpr (w.group_scope_lt g (by omega))
            exact (ci_enterScope' w h hx hen).gf (GF.of_setGroup _ _ _)
  | spawn g =>
    simp only [step] at hs
    split at hs
    · contradiction
    · split at hs
      · simp only [Option.some.injEq, Prod.mk.injEq] at hs
        obtain ⟨rfl, _⟩ := hs; exact h
      · simp only [Option.some.injEq, Prod.mk.injEq] at hs
        obtain ⟨rfl, _⟩ := hs
        exact ci_spawn w h g none
  | aexit g ev => exact ci_aexit w h hs
  | start g =>
    simp only [step] at hs
    split at hs
    · contradiction
    · rename_i t hr
      split at hs
      · contradiction
      · split at hs
        · simp only [Option.some.injEq, Prod.mk.injEq] at hs
          obtain ⟨rfl, _⟩ := hs; exact h
        · simp only [Option.some.injEq, Prod.mk.injEq] at hs
          obtain ⟨rfl, _⟩ := hs
          have h1 := ci_spawn (wf_newFut w) (h.gf (gf_newFut st)) g (some (newFut st).2)
          exact (h1.gf (GF.of_setTask _ _ _ (by constructor <;> rfl))).gf (gf_blockOn _ _ _)
  | started =>
    simp only [step] at hs
    split at hs
    · contradiction
    · rename_i t hr
      split at hs
      · contradiction
      · split at hs
        · simp only [Option.some.injEq, Prod.mk.injEq] at hs
          obtain ⟨rfl, _⟩ := hs
          exact h.gf (gf_resolveFut _ _ _)
        all_goals
          simp only [Option.some.injEq, Prod.mk.injEq] at hs
          obtain ⟨rfl, _⟩ := hs; exact h
  | handleCancel u =>
    simp only [step] at hs
    split at hs
    · contradiction
    · simp only [Option.some.injEq, Prod.mk.injEq] at hs
      obtain ⟨rfl, _⟩ := hs
      split
      · exact h
      · exact ci_cancelScope h _ _
  | handleWait u =>
    simp only [step] at hs
    split at hs
    · contradiction
    · rename_i t hr
      split at hs
      · contradiction
      · split at hs
        · simp only [Option.some.injEq, Prod.mk.injEq] at hs
          obtain ⟨rfl, _⟩ := hs
          exact h.gf (gf_doYield _ _)
        · simp only [Option.some.injEq, Prod.mk.injEq] at hs
          obtain ⟨rfl, _⟩ := hs
          exact ((h.gf (gf_newFut st)).gf (GF.of_setTask _ _ _ (by constructor <;> rfl))).gf
            (gf_blockOn _ _ _)
  | finish o' =>
    simp only [step] at hs
    split at hs
    · contradiction
    · rename_i t hr
      split at hs
      · contradiction
      · split at hs
        · contradiction
        · split at hs
          · contradiction
          · rename_i st1 hf
            simp only [Option.some.injEq, Prod.mk.injEq] at hs
            obtain ⟨rfl, _⟩ := hs
            exact ci_finishTask ⟨w, hr⟩ h hf

theorem ci_reach_of_wf (wf : ∀ st, Reach st → WF st) {st : State} (hr : Reach st) : CI st := by
  induction hr with
  | start h => subst h; exact ci_init
  | next hr hs ih => exact ci_step (wf _ hr) ih hs

end AnyioModel.Kernel
