/-
Task-group invariants of the kernel model, part 1: the relation `GLe a b` ("`b` is `a` after
something that is inert for the task-group bookkeeping").

Everything the cancellation machinery, the scope operations, suspension and allocation of
scopes/futures do is a `GLe`; the few transitions that are *not* inert (`_spawn`, `task_done`,
the end of a coroutine, the end of `__aexit__`, `__aenter__`) are treated explicitly in
`GroupInv2.lean`.

Besides what `CFrame` says, `GLe` tracks `mustCancel` of tasks that have not started: the
delivery loop only calls `Task.cancel()` on a task that has started or hosts the scope
(`hitTask`), so a `created` task that hosts no scope never gets `_must_cancel`.
-/
import AnyioModel.Kernel.WF4

namespace AnyioModel.Kernel

section proj
variable (st : State) (t s g f : Nat) (ft : Task → Task) (fs : Scope → Scope) (fg : Group → Group)
  (v : FutSt) (h : Handle)
@[simp, grind =] theorem setTask_userFut : (st.setTask t ft).userFut = st.userFut := rfl
@[simp, grind =] theorem setScope_userFut : (st.setScope s fs).userFut = st.userFut := rfl
@[simp, grind =] theorem setGroup_userFut : (st.setGroup g fg).userFut = st.userFut := rfl
@[simp, grind =] theorem setFut_userFut : (st.setFut f v).userFut = st.userFut := rfl
@[simp, grind =] theorem schedule_userFut : (st.schedule h).userFut = st.userFut := rfl
@[simp, grind =] theorem unschedule_userFut : (st.unschedule h).userFut = st.userFut := rfl
end proj

/-! ### `mustCancel` of tasks that have not started -/

/-- `u` hosts no scope -/
def NoHost (a : State) (u : Nat) : Prop := ∀ s, (a.scopes s).host ≠ some u

/-- a task that has not started and hosts nothing keeps its `_must_cancel`; `userFut` (which no
helper touches, and which `Frame` does not mention) is unchanged -/
structure MCOk (a b : State) : Prop where
  mc : ∀ u, (a.tasks u).st = .created → NoHost a u →
    (b.tasks u).mustCancel = (a.tasks u).mustCancel
  userFut : b.userFut = a.userFut

theorem MCOk.refl (a : State) : MCOk a a := ⟨fun _ _ _ => rfl, rfl⟩

theorem MCOk.trans {a b c : State} (h1 : MCOk a b) (f : CFrame a b) (h2 : MCOk b c) : MCOk a c := by
  refine ⟨?_, h2.userFut.trans h1.userFut⟩
  intro u hc hn
  rw [h2.mc u ((f.tasks u).st_created.mpr hc)
    (fun s hs => hn s (by rw [← (f.scopes s).host]; exact hs)), h1.mc u hc hn]

theorem MCOk.of_eq {a b : State} (h : ∀ u, (b.tasks u).mustCancel = (a.tasks u).mustCancel)
    (hu : b.userFut = a.userFut := by rfl) : MCOk a b := ⟨fun u _ _ => h u, hu⟩

theorem resolveFut_userFut (st : State) (f : Nat) (v : FutSt) :
    (resolveFut st f v).userFut = st.userFut := by
  unfold resolveFut
  split
  · rfl
  · simp only []
    split
    · split <;> rfl
    · rfl

theorem resolveFut_mc (st : State) (f : Nat) (v : FutSt) (u : Nat) :
    ((resolveFut st f v).tasks u).mustCancel = (st.tasks u).mustCancel := by
  unfold resolveFut
  split
  · rfl
  · simp only []
    split
    · rename_i t ht
      split
      · by_cases hu : u = t
        · subst hu; simp
        · simp [hu]
      · rfl
    · rfl

/-- strict frame plus `MCOk` -/
structure MFrame (a b : State) : Prop where
  f : Frame a b
  m : MCOk a b

theorem MFrame.refl (a : State) : MFrame a a := ⟨Frame.refl a, MCOk.refl a⟩

theorem MFrame.trans {a b c : State} (h1 : MFrame a b) (h2 : MFrame b c) : MFrame a c :=
  ⟨h1.f.trans h2.f, h1.m.trans h1.f.cframe h2.m⟩

theorem MFrame.of_eq {a b : State} (f : Frame a b)
    (h : ∀ u, (b.tasks u).mustCancel = (a.tasks u).mustCancel)
    (hu : b.userFut = a.userFut := by rfl) : MFrame a b :=
  ⟨f, MCOk.of_eq h hu⟩

theorem mframe_resolveFut (st : State) (f : Nat) (v : FutSt) : MFrame st (resolveFut st f v) :=
  MFrame.of_eq (frame_resolveFut st f v) (resolveFut_mc st f v) (resolveFut_userFut st f v)

theorem mframe_taskCancel (st : State) (t : Nat) (a : Bool)
    (h : (st.tasks t).st = .created → ¬ NoHost st t) : MFrame st (taskCancel st t a) := by
  refine ⟨frame_taskCancel st t a, ?_, ?_⟩
  · intro u hc hn
    by_cases hu : u = t
    · subst hu; exact absurd hn (h hc)
    · unfold taskCancel
      simp only []
      split
      · rfl
      · split
        · rw [resolveFut_mc]; simp [hu]
        · simp [hu]
  · unfold taskCancel
    simp only []
    split
    · rfl
    · split
      · rw [resolveFut_userFut]; rfl
      · rfl

theorem mframe_taskUncancel (st : State) (t n : Nat) : MFrame st (taskUncancel st t n) := by
  refine MFrame.of_eq (frame_taskUncancel st t n) (fun u => ?_)
  unfold taskUncancel
  by_cases hu : u = t
  · subst hu; simp
  · simp [hu]

theorem foldl_mframe {α β : Type} (f : State × β → α → State × β)
    (hf : ∀ acc x, MFrame acc.1 (f acc x).1) (l : List α) (acc : State × β) :
    MFrame acc.1 (l.foldl f acc).1 := by
  induction l generalizing acc with
  | nil => exact MFrame.refl _
  | cons x l ih => exact (hf acc x).trans (ih _)

theorem mframe_hitTask (origin s : Nat) (acc : State × Bool) (t : Nat) :
    MFrame acc.1 (hitTask origin s acc t).1 := by
  refine ⟨frame_hitTask origin s acc t, ?_⟩
  unfold hitTask
  simp only []
  split
  · exact MCOk.refl _
  · split
    · exact MCOk.refl _
    · split
      · rename_i hcond
        split
        · exact MCOk.refl _
        · have h1 := mframe_taskCancel acc.1 t true (by
            intro hc hn
            rcases hcond.2 with hh | hh
            · exact hn s hh
            · exact hh hc)
          refine h1.m.trans h1.f.cframe (MCOk.of_eq (fun u => ?_) (by simp only []; split <;> rfl))
          simp only []
          split
          · by_cases hu : u = t
            · subst hu; simp
            · simp [hu]
          · by_cases hu : u = t
            · subst hu; simp
            · simp [hu]
      · exact MCOk.refl _

theorem mframe_deliverGo (fuel : Nat) (st : State) (origin s : Nat) :
    MFrame st (deliverGo fuel st origin s).1 := by
  induction fuel generalizing st s with
  | zero => exact MFrame.refl _
  | succ n ih =>
    unfold deliverGo
    simp only []
    refine MFrame.trans (b := ((st.scopes s).tasks.foldl (hitTask origin s) (st, false)).1)
      (foldl_mframe (hitTask origin s) (mframe_hitTask origin s) _ (st, false)) ?_
    apply foldl_mframe
    intro acc c
    split
    · exact ih _ _
    · exact MFrame.refl _

theorem mframe_deliver (st : State) (origin : Nat) : MFrame st (deliver st origin) := by
  refine ⟨frame_deliver st origin, ?_⟩
  unfold deliver
  simp only []
  have h1 := mframe_deliverGo (st.nScopes + 1) st origin origin
  split
  · exact h1.m.trans h1.f.cframe (MCOk.of_eq (fun u => by simp))
  · exact h1.m.trans h1.f.cframe (MCOk.of_eq (fun u => by simp))

theorem mframe_restartList (st : State) (l : List Nat) : MFrame st (restartList st l) := by
  induction l with
  | nil => exact MFrame.refl _
  | cons s rest ih =>
    unfold restartList
    split
    · split
      · exact MFrame.refl _
      · exact mframe_deliver _ _
    · split
      · exact MFrame.refl _
      · exact ih

theorem mframe_restartInParent (st : State) (s : Nat) : MFrame st (restartInParent st s) :=
  mframe_restartList _ _

/-- weak frame plus `MCOk` -/
structure MCFrame (a b : State) : Prop where
  c : CFrame a b
  m : MCOk a b

theorem MCFrame.refl (a : State) : MCFrame a a := ⟨CFrame.refl a, MCOk.refl a⟩

theorem MCFrame.trans {a b c : State} (h1 : MCFrame a b) (h2 : MCFrame b c) : MCFrame a c :=
  ⟨h1.c.trans h2.c, h1.m.trans h1.c h2.m⟩

theorem MFrame.mc {a b : State} (h : MFrame a b) : MCFrame a b := ⟨h.f.cframe, h.m⟩

theorem MCFrame.of_eq {a b : State} (c : CFrame a b)
    (h : ∀ u, (b.tasks u).mustCancel = (a.tasks u).mustCancel)
    (hu : b.userFut = a.userFut := by rfl) : MCFrame a b :=
  ⟨c, MCOk.of_eq h hu⟩

theorem mcframe_cancelScope (st : State) (s : Nat) (b : Bool) :
    MCFrame st (cancelScope st s b) := by
  refine ⟨cframe_cancelScope st s b, ?_⟩
  unfold cancelScope
  split
  · exact MCOk.refl _
  · have h1 : MCFrame st (if (st.scopes s).timer then
        (st.unschedule (.timeout s)).setScope s (fun x => { x with timer := false }) else st) := by
      split
      · exact MCFrame.of_eq ((CFrame.of_unschedule _ _).trans
          (CFrame.of_setScope _ _ _ (by constructor <;> simp))) (fun u => rfl)
      · exact MCFrame.refl _
    simp only []
    refine (h1.trans ?_).m
    generalize (if (st.scopes s).timer then _ else st) = st1
    have h2 : MCFrame st1 (st1.setScope s (fun x =>
        { x with cancelCalled := true, byDeadline := b, cancelTime := st1.now })) :=
      MCFrame.of_eq (CFrame.of_setScope _ _ _ (by constructor <;> simp)) (fun u => rfl)
    split
    · exact h2.trans (mframe_deliver _ _).mc
    · exact h2

theorem mcframe_armTimeout (st : State) (s : Nat) : MCFrame st (armTimeout st s) := by
  refine ⟨cframe_armTimeout st s, ?_⟩
  unfold armTimeout
  split
  · exact MCOk.refl _
  · split
    · exact (mcframe_cancelScope _ _ _).m
    · exact MCOk.of_eq (fun u => rfl)

theorem mframe_setShield (st : State) (s : Nat) (b : Bool) :
    MFrame (st.setScope s (fun x => { x with shield := b })) (setShield st s b) := by
  refine ⟨frame_setShield st s b, ?_⟩
  unfold setShield
  split
  · exact MCOk.of_eq (fun u => rfl)
  · simp only []
    split
    · exact MCOk.refl _
    · exact (mframe_restartInParent _ _).m

theorem mcframe_setDeadline (st : State) (s : Nat) (d : Option Nat) :
    MCFrame (st.setScope s (fun x => { x with deadline := d })) (setDeadline st s d) := by
  refine ⟨cframe_setDeadline st s d, ?_⟩
  unfold setDeadline
  simp only []
  generalize st.setScope s (fun x => { x with deadline := d }) = st0
  have h1 : MCFrame st0 (if (st0.scopes s).timer then
      (st0.unschedule (.timeout s)).setScope s (fun x => { x with timer := false }) else st0) := by
    split
    · exact MCFrame.of_eq ((CFrame.of_unschedule _ _).trans
        (CFrame.of_setScope _ _ _ (by constructor <;> simp))) (fun u => rfl)
    · exact MCFrame.refl _
  generalize (if (st0.scopes s).timer then _ else st0) = st1 at h1
  split
  · exact (h1.trans (mcframe_armTimeout _ _)).m
  · exact h1.m

/-- the same update of one scope on both sides, when it does not touch `host` -/
theorem MCOk.congr_setScope {a b : State} (h : MCOk a b) (s : Nat) (f : Scope → Scope)
    (hf : ∀ x, (f x).host = x.host) : MCOk (a.setScope s f) (b.setScope s f) := by
  refine ⟨?_, h.userFut⟩
  intro u hc hn
  have := h.mc u (by simpa using hc) (fun x hx => hn x (by
    by_cases hxs : x = s
    · subst hxs; simpa [hf] using hx
    · simpa [hxs] using hx))
  simpa using this

theorem mcok_enterScope {st st' : State} {t s : Nat} (h : enterScope st t s = some st') :
    MCOk (enterPre st t s) st' := by
  rw [enterScope_eq] at h
  split at h
  · contradiction
  · simp only [Option.some.injEq] at h
    subst h
    have h1 : MCFrame (enterPre st t s) ((armTimeout (enterCore st t s) s).setScope s
        (fun x => { x with active := true, entered := true })) := by
      refine ⟨?_, (mcframe_armTimeout _ _).m.congr_setScope s _ (fun x => rfl)⟩
      apply CFrame.congr_setScope (cframe_armTimeout _ _)
      · intro x y hxy; cases hxy; constructor <;> simp_all
      · intro x; simp
    split
    · exact (h1.trans (mframe_deliver _ _).mc).m
    · exact h1.m

theorem exitTail_mc (st : State) (t s : Nat) (ev : ExcVal) (u : Nat) :
    ((exitTail st t s ev).1.tasks u).mustCancel = (st.tasks u).mustCancel := by
  have hu : ∀ (a : State) (n : Nat), ((taskUncancel a t n).tasks u).mustCancel =
      (a.tasks u).mustCancel := by
    intro a n; unfold taskUncancel
    by_cases h : u = t
    · subst h; simp
    · simp [h]
  have hd : ∀ (a : State) (n : Nat),
      ((a.setTask t (fun x => { x with nDropped := x.nDropped + n })).tasks u).mustCancel =
        (a.tasks u).mustCancel := by
    intro a n
    by_cases h : u = t
    · subst h; simp
    · simp [h]
  unfold exitTail
  simp only []
  split
  · split
    · split
      · simp [hu]
      · split <;> simp [hu]
    · simp [hu]
    · simp [hu]
  · simp only [setScope_tasks]
    split
    · simp only [setScope_tasks]
      split
      · split
        · rfl
        · exact hd _ _
      · exact hd _ _
    · rfl

/-! ### the relation -/

/-- the fields of a group other than `onCompleted` -/
structure GGroup (x y : Group) : Prop where
  scope : y.scope = x.scope
  entered : y.entered = x.entered
  exited : y.exited = x.exited
  exceptions : y.exceptions = x.exceptions
  tasks : y.tasks = x.tasks
  spawned : y.spawned = x.spawned
  bodyErrs : y.bodyErrs = x.bodyErrs
  routed : y.routed = x.routed

theorem GGroup.refl (x : Group) : GGroup x x := by constructor <;> rfl

theorem GGroup.trans {x y z : Group} (h1 : GGroup x y) (h2 : GGroup y z) : GGroup x z := by
  cases h1; cases h2; constructor <;> simp [*]

structure GTask (a b : State) (u : Nat) : Prop where
  group : (b.tasks u).group = (a.tasks u).group
  doneCbRun : (b.tasks u).doneCbRun = (a.tasks u).doneCbRun
  hscope : (b.tasks u).hscope = (a.tasks u).hscope
  startFut : (b.tasks u).startFut = (a.tasks u).startFut
  outcome : (b.tasks u).outcome = (a.tasks u).outcome
  finished : (a.tasks u).finished = true → (b.tasks u).finished = true
  done : (b.tasks u).st = .done ↔ (a.tasks u).st = .done
  fin_done : (a.tasks u).st = .done → (b.tasks u).finished = (a.tasks u).finished ∧
    (b.tasks u).hexc = (a.tasks u).hexc ∧ (b.tasks u).scope = (a.tasks u).scope ∧
    (b.tasks u).hasState = (a.tasks u).hasState
  created : (b.tasks u).st = .created → (a.tasks u).st = .created ∧
    (NoHost a u → (b.tasks u).mustCancel = (a.tasks u).mustCancel)

structure GScope (a b : State) (s : Nat) : Prop where
  entered : (a.scopes s).entered = true → (b.scopes s).entered = true
  active : (b.scopes s).active = true → (a.scopes s).active = true ∨
    ((a.scopes s).entered = false ∧ (b.scopes s).entered = true)
  host : ∀ u, (b.scopes s).host = some u → (a.scopes s).host = some u ∨ (b.tasks u).st ≠ .created
  cancelCalled : (a.scopes s).entered = true → (a.scopes s).cancelCalled = true →
    (b.scopes s).cancelCalled = true
  chain : (a.scopes s).entered = true → (b.scopes s).chain = (a.scopes s).chain

structure GLe (a b : State) : Prop where
  groups : ∀ g, GGroup (a.groups g) (b.groups g)
  tasks : ∀ u, GTask a b u
  scopes : ∀ s, GScope a b s
  futs : ∀ f, f < a.nFuts → (a.futs f).done = true → b.futs f = a.futs f
  userFut : ∀ f, f < a.nFuts → b.userFut f = a.userFut f
  nFuts : a.nFuts ≤ b.nFuts
  nScopes : a.nScopes ≤ b.nScopes
  nTasks : b.nTasks = a.nTasks
  nGroups : b.nGroups = a.nGroups

theorem GLe.refl (a : State) : GLe a a := by
  constructor
  · exact fun _ => GGroup.refl _
  · intro u; constructor <;> simp
  · intro s; constructor <;> simp
    exact fun u h => .inl h
  · intros; rfl
  · intros; rfl
  · exact Nat.le_refl _
  · exact Nat.le_refl _
  · rfl
  · rfl

theorem GLe.noHost {a b : State} (h : GLe a b) {u : Nat} (hc : (b.tasks u).st = .created)
    (hn : NoHost a u) : NoHost b u := by
  intro s hs
  rcases (h.scopes s).host u hs with h1 | h1
  · exact hn s h1
  · exact h1 hc

theorem GLe.trans {a b c : State} (h1 : GLe a b) (h2 : GLe b c) : GLe a c := by
  constructor
  · exact fun g => (h1.groups g).trans (h2.groups g)
  · intro u
    have t1 := h1.tasks u
    have t2 := h2.tasks u
    constructor
    · rw [t2.group, t1.group]
    · rw [t2.doneCbRun, t1.doneCbRun]
    · rw [t2.hscope, t1.hscope]
    · rw [t2.startFut, t1.startFut]
    · rw [t2.outcome, t1.outcome]
    · exact fun h => t2.finished (t1.finished h)
    · exact t2.done.trans t1.done
    · intro hd
      have a1 := t1.fin_done hd
      have a2 := t2.fin_done (t1.done.mpr hd)
      exact ⟨a2.1.trans a1.1, a2.2.1.trans a1.2.1, a2.2.2.1.trans a1.2.2.1, a2.2.2.2.trans a1.2.2.2⟩
    · intro hc
      have ⟨b1, b2⟩ := t2.created hc
      have ⟨a1, a2⟩ := t1.created b1
      exact ⟨a1, fun hn => (b2 (h1.noHost b1 hn)).trans (a2 hn)⟩
  · intro s
    have s1 := h1.scopes s
    have s2 := h2.scopes s
    constructor
    · exact fun h => s2.entered (s1.entered h)
    · intro h
      rcases s2.active h with h | ⟨h, h'⟩
      · rcases s1.active h with h | ⟨h, h''⟩
        · exact .inl h
        · exact .inr ⟨h, s2.entered h''⟩
      · right
        refine ⟨?_, h'⟩
        cases he : (a.scopes s).entered
        · rfl
        · rw [s1.entered he] at h; contradiction
    · intro u hu
      rcases s2.host u hu with h | h
      · rcases s1.host u h with h | h
        · exact .inl h
        · exact .inr (fun hc => h ((h2.tasks u).created hc).1)
      · exact .inr h
    · exact fun he h => s2.cancelCalled (s1.entered he) (s1.cancelCalled he h)
    · intro h
      rw [s2.chain (s1.entered h), s1.chain h]
  · intro f hf hd
    have := h1.futs f hf hd
    rw [h2.futs f (Nat.lt_of_lt_of_le hf h1.nFuts) (this ▸ hd), this]
  · intro f hf
    rw [h2.userFut f (Nat.lt_of_lt_of_le hf h1.nFuts), h1.userFut f hf]
  · exact Nat.le_trans h1.nFuts h2.nFuts
  · exact Nat.le_trans h1.nScopes h2.nScopes
  · rw [h2.nTasks, h1.nTasks]
  · rw [h2.nGroups, h1.nGroups]


/-! ### what is a `GLe` -/

theorem GLe.of_mcframe {a b : State} (h : MCFrame a b) : GLe a b := by
  have c := h.c
  constructor
  · intro g; rw [c.groups]; exact GGroup.refl _
  · intro u
    have t := c.tasks u
    constructor
    · exact t.group
    · exact t.doneCbRun
    · exact t.hscope
    · exact t.startFut
    · exact t.outcome
    · rw [t.finished]; exact id
    · exact t.st_done
    · exact fun _ => ⟨t.finished, t.hexc, t.scope, t.hasState⟩
    · exact fun hc => ⟨t.st_created.mp hc, fun hn => h.m.mc u (t.st_created.mp hc) hn⟩
  · intro s
    have x := c.scopes s
    constructor
    · rw [x.entered]; exact id
    · rw [x.active]; exact .inl
    · rw [x.host]; exact fun u h => .inl h
    · exact fun _ => x.cancelCalled
    · exact fun _ => x.chain
  · exact fun f _ hd => c.futs f hd
  · intro f _; rw [h.m.userFut]
  · rw [c.nFuts]; exact Nat.le_refl _
  · rw [c.nScopes]; exact Nat.le_refl _
  · exact c.nTasks
  · exact c.nGroups


theorem GLe.of_mframe {a b : State} (h : MFrame a b) : GLe a b := GLe.of_mcframe h.mc

theorem GTask.of_eq {a b : State} {u : Nat} (h : b.tasks u = a.tasks u) : GTask a b u := by
  constructor <;> simp [h]

theorem GScope.of_eq {a b : State} {s : Nat} (h : b.scopes s = a.scopes s) : GScope a b s := by
  constructor <;> simp [h]
  exact fun u h => .inl h

/-- what an update of one task must respect -/
structure TaskInert (x y : Task) : Prop where
  group : y.group = x.group
  doneCbRun : y.doneCbRun = x.doneCbRun
  hscope : y.hscope = x.hscope
  startFut : y.startFut = x.startFut
  outcome : y.outcome = x.outcome
  finished : x.finished = true → y.finished = true
  done : y.st = .done ↔ x.st = .done
  fin_done : x.st = .done → y.finished = x.finished ∧ y.hexc = x.hexc ∧ y.scope = x.scope ∧
    y.hasState = x.hasState
  created : y.st = .created → x.st = .created ∧ y.mustCancel = x.mustCancel

theorem GTask.of_inert {a b : State} {u : Nat} (h : TaskInert (a.tasks u) (b.tasks u)) :
    GTask a b u := by
  obtain ⟨h1, h2, h3, h4, h5, h6, h7, h8, h9⟩ := h
  exact ⟨h1, h2, h3, h4, h5, h6, h7, h8, fun hc => ⟨(h9 hc).1, fun _ => (h9 hc).2⟩⟩

/-- what an update of one scope must respect -/
structure ScopeInert (x y : Scope) : Prop where
  entered : x.entered = true → y.entered = true
  active : y.active = true → x.active = true ∨ (x.entered = false ∧ y.entered = true)
  host : y.host = x.host ∨ y.host = none
  cancelCalled : x.entered = true → x.cancelCalled = true → y.cancelCalled = true
  chain : x.entered = true → y.chain = x.chain

theorem GScope.of_inert {a b : State} {s : Nat} (h : ScopeInert (a.scopes s) (b.scopes s)) :
    GScope a b s := by
  obtain ⟨h1, h2, h3, h4, h5⟩ := h
  refine ⟨h1, h2, ?_, h4, h5⟩
  intro u hu
  rcases h3 with h3 | h3
  · exact .inl (h3 ▸ hu)
  · rw [h3] at hu; contradiction

theorem gle_setTask (st : State) (t : Nat) (f : Task → Task)
    (hf : TaskInert (st.tasks t) (f (st.tasks t))) : GLe st (st.setTask t f) := by
  constructor
  · exact fun g => GGroup.refl _
  · intro u
    by_cases hu : u = t
    · subst hu; exact GTask.of_inert (by simpa using hf)
    · exact GTask.of_eq (by simp [hu])
  · exact fun s => GScope.of_eq rfl
  · intros; rfl
  · intros; rfl
  · exact Nat.le_refl _
  · exact Nat.le_refl _
  · rfl
  · rfl

theorem gle_setScope (st : State) (s : Nat) (f : Scope → Scope)
    (hf : ScopeInert (st.scopes s) (f (st.scopes s))) : GLe st (st.setScope s f) := by
  constructor
  · exact fun g => GGroup.refl _
  · exact fun u => GTask.of_eq rfl
  · intro x
    by_cases hx : x = s
    · subst hx; exact GScope.of_inert (by simpa using hf)
    · exact GScope.of_eq (by simp [hx])
  · intros; rfl
  · intros; rfl
  · exact Nat.le_refl _
  · exact Nat.le_refl _
  · rfl
  · rfl

theorem gle_setGroup (st : State) (g : Nat) (f : Group → Group)
    (hf : GGroup (st.groups g) (f (st.groups g))) : GLe st (st.setGroup g f) := by
  constructor
  · intro x
    by_cases hx : x = g
    · subst hx; simpa using hf
    · simpa [hx] using GGroup.refl _
  · exact fun u => GTask.of_eq rfl
  · exact fun s => GScope.of_eq rfl
  · intros; rfl
  · intros; rfl
  · exact Nat.le_refl _
  · exact Nat.le_refl _
  · rfl
  · rfl

/-- changes of the loop's queues, the clock and `running := none` only -/
theorem gle_loop {a b : State} (hg : b.groups = a.groups) (ht : b.tasks = a.tasks)
    (hs : b.scopes = a.scopes) (hf : b.futs = a.futs) (hu : b.userFut = a.userFut)
    (h1 : b.nFuts = a.nFuts) (h2 : b.nScopes = a.nScopes) (h3 : b.nTasks = a.nTasks)
    (h4 : b.nGroups = a.nGroups) : GLe a b := by
  constructor
  · intro g; rw [hg]; exact GGroup.refl _
  · exact fun u => GTask.of_eq (by rw [ht])
  · exact fun s => GScope.of_eq (by rw [hs])
  · intros; rw [hf]
  · intros; rw [hu]
  · rw [h1]; exact Nat.le_refl _
  · rw [h2]; exact Nat.le_refl _
  · exact h3
  · exact h4

theorem gle_newScope (st : State) (sh : Bool) (d : Option Nat)
    (hd : (st.scopes st.nScopes).entered = false) : GLe st (newScope st sh d).1 := by
  unfold newScope
  constructor
  · exact fun g => GGroup.refl _
  · exact fun u => GTask.of_eq rfl
  · intro x
    by_cases hx : x = st.nScopes
    · subst hx; exact GScope.of_inert (by constructor <;> simp [hd])
    · exact GScope.of_eq (by simp [hx])
  · intros; rfl
  · intros; rfl
  · exact Nat.le_refl _
  · simp
  · rfl
  · rfl

theorem gle_newFut (st : State) : GLe st (newFut st).1 := by
  unfold newFut
  constructor
  · exact fun g => GGroup.refl _
  · exact fun u => GTask.of_eq rfl
  · exact fun s => GScope.of_eq rfl
  · intro f hf _
    have : f ≠ st.nFuts := by omega
    simp [this]
  · intros; rfl
  · simp
  · exact Nat.le_refl _
  · rfl
  · rfl

theorem gle_doYield (st : State) (t : Nat) (hr : (st.tasks t).st = .running) :
    GLe st (doYield st t) := by
  have h1 := gle_setTask st t (fun x => { x with st := .yielded }) (by constructor <;> simp [hr])
  exact h1.trans (gle_loop rfl rfl rfl rfl rfl rfl rfl rfl rfl)

theorem gle_blockOn (st : State) (t f : Nat) (hr : (st.tasks t).st = .running) :
    GLe st (blockOn st t f) := by
  unfold blockOn
  simp only []
  have h0 := gle_setTask st t (fun x => { x with st := .blocked f }) (by constructor <;> simp [hr])
  have h1 : GLe st { st.setTask t (fun x => { x with st := .blocked f }) with
      futWaiter := upd st.futWaiter f (some t), running := none } :=
    h0.trans (gle_loop rfl rfl rfl rfl rfl rfl rfl rfl rfl)
  split
  · exact h1.trans ((gle_setTask _ t (fun x => { x with mustCancel := false })
      (by constructor <;> simp)).trans (GLe.of_mframe (mframe_resolveFut _ _ _)))
  · exact h1


/-! ### `__enter__`, `__exit__` -/

theorem enterPre_task' (st : State) (t s u : Nat) :
    (enterPre st t s).tasks u =
      if u = t then { st.tasks t with hasState := true, scope := some s } else st.tasks u := by
  unfold enterPre enterCore
  simp only []
  by_cases hu : u = t
  · subst hu
    split
    · simp
    · rename_i hh
      have : (st.tasks u).hasState = true := by simpa using hh
      split <;> simp <;> (cases hx : st.tasks u; simp_all)
  · split
    · simp [hu]
    · split <;> simp [hu]

theorem enterPre_scope_other (st : State) (t s x : Nat) (hx : x ≠ s) :
    ((enterPre st t s).scopes x).active = (st.scopes x).active ∧
    ((enterPre st t s).scopes x).entered = (st.scopes x).entered ∧
    ((enterPre st t s).scopes x).host = (st.scopes x).host ∧
    ((enterPre st t s).scopes x).cancelCalled = (st.scopes x).cancelCalled ∧
    ((enterPre st t s).scopes x).chain = (st.scopes x).chain := by
  unfold enterPre enterCore
  simp only []
  split
  · simp [hx]
  · split
    · rename_i p hp
      by_cases hxp : x = p
      · subst hxp; simp [hx]
      · simp [hx, hxp]
    · simp [hx]

theorem enterPre_scope_self (st : State) (t s : Nat) :
    ((enterPre st t s).scopes s).active = true ∧ ((enterPre st t s).scopes s).entered = true ∧
    ((enterPre st t s).scopes s).host = some t := by
  unfold enterPre enterCore
  simp only []
  split
  · simp
  · split
    · rename_i p hp
      by_cases hxp : s = p
      · subst hxp; simp
      · simp [hxp]
    · simp

theorem gle_enterPre (st : State) (t s : Nat) (he : (st.scopes s).entered = false)
    (hr : (st.tasks t).st = .running) : GLe st (enterPre st t s) := by
  have f := enterPre_frame st t s
  constructor
  · intro g; rw [f.2.2.2.2.1]; exact GGroup.refl _
  · intro u
    by_cases hu : u = t
    · subst hu
      exact GTask.of_inert (by rw [enterPre_task']; constructor <;> simp [hr])
    · exact GTask.of_eq (by rw [enterPre_task']; simp [hu])
  · intro x
    by_cases hx : x = s
    · subst hx
      have h := enterPre_scope_self st t x
      refine ⟨fun h' => by simp [he] at h', fun _ => .inr ⟨he, h.2.1⟩, ?_, fun h' => by simp [he] at h',
        fun h' => by simp [he] at h'⟩
      intro u hu
      rw [h.2.2] at hu
      cases hu
      right
      rw [enterPre_task']; simp [hr]
    · have h := enterPre_scope_other st t s x hx
      exact GScope.of_inert ⟨by rw [h.2.1]; exact id, by rw [h.1]; exact .inl, .inl h.2.2.1,
        by rw [h.2.2.2.1]; exact fun _ => id, fun _ => h.2.2.2.2⟩
  · intros; rw [f.2.2.2.2.2.2.2.2.2.2.1]
  · intros
    unfold enterPre enterCore
    simp only []
    split
    · rfl
    · split <;> rfl
  · rw [f.2.2.1]; exact Nat.le_refl _
  · rw [f.2.1]; exact Nat.le_refl _
  · exact f.1
  · exact f.2.2.2.1

theorem gle_enterScope {st st' : State} {t s : Nat} (h : enterScope st t s = some st')
    (hr : (st.tasks t).st = .running) : GLe st st' := by
  obtain ⟨_, h2, h3⟩ := enterScope_spec h
  exact (gle_enterPre st t s h2 hr).trans (GLe.of_mcframe ⟨h3, mcok_enterScope h⟩)

theorem exitCore_scope (st : State) (t s x : Nat) :
    ((exitCore st t s).scopes x).entered = (st.scopes x).entered ∧
    ((exitCore st t s).scopes x).host = (st.scopes x).host ∧
    ((exitCore st t s).scopes x).cancelCalled = (st.scopes x).cancelCalled ∧
    ((exitCore st t s).scopes x).chain = (st.scopes x).chain ∧
    (((exitCore st t s).scopes x).active = true → (st.scopes x).active = true) := by
  cases hB : (st.scopes s).parent <;> cases hT : (st.scopes s).timer <;>
    simp only [exitCore, hB, hT, setScope_scopes, setTask_scopes, unschedule_scopes,
      Bool.false_eq_true, if_false, if_true] <;>
    grind

theorem exitCore_userFut (st : State) (t s : Nat) : (exitCore st t s).userFut = st.userFut := by
  cases hB : (st.scopes s).parent <;> cases hT : (st.scopes s).timer <;>
    simp [exitCore, hB, hT]

theorem gle_exitCore (st : State) (t s : Nat) (hr : (st.tasks t).st = .running) :
    GLe st (exitCore st t s) := by
  have f := exitPre_frame st t s
  have ht : ∀ u, (exitCore st t s).tasks u =
      if u = t then { st.tasks t with scope := (st.scopes s).parent } else st.tasks u :=
    exitPre_task st t s
  constructor
  · intro g
    have : (exitCore st t s).groups = st.groups := f.2.2.2.2.1
    rw [this]; exact GGroup.refl _
  · intro u
    by_cases hu : u = t
    · subst hu
      exact GTask.of_inert (by rw [ht]; constructor <;> simp [hr])
    · exact GTask.of_eq (by rw [ht]; simp [hu])
  · intro x
    have h := exitCore_scope st t s x
    exact GScope.of_inert ⟨by rw [h.1]; exact id, fun h' => .inl (h.2.2.2.2 h'), .inl h.2.1,
      by rw [h.2.2.1]; exact fun _ => id, fun _ => h.2.2.2.1⟩
  · intros
    have : (exitCore st t s).futs = st.futs := f.2.2.2.2.2.2.2.2.2.2.1
    rw [this]
  · intros; rw [exitCore_userFut]
  · have : (exitCore st t s).nFuts = st.nFuts := f.2.2.1
    rw [this]; exact Nat.le_refl _
  · have : (exitCore st t s).nScopes = st.nScopes := f.2.1
    rw [this]; exact Nat.le_refl _
  · exact f.1
  · exact f.2.2.2.1

theorem exitTail_userFut (st : State) (t s : Nat) (ev : ExcVal) :
    (exitTail st t s ev).1.userFut = st.userFut := by
  unfold exitTail
  simp only []
  split
  · split
    · split
      · rfl
      · split <;> rfl
    · rfl
    · rfl
  · simp only [setScope_userFut]
    split
    · simp only [setScope_userFut]
      split
      · split <;> rfl
      · rfl
    · rfl

theorem gle_exitTail (st : State) (t s : Nat) (ev : ExcVal) : GLe st (exitTail st t s ev).1 := by
  obtain ⟨x, hx, hc⟩ := exitTail_cframe st t s ev
  have hm : MCOk st x := by
    refine MCOk.of_eq (fun u => ?_) ?_
    · have := exitTail_mc st t s ev u
      rw [hx] at this; simpa using this
    · have := exitTail_userFut st t s ev
      rw [hx] at this; simpa using this
  rw [hx]
  exact (GLe.of_mcframe ⟨hc, hm⟩).trans (gle_setScope x s _ (by constructor <;> simp))

theorem gle_exitScope {st st' : State} {t s : Nat} {ev : ExcVal} {r : ExitResult}
    (h : exitScope st t s ev = some (st', r)) (hr : (st.tasks t).st = .running) : GLe st st' := by
  rw [exitScope_eq] at h
  split at h
  · contradiction
  · simp only [Option.some.injEq] at h
    have : st' = (exitTail (restartInParent (exitCore st t s) s) t s ev).1 := by rw [h]
    rw [this]
    exact ((gle_exitCore st t s hr).trans (GLe.of_mframe (mframe_restartInParent _ _))).trans
      (gle_exitTail _ _ _ _)

/-! ### the remaining helpers -/

theorem gle_cancelScope (st : State) (s : Nat) (b : Bool) : GLe st (cancelScope st s b) :=
  GLe.of_mcframe (mcframe_cancelScope st s b)

theorem gle_setShield (st : State) (s : Nat) (b : Bool) : GLe st (setShield st s b) :=
  (gle_setScope st s (fun x => { x with shield := b }) (by constructor <;> simp)).trans
    (GLe.of_mframe (mframe_setShield st s b))

theorem gle_setDeadline (st : State) (s : Nat) (d : Option Nat) : GLe st (setDeadline st s d) :=
  (gle_setScope st s (fun x => { x with deadline := d }) (by constructor <;> simp)).trans
    (GLe.of_mcframe (mcframe_setDeadline st s d))

theorem gle_resolveFut (st : State) (f : Nat) (v : FutSt) : GLe st (resolveFut st f v) :=
  GLe.of_mframe (mframe_resolveFut st f v)

theorem gle_deliver (st : State) (s : Nat) : GLe st (deliver st s) :=
  GLe.of_mframe (mframe_deliver st s)

theorem gle_foldl_resolveFut (st : State) (l : List Nat) (v : FutSt) :
    GLe st (l.foldl (fun st f => resolveFut st f v) st) := by
  induction l generalizing st with
  | nil => exact GLe.refl _
  | cons f l ih => exact (gle_resolveFut st f v).trans (ih _)

end AnyioModel.Kernel
