/-
The cancellation-count invariant `CI`, part 3: preservation by the helpers of `Kernel/Step.lean`
(`doYield`, `blockOn`, `TaskGroup.__aexit__`, `_spawn`, `task_done`, task resumption).  `WF` is
threaded along (lemmas `WFR.*` of `Kernel/WF7.lean`) because `__exit__` needs `parent s ≠ some s`,
`__enter__` needs "never entered → no host", and `_spawn` needs "an unallocated task hosts nothing".
-/
import AnyioModel.Kernel.CountInv2
import AnyioModel.Kernel.WF8

namespace AnyioModel.Kernel

theorem gf_doYield (st : State) (t : Nat) : GF st (doYield st t) := by
  refine ⟨Nat.le_refl _, fun s => ⟨rfl, rfl⟩, fun u => ?_⟩
  by_cases hu : u = t
  · subst hu; simp only [doYield, schedule_tasks, setTask_tasks, upd_same]; constructor <;> rfl
  · simp only [doYield, schedule_tasks, setTask_tasks, upd_other _ _ _ _ hu]; exact GhostEq.refl _

theorem gf_setTask_running (st : State) (t : Nat) (f : Task → Task) (r : Option Nat)
    (h : GhostEq (st.tasks t) (f (st.tasks t))) : GF st { st.setTask t f with running := r } :=
  (GF.of_setTask st t f h).trans (GF.of_eq rfl rfl rfl)

theorem gf_blockOn (st : State) (t f : Nat) : GF st (blockOn st t f) := by
  unfold blockOn
  simp only []
  have h1 : GF st { st.setTask t (fun x => { x with st := .blocked f }) with
      futWaiter := upd st.futWaiter f (some t), running := none } :=
    (GF.of_setTask st t (fun x => { x with st := .blocked f }) (by constructor <;> rfl)).trans
      (GF.of_eq rfl rfl rfl)
  split
  · exact (h1.trans (GF.of_setTask _ _ _ (by constructor <;> rfl))).trans (gf_resolveFut _ _ _)
  · exact h1

/-- `__enter__` of a scope that exists, in a well-formed state -/
theorem ci_enterScope' {st st' : State} {t s : Nat} (w : WF st) (h : CI st)
    (hx : (st.scopes s).exists_ = true) (he : enterScope st t s = some st') : CI st' := by
  obtain ⟨_, hen, _⟩ := enterScope_spec he
  exact ci_enterScope h (w.not_entered s hen).2.1 ((w.scope_exists s).mp hx) he

theorem ci_exitScope' {st st' : State} {t s : Nat} {ev : ExcVal} {r : ExitResult} (w : WF st)
    (h : CI st) (he : exitScope st t s ev = some (st', r)) : CI st' :=
  ci_exitScope h w.parent_ne he

/-! ### `TaskGroup.__aexit__` -/

theorem ci_aexitFinish {st st' : State} {t g : Nat} {ev : ExcVal} {o : Out} (w : WFR st t)
    (h : CI st) (he : aexitFinish st t g ev = some (st', o)) : CI st' := by
  unfold aexitFinish at he
  simp only [] at he
  split at he
  · contradiction
  · rename_i st1 r hex
    simp only [Option.some.injEq, Prod.mk.injEq] at he
    obtain ⟨rfl, _⟩ := he
    exact ((ci_exitScope' w.1 h hex).gf (GF.of_setGroup _ _ _)).gf
      (GF.of_setTask _ _ _ (by constructor <;> rfl))

theorem ci_aexitLoop {st st' : State} {t g ws : Nat} {ev : ExcVal} {o : Out} (w : WFR st t)
    (h : CI st) (he : aexitLoop st t g ws ev = some (st', o)) : CI st' := by
  unfold aexitLoop at he
  split at he
  · simp only [Option.some.injEq, Prod.mk.injEq] at he
    obtain ⟨rfl, _⟩ := he
    exact (((h.gf (gf_newFut st)).gf (GF.of_setGroup _ _ _)).gf
      (GF.of_setTask _ _ _ (by constructor <;> rfl))).gf (gf_blockOn _ _ _)
  · split at he
    · contradiction
    · rename_i st1 r hex
      exact ci_aexitFinish (w.exitScope hex) (ci_exitScope' w.1 h hex) he

theorem ci_aexitAfterChk {st st' : State} {t g : Nat} {ev : ExcVal} {o : Out} (w : WFR st t)
    (h : CI st) (he : aexitAfterChk st t g ev = some (st', o)) : CI st' := by
  unfold aexitAfterChk at he
  split at he
  · have w1 := w.mkScope false none
    simp only [] at he
    split at he
    · contradiction
    · rename_i st1 hen
      exact ci_aexitLoop (w1.1.enterScope w1.2 hen)
        (ci_enterScope' w1.1.1 (ci_newScope h false none) w1.2 hen) he
  · exact ci_aexitFinish w h he

/-! ### `_spawn` -/

theorem ci_spawnCore {st : State} (w : WF st) (h : CI st) (g gs hs : Nat) (sf : Option Nat) :
    CI (spawnCore st g gs hs sf) := by
  -- the new task hosts nothing
  have hp : pendH st.nScopes st.scopes st.nTasks = 0 := by
    apply pendH_zero
    intro s _
    simp only [contrib]
    split
    · rename_i hh; have := w.host_lt hh; omega
    · rfl
  have c := h.count st.nTasks
  apply h.change0 st.nTasks
  · simp [spawnCore]
  · intro s
    by_cases hs' : s = gs
    · subst hs'; simp [spawnCore, SG]
    · simp [spawnCore, SG, hs']
  · intro u hu; simp [spawnCore, hu]; exact GhostEq.refl _
  · simp [spawnCore]; omega
  · simp [spawnCore]
  · simp [spawnCore]
  · simp [spawnCore]

theorem ci_spawn {st : State} (w : WF st) (h : CI st) (g : Nat) (sf : Option Nat) :
    CI (spawn st g sf).1 := by
  rw [spawn_eq]
  have h3 := ci_spawnCore (wf_newScope w false none) (ci_newScope h false none) g
    (st.groups g).scope (newScope st false none).2 sf
  simp only []
  unfold spawnTail
  split
  · split
    · exact h3
    · exact ci_deliver h3 _
  · split
    · exact h3
    · exact ci_restartInParent h3 _

/-! ### `task_done` -/

theorem ci_taskDoneTail {st st' : State} {g u : Nat} {o : Outcome} {sfo : Option Nat} (h : CI st)
    (he : taskDoneTail st g u o sfo = some st') : CI st' := by
  unfold taskDoneTail at he
  simp only [] at he
  repeat' (split at he)
  all_goals
    simp only [Option.some.injEq] at he
    subst he
    first
    | exact h
    | exact h.gf (gf_resolveFut _ _ _)
    | exact h.gf (GF.of_setGroup _ _ _)
    | exact ci_cancelScope h _ _
    | exact ci_cancelScope (h.gf (GF.of_setGroup _ _ _)) _ _

theorem ci_runTaskDone {st st' : State} {u : Nat} (h : CI st) (he : runTaskDone st u = some st') :
    CI st' := by
  rw [runTaskDone_eq] at he
  split at he
  · rename_i g sc o hg hsc ho
    have h1 := ((h.gf (GF.of_setScope st sc (fun x => { x with tasks := x.tasks.erase u })
      ⟨rfl, rfl⟩)).gf (GF.of_setGroup _ g (fun x => { x with tasks := x.tasks.erase u }))).gf
      (GF.of_setTask _ u (fun x => { x with hasState := false, scope := none, doneCbRun := true })
        (by constructor <;> rfl))
    refine ci_taskDoneTail ?_ he
    unfold taskDoneMid
    split
    · split
      · exact h1.gf (gf_resolveFut _ _ _)
      · exact h1
    · exact h1
  · contradiction

/-! ### resuming a task -/

theorem ci_foldl_resolveFut {st : State} (h : CI st) (l : List Nat) (v : FutSt) :
    CI (l.foldl (fun st f => resolveFut st f v) st) := by
  induction l generalizing st with
  | nil => exact h
  | cons f l ih => exact ih (h.gf (gf_resolveFut st f v))

theorem ci_finishTask {st st' : State} {t : Nat} {o : Outcome} (w : WFR st t) (h : CI st)
    (he : finishTask st t o = some st') : CI st' := by
  unfold finishTask at he
  simp only [] at he
  split at he
  · rename_i hs hhs
    split at he
    · contradiction
    · rename_i st1 r hex
      simp only [Option.some.injEq] at he
      subst he
      have w1 := w.setTask_inert t (fun x => { x with hexc := o, finished := true }) (fun x => by simp)
      have w2 := wf_foldl_resolveFut w1.1 (st.tasks t).hwaiters .result
      have w3 : WFR _ t := ⟨w2.1, by rw [w2.2]; exact w1.2⟩
      have w4 := w3.setTask_inert t (fun x => { x with hwaiters := [] }) (fun x => by simp)
      have h1 := h.gf (GF.of_setTask st t (fun x => { x with hexc := o, finished := true })
        (by constructor <;> rfl))
      have h2 := ci_foldl_resolveFut h1 (st.tasks t).hwaiters .result
      have h3 := h2.gf (GF.of_setTask _ t (fun x => { x with hwaiters := [] })
        (by constructor <;> rfl))
      have h4 := ci_exitScope' w4.1 h3 hex
      exact (h4.gf (gf_setTask_running _ _ _ _ (by constructor <;> rfl))).gf (GF.of_schedule _ _)
  · simp only [Option.some.injEq] at he
    subst he
    exact h.gf (gf_setTask_running _ _ _ _ (by constructor <;> rfl))

theorem ci_continueLib {st st' : State} {t : Nat} {r : Resume} {o : Out} (w : WFR st t) (h : CI st)
    (he : continueLib st t r = some (st', o)) : CI st' := by
  have hT : ∀ (x : State) (f : Task → Task), (∀ y, GhostEq y (f y)) → CI x → CI (x.setTask t f) :=
    fun x f hf hx => hx.gf (GF.of_setTask _ _ _ (hf _))
  unfold continueLib at he
  split at he
  · -- no library frame
    simp only [Option.some.injEq, Prod.mk.injEq] at he
    obtain ⟨rfl, _⟩ := he; exact h
  · -- chkIf
    split at he
    · simp only [Option.some.injEq, Prod.mk.injEq] at he
      obtain ⟨rfl, _⟩ := he; exact h.gf (gf_doYield _ _)
    · simp only [Option.some.injEq, Prod.mk.injEq] at he
      obtain ⟨rfl, _⟩ := he
      exact hT _ _ (fun y => by constructor <;> rfl) h
  · -- shChk
    split at he
    · contradiction
    · rename_i st1 x hex
      simp only [Option.some.injEq, Prod.mk.injEq] at he
      obtain ⟨rfl, _⟩ := he
      exact hT _ _ (fun y => by constructor <;> rfl) (ci_exitScope' w.1 h hex)
  · -- sleeping
    simp only [Option.some.injEq, Prod.mk.injEq] at he
    obtain ⟨rfl, _⟩ := he
    exact hT _ _ (fun y => by constructor <;> rfl) (h.gf (GF.of_unschedule _ _))
  · -- aexitChk
    split at he
    · contradiction
    · rename_i st1 x hex
      have w1 := w.exitScope hex
      have h1 := ci_exitScope' w.1 h hex
      split at he
      · exact ci_aexitAfterChk w1 h1 he
      · split at he
        · exact ci_aexitAfterChk (w1.cframe (cframe_cancelScope _ _ _)) (ci_cancelScope h1 _ _) he
        · contradiction
  · -- aexitWait
    rename_i g ws ev hl
    have w1 := w.setGroup_inert g (fun x => { x with onCompleted := none }) (fun x => by simp)
    have h1 := h.gf (GF.of_setGroup st g (fun x => { x with onCompleted := none }))
    simp only [] at he
    split at he
    · exact ci_aexitLoop w1 h1 he
    · split at he
      · refine ci_aexitLoop ?_ (ci_cancelScope (ci_setShield h1 ws true) _ _) he
        have w2 : WFR (setShield (st.setGroup g (fun x => { x with onCompleted := none })) ws true) t := by
          refine WFR.frame ?_ (frame_setShield _ _ _)
          exact ⟨wf_setScope_inert w1.1 ws _ (by simp; exact fun h => .inl h), w1.2⟩
        exact w2.cframe (cframe_cancelScope _ _ _)
      · contradiction
  · -- startWait
    split at he
    · simp only [Option.some.injEq, Prod.mk.injEq] at he
      obtain ⟨rfl, _⟩ := he
      exact hT _ _ (fun y => by constructor <;> rfl) h
    · simp only [] at he
      split at he
      · contradiction
      · rename_i hs hhs
        split at he
        · have w1 := w.cframe (cframe_cancelScope st hs false)
          have h1 := ci_cancelScope h hs false
          have w2 := w1.mkScope true none
          have h2 := ci_newScope h1 true none
          split at he
          · contradiction
          · rename_i st2 hen
            have h3 := ci_enterScope' w2.1.1 h2 w2.2 hen
            split at he
            · simp only [Option.some.injEq, Prod.mk.injEq] at he
              obtain ⟨rfl, _⟩ := he
              exact (hT _ _ (fun y => by constructor <;> rfl) h3).gf (gf_doYield _ _)
            · simp only [Option.some.injEq, Prod.mk.injEq] at he
              obtain ⟨rfl, _⟩ := he
              exact (((hT _ _ (fun y => by constructor <;> rfl) h3).gf (gf_newFut _)).gf
                (GF.of_setTask _ _ _ (by constructor <;> rfl))).gf (gf_blockOn _ _ _)
        · simp only [Option.some.injEq, Prod.mk.injEq] at he
          obtain ⟨rfl, _⟩ := he
          exact hT _ _ (fun y => by constructor <;> rfl) h
  · -- startJoin
    split at he
    · contradiction
    · rename_i st1 x hex
      have h1 := hT _ (fun x => { x with lib := .none }) (fun y => by constructor <;> rfl)
        (ci_exitScope' w.1 h hex)
      simp only [] at he
      split at he <;>
      · simp only [Option.some.injEq, Prod.mk.injEq] at he
        obtain ⟨rfl, _⟩ := he
        exact h1

/-- the state in which `Task.__step` runs the coroutine -/
theorem wfr_runPre {st : State} {t : Nat} (h : WF st) (hr : st.running = none)
    (hlt : t < st.nTasks) (hnd : (st.tasks t).st ≠ .done) :
    WFR { st.setTask t (fun x => { x with st := .running, mustCancel := false }) with
      running := some t } t := by
  refine ⟨?_, rfl⟩
  apply wf_congr h
  case tk => intro u; by_cases hu : u = t <;> simp [hu]
  case tkst =>
    intro u; by_cases hu : u = t
    · subst hu; simp [hnd]; omega
    · simp [hu]
  case run =>
    intro u; by_cases hu : u = t
    · subst hu; simp
    · simp [hu]
      constructor
      · intro e; exact absurd e.symm hu
      · intro hu'
        have := (h.running_spec u).mpr hu'
        simp_all
  case scx => exact h.scope_exists
  case scd => exact h.deadline_exists
  case grs => intro g h1 h2; exact absurd h2 (by simp; exact h1)
  all_goals first | (exact fun _ h => Or.inl h) | (exact fun _ _ h => Or.inl h) | simp

theorem ci_runTask {st st' : State} {t : Nat} {o : Out} (w : WF st) (h : CI st)
    (hr : st.running = none) (hlt : t < st.nTasks) (hnd : (st.tasks t).st ≠ .done)
    (he : runTask st t = some (st', o)) : CI st' := by
  have w1 := wfr_runPre w hr hlt hnd
  have h1 : CI { st.setTask t (fun x => { x with st := .running, mustCancel := false }) with
      running := some t } :=
    h.gf (gf_setTask_running st t (fun x => { x with st := .running, mustCancel := false }) _
      (by constructor <;> rfl))
  unfold runTask at he
  simp only [] at he
  split at he
  · rename_i hs hst hhs
    split at he
    · split at he
      · contradiction
      · rename_i st1 hen
        simp only [Option.some.injEq, Prod.mk.injEq] at he
        obtain ⟨rfl, _⟩ := he
        have hx : hs < st.nScopes := w.hscope_lt t hs hhs
        exact ci_enterScope' w1.1 h1 (by simpa using (w.scope_exists hs).mpr hx) hen
    · simp only [Option.some.injEq, Prod.mk.injEq] at he
      obtain ⟨rfl, _⟩ := he
      exact (h1.gf (gf_setTask_running _ _ _ _ (by constructor <;> rfl))).gf (GF.of_schedule _ _)
  · exact ci_continueLib w1 h1 he

end AnyioModel.Kernel
