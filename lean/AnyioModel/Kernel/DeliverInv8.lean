/-
Delivery of cancellation, part 8: small facts about every transition, as one transitive relation
`SR a b` between a state and a later state of the same transition.

* `hp`, `cc`, `dh`: a `deliver o` handle that is scheduled stays scheduled and `o` keeps its
  `cancelCalled`; a `deliver o` handle that is scheduled in `b` was scheduled in `a`, or `o` is
  cancelled in `b`;
* `bm`: a task that is blocked with `_must_cancel` set in `b` was so in `a` (`Task.cancel()` on a
  blocked task cancels the future instead; `Task.__step` consumes the flag before suspending);
* `ck`: no `deliver` handle leaves the current batch `cur` (only the loop itself removes it, when it
  runs it);
* `tm`: a new timer never carries a `deliver` handle.

This file: the relation and the helpers of `Kernel/Scope.lean`.
-/
import AnyioModel.Kernel.DeliverInv7

namespace AnyioModel.Kernel

structure SR (a b : State) : Prop where
  hp : ∀ o, Handle.deliver o ∈ a.ready ++ a.cur → Handle.deliver o ∈ b.ready ++ b.cur
  cc : ∀ o, Handle.deliver o ∈ a.ready ++ a.cur → (a.scopes o).cancelCalled = true →
    (b.scopes o).cancelCalled = true
  dh : ∀ o, Handle.deliver o ∈ b.ready ++ b.cur →
    Handle.deliver o ∈ a.ready ++ a.cur ∨ (b.scopes o).cancelCalled = true
  bm : ∀ t f, (b.tasks t).st = .blocked f → (b.tasks t).mustCancel = true →
    (a.tasks t).st = .blocked f ∧ (a.tasks t).mustCancel = true
  ck : ∀ o, Handle.deliver o ∈ a.cur → Handle.deliver o ∈ b.cur
  tm : ∀ p ∈ b.timers, p ∈ a.timers ∨ ∀ o, p.2 ≠ Handle.deliver o

theorem SR.refl (a : State) : SR a a :=
  ⟨fun _ h => h, fun _ _ h => h, fun _ h => .inl h, fun _ _ h1 h2 => ⟨h1, h2⟩, fun _ h => h,
    fun _ h => .inl h⟩

theorem SR.trans {a b c : State} (h1 : SR a b) (h2 : SR b c) : SR a c := by
  constructor
  · exact fun o h => h2.hp o (h1.hp o h)
  · exact fun o h hc => h2.cc o (h1.hp o h) (h1.cc o h hc)
  · intro o ho
    rcases h2.dh o ho with hb | hc
    · rcases h1.dh o hb with ha | hc
      · exact .inl ha
      · exact .inr (h2.cc o hb hc)
    · exact .inr hc
  · intro t f hb hm
    obtain ⟨hb', hm'⟩ := h2.bm t f hb hm
    exact h1.bm t f hb' hm'
  · exact fun o h => h2.ck o (h1.ck o h)
  · intro p hp
    rcases h2.tm p hp with hp | hp
    · exact h1.tm p hp
    · exact .inr hp

/-- the general form for a pure update -/
theorem SR.of_parts {a b : State}
    (hr : ∀ o, Handle.deliver o ∈ b.ready ↔ Handle.deliver o ∈ a.ready)
    (hc : ∀ o, Handle.deliver o ∈ b.cur ↔ Handle.deliver o ∈ a.cur)
    (ht : ∀ p ∈ b.timers, p ∈ a.timers ∨ ∀ o, p.2 ≠ Handle.deliver o)
    (hs : ∀ o, Handle.deliver o ∈ a.ready ++ a.cur → (a.scopes o).cancelCalled = true →
      (b.scopes o).cancelCalled = true)
    (hk : ∀ t f, (b.tasks t).st = .blocked f → (b.tasks t).mustCancel = true →
      (a.tasks t).st = .blocked f ∧ (a.tasks t).mustCancel = true) : SR a b := by
  refine ⟨?_, hs, ?_, hk, fun o h => (hc o).mpr h, ht⟩
  · intro o h
    rcases List.mem_append.mp h with h | h
    · exact List.mem_append_left _ ((hr o).mpr h)
    · exact List.mem_append_right _ ((hc o).mpr h)
  · intro o h
    left
    rcases List.mem_append.mp h with h | h
    · exact List.mem_append_left _ ((hr o).mp h)
    · exact List.mem_append_right _ ((hc o).mp h)

theorem sr_setTask (a : State) (t : Nat) (f : Task → Task)
    (hf : ∀ x, ((f x).st = x.st ∧ (f x).mustCancel = x.mustCancel) ∨ (f x).mustCancel = false ∨
      ∀ g, (f x).st ≠ .blocked g) : SR a (a.setTask t f) := by
  refine SR.of_parts (fun _ => Iff.rfl) (fun _ => Iff.rfl) (fun _ h => .inl h) (fun _ _ h => h) ?_
  intro u g hb hm
  by_cases hu : u = t
  · subst hu
    simp only [setTask_tasks, upd_same] at hb hm
    rcases hf (a.tasks u) with ⟨h1, h2⟩ | h | h
    · rw [h1] at hb; rw [h2] at hm; exact ⟨hb, hm⟩
    · rw [h] at hm; cases hm
    · exact absurd hb (h g)
  · simp only [setTask_tasks, upd_other _ _ _ _ hu] at hb hm
    exact ⟨hb, hm⟩

theorem sr_setScope (a : State) (s : Nat) (f : Scope → Scope)
    (hf : ∀ x, x.cancelCalled = true → (f x).cancelCalled = true) : SR a (a.setScope s f) := by
  refine SR.of_parts (fun _ => Iff.rfl) (fun _ => Iff.rfl) (fun _ h => .inl h) ?_
    (fun _ _ h1 h2 => ⟨h1, h2⟩)
  intro o _ hc
  by_cases ho : o = s
  · subst ho; simpa using hf _ hc
  · simpa [ho] using hc

theorem sr_setGroup (a : State) (g : Nat) (f : Group → Group) : SR a (a.setGroup g f) :=
  SR.of_parts (fun _ => Iff.rfl) (fun _ => Iff.rfl) (fun _ h => .inl h) (fun _ _ h => h)
    (fun _ _ h1 h2 => ⟨h1, h2⟩)

theorem sr_setFut (a : State) (f : Nat) (v : FutSt) : SR a (a.setFut f v) :=
  SR.of_parts (fun _ => Iff.rfl) (fun _ => Iff.rfl) (fun _ h => .inl h) (fun _ _ h => h)
    (fun _ _ h1 h2 => ⟨h1, h2⟩)

def Handle.notDeliver (h : Handle) : Prop := ∀ o, h ≠ Handle.deliver o

theorem sr_schedule (a : State) (h : Handle) (hh : h.notDeliver) : SR a (a.schedule h) := by
  refine SR.of_parts ?_ (fun _ => Iff.rfl) (fun _ h => .inl h) (fun _ _ h => h)
    (fun _ _ h1 h2 => ⟨h1, h2⟩)
  intro o
  simp only [schedule_ready, List.mem_append, List.mem_singleton]
  constructor
  · rintro (h' | h')
    · exact h'
    · exact absurd h'.symm (hh o)
  · exact fun h' => .inl h'

theorem sr_unschedule (a : State) (h : Handle) (hh : h.notDeliver) : SR a (a.unschedule h) := by
  refine SR.of_parts ?_ ?_ ?_ (fun _ _ h => h) (fun _ _ h1 h2 => ⟨h1, h2⟩)
  · intro o
    simp only [unschedule_ready, List.mem_filter, decide_eq_true_eq]
    exact ⟨fun h' => h'.1, fun h' => ⟨h', fun e => hh o e.symm⟩⟩
  · intro o
    simp only [unschedule_cur, List.mem_filter, decide_eq_true_eq]
    exact ⟨fun h' => h'.1, fun h' => ⟨h', fun e => hh o e.symm⟩⟩
  · intro p hp
    simp only [unschedule_timers, List.mem_filter] at hp
    exact .inl hp.1

/-- allocation of a scope: no handle of the new scope is around -/
theorem sr_newScope (a : State) (sh : Bool) (d : Option Nat)
    (hok : Handle.deliver a.nScopes ∉ a.ready ++ a.cur) : SR a (newScope a sh d).1 := by
  unfold newScope
  refine SR.of_parts (fun _ => Iff.rfl) (fun _ => Iff.rfl) (fun _ h => .inl h) ?_
    (fun _ _ h1 h2 => ⟨h1, h2⟩)
  intro o ho hc
  have : o ≠ a.nScopes := fun e => hok (e ▸ ho)
  simpa [this] using hc

theorem sr_newFut (a : State) : SR a (newFut a).1 := by
  unfold newFut
  exact SR.of_parts (fun _ => Iff.rfl) (fun _ => Iff.rfl) (fun _ h => .inl h) (fun _ _ h => h)
    (fun _ _ h1 h2 => ⟨h1, h2⟩)

/-- peel one pure update off the later state -/
macro "sr0" : tactic => `(tactic| first
  | exact SR.refl _
  | assumption
  | refine SR.trans ?_ (sr_setTask _ _ _ (fun x => by simp))
  | refine SR.trans ?_ (sr_setScope _ _ _ (fun x => by simp))
  | refine SR.trans ?_ (sr_setGroup _ _ _)
  | refine SR.trans ?_ (sr_setFut _ _ _)
  | refine SR.trans ?_ (sr_schedule _ _ (fun o e => by cases e))
  | refine SR.trans ?_ (sr_unschedule _ _ (fun o e => by cases e))
  | refine SR.trans ?_ (sr_newFut _))

/-! ### futures and `Task.cancel()` -/

theorem sr_resolveFut (a : State) (f : Nat) (v : FutSt) : SR a (resolveFut a f v) := by
  unfold resolveFut
  simp only []
  repeat' split
  all_goals repeat sr0

theorem sr_taskCancel (a : State) (t : Nat) (y : Bool) : SR a (taskCancel a t y) := by
  unfold taskCancel
  simp only []
  split
  · exact SR.refl _
  · have h1 : SR a (a.setTask t (fun x =>
        { x with ncancel := x.ncancel + 1,
                 nNative := if y then x.nNative else x.nNative + 1,
                 nAnyio := if y then x.nAnyio + 1 else x.nAnyio })) := by
      repeat sr0
    split
    · exact h1.trans (sr_resolveFut _ _ _)
    · rename_i hnb
      refine h1.trans ?_
      -- `_must_cancel` is set on a task that is not blocked
      refine SR.of_parts (fun _ => Iff.rfl) (fun _ => Iff.rfl) (fun _ h => .inl h)
        (fun _ _ h => h) ?_
      intro u g hb hm
      by_cases hu : u = t
      · subst hu
        simp only [setTask_tasks, upd_same] at hb
        exact absurd hb (hnb g)
      · simp only [setTask_tasks, upd_other _ _ _ _ hu] at hb hm
        simp only [setTask_tasks, upd_other _ _ _ _ hu]
        exact ⟨hb, hm⟩

theorem sr_taskUncancel (a : State) (t n : Nat) : SR a (taskUncancel a t n) := by
  unfold taskUncancel
  repeat sr0

/-! ### `_deliver_cancellation` -/

theorem sr_foldl {α β : Type} (f : State × β → α → State × β)
    (hf : ∀ acc x, SR acc.1 (f acc x).1) (l : List α) (acc : State × β) :
    SR acc.1 (l.foldl f acc).1 := by
  induction l generalizing acc with
  | nil => exact SR.refl _
  | cons x l ih => exact (hf acc x).trans (ih _)

theorem sr_hitTask (origin s : Nat) (acc : State × Bool) (t : Nat) :
    SR acc.1 (hitTask origin s acc t).1 := by
  have h1 := sr_taskCancel acc.1 t true
  unfold hitTask
  simp only []
  repeat' split
  all_goals (try simp only [])
  all_goals repeat sr0

theorem sr_deliverGo (fuel : Nat) (a : State) (origin s : Nat) :
    SR a (deliverGo fuel a origin s).1 := by
  induction fuel generalizing a s with
  | zero => exact SR.refl _
  | succ n ih =>
    unfold deliverGo
    simp only []
    refine SR.trans (b := ((a.scopes s).tasks.foldl (hitTask origin s) (a, false)).1)
      (sr_foldl (hitTask origin s) (sr_hitTask origin s) _ (a, false)) ?_
    apply sr_foldl
    intro acc c
    split
    · exact ih _ _
    · exact SR.refl _

/-- the only place where a `deliver` handle is scheduled: the origin is cancelled -/
theorem sr_deliver (a : State) (o : Nat) (hc : (a.scopes o).cancelCalled = true) :
    SR a (deliver a o) := by
  have h1 := sr_deliverGo (a.nScopes + 1) a o o
  have hcc : ((deliverGo (a.nScopes + 1) a o o).1.scopes o).cancelCalled = true := by
    rw [((frame_deliverGo (a.nScopes + 1) a o o).scopes o).cancelCalled]; exact hc
  unfold deliver
  simp only []
  split
  · have h2 : SR a ((deliverGo (a.nScopes + 1) a o o).1.setScope o
        (fun x => { x with deliver := true })) := by repeat sr0
    refine h2.trans ?_
    generalize hb : (deliverGo (a.nScopes + 1) a o o).1.setScope o
      (fun x => { x with deliver := true }) = b
    have hbc : (b.scopes o).cancelCalled = true := by
      rw [← hb]; simpa using hcc
    constructor
    · intro x hx
      simp only [schedule_ready, schedule_cur, List.mem_append] at hx ⊢
      rcases hx with hx | hx
      · exact .inl (.inl hx)
      · exact .inr hx
    · exact fun _ _ h => h
    · intro x hx
      simp only [schedule_ready, schedule_cur, List.mem_append, List.mem_singleton] at hx
      rcases hx with (hx | hx) | hx
      · exact .inl (List.mem_append_left _ hx)
      · cases hx; exact .inr hbc
      · exact .inl (List.mem_append_right _ hx)
    · exact fun _ _ h1 h2 => ⟨h1, h2⟩
    · exact fun _ h => h
    · exact fun _ h => .inl h
  · repeat sr0

theorem sr_restartList (a : State) (l : List Nat) : SR a (restartList a l) := by
  induction l with
  | nil => exact SR.refl _
  | cons s rest ih =>
    unfold restartList
    split
    · rename_i hc
      split
      · exact SR.refl _
      · exact sr_deliver _ _ hc
    · split
      · exact SR.refl _
      · exact ih

theorem sr_restartInParent (a : State) (s : Nat) : SR a (restartInParent a s) :=
  sr_restartList _ _

/-! ### `cancel()`, `_timeout()`, the setters -/

theorem sr_cancelScope (a : State) (s : Nat) (b : Bool) : SR a (cancelScope a s b) := by
  unfold cancelScope
  split
  · exact SR.refl _
  · have h1 : SR a (if (a.scopes s).timer then
        (a.unschedule (.timeout s)).setScope s (fun x => { x with timer := false }) else a) := by
      split <;> repeat sr0
    simp only []
    generalize (if (a.scopes s).timer then _ else a) = a1 at h1
    have h2 : SR a (a1.setScope s (fun x =>
        { x with cancelCalled := true, byDeadline := b, cancelTime := a1.now })) := by
      repeat sr0
    split
    · exact h2.trans (sr_deliver _ _ (by simp))
    · exact h2

theorem sr_addTimer (a : State) (d : Nat) (h : Handle) (hh : h.notDeliver) :
    SR a { a with timers := a.timers ++ [(d, h)] } := by
  refine SR.of_parts (fun _ => Iff.rfl) (fun _ => Iff.rfl) ?_ (fun _ _ h => h)
    (fun _ _ h1 h2 => ⟨h1, h2⟩)
  intro p hp
  simp only [List.mem_append, List.mem_singleton] at hp
  rcases hp with hp | rfl
  · exact .inl hp
  · exact .inr (fun o e => hh o e)

theorem sr_armTimeout (a : State) (s : Nat) : SR a (armTimeout a s) := by
  unfold armTimeout
  split
  · exact SR.refl _
  · split
    · exact sr_cancelScope _ _ _
    · refine SR.trans ?_ (sr_addTimer (a.setScope s (fun x => { x with timer := true })) _
        (.timeout s) (fun o e => by cases e))
      repeat sr0

theorem sr_setShield (a : State) (s : Nat) (b : Bool) : SR a (setShield a s b) := by
  unfold setShield
  split
  · exact SR.refl _
  · simp only []
    split
    · repeat sr0
    · refine SR.trans ?_ (sr_restartInParent _ _)
      repeat sr0

theorem sr_setDeadline (a : State) (s : Nat) (d : Option Nat) : SR a (setDeadline a s d) := by
  unfold setDeadline
  simp only []
  have h0 : SR a (a.setScope s (fun x => { x with deadline := d })) := by repeat sr0
  generalize a.setScope s (fun x => { x with deadline := d }) = a0 at h0
  have h1 : SR a (if (a0.scopes s).timer then
      (a0.unschedule (.timeout s)).setScope s (fun x => { x with timer := false }) else a0) := by
    split <;> repeat sr0
  generalize (if (a0.scopes s).timer then _ else a0) = a1 at h1
  split
  · exact h1.trans (sr_armTimeout _ _)
  · exact h1

/-! ### `__enter__`, `__exit__` -/

theorem sr_enterCore (a : State) (t s : Nat) : SR a (enterCore a t s) := by
  unfold enterCore
  simp only []
  repeat' split
  all_goals repeat sr0

theorem sr_enterScope {a b : State} {t s : Nat} (he : enterScope a t s = some b) : SR a b := by
  rw [enterScope_eq] at he
  split at he
  · contradiction
  · simp only [Option.some.injEq] at he
    subst he
    have h1 : SR a ((armTimeout (enterCore a t s) s).setScope s
        (fun x => { x with active := true, entered := true })) := by
      refine SR.trans ?_ (sr_setScope _ _ _ (fun x => by simp))
      exact (sr_enterCore a t s).trans (sr_armTimeout _ s)
    split
    · rename_i hc
      exact h1.trans (sr_deliver _ _ hc)
    · exact h1

theorem sr_exitCore (a : State) (t s : Nat) : SR a (exitCore a t s) := by
  unfold exitCore
  simp only []
  repeat' split
  all_goals repeat sr0

theorem sr_exitTail (m : State) (t s : Nat) (ev : ExcVal) : SR m (exitTail m t s ev).1 := by
  have hU := sr_taskUncancel m t (m.scopes s).pending
  unfold exitTail
  simp only []
  repeat' split
  all_goals (try simp only [])
  all_goals repeat sr0

theorem sr_exitScope {a b : State} {t s : Nat} {ev : ExcVal} {r : ExitResult}
    (he : exitScope a t s ev = some (b, r)) : SR a b := by
  rw [exitScope_eq] at he
  split at he
  · contradiction
  · simp only [Option.some.injEq] at he
    have : b = (exitTail (restartInParent (exitCore a t s) s) t s ev).1 := by rw [he]
    rw [this]
    exact ((sr_exitCore a t s).trans (sr_restartInParent _ s)).trans (sr_exitTail _ t s ev)

end AnyioModel.Kernel
