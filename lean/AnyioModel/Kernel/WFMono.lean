/-
What no transition ever undoes: `Mono a b` relates a state to any later state.
Counters only grow; for objects that already exist: `cancelCalled` is never reset, an entered
scope stays entered with the same `chain` and `parent`, `exists_` is kept, a task keeps its
`hscope`, `group`, `startFut`, a group keeps its `scope`.
-/
import AnyioModel.Kernel.WF10

namespace AnyioModel.Kernel

structure Mono (a b : State) : Prop where
  nS : a.nScopes ≤ b.nScopes
  nT : a.nTasks ≤ b.nTasks
  nF : a.nFuts ≤ b.nFuts
  nG : a.nGroups ≤ b.nGroups
  cc : ∀ s, s < a.nScopes → (a.scopes s).cancelCalled = true → (b.scopes s).cancelCalled = true
  ent : ∀ s, s < a.nScopes → (a.scopes s).entered = true → (b.scopes s).entered = true ∧
    (b.scopes s).chain = (a.scopes s).chain ∧ (b.scopes s).parent = (a.scopes s).parent
  ex : ∀ s, s < a.nScopes → (b.scopes s).exists_ = (a.scopes s).exists_
  tk : ∀ t, t < a.nTasks → (b.tasks t).hscope = (a.tasks t).hscope ∧
    (b.tasks t).group = (a.tasks t).group ∧ (b.tasks t).startFut = (a.tasks t).startFut
  gr : ∀ g, g < a.nGroups → (b.groups g).scope = (a.groups g).scope

theorem Mono.refl (a : State) : Mono a a := by
  constructor <;> simp

theorem Mono.trans {a b c : State} (h1 : Mono a b) (h2 : Mono b c) : Mono a c := by
  have := h1.nS; have := h1.nT; have := h1.nF; have := h1.nG
  have := h2.nS; have := h2.nT; have := h2.nF; have := h2.nG
  constructor
  · omega
  · omega
  · omega
  · omega
  · intro s hs hc; exact h2.cc s (by omega) (h1.cc s hs hc)
  · intro s hs he
    have e1 := h1.ent s hs he
    have e2 := h2.ent s (by omega) e1.1
    exact ⟨e2.1, by rw [e2.2.1, e1.2.1], by rw [e2.2.2, e1.2.2]⟩
  · intro s hs; rw [h2.ex s (by omega), h1.ex s hs]
  · intro t ht
    have e1 := h1.tk t ht
    have e2 := h2.tk t (by omega)
    exact ⟨by rw [e2.1, e1.1], by rw [e2.2.1, e1.2.1], by rw [e2.2.2, e1.2.2]⟩
  · intro g hg; rw [h2.gr g (by omega), h1.gr g hg]

theorem Mono.of_cframe {a b : State} (f : CFrame a b) : Mono a b := by
  constructor
  · rw [f.nScopes]; exact Nat.le_refl _
  · rw [f.nTasks]; exact Nat.le_refl _
  · rw [f.nFuts]; exact Nat.le_refl _
  · rw [f.nGroups]; exact Nat.le_refl _
  · intro s _ hc; exact (f.scopes s).cancelCalled hc
  · intro s _ he
    exact ⟨by rw [(f.scopes s).entered]; exact he, (f.scopes s).chain, (f.scopes s).parent⟩
  · intro s _; exact (f.scopes s).exists_
  · intro t _; exact ⟨(f.tasks t).hscope, (f.tasks t).group, (f.tasks t).startFut⟩
  · intro g _; rw [f.groups]

theorem Mono.of_frame {a b : State} (f : Frame a b) : Mono a b := Mono.of_cframe f.cframe

/-! ### pure updates -/

theorem Mono.of_eq {a b : State} (h1 : b.scopes = a.scopes) (h2 : b.tasks = a.tasks)
    (h3 : b.groups = a.groups) (nS : b.nScopes = a.nScopes) (nT : b.nTasks = a.nTasks)
    (nF : b.nFuts = a.nFuts) (nG : b.nGroups = a.nGroups) : Mono a b := by
  constructor <;> simp [*]

theorem mono_setTask (st : State) (t : Nat) (f : Task → Task)
    (hf : ∀ x, (f x).hscope = x.hscope ∧ (f x).group = x.group ∧ (f x).startFut = x.startFut) :
    Mono st (st.setTask t f) := by
  constructor <;> try simp
  intro u _
  by_cases hu : u = t
  · subst hu; simpa using hf _
  · simp [hu]

theorem mono_setGroup (st : State) (g : Nat) (f : Group → Group)
    (hf : ∀ x, (f x).scope = x.scope) : Mono st (st.setGroup g f) := by
  constructor <;> try simp
  intro g' _
  by_cases hg : g' = g
  · subst hg; simpa using hf _
  · simp [hg]

theorem mono_setScope (st : State) (s : Nat) (f : Scope → Scope)
    (hf : ∀ x, ((f x).cancelCalled = x.cancelCalled ∨ (f x).cancelCalled = true) ∧
      (f x).entered = x.entered ∧
      (f x).chain = x.chain ∧ (f x).parent = x.parent ∧ (f x).exists_ = x.exists_) :
    Mono st (st.setScope s f) := by
  have hf' := hf (st.scopes s)
  constructor <;> try simp
  · intro x _ hc
    by_cases hx : x = s
    · subst hx; simp; rcases hf'.1 with h | h
      · rw [h]; exact hc
      · exact h
    · simpa [hx] using hc
  · intro x _ he
    by_cases hx : x = s
    · subst hx; simp [hf', he]
    · simp [hx, he]
  · intro x _
    by_cases hx : x = s
    · subst hx; simp [hf']
    · simp [hx]

theorem mono_schedule (st : State) (h : Handle) : Mono st (st.schedule h) := by
  constructor <;> simp

theorem mono_unschedule (st : State) (h : Handle) : Mono st (st.unschedule h) := by
  constructor <;> simp

theorem mono_newScope (st : State) (sh : Bool) (d : Option Nat) : Mono st (newScope st sh d).1 := by
  unfold newScope
  constructor <;> try simp
  all_goals
    intro x hx
    have : x ≠ st.nScopes := by omega
    simp [this]

theorem mono_newFut (st : State) : Mono st (newFut st).1 := by
  unfold newFut
  constructor <;> simp

theorem mono_doYield (st : State) (t : Nat) : Mono st (doYield st t) := by
  unfold doYield
  exact Mono.trans (mono_setTask st t (fun x => { x with st := .yielded }) (fun x => by simp))
    (Mono.of_eq rfl rfl rfl rfl rfl rfl rfl)

theorem mono_blockOn (st : State) (t f : Nat) : Mono st (blockOn st t f) := by
  unfold blockOn
  have h1 : Mono st { st.setTask t (fun x => { x with st := .blocked f }) with
      futWaiter := upd st.futWaiter f (some t), running := none } :=
    Mono.trans (mono_setTask st t (fun x => { x with st := .blocked f }) (fun x => by simp))
      (Mono.of_eq rfl rfl rfl rfl rfl rfl rfl)
  simp only []
  split
  · exact (h1.trans (mono_setTask _ t _ (fun x => by simp))).trans
      (Mono.of_frame (frame_resolveFut _ _ _))
  · exact h1

theorem mono_enterScope {st st' : State} {t s : Nat} (he : enterScope st t s = some st') :
    Mono st st' := by
  obtain ⟨_, h2, h3⟩ := enterScope_spec he
  refine Mono.trans ?_ (Mono.of_cframe h3)
  have f := enterPre_frame st t s
  constructor
  · rw [f.2.1]; exact Nat.le_refl _
  · rw [f.1]; exact Nat.le_refl _
  · rw [f.2.2.1]; exact Nat.le_refl _
  · rw [f.2.2.2.1]; exact Nat.le_refl _
  · intro x _ hc; rw [(enterPre_scope st t s x).2.2.2]; exact hc
  · intro x _ hx
    have hxs : x ≠ s := by rintro rfl; simp_all
    unfold enterPre enterCore
    simp only []
    split
    · simp [hxs, hx]
    · split
      · rename_i p hp
        by_cases hxp : x = p
        · subst hxp; simp [hxs, hx]
        · simp [hxs, hxp, hx]
      · simp [hxs, hx]
  · intro x _; exact (enterPre_scope st t s x).1
  · intro u _
    have := enterPre_task st t s u
    exact ⟨this.2.1, this.2.2.1, this.2.2.2.1⟩
  · intro g _; rw [f.2.2.2.2.1]

theorem mono_exitScope {st st' : State} {t s : Nat} {ev : ExcVal} {r : ExitResult}
    (he : exitScope st t s ev = some (st', r)) : Mono st st' := by
  obtain ⟨_, _, _, _, h5⟩ := exitScope_spec he
  refine Mono.trans ?_ (Mono.of_cframe h5)
  have f := exitPre_frame st t s
  constructor
  · rw [f.2.1]; exact Nat.le_refl _
  · rw [f.1]; exact Nat.le_refl _
  · rw [f.2.2.1]; exact Nat.le_refl _
  · rw [f.2.2.2.1]; exact Nat.le_refl _
  · intro x _ hc; rw [(exitPre_scope st t s x).2.2.2]; exact hc
  · intro x _ hx
    cases hB : (st.scopes s).parent <;> cases hT : (st.scopes s).timer <;>
      simp only [exitPre, exitCore, hB, hT, setScope_scopes, setTask_scopes, unschedule_scopes,
        Bool.false_eq_true, if_false, if_true] <;>
      grind
  · intro x _; exact (exitPre_scope st t s x).1
  · intro u _
    rw [exitPre_task]; split <;> simp_all
  · intro g _; rw [f.2.2.2.2.1]

/-! ### composite helpers -/

theorem mono_setTaskRunning (st : State) (t : Nat) (f : Task → Task) (r : Option Nat)
    (hf : ∀ x, (f x).hscope = x.hscope ∧ (f x).group = x.group ∧ (f x).startFut = x.startFut) :
    Mono st { st.setTask t f with running := r } :=
  Mono.trans (mono_setTask st t f hf) (Mono.of_eq rfl rfl rfl rfl rfl rfl rfl)

theorem mono_setCur (st : State) (c : List Handle) : Mono st { st with cur := c } :=
  Mono.of_eq rfl rfl rfl rfl rfl rfl rfl

theorem mono_setTimers (st : State) (c : List (Nat × Handle)) : Mono st { st with timers := c } :=
  Mono.of_eq rfl rfl rfl rfl rfl rfl rfl

theorem mono_setUserFut (st : State) (c : Nat → Bool) : Mono st { st with userFut := c } :=
  Mono.of_eq rfl rfl rfl rfl rfl rfl rfl

theorem mono_foldl_resolveFut (st : State) (l : List Nat) (v : FutSt) :
    Mono st (l.foldl (fun st f => resolveFut st f v) st) := by
  induction l generalizing st with
  | nil => exact Mono.refl _
  | cons f l ih => exact (Mono.of_frame (frame_resolveFut st f v)).trans (ih _)

theorem mono_spawn (st : State) (g : Nat) (sf : Option Nat) : Mono st (spawn st g sf).1 := by
  rw [spawn_eq]
  simp only []
  refine Mono.trans ?_ (Mono.of_frame (frame_spawnTail _ _))
  refine Mono.trans (mono_newScope st false none) ?_
  generalize (newScope st false none).1 = st1
  generalize (newScope st false none).2 = hs
  generalize (st.groups g).scope = gs
  constructor <;> try (simp [spawnCore]; done)
  · intro x _ hc
    by_cases hx : x = gs
    · subst hx; simpa [spawnCore] using hc
    · simpa [spawnCore, hx] using hc
  · intro x _ he
    by_cases hx : x = gs
    · subst hx; simpa [spawnCore] using he
    · simpa [spawnCore, hx] using he
  · intro x _
    by_cases hx : x = gs
    · subst hx; simp [spawnCore]
    · simp [spawnCore, hx]
  · intro u hu
    have : u ≠ st1.nTasks := by omega
    simp [spawnCore, this]
  · intro g' _
    by_cases hg : g' = g
    · subst hg; simp [spawnCore]
    · simp [spawnCore, hg]

/-- peel one layer off the later state -/
macro "mono1" : tactic => `(tactic| first
  | exact Mono.refl _
  | assumption
  | refine Mono.trans ?_ (mono_setTask _ _ _ (fun x => by simp))
  | refine Mono.trans ?_ (mono_foldl_resolveFut _ _ _)
  | refine Mono.trans ?_ (mono_setGroup _ _ _ (fun x => by simp))
  | refine Mono.trans ?_ (mono_setScope _ _ _ (fun x => by simp))
  | refine Mono.trans ?_ (mono_schedule _ _)
  | refine Mono.trans ?_ (mono_unschedule _ _)
  | refine Mono.trans ?_ (mono_doYield _ _)
  | refine Mono.trans ?_ (mono_blockOn _ _ _)
  | refine Mono.trans ?_ (mono_newScope _ _ _)
  | refine Mono.trans ?_ (mono_newFut _)
  | refine Mono.trans ?_ (Mono.of_cframe (cframe_cancelScope _ _ _))
  | refine Mono.trans ?_ (Mono.of_frame (frame_resolveFut _ _ _))
  | refine Mono.trans ?_ (Mono.of_frame (frame_deliver _ _))
  | refine Mono.trans ?_ (Mono.of_frame (frame_taskCancel _ _ _))
  | refine Mono.trans ?_ (Mono.of_frame (frame_taskUncancel _ _ _))
  | refine Mono.trans ?_ (Mono.of_cframe (cframe_armTimeout _ _))
  | refine Mono.trans ?_ (mono_enterScope ‹_›)
  | refine Mono.trans ?_ (mono_exitScope ‹_›)
  | refine Mono.trans ?_ (Mono.of_frame (frame_setShield _ _ _))
  | refine Mono.trans ?_ (Mono.of_cframe (cframe_setDeadline _ _ _))
  | refine Mono.trans ?_ (Mono.of_frame (frame_restartInParent _ _)))

macro "mono" : tactic => `(tactic| repeat mono1)

theorem mono_aexitFinish {st st' : State} {t g : Nat} {ev : ExcVal} {o : Out}
    (he : aexitFinish st t g ev = some (st', o)) : Mono st st' := by
  unfold aexitFinish at he
  simp only [] at he
  split at he
  · contradiction
  · simp only [Option.some.injEq, Prod.mk.injEq] at he
    obtain ⟨rfl, _⟩ := he
    mono

theorem mono_aexitLoop {st st' : State} {t g ws : Nat} {ev : ExcVal} {o : Out}
    (he : aexitLoop st t g ws ev = some (st', o)) : Mono st st' := by
  unfold aexitLoop at he
  split at he
  · simp only [Option.some.injEq, Prod.mk.injEq] at he
    obtain ⟨rfl, _⟩ := he
    mono
  · split at he
    · contradiction
    · refine Mono.trans ?_ (mono_aexitFinish he)
      mono

theorem mono_aexitAfterChk {st st' : State} {t g : Nat} {ev : ExcVal} {o : Out}
    (he : aexitAfterChk st t g ev = some (st', o)) : Mono st st' := by
  unfold aexitAfterChk at he
  split at he
  · simp only [] at he
    split at he
    · contradiction
    · refine Mono.trans ?_ (mono_aexitLoop he)
      mono
  · exact mono_aexitFinish he

theorem mono_taskDoneTail {st st' : State} {g u : Nat} {o : Outcome} {sfo : Option Nat}
    (he : taskDoneTail st g u o sfo = some st') : Mono st st' := by
  unfold taskDoneTail at he
  simp only [] at he
  repeat' (split at he)
  all_goals
    simp only [Option.some.injEq] at he
    subst he
    mono

theorem mono_runTaskDone {st st' : State} {u : Nat}
    (he : runTaskDone st u = some st') : Mono st st' := by
  rw [runTaskDone_eq] at he
  split at he
  · refine Mono.trans ?_ (mono_taskDoneTail he)
    unfold taskDoneMid
    split
    · split <;> mono
    · mono
  · contradiction

theorem mono_finishTask {st st' : State} {t : Nat} {o : Outcome}
    (he : finishTask st t o = some st') : Mono st st' := by
  unfold finishTask at he
  simp only [] at he
  split at he
  · split at he
    · contradiction
    · simp only [Option.some.injEq] at he
      subst he
      refine Mono.trans ?_ (mono_schedule _ _)
      refine Mono.trans ?_ (mono_setTaskRunning _ _ _ _ (fun x => by simp))
      mono
  · simp only [Option.some.injEq] at he
    subst he
    exact mono_setTaskRunning _ _ _ _ (fun x => by simp)

theorem mono_continueLib {st st' : State} {t : Nat} {r : Resume} {o : Out}
    (he : continueLib st t r = some (st', o)) : Mono st st' := by
  unfold continueLib at he
  repeat' (first | split at he | simp only [] at he)
  all_goals first
    | contradiction
    | (simp only [Option.some.injEq, Prod.mk.injEq] at he; obtain ⟨rfl, _⟩ := he; mono; done)
    | (refine Mono.trans ?_ (mono_aexitAfterChk he); mono; done)
    | (refine Mono.trans ?_ (mono_aexitLoop he); mono; done)

theorem mono_runTask {st st' : State} {t : Nat} {o : Out}
    (he : runTask st t = some (st', o)) : Mono st st' := by
  have h0 : Mono st { st.setTask t (fun x => { x with st := .running, mustCancel := false }) with
      running := some t } := mono_setTaskRunning _ _ _ _ (fun x => by simp)
  unfold runTask at he
  simp only [] at he
  repeat' (split at he)
  all_goals first
    | contradiction
    | (simp only [Option.some.injEq, Prod.mk.injEq] at he; obtain ⟨rfl, _⟩ := he; mono; done)
    | (simp only [Option.some.injEq, Prod.mk.injEq] at he; obtain ⟨rfl, _⟩ := he
       refine Mono.trans ?_ (mono_schedule _ _)
       refine Mono.trans ?_ (mono_setTaskRunning _ _ _ _ (fun x => by simp))
       exact h0)
    | (refine Mono.trans ?_ (mono_continueLib he); exact h0)


/-! ### every transition -/

theorem mono_mkGroup (st : State) (s : Nat) :
    Mono st { st.setGroup st.nGroups (fun _ => { scope := s }) with nGroups := st.nGroups + 1 } := by
  constructor <;> try simp
  intro g hg
  have : g ≠ st.nGroups := by omega
  simp [this]

macro "mono_leaf" h:ident : tactic => `(tactic| first
  | contradiction
  | (simp only [Option.some.injEq, Prod.mk.injEq] at $h:ident; rcases $h:ident with ⟨h1, _⟩; subst h1; mono; done)
  | (refine Mono.trans ?_ (mono_aexitAfterChk $h:ident); mono; done)
  | (refine Mono.trans ?_ (mono_runTask $h:ident); mono; done)
  | (simp only [Option.some.injEq, Prod.mk.injEq] at $h:ident; rcases $h:ident with ⟨h1, _⟩; subst h1
     refine Mono.trans ?_ (mono_finishTask ‹_›); mono; done))

theorem mono_step {st st' : State} {e : Ev} {o : Out} (hs : step st e = some (st', o)) :
    Mono st st' := by
  cases e with
  | beginCycle now =>
    simp only [step] at hs
    split at hs
    · contradiction
    · simp only [Option.some.injEq, Prod.mk.injEq] at hs
      obtain ⟨rfl, _⟩ := hs
      exact Mono.of_eq rfl rfl rfl rfl rfl rfl rfl
  | run x =>
    simp only [step] at hs
    split at hs
    · contradiction
    · have h0 := mono_setCur st (st.cur.erase x)
      cases x <;> simp only [] at hs <;> repeat' (first | split at hs | simp only [] at hs)
      all_goals first
        | mono_leaf hs
        | (simp only [Option.some.injEq, Prod.mk.injEq] at hs; obtain ⟨rfl, _⟩ := hs
           refine Mono.trans ?_ (mono_runTaskDone ‹_›); exact h0)
  | mkFut =>
    simp only [step, Option.some.injEq, Prod.mk.injEq] at hs
    obtain ⟨rfl, _⟩ := hs
    exact (mono_newFut st).trans (mono_setUserFut _ _)
  | mkGroup =>
    simp only [step, Option.some.injEq, Prod.mk.injEq] at hs
    obtain ⟨rfl, _⟩ := hs
    exact (mono_newScope st false none).trans (mono_mkGroup _ _)
  | sleep d =>
    simp only [step] at hs
    repeat' (first | split at hs | simp only [] at hs)
    all_goals first
      | contradiction
      | (simp only [Option.some.injEq, Prod.mk.injEq] at hs; obtain ⟨rfl, _⟩ := hs
         refine Mono.trans ?_ (mono_blockOn _ _ _)
         refine Mono.trans ?_ (mono_setTask _ _ _ (fun x => by simp))
         exact (mono_newFut st).trans (mono_setTimers _ _))
  | spawn g =>
    simp only [step] at hs
    repeat' (first | split at hs | simp only [] at hs)
    all_goals first
      | mono_leaf hs
      | (simp only [Option.some.injEq, Prod.mk.injEq] at hs; obtain ⟨rfl, _⟩ := hs
         exact mono_spawn _ _ _)
  | start g =>
    simp only [step] at hs
    repeat' (first | split at hs | simp only [] at hs)
    all_goals first
      | mono_leaf hs
      | (simp only [Option.some.injEq, Prod.mk.injEq] at hs; obtain ⟨rfl, _⟩ := hs
         refine Mono.trans ?_ (mono_blockOn _ _ _)
         refine Mono.trans ?_ (mono_setTask _ _ _ (fun x => by simp))
         exact (mono_newFut st).trans (mono_spawn _ _ _))
  | aexit g ev =>
    rw [step_aexit] at hs
    have h0 : Mono st (aexitPrep st g ev) := by
      unfold aexitPrep
      split
      · simp only []
        split <;> mono
      · exact Mono.refl _
    repeat' (first | split at hs | simp only [] at hs)
    all_goals first
      | contradiction
      | (simp only [Option.some.injEq, Prod.mk.injEq] at hs; obtain ⟨rfl, _⟩ := hs; mono; done)
      | (refine Mono.trans ?_ (mono_aexitAfterChk hs); exact h0)
  | uncancel =>
    simp only [step] at hs
    repeat' (first | split at hs | simp only [] at hs)
    all_goals mono_leaf hs
  | _ =>
    simp only [step] at hs
    repeat' (first | split at hs | simp only [] at hs)
    all_goals mono_leaf hs

/-- `cancelCalled` is never reset -/
theorem step_cancelCalled_mono {st st' : State} {e : Ev} {o : Out}
    (hs : step st e = some (st', o)) {s : Nat} (hlt : s < st.nScopes)
    (hc : (st.scopes s).cancelCalled = true) : (st'.scopes s).cancelCalled = true :=
  (mono_step hs).cc s hlt hc

theorem mono_runFrom {st st' : State} (es : List Ev) (h : runFrom step st es = some st') :
    Mono st st' := by
  induction es generalizing st with
  | nil => simp [runFrom] at h; exact h ▸ Mono.refl _
  | cons e es ih =>
    simp only [runFrom] at h
    split at h
    · contradiction
    · rename_i s1 o1 h1
      exact (mono_step h1).trans (ih h)

end AnyioModel.Kernel
