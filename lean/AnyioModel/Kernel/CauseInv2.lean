/-
Who can cancel a scope, part 2: the `task_done` callback (`runTaskDone`).  A scope newly cancelled
by it is the scope of the child's group, under the stated side conditions — in particular
`effCancelled = false` — all read in the state BEFORE the transition.  All states.
(`continueLib` and `runTask`: `CauseInv3.lean`.)
-/
import AnyioModel.Kernel.CauseInv
import AnyioModel.Kernel.FutInv

namespace AnyioModel.Kernel

/-! ### `task_done` -/

theorem effCancelled_setGroup (m : State) (g : Nat) (f : Group → Group) (s : Nat) :
    effCancelled (m.setGroup g f) s = effCancelled m s :=
  effCancelled_congr (st := m) (st' := m.setGroup g f) (SameWalk.of_scopes_eq rfl).nav s

/-- the end of `task_done`: `cancel()` is called on the group scope only for an exception outcome,
only when the start future (if any) is already done and not "cancelled with a cancellation
outcome", and only when the group scope is not effectively cancelled -/
theorem cc_taskDoneTail {m st' : State} {g u : Nat} {o : Outcome} {sfo : Option Nat}
    (he : taskDoneTail m g u o sfo = some st') (x : Nat)
    (h : (st'.scopes x).cancelCalled = true) :
    (m.scopes x).cancelCalled = true ∨
      (o ≠ .none ∧ x = (m.groups g).scope ∧ effCancelled m x = false ∧
        ∀ sf, sfo = some sf → (m.futs sf).done = true ∧
          ¬ (o.isCancelledError = true ∧ ∃ a, m.futs sf = .cancelled a)) := by
  have key : ∀ (m' : State), m'.scopes = m.scopes → m'.futs = m.futs →
      ((if effCancelled m' (m.groups g).scope = true then m'
        else cancelScope m' (m.groups g).scope false).scopes x).cancelCalled = true →
      (m.scopes x).cancelCalled = true ∨
        (x = (m.groups g).scope ∧ effCancelled m x = false) := by
    intro m' hsc _ hc
    have heff : effCancelled m' (m.groups g).scope = effCancelled m (m.groups g).scope :=
      effCancelled_congr (SameWalk.of_scopes_eq hsc).nav _
    split at hc
    · left; rw [hsc] at hc; exact hc
    · rename_i hne
      rcases cc_cancelScope _ _ _ _ hc with h1 | h1
      · left; rw [hsc] at h1; exact h1
      · right
        refine ⟨h1, ?_⟩
        rw [h1, ← heff]
        simpa using hne
  by_cases ho : o = .none
  · -- the coroutine returned
    subst ho
    left
    unfold taskDoneTail at he
    simp only [] at he
    split at he
    · split at he
      · simp only [Option.some.injEq] at he; subst he; exact h
      · simp only [Option.some.injEq] at he; subst he
        exact (NC.of_frame (frame_resolveFut _ _ _)).cc x h
    · simp only [Option.some.injEq] at he; subst he; exact h
  · rw [taskDoneTail_err m g u o sfo ho] at he
    unfold taskDoneTailErr at he
    simp only [] at he
    have fin : ∀ st'', some (if effCancelled (if o.isCancelledError then m else routeErr m g u o)
          (m.groups g).scope then (if o.isCancelledError then m else routeErr m g u o)
        else cancelScope (if o.isCancelledError then m else routeErr m g u o)
          (m.groups g).scope false) = some st'' → (st''.scopes x).cancelCalled = true →
        (m.scopes x).cancelCalled = true ∨
          (x = (m.groups g).scope ∧ effCancelled m x = false) := by
      intro st'' he' h'
      simp only [Option.some.injEq] at he'; subst he'
      by_cases hce : o.isCancelledError = true
      · simp only [hce, if_true] at h'
        exact key _ rfl rfl h'
      · simp only [hce, Bool.false_eq_true, if_false] at h'
        exact key (routeErr m g u o) rfl rfl h'
    split at he
    · rcases fin _ he h with hk | ⟨hx, heff⟩
      · exact .inl hk
      · exact .inr ⟨ho, hx, heff, fun sf' hsf => by cases hsf⟩
    · rename_i sf
      split at he
      · simp only [Option.some.injEq] at he; subst he; exact .inl h
      · rename_i hnc
        split at he
        · rename_i hdone
          rcases fin _ he h with hk | ⟨hx, heff⟩
          · exact .inl hk
          · right
            refine ⟨ho, hx, heff, ?_⟩
            intro sf' hsf
            cases hsf
            refine ⟨hdone, ?_⟩
            rintro ⟨hce, a, ha⟩
            apply hnc
            rw [ha]
            exact ⟨rfl, hce⟩
        · simp only [Option.some.injEq] at he; subst he
          exact .inl ((NC.of_frame (frame_resolveFut _ _ _)).cc x h)

/-- what `task_done` has done before it looks at the outcome, relative to the state before -/
theorem taskDoneMid_facts (st : State) (sc g u : Nat) :
    let pre := ((st.setScope sc (fun x => { x with tasks := x.tasks.erase u })).setGroup g
      (fun x => { x with tasks := x.tasks.erase u })).setTask u
      (fun x => { x with hasState := false, scope := none, doneCbRun := true })
    let mid := taskDoneMid pre g
    SameNav st mid ∧ (mid.groups g).scope = (st.groups g).scope ∧
      (∀ sf, (mid.futs sf).done = true →
        (st.futs sf).done = true ∨ (st.groups g).onCompleted = some sf) ∧
      (∀ sf a, st.futs sf = .cancelled a → mid.futs sf = .cancelled a) := by
  intro pre mid
  have hnav0 : SameNav st pre := by
    intro i
    show ((upd st.scopes sc _) i).nav = _
    by_cases hi : i = sc
    · subst hi; simp [Scope.nav]
    · simp [hi]
  have hg : (pre.groups g).scope = (st.groups g).scope ∧
      (pre.groups g).onCompleted = (st.groups g).onCompleted := by
    simp [pre]
  have hf : pre.futs = st.futs := rfl
  have hfr : Frame pre mid := by
    show Frame pre (taskDoneMid pre g)
    unfold taskDoneMid
    split
    · split
      · exact frame_resolveFut _ _ _
      · exact Frame.refl _
    · exact Frame.refl _
  have hd : DFrame pre mid := by
    show DFrame pre (taskDoneMid pre g)
    unfold taskDoneMid
    split
    · split
      · exact DFrame.resolveFut _ _ _
      · exact DFrame.refl _
    · exact DFrame.refl _
  refine ⟨hnav0.trans hd.sameNav, by rw [hfr.groups]; exact hg.1, ?_, ?_⟩
  · intro sf hdone
    have : (pre.futs sf).done = true ∨ (pre.groups g).onCompleted = some sf := by
      change (((taskDoneMid pre g).futs sf).done = true) at hdone
      unfold taskDoneMid at hdone
      split at hdone
      · rename_i f hf'
        split at hdone
        · rw [rf_futs] at hdone
          split at hdone
          · rename_i hc; right; rw [hf', hc.1]
          · exact .inl hdone
        · exact .inl hdone
      · exact .inl hdone
    rw [hf, hg.2] at this
    exact this
  · intro sf a ha
    have h1 : (pre.futs sf).done = true := by rw [hf, ha]; rfl
    rw [hfr.futs sf h1, hf, ha]

/-- **the `task_done` callback.**  If running it newly cancels scope `x`, then `x` is the scope of
the child's group, the child ended with an exception (cancellation included), the group scope was
not effectively cancelled, and the exception was not handed to a start future: the start future, if
there is one, was already done (or is the very future the callback has just resolved as the
group's `_on_completed_fut` — excluded in reachable states), and not "cancelled, with a
cancellation outcome". -/
theorem cc_runTaskDone {st st' : State} {u : Nat} (he : runTaskDone st u = some st') (x : Nat)
    (h : (st'.scopes x).cancelCalled = true) :
    (st.scopes x).cancelCalled = true ∨
      ∃ g o, (st.tasks u).group = some g ∧ (st.tasks u).outcome = some o ∧ o ≠ .none ∧
        x = (st.groups g).scope ∧ effCancelled st x = false ∧
        ∀ sf, (st.tasks u).startFut = some sf →
          ((st.futs sf).done = true ∨ (st.groups g).onCompleted = some sf) ∧
          ¬ (o.isCancelledError = true ∧ ∃ a, st.futs sf = .cancelled a) := by
  rw [runTaskDone_eq] at he
  split at he
  · rename_i g sc o hg hsc ho
    obtain ⟨hnav, hgs, hdn, hcn⟩ := taskDoneMid_facts st sc g u
    rcases cc_taskDoneTail he x h with h1 | ⟨hne, hx, heff, hsf⟩
    · exact .inl ((NC.of_sameNav hnav).cc x h1)
    · right
      refine ⟨g, o, hg, ho, hne, hx.trans hgs, ?_, ?_⟩
      · rw [← effCancelled_congr hnav x]; exact heff
      · intro sf hs
        obtain ⟨h1, h2⟩ := hsf sf hs
        refine ⟨hdn sf h1, ?_⟩
        rintro ⟨hce, a, ha⟩
        exact h2 ⟨hce, a, hcn sf a ha⟩
  · contradiction

end AnyioModel.Kernel
