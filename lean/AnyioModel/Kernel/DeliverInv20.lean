/-
Delivery of cancellation, part 20: `QR` (see part 18) for the helpers of `Kernel/Step.lean`.
`WF`, `DI` and "the blocked task has no `_must_cancel`" are threaded to the places where
`cancel()` is called in the middle of a transition.
-/
import AnyioModel.Kernel.DeliverInv19

namespace AnyioModel.Kernel

/-- peel one layer off the later state -/
macro "qr1" : tactic => `(tactic| first
  | qr0
  | refine QR.trans ?_ (qr_doYield _ _)
  | refine QR.trans ?_ (qr_blockOn _ ‹_› _)
  | refine QR.trans ?_ (qr_foldl_resolveFut _ _ _)
  | refine QR.trans ?_ (QR.of_frame (frame_resolveFut _ _ _))
  | refine QR.trans ?_ (QR.of_frame (frame_taskCancel _ _ _))
  | refine QR.trans ?_ (QR.of_frame (frame_taskUncancel _ _ _))
  | refine QR.trans ?_ (QR.of_frame (frame_deliver _ _))
  | refine QR.trans ?_ (QR.of_frame (frame_restartInParent _ _))
  | refine QR.trans ?_ (qr_setShield_true _ _))

macro "qr" : tactic => `(tactic| repeat qr1)

theorem run_ne_of_wfr {st : State} {u tb : Nat} (w : WFR st u) (hut : u ≠ tb) :
    st.running ≠ some tb := by
  rw [w.2]; intro h; exact hut (Option.some.inj h)

theorem QH.setGroup {tb f : Nat} {st : State} (q : QH tb f st) (g : Nat) (k : Group → Group) :
    QH tb f (st.setGroup g k) :=
  ⟨q.tree.congr rfl (fun _ => ⟨rfl, rfl, rfl, rfl, rfl⟩), q.host, q.bw, q.bm, q.run⟩

/-! ### `TaskGroup.__aexit__` -/

theorem qr_aexitFinish {tb f c : Nat} {st st' : State} {u g : Nat} {ev : ExcVal} {o : Out}
    (w : WF st) (hut : u ≠ tb) (he : aexitFinish st u g ev = some (st', o)) :
    QR tb f c st st' := by
  unfold aexitFinish at he
  simp only [] at he
  split at he
  · contradiction
  · rename_i st1 r hex
    simp only [Option.some.injEq, Prod.mk.injEq] at he
    obtain ⟨rfl, _⟩ := he
    have h1 : QR tb f c st st1 := qr_exitScope w hut hex
    qr

theorem qr_aexitLoop {tb f c : Nat} {st st' : State} {u g ws : Nat} {ev : ExcVal} {o : Out}
    (w : WF st) (hut : u ≠ tb) (he : aexitLoop st u g ws ev = some (st', o)) :
    QR tb f c st st' := by
  unfold aexitLoop at he
  split at he
  · simp only [Option.some.injEq, Prod.mk.injEq] at he
    obtain ⟨rfl, _⟩ := he
    qr
  · split at he
    · contradiction
    · rename_i st1 r hex
      exact (qr_exitScope w hut hex).trans (qr_aexitFinish (wf_exitScope w hex) hut he)

theorem qr_aexitAfterChk {tb f c : Nat} {st st' : State} {u g : Nat} {ev : ExcVal} {o : Out}
    (w : WFR st u) (hut : u ≠ tb) (he : aexitAfterChk st u g ev = some (st', o)) :
    QR tb f c st st' := by
  unfold aexitAfterChk at he
  split at he
  · simp only [] at he
    split at he
    · contradiction
    · rename_i st1 hen
      have w1 := w.mkScope false none
      exact ((qr_newScope st false none).trans (qr_enterScope w1.1.1 hut hen)).trans
        (qr_aexitLoop (w1.1.enterScope w1.2 hen).1 hut he)
  · exact qr_aexitFinish w.1 hut he

/-! ### `task_done` -/

theorem qr_taskDoneTail {tb f c : Nat} {st st' : State} {g u : Nat} {o : Outcome}
    {sfo : Option Nat} (q : QH tb f st) (he : taskDoneTail st g u o sfo = some st') :
    QR tb f c st st' := by
  unfold taskDoneTail at he
  simp only [] at he
  repeat' (split at he)
  all_goals
    simp only [Option.some.injEq] at he
    subst he
    first
    | exact QR.refl _ _ _ _
    | exact QR.of_frame (frame_resolveFut _ _ _)
    | exact qr_setGroup _ _ _
    | exact qr_cancelScope q _ _
    | exact (qr_setGroup _ _ _).trans (qr_cancelScope (q.setGroup _ _) _ _)

theorem qr_runTaskDone {tb f c : Nat} {st st' : State} {u : Nat} (w : WF st) (d : DI st)
    (bm : (st.tasks tb).st = .blocked f → (st.tasks tb).mustCancel = false)
    (hrun : st.running ≠ some tb) (he : runTaskDone st u = some st') : QR tb f c st st' := by
  rw [runTaskDone_eq] at he
  split at he
  · rename_i g sc o hg hsc ho
    have hd := w.outcome_done u (by simp [ho])
    have w1 := wf_taskDoneCore (g := g) w hsc hd
    -- the state in which the tail (and its `cancel()`) runs
    have hmid : WF (taskDoneMid (((st.setScope sc (fun x => { x with tasks := x.tasks.erase u })).setGroup g
        (fun x => { x with tasks := x.tasks.erase u })).setTask u
        (fun x => { x with hasState := false, scope := none, doneCbRun := true })) g) := by
      unfold taskDoneMid
      split
      · split
        · exact wf_frame w1 (frame_resolveFut _ _ _)
        · exact w1
      · exact w1
    have srm : SR st (taskDoneMid (((st.setScope sc (fun x => { x with tasks := x.tasks.erase u })).setGroup g
        (fun x => { x with tasks := x.tasks.erase u })).setTask u
        (fun x => { x with hasState := false, scope := none, doneCbRun := true })) g) := by
      unfold taskDoneMid
      split
      · split <;> sr
      · sr
    have hcore : QR tb f c st (((st.setScope sc (fun x => { x with tasks := x.tasks.erase u })).setGroup g
        (fun x => { x with tasks := x.tasks.erase u })).setTask u
        (fun x => { x with hasState := false, scope := none, doneCbRun := true })) := by
      refine QR.trans ?_ (qr_setTask _ _ _ (fun x => by simp))
      refine QR.trans ?_ (qr_setGroup _ _ _)
      refine qr_setScope _ _ _ (fun x => ⟨fun h => ⟨h, rfl, fun h' => h', rfl⟩, ?_⟩)
      intro v hv; exact List.mem_of_mem_erase hv
    have qrm : QR tb f c st (taskDoneMid (((st.setScope sc (fun x => { x with tasks := x.tasks.erase u })).setGroup g
        (fun x => { x with tasks := x.tasks.erase u })).setTask u
        (fun x => { x with hasState := false, scope := none, doneCbRun := true })) g) := by
      unfold taskDoneMid
      split
      · split
        · exact hcore.trans (QR.of_frame (frame_resolveFut _ _ _))
        · exact hcore
      · exact hcore
    have hrm : (taskDoneMid (((st.setScope sc (fun x => { x with tasks := x.tasks.erase u })).setGroup g
        (fun x => { x with tasks := x.tasks.erase u })).setTask u
        (fun x => { x with hasState := false, scope := none, doneCbRun := true })) g).running =
        st.running := by
      unfold taskDoneMid
      split
      · split
        · rw [(frame_resolveFut _ _ _).running]; rfl
        · rfl
      · rfl
    have bcore : BW (((st.setScope sc (fun x => { x with tasks := x.tasks.erase u })).setGroup g
        (fun x => { x with tasks := x.tasks.erase u })).setTask u
        (fun x => { x with hasState := false, scope := none, doneCbRun := true })) := by
      intro v k hv
      refine d.bw v k ?_
      by_cases hvu : v = u
      · subst hvu; simpa using hv
      · simpa [hvu] using hv
    have dm : BW (taskDoneMid (((st.setScope sc (fun x => { x with tasks := x.tasks.erase u })).setGroup g
        (fun x => { x with tasks := x.tasks.erase u })).setTask u
        (fun x => { x with hasState := false, scope := none, doneCbRun := true })) g) := by
      unfold taskDoneMid
      split
      · split
        · exact bw_resolveFut bcore _ _
        · exact bcore
      · exact bcore
    exact qrm.trans (qr_taskDoneTail
      (QH.of_wf hmid dm (bm_of_sr srm bm) (by rw [hrm]; exact hrun)) he)
  · contradiction

end AnyioModel.Kernel
