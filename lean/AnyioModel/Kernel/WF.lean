/-
The shared well-formedness invariant `WF` of the kernel model, part 1: definition, consequences,
and preservation by everything that is a `CFrame` (the cancellation machinery).
-/
import AnyioModel.Kernel.Frame

namespace AnyioModel.Kernel

/-- the id carried by a handle is allocated -/
def HandleOk (st : State) : Handle → Prop
  | .step t => t < st.nTasks
  | .wakeup t => t < st.nTasks
  | .deliver s => s < st.nScopes
  | .timeout s => s < st.nScopes
  | .sleepDone f => f < st.nFuts
  | .taskDone t => t < st.nTasks

structure WF (st : State) : Prop where
  -- ids
  task_dflt : ∀ t, st.nTasks ≤ t → (st.tasks t).st = .created ∧ (st.tasks t).hasState = false ∧
    (st.tasks t).scope = none ∧ (st.tasks t).hscope = none ∧ (st.tasks t).group = none ∧
    (st.tasks t).startFut = none ∧ (st.tasks t).outcome = none
  scope_exists : ∀ s, (st.scopes s).exists_ = true ↔ s < st.nScopes
  deadline_exists : ∀ s, (st.scopes s).deadline.isSome → (st.scopes s).exists_ = true
  group_dflt : ∀ g, st.nGroups ≤ g → (st.groups g).tasks = [] ∧ (st.groups g).spawned = []
  ready_ok : ∀ h ∈ st.ready, HandleOk st h
  cur_ok : ∀ h ∈ st.cur, HandleOk st h
  timers_ok : ∀ p ∈ st.timers, HandleOk st p.2
  futWaiter_lt : ∀ f t, st.futWaiter f = some t → f < st.nFuts ∧ t < st.nTasks
  hscope_lt : ∀ t s, (st.tasks t).hscope = some s → s < st.nScopes
  group_scope_lt : ∀ g, g < st.nGroups → (st.groups g).scope < st.nScopes
  group_tasks_lt : ∀ g t, t ∈ (st.groups g).tasks ∨ t ∈ (st.groups g).spawned → t < st.nTasks
  task_group_lt : ∀ t g, (st.tasks t).group = some g → g < st.nGroups
  -- scope forest
  not_entered : ∀ s, (st.scopes s).entered = false → (st.scopes s).active = false ∧
    (st.scopes s).host = none ∧ (st.scopes s).tasks = [] ∧ (st.scopes s).children = [] ∧
    (st.scopes s).parent = none ∧ (st.scopes s).chain = []
  entered_exists : ∀ s, (st.scopes s).entered = true → (st.scopes s).exists_ = true
  active_entered : ∀ s, (st.scopes s).active = true → (st.scopes s).entered = true
  child_spec : ∀ p c, c ∈ (st.scopes p).children →
    (st.scopes c).active = true ∧ (st.scopes c).parent = some p
  child_conv : ∀ p c, (st.scopes c).active = true → (st.scopes c).parent = some p →
    c ∈ (st.scopes p).children
  chain_spec : ∀ s, (st.scopes s).entered = true → (st.scopes s).chain =
    s :: (match (st.scopes s).parent with | none => [] | some p => (st.scopes p).chain)
  chain_entered : ∀ s x, x ∈ (st.scopes s).chain → (st.scopes x).entered = true
  chain_nodup : ∀ s, (st.scopes s).chain.Nodup
  parent_entered : ∀ s p, (st.scopes s).parent = some p → (st.scopes p).entered = true
  -- membership
  task_scope : ∀ t s, (st.tasks t).scope = some s → (st.tasks t).hasState = true
  tasks_mem : ∀ s t, t ∈ (st.scopes s).tasks ↔
    ((st.tasks t).hasState = true ∧ (st.tasks t).scope = some s)
  tasks_nodup : ∀ s, (st.scopes s).tasks.Nodup
  children_nodup : ∀ s, (st.scopes s).children.Nodup
  -- hosts
  host_active : ∀ s, (st.scopes s).host.isSome = (st.scopes s).active
  host_scope : ∀ s t, (st.scopes s).host = some t →
    ((st.tasks t).hasState = true ∧
      ∃ s0, (st.tasks t).scope = some s0 ∧ s ∈ (st.scopes s0).chain) ∨ (st.tasks t).st = .done
  host_started : ∀ s t, (st.scopes s).host = some t → (st.tasks t).st ≠ .created
  -- the running task
  running_spec : ∀ t, st.running = some t ↔ (st.tasks t).st = .running
  outcome_done : ∀ t, (st.tasks t).outcome.isSome → (st.tasks t).st = .done

/-! ### consequences -/

namespace WF
variable {st : State} (h : WF st)
include h

theorem entered_lt {s : Nat} (he : (st.scopes s).entered = true) : s < st.nScopes :=
  (h.scope_exists s).mp (h.entered_exists s he)

theorem active_lt {s : Nat} (ha : (st.scopes s).active = true) : s < st.nScopes :=
  h.entered_lt (h.active_entered s ha)

theorem chain_lt {s x : Nat} (hx : x ∈ (st.scopes s).chain) : x < st.nScopes :=
  h.entered_lt (h.chain_entered s x hx)

theorem children_lt {p c : Nat} (hc : c ∈ (st.scopes p).children) : c < st.nScopes :=
  h.active_lt (h.child_spec p c hc).1

theorem parent_lt {s p : Nat} (hp : (st.scopes s).parent = some p) : p < st.nScopes :=
  h.entered_lt (h.parent_entered s p hp)

theorem scope_dflt {s : Nat} (hs : st.nScopes ≤ s) :
    (st.scopes s).exists_ = false ∧ (st.scopes s).entered = false ∧
      (st.scopes s).active = false ∧ (st.scopes s).host = none ∧ (st.scopes s).tasks = [] ∧
      (st.scopes s).children = [] ∧ (st.scopes s).parent = none ∧ (st.scopes s).chain = [] ∧
      (st.scopes s).deadline = none := by
  have h1 : (st.scopes s).exists_ = false := by
    have := h.scope_exists s
    cases hx : (st.scopes s).exists_ <;> simp_all; omega
  have h2 : (st.scopes s).entered = false := by
    have := h.entered_exists s
    cases hx : (st.scopes s).entered <;> simp_all
  have h3 := h.not_entered s h2
  have h4 : (st.scopes s).deadline = none := by
    have := h.deadline_exists s
    cases hx : (st.scopes s).deadline <;> simp_all
  exact ⟨h1, h2, h3.1, h3.2.1, h3.2.2.1, h3.2.2.2.1, h3.2.2.2.2.1, h3.2.2.2.2.2, h4⟩

theorem entered_of_task_scope {t s : Nat} (hs : (st.tasks t).scope = some s) :
    (st.scopes s).entered = true := by
  have hm := (h.tasks_mem s t).mpr ⟨h.task_scope t s hs, hs⟩
  cases he : (st.scopes s).entered
  · have := (h.not_entered s he).2.2.1
    simp [this] at hm
  · rfl

theorem task_scope_lt {t s : Nat} (hs : (st.tasks t).scope = some s) : s < st.nScopes :=
  h.entered_lt (h.entered_of_task_scope hs)

theorem scope_tasks_lt {s t : Nat} (ht : t ∈ (st.scopes s).tasks) : t < st.nTasks := by
  have := (h.tasks_mem s t).mp ht
  apply Classical.byContradiction
  intro hlt
  have := h.task_dflt t (by omega)
  simp_all

theorem running_lt {t : Nat} (hr : st.running = some t) : t < st.nTasks := by
  have := (h.running_spec t).mp hr
  apply Classical.byContradiction
  intro hlt
  have := h.task_dflt t (by omega)
  simp_all

theorem host_lt {s t : Nat} (hs : (st.scopes s).host = some t) : t < st.nTasks := by
  have := h.host_started s t hs
  apply Classical.byContradiction
  intro hlt
  have := h.task_dflt t (by omega)
  simp_all

/-- at most the running task has `st = .running` -/
theorem running_unique {t u : Nat} (ht : (st.tasks t).st = .running)
    (hu : (st.tasks u).st = .running) : t = u := by
  have h1 := (h.running_spec t).mpr ht
  have h2 := (h.running_spec u).mpr hu
  simp_all

theorem child_chain {p c : Nat} (hc : c ∈ (st.scopes p).children) :
    (st.scopes c).chain = c :: (st.scopes p).chain := by
  have ⟨ha, hp⟩ := h.child_spec p c hc
  have := h.chain_spec c (h.active_entered c ha)
  simpa [hp] using this

theorem chain_head {s : Nat} (he : (st.scopes s).entered = true) :
    (st.scopes s).chain.head? = some s := by
  rw [h.chain_spec s he]; rfl

theorem parent_eq_chain {s : Nat} :
    (st.scopes s).parent = (st.scopes s).chain.tail.head? := by
  cases he : (st.scopes s).entered
  · have := h.not_entered s he; simp [this]
  · rw [h.chain_spec s he]
    cases hp : (st.scopes s).parent with
    | none => simp
    | some p =>
      simp only [List.tail_cons]
      rw [h.chain_spec p (h.parent_entered s p hp)]; rfl

theorem parent_ne {s : Nat} : (st.scopes s).parent ≠ some s := by
  intro hp
  have he := h.parent_entered s s hp
  have := h.chain_spec s he
  rw [hp] at this
  have := congrArg List.length this
  simp at this

theorem host_isSome_of_active {s : Nat} (ha : (st.scopes s).active = true) :
    ∃ t, (st.scopes s).host = some t := by
  have := h.host_active s
  rw [ha] at this
  exact Option.isSome_iff_exists.mp this

end WF

/-! ### `init` -/

theorem wf_init : WF init := by
  have key : ∀ t : Nat, (if t = 0 then ({ st := TSt.running } : Task) else {}).hasState = false ∧
      (if t = 0 then ({ st := TSt.running } : Task) else {}).scope = none ∧
      (if t = 0 then ({ st := TSt.running } : Task) else {}).group = none ∧
      (if t = 0 then ({ st := TSt.running } : Task) else {}).hscope = none ∧
      (if t = 0 then ({ st := TSt.running } : Task) else {}).outcome = none := by
    intro t; split <;> simp
  constructor <;> simp [init, HandleOk, key]
  · intro t ht; have : t ≠ 0 := by omega
    simp [this]
  · intro t
    by_cases ht : t = 0
    · simp [ht]
    · simp [ht]; omega

/-! ### the cancellation machinery preserves `WF` -/

theorem wf_cframe {a b : State} (h : WF a) (f : CFrame a b) : WF b := by
  have hS := f.scopes
  have hT := f.tasks
  have ok : ∀ x, HandleOk a x → HandleOk b x := by
    intro x hx; cases x <;> simp only [HandleOk, f.nTasks, f.nScopes, f.nFuts] at hx ⊢ <;> exact hx
  have newOk : ∀ x, NewH a x → HandleOk a x := by
    intro x hx
    rcases hx with ⟨t, g, rfl, hg⟩ | ⟨s, rfl, hs⟩
    · simp only [HandleOk]
      apply Classical.byContradiction; intro hlt
      have := h.task_dflt t (by omega)
      rcases hg with hg | hg <;> simp [this.1] at hg
    · simp only [HandleOk]
      apply Classical.byContradiction; intro hlt
      have := h.scope_dflt (s := s) (by omega)
      simp [this] at hs
  constructor
  · intro t ht
    have := h.task_dflt t (by rw [← f.nTasks]; exact ht)
    have e := hT t
    refine ⟨?_, by rw [e.hasState]; exact this.2.1, by rw [e.scope]; exact this.2.2.1,
      by rw [e.hscope]; exact this.2.2.2.1, by rw [e.group]; exact this.2.2.2.2.1,
      by rw [e.startFut]; exact this.2.2.2.2.2.1, by rw [e.outcome]; exact this.2.2.2.2.2.2⟩
    exact e.st_created.mpr this.1
  · intro s; rw [(hS s).exists_, f.nScopes]; exact h.scope_exists s
  · intro s; rw [(hS s).exists_, (hS s).deadline]; exact h.deadline_exists s
  · intro g; rw [f.groups, f.nGroups]; exact h.group_dflt g
  · intro x hx
    rcases f.ready x hx with hx | hx
    · exact ok x (h.ready_ok x hx)
    · exact ok x (newOk x hx)
  · intro x hx; exact ok x (h.cur_ok x (f.cur x hx))
  · intro p hp
    rcases f.timers p hp with hp | ⟨s, hs, hd⟩
    · exact ok _ (h.timers_ok p hp)
    · rw [hs]; simp only [HandleOk, f.nScopes]
      exact (h.scope_exists s).mp (h.deadline_exists s hd)
  · intro g t; rw [f.futWaiter, f.nFuts, f.nTasks]; exact h.futWaiter_lt g t
  · intro t s; rw [(hT t).hscope, f.nScopes]; exact h.hscope_lt t s
  · intro g; rw [f.groups, f.nGroups, f.nScopes]; exact h.group_scope_lt g
  · intro g t; rw [f.groups, f.nTasks]; exact h.group_tasks_lt g t
  · intro t g; rw [(hT t).group, f.nGroups]; exact h.task_group_lt t g
  · intro s; rw [(hS s).entered, (hS s).active, (hS s).host, (hS s).tasks, (hS s).children,
      (hS s).parent, (hS s).chain]; exact h.not_entered s
  · intro s; rw [(hS s).entered, (hS s).exists_]; exact h.entered_exists s
  · intro s; rw [(hS s).entered, (hS s).active]; exact h.active_entered s
  · intro p c; rw [(hS p).children, (hS c).active, (hS c).parent]; exact h.child_spec p c
  · intro p c; rw [(hS p).children, (hS c).active, (hS c).parent]; exact h.child_conv p c
  · intro s; rw [(hS s).entered, (hS s).chain, (hS s).parent]
    intro he
    rw [h.chain_spec s he]
    cases (a.scopes s).parent with
    | none => rfl
    | some p => simp only [(hS p).chain]
  · intro s x; rw [(hS s).chain, (hS x).entered]; exact h.chain_entered s x
  · intro s; rw [(hS s).chain]; exact h.chain_nodup s
  · intro s p; rw [(hS s).parent, (hS p).entered]; exact h.parent_entered s p
  · intro t s; rw [(hT t).scope, (hT t).hasState]; exact h.task_scope t s
  · intro s t; rw [(hS s).tasks, (hT t).scope, (hT t).hasState]; exact h.tasks_mem s t
  · intro s; rw [(hS s).tasks]; exact h.tasks_nodup s
  · intro s; rw [(hS s).children]; exact h.children_nodup s
  · intro s; rw [(hS s).host, (hS s).active]; exact h.host_active s
  · intro s t; rw [(hS s).host, (hT t).scope, (hT t).hasState, (hT t).st_done]
    intro hh
    rcases h.host_scope s t hh with ⟨h1, s0, h2, h3⟩ | h1
    · exact .inl ⟨h1, s0, h2, by rw [(hS s0).chain]; exact h3⟩
    · exact .inr h1
  · intro s t; rw [(hS s).host, ne_eq, (hT t).st_created]; exact h.host_started s t
  · intro t; rw [f.running, (hT t).st_running]; exact h.running_spec t
  · intro t; rw [(hT t).outcome, (hT t).st_done]; exact h.outcome_done t

theorem wf_frame {a b : State} (h : WF a) (f : Frame a b) : WF b := wf_cframe h f.cframe

/-! ### the forest part of `WF`, as a predicate on the two maps it talks about -/

structure Forest (sc : Nat → Scope) (tk : Nat → Task) : Prop where
  not_entered : ∀ s, (sc s).entered = false → (sc s).active = false ∧
    (sc s).host = none ∧ (sc s).tasks = [] ∧ (sc s).children = [] ∧
    (sc s).parent = none ∧ (sc s).chain = []
  entered_exists : ∀ s, (sc s).entered = true → (sc s).exists_ = true
  active_entered : ∀ s, (sc s).active = true → (sc s).entered = true
  child_spec : ∀ p c, c ∈ (sc p).children → (sc c).active = true ∧ (sc c).parent = some p
  child_conv : ∀ p c, (sc c).active = true → (sc c).parent = some p → c ∈ (sc p).children
  chain_spec : ∀ s, (sc s).entered = true → (sc s).chain =
    s :: (match (sc s).parent with | none => [] | some p => (sc p).chain)
  chain_entered : ∀ s x, x ∈ (sc s).chain → (sc x).entered = true
  chain_nodup : ∀ s, (sc s).chain.Nodup
  parent_entered : ∀ s p, (sc s).parent = some p → (sc p).entered = true
  task_scope : ∀ t s, (tk t).scope = some s → (tk t).hasState = true
  tasks_mem : ∀ s t, t ∈ (sc s).tasks ↔ ((tk t).hasState = true ∧ (tk t).scope = some s)
  tasks_nodup : ∀ s, (sc s).tasks.Nodup
  children_nodup : ∀ s, (sc s).children.Nodup
  host_active : ∀ s, (sc s).host.isSome = (sc s).active
  host_scope : ∀ s t, (sc s).host = some t →
    ((tk t).hasState = true ∧ ∃ s0, (tk t).scope = some s0 ∧ s ∈ (sc s0).chain) ∨
      (tk t).st = .done
  host_started : ∀ s t, (sc s).host = some t → (tk t).st ≠ .created

theorem WF.forest {st : State} (h : WF st) : Forest st.scopes st.tasks :=
  ⟨h.not_entered, h.entered_exists, h.active_entered, h.child_spec, h.child_conv, h.chain_spec,
    h.chain_entered, h.chain_nodup, h.parent_entered, h.task_scope, h.tasks_mem, h.tasks_nodup,
    h.children_nodup, h.host_active, h.host_scope, h.host_started⟩

/-- the forest part only looks at `hasState`, `scope`, and whether `st` is `created`/`done` -/
theorem Forest.congr_tasks {sc : Nat → Scope} {tk tk' : Nat → Task} (h : Forest sc tk)
    (hk : ∀ t, (tk' t).hasState = (tk t).hasState ∧ (tk' t).scope = (tk t).scope ∧
      ((tk' t).st = .done ↔ (tk t).st = .done) ∧ ((tk' t).st = .created ↔ (tk t).st = .created)) :
    Forest sc tk' := by
  constructor
  · exact h.not_entered
  · exact h.entered_exists
  · exact h.active_entered
  · exact h.child_spec
  · exact h.child_conv
  · exact h.chain_spec
  · exact h.chain_entered
  · exact h.chain_nodup
  · exact h.parent_entered
  · intro t s; rw [(hk t).1, (hk t).2.1]; exact h.task_scope t s
  · intro s t; rw [(hk t).1, (hk t).2.1]; exact h.tasks_mem s t
  · exact h.tasks_nodup
  · exact h.children_nodup
  · exact h.host_active
  · intro s t; rw [(hk t).1, (hk t).2.1, (hk t).2.2.1]; exact h.host_scope s t
  · intro s t; rw [ne_eq, (hk t).2.2.2]; exact h.host_started s t

theorem HandleOk.mono {a b : State} (h1 : a.nTasks ≤ b.nTasks) (h2 : a.nScopes ≤ b.nScopes)
    (h3 : a.nFuts ≤ b.nFuts) {x : Handle} (hx : HandleOk a x) : HandleOk b x := by
  cases x <;> simp only [HandleOk] at hx ⊢ <;> omega

/-- rebuild `WF` after an update that keeps all counters, `groups`, `futWaiter`, `running`,
does not add handles, and keeps `st`, `hscope`, `group`, `startFut`, `outcome` of every task and
`exists_`, `deadline` of every scope: only the forest part has to be re-proved -/
theorem WF.of_forest {a b : State} (h : WF a)
    (nT : b.nTasks = a.nTasks) (nS : b.nScopes = a.nScopes) (nF : b.nFuts = a.nFuts)
    (nG : b.nGroups = a.nGroups) (gr : b.groups = a.groups) (fw : b.futWaiter = a.futWaiter)
    (ru : b.running = a.running)
    (rd : ∀ x ∈ b.ready, x ∈ a.ready) (cu : ∀ x ∈ b.cur, x ∈ a.cur)
    (ti : ∀ x ∈ b.timers, x ∈ a.timers)
    (tk : ∀ t, (b.tasks t).st = (a.tasks t).st ∧ (b.tasks t).hscope = (a.tasks t).hscope ∧
      (b.tasks t).group = (a.tasks t).group ∧ (b.tasks t).startFut = (a.tasks t).startFut ∧
      (b.tasks t).outcome = (a.tasks t).outcome)
    (tk2 : ∀ t, a.nTasks ≤ t → (b.tasks t).hasState = (a.tasks t).hasState ∧
      (b.tasks t).scope = (a.tasks t).scope)
    (sc : ∀ s, (b.scopes s).exists_ = (a.scopes s).exists_ ∧
      (b.scopes s).deadline = (a.scopes s).deadline)
    (hf : Forest b.scopes b.tasks) : WF b := by
  have ok : ∀ x, HandleOk a x → HandleOk b x :=
    fun x hx => hx.mono (by omega) (by omega) (by omega)
  constructor
  · intro t ht
    have := h.task_dflt t (by omega)
    have e := tk t
    have e2 := tk2 t (by omega)
    rw [e.1, e2.1, e2.2, e.2.1, e.2.2.1, e.2.2.2.1, e.2.2.2.2]; exact this
  · intro s; rw [(sc s).1, nS]; exact h.scope_exists s
  · intro s; rw [(sc s).1, (sc s).2]; exact h.deadline_exists s
  · intro g; rw [gr, nG]; exact h.group_dflt g
  · exact fun x hx => ok x (h.ready_ok x (rd x hx))
  · exact fun x hx => ok x (h.cur_ok x (cu x hx))
  · exact fun x hx => ok _ (h.timers_ok x (ti x hx))
  · intro f t; rw [fw, nF, nT]; exact h.futWaiter_lt f t
  · intro t s; rw [(tk t).2.1, nS]; exact h.hscope_lt t s
  · intro g; rw [gr, nG, nS]; exact h.group_scope_lt g
  · intro g t; rw [gr, nT]; exact h.group_tasks_lt g t
  · intro t g; rw [(tk t).2.2.1, nG]; exact h.task_group_lt t g
  · exact hf.not_entered
  · exact hf.entered_exists
  · exact hf.active_entered
  · exact hf.child_spec
  · exact hf.child_conv
  · exact hf.chain_spec
  · exact hf.chain_entered
  · exact hf.chain_nodup
  · exact hf.parent_entered
  · exact hf.task_scope
  · exact hf.tasks_mem
  · exact hf.tasks_nodup
  · exact hf.children_nodup
  · exact hf.host_active
  · exact hf.host_scope
  · exact hf.host_started
  · intro t; rw [ru, (tk t).1]; exact h.running_spec t
  · intro t; rw [(tk t).2.2.2.2, (tk t).1]; exact h.outcome_done t

end AnyioModel.Kernel
