/-
Delivery of cancellation, part 15: every transition preserves `XI`; `xi_reach`; and what it gives:
in a reachable state every scope on the chain of a scope that holds a task is active, hence an
effectively cancelled scope that holds a task is reached by the delivery of an active cancelled
scope (`origin_of_effCancelled`).
-/
import AnyioModel.Kernel.DeliverInv14

namespace AnyioModel.Kernel

/-- the task ends without ever having run: its library frame is kept -/
theorem xi_setDone' {st : State} (h : XI st) (t : Nat) (f : Task → Task) (r : Option Nat)
    (hn : ∀ x, (st.scopes x).host ≠ some t)
    (hf : (f (st.tasks t)).hscope = (st.tasks t).hscope ∧ (f (st.tasks t)).lib = (st.tasks t).lib) :
    XI { st.setTask t f with running := r } := by
  refine XI.of_fields (a := st.setTask t f) ?_ rfl rfl rfl rfl (Nat.le_refl _)
  have key : ∀ u, ((st.setTask t f).tasks u).hscope = (st.tasks u).hscope ∧
      ((st.setTask t f).tasks u).lib = (st.tasks u).lib := by
    intro u
    by_cases hu : u = t
    · subst hu; simpa using hf
    · simp [hu]
  obtain ⟨⟨a1, a2, a3, a4, a5, a6⟩, li⟩ := h
  constructor
  · refine ⟨a1, a2, a3, a4, ?_, ?_⟩
    · intro s u hh
      have hu : u ≠ t := fun e => hn s (e ▸ hh)
      simp only [setTask_tasks, upd_other _ _ _ _ hu]
      exact a5 s u hh
    · intro u hs' x hu; rw [(key u).1] at hu; exact a6 u hs' x hu
  · exact li.congr (fun u => ⟨(key u).2, (key u).1⟩) (fun g => rfl) rfl (Nat.le_refl _)

/-! ### resuming a task -/

theorem xi_continueLib {st st' : State} {t : Nat} {r : Resume} {o : Out} (w : WFR st t)
    (h : XI st) (he : continueLib st t r = some (st', o)) : XI st' := by
  unfold continueLib at he
  split at he
  · simp only [Option.some.injEq, Prod.mk.injEq] at he
    obtain ⟨rfl, _⟩ := he; exact h
  · -- chkIf
    split at he
    · simp only [Option.some.injEq, Prod.mk.injEq] at he
      obtain ⟨rfl, _⟩ := he; exact xi_doYield h t
    · simp only [Option.some.injEq, Prod.mk.injEq] at he
      obtain ⟨rfl, _⟩ := he
      exact xi_setTask_libNone h t _ ⟨rfl, fun h => h, rfl⟩
  · -- shChk
    rename_i s hl
    split at he
    · contradiction
    · rename_i st1 x hex
      simp only [Option.some.injEq, Prod.mk.injEq] at he
      obtain ⟨rfl, _⟩ := he
      have hng := (h.2.l1 t s (by rw [hl]; simp [libScopes])).2
      exact xi_setTask_libNone (xi_exitScope w h hng.noGuests hex) t _ ⟨rfl, fun h => h, rfl⟩
  · -- sleeping
    simp only [Option.some.injEq, Prod.mk.injEq] at he
    obtain ⟨rfl, _⟩ := he
    exact xi_setTask_libNone (h.of_cframe (CFrame.of_unschedule _ _)) t _ ⟨rfl, fun h => h, rfl⟩
  · -- aexitChk
    rename_i g s ev hl
    have hng := (h.2.l1 t s (by rw [hl]; simp [libScopes])).2
    have hg := h.2.l3 t g (by rw [hl]; simp [libGroup])
    split at he
    · contradiction
    · rename_i st1 x hex
      have w1 := w.exitScope hex
      have h1 := xi_exitScope w h hng.noGuests hex
      have k := exitScope_keep hex
      split at he
      · exact xi_aexitAfterChk w1 h1 (by rw [k.2.1]; exact hg) he
      · split at he
        · have f := cframe_cancelScope st1 (st1.groups g).scope false
          exact xi_aexitAfterChk (w1.cframe f) (h1.of_cframe f) (by rw [f.nGroups, k.2.1]; exact hg) he
        · contradiction
  · -- aexitWait
    rename_i g ws ev hl
    have hws := h.2.l1 t ws (by rw [hl]; simp [libScopes])
    have hg := h.2.l3 t g (by rw [hl]; simp [libGroup])
    have w1 := w.setGroup_inert g (fun x => { x with onCompleted := none }) (fun x => by simp)
    have h1 := xi_setGroup_inert h g (fun x => { x with onCompleted := none }) ⟨rfl, rfl⟩
    have hgs : ∀ x, ((st.setGroup g (fun x => { x with onCompleted := none })).groups x).scope =
        (st.groups x).scope := by
      intro x
      by_cases hx : x = g
      · subst hx; simp
      · simp [hx]
    have hws1 : ws < (st.setGroup g (fun x => { x with onCompleted := none })).nScopes ∧
        NotGS (st.setGroup g (fun x => { x with onCompleted := none })) ws :=
      ⟨hws.1, hws.2.of_groups hgs rfl⟩
    simp only [] at he
    split at he
    · exact xi_aexitLoop w1 h1 hg hws1 he
    · split at he
      · have f1 := frame_setShield (st.setGroup g (fun x => { x with onCompleted := none })) ws true
        have w2 : WFR (setShield (st.setGroup g (fun x => { x with onCompleted := none })) ws true)
            t := by
          refine WFR.frame ?_ f1
          exact ⟨wf_setScope_inert w1.1 ws _ (by simp; exact fun h => .inl h), w1.2⟩
        have h2 : XI (setShield (st.setGroup g (fun x => { x with onCompleted := none })) ws true) :=
          (xi_setScope_inert h1 ws (fun x => { x with shield := true })
            ⟨rfl, rfl, rfl, rfl, rfl⟩).of_frame f1
        have f2 := cframe_cancelScope
          (setShield (st.setGroup g (fun x => { x with onCompleted := none })) ws true)
          ((setShield (st.setGroup g (fun x => { x with onCompleted := none })) ws true).groups g).scope
          false
        refine xi_aexitLoop (w2.cframe f2) (h2.of_cframe f2)
          (by rw [f2.nGroups, f1.nGroups]; exact hg) ⟨?_, ?_⟩ he
        · rw [f2.nScopes, f1.nScopes]; exact hws.1
        · refine hws1.2.of_groups (fun x => by rw [f2.groups, f1.groups]; rfl)
            (by rw [f2.nGroups, f1.nGroups]; rfl)
      · contradiction
  · -- startWait
    split at he
    · simp only [Option.some.injEq, Prod.mk.injEq] at he
      obtain ⟨rfl, _⟩ := he
      exact xi_setTask_libNone h t _ ⟨rfl, fun h => h, rfl⟩
    · simp only [] at he
      split at he
      · contradiction
      · rename_i hs hhs
        split at he
        · have f := cframe_cancelScope st hs false
          have w1 := w.cframe f
          have h1 := h.of_cframe f
          have w2 := w1.mkScope true none
          split at he
          · contradiction
          · rename_i st2 hen
            have w3 := w2.1.enterScope w2.2 hen
            obtain ⟨h3, h4, h5⟩ := xi_newScope_enter w1 h1 hen
            have hl : ∀ (g u : Nat) (e : ExcVal), XI (st2.setTask t (fun x =>
                { x with lib := .startJoin g u (newScope (cancelScope st hs false) true none).2 e })) := by
              intro g u e
              refine xi_setTask h3 t _ ⟨rfl, fun h => h⟩ ?_ ?_
              · intro s hs'
                simp only [libScopes, List.mem_singleton] at hs'
                subst hs'; exact ⟨h4, h5⟩
              · intro x hx; simp [libGroup] at hx
            split at he
            · simp only [Option.some.injEq, Prod.mk.injEq] at he
              obtain ⟨rfl, _⟩ := he
              exact xi_doYield (hl _ _ _) t
            · simp only [Option.some.injEq, Prod.mk.injEq] at he
              obtain ⟨rfl, _⟩ := he
              refine xi_blockOn (xi_setTask_inert (xi_newFut (hl _ _ _)) _ _ ⟨rfl, fun h => h, rfl⟩) _ _
        · simp only [Option.some.injEq, Prod.mk.injEq] at he
          obtain ⟨rfl, _⟩ := he
          exact xi_setTask_libNone h t _ ⟨rfl, fun h => h, rfl⟩
  · -- startJoin
    rename_i g u s e hl
    have hng := (h.2.l1 t s (by rw [hl]; simp [libScopes])).2
    split at he
    · contradiction
    · rename_i st1 x hex
      have h1 := xi_setTask_libNone (xi_exitScope w h hng.noGuests hex) t
        (fun x => { x with lib := .none }) ⟨rfl, fun h => h, rfl⟩
      simp only [] at he
      split at he <;>
      · simp only [Option.some.injEq, Prod.mk.injEq] at he
        obtain ⟨rfl, _⟩ := he
        exact h1

theorem xi_runTask {st st' : State} {t : Nat} {o : Out} (w : WF st) (h : XI st)
    (hr : st.running = none) (hlt : t < st.nTasks) (hnd : (st.tasks t).st ≠ .done)
    (he : runTask st t = some (st', o)) : XI st' := by
  have w1 := wfr_runPre w hr hlt hnd
  have h1 : XI { st.setTask t (fun x => { x with st := .running, mustCancel := false }) with
      running := some t } :=
    (xi_setTask_inert h t (fun x => { x with st := .running, mustCancel := false })
      ⟨rfl, fun h => by simp at h, rfl⟩).of_fields rfl rfl rfl rfl (Nat.le_refl _)
  unfold runTask at he
  simp only [] at he
  split at he
  · rename_i hs hst hhs
    -- a task that has not started hosts no scope
    have hno : ∀ x, (st.scopes x).host ≠ some t := fun x hx => w.host_started x t hx hst
    split at he
    · split at he
      · contradiction
      · rename_i st1 hen
        simp only [Option.some.injEq, Prod.mk.injEq] at he
        obtain ⟨rfl, _⟩ := he
        refine xi_enterScope w1 h1 ?_ hen
        intro u hu x hx
        have hut : u = t := by
          refine h1.2.hinj u t hs hu ?_
          simpa using hhs
        subst hut
        exact hno x hx
    · simp only [Option.some.injEq, Prod.mk.injEq] at he
      obtain ⟨rfl, _⟩ := he
      have h2 := xi_setDone' h1 t (fun x => { x with st := .done, outcome := some (resumeValue st t) })
        none hno ⟨rfl, rfl⟩
      exact h2.of_fields rfl rfl rfl rfl (Nat.le_refl _)
  · exact xi_continueLib w1 h1 he

theorem xi_runHandle {st st' : State} {x : Handle} {o : Out} (w : WF st) (h : XI st)
    (hs : step st (.run x) = some (st', o)) : XI st' := by
  simp only [step] at hs
  split at hs
  · contradiction
  · rename_i hg
    have hrun : st.running = none := by
      cases hr : st.running <;> simp_all
    have hxc : x ∈ st.cur := by
      apply Classical.byContradiction; intro hx; exact hg (.inr hx)
    have hok := w.cur_ok x hxc
    have w1 : WF { st with cur := st.cur.erase x } :=
      wf_shrinkCur w _ (fun y hy => List.mem_of_mem_erase hy)
    have h1 : XI { st with cur := st.cur.erase x } :=
      h.of_fields rfl rfl rfl rfl (Nat.le_refl _)
    cases x with
    | step t =>
      simp only [] at hs
      split at hs
      · rename_i hst
        refine xi_runTask w1 h1 hrun hok ?_ hs
        rcases hst with hst | hst <;> simp_all
      · contradiction
    | wakeup t =>
      simp only [] at hs
      split at hs
      · rename_i f hst
        refine xi_runTask w1 h1 hrun hok ?_ hs
        simp_all
      · contradiction
    | deliver s =>
      simp only [Option.some.injEq, Prod.mk.injEq] at hs
      obtain ⟨rfl, _⟩ := hs
      exact h1.of_frame (frame_deliver _ _)
    | timeout s =>
      simp only [Option.some.injEq, Prod.mk.injEq] at hs
      obtain ⟨rfl, _⟩ := hs
      exact (xi_setScope_inert h1 s (fun x => { x with timer := false })
        ⟨rfl, rfl, rfl, rfl, rfl⟩).of_cframe (cframe_armTimeout _ _)
    | sleepDone f =>
      simp only [Option.some.injEq, Prod.mk.injEq] at hs
      obtain ⟨rfl, _⟩ := hs
      exact h1.of_frame (frame_resolveFut _ _ _)
    | taskDone u =>
      simp only [] at hs
      split at hs
      · rename_i st1 htd
        simp only [Option.some.injEq, Prod.mk.injEq] at hs
        obtain ⟨rfl, _⟩ := hs
        exact xi_runTaskDone w1 h1 htd
      · contradiction

theorem xi_aexit {st st' : State} {g : Nat} {ev : ExcVal} {o : Out} (w : WF st) (h : XI st)
    (hs : step st (.aexit g ev) = some (st', o)) : XI st' := by
  rw [step_aexit'] at hs
  split at hs
  · contradiction
  · rename_i t hr
    split at hs
    · contradiction
    · rename_i hgd
      have hg : g < st.nGroups := by
        apply Classical.byContradiction; intro hx; exact hgd (.inl (by omega))
      have w1 := wfr_aexitPrep' ⟨w, hr⟩ g ev
      have h1 : XI (aexitPrep' st g ev) ∧ (aexitPrep' st g ev).nGroups = st.nGroups := by
        unfold aexitPrep'
        split
        · simp only []
          have f := cframe_cancelScope st (st.groups g).scope false
          split
          · exact ⟨h.of_cframe f, f.nGroups⟩
          · exact ⟨xi_setGroup_inert (h.of_cframe f) g _ ⟨rfl, rfl⟩, f.nGroups⟩
        · exact ⟨h, rfl⟩
      simp only [] at hs
      split at hs
      · have w2 := w1.mkScope true none
        split at hs
        · contradiction
        · rename_i st1 hen
          simp only [Option.some.injEq, Prod.mk.injEq] at hs
          obtain ⟨rfl, _⟩ := hs
          obtain ⟨h3, h4, h5⟩ := xi_newScope_enter w1 h1.1 hen
          have k := enterScope_keep hen
          refine xi_doYield (xi_setTask h3 t _ ⟨rfl, fun h => h⟩ ?_ ?_) t
          · intro s hs'
            simp only [libScopes, List.mem_singleton] at hs'
            subst hs'; exact ⟨h4, h5⟩
          · intro x hx
            simp only [libGroup, Option.some.injEq] at hx
            subst hx
            rw [k.2.1]; simpa [newScope, h1.2] using hg
      · exact xi_aexitAfterChk w1 h1.1 (by rw [h1.2]; exact hg) hs

end AnyioModel.Kernel
