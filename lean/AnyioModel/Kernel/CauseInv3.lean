/-
Who can cancel a scope, part 3: resuming a task.  `continueLib` (the library coroutine the task is
suspended in: the `__aexit__` checkpoint and wait loop, `TaskGroup.start`) and `runTask`
(`Task.__step` / `__wakeup`; for a new child `TaskHandle._run_coro` enters the handle scope).
All states.
-/
import AnyioModel.Kernel.CauseInv2

namespace AnyioModel.Kernel

/-- **resuming a library coroutine** with `r` (sent `.none` or a thrown exception).  A scope `x`
newly cancelled by it is
* the scope of group `g`, the task being inside `g.__aexit__` (empty-group checkpoint or wait loop)
  and resumed with a `CancelledError`; or
* the handle scope of child `u`, the task being inside `g.start()` waiting for `u`'s readiness
  future, resumed with an exception, `u` not finished. -/
theorem cc_continueLib {st st' : State} {t : Nat} {r : Resume} {o : Out}
    (he : continueLib st t r = some (st', o)) (x : Nat)
    (h : (st'.scopes x).cancelCalled = true) :
    (st.scopes x).cancelCalled = true ∨
    (∃ g s ev, ((st.tasks t).lib = .aexitChk g s ev ∨ (st.tasks t).lib = .aexitWait g s ev) ∧
      r.isCancelledError = true ∧ x = (st.groups g).scope) ∨
    (∃ g u f, (st.tasks t).lib = .startWait g u f ∧ r ≠ .none ∧
      (st.tasks u).hscope = some x ∧ (st.tasks u).finished = false) := by
  unfold continueLib at he
  split at he
  · -- user code
    simp only [Option.some.injEq, Prod.mk.injEq] at he
    obtain ⟨rfl, _⟩ := he
    exact .inl h
  · -- checkpoint_if_cancelled
    left
    split at he
    all_goals
      simp only [Option.some.injEq, Prod.mk.injEq] at he
      obtain ⟨rfl, _⟩ := he
      refine NC.cc ?_ x h
      nc
  · -- cancel_shielded_checkpoint
    left
    split at he
    · contradiction
    · simp only [Option.some.injEq, Prod.mk.injEq] at he
      obtain ⟨rfl, _⟩ := he
      refine NC.cc ?_ x h
      nc
  · -- sleep
    left
    simp only [Option.some.injEq, Prod.mk.injEq] at he
    obtain ⟨rfl, _⟩ := he
    refine NC.cc ?_ x h
    nc
  · -- __aexit__: the empty-group checkpoint
    rename_i g s ev hl
    split at he
    · contradiction
    · rename_i st1 xr hex
      have h1 : NC st st1 := nc_exitScope hex
      have hg1 : st1.groups = st.groups := by
        obtain ⟨_, _, _, _, cf⟩ := exitScope_spec hex
        rw [cf.groups]; exact (exitPre_frame st t s).2.2.2.2.1
      split at he
      · exact .inl (h1.cc x ((nc_aexitAfterChk he).cc x h))
      · split at he
        · rename_i hce
          have h2 := (nc_aexitAfterChk he).cc x h
          rcases cc_cancelScope _ _ _ _ h2 with h3 | h3
          · exact .inl (h1.cc x h3)
          · right; left
            refine ⟨g, s, ev, .inl hl, hce, ?_⟩
            rw [h3, hg1]
        · contradiction
  · -- __aexit__: the wait loop
    rename_i g ws ev hl
    simp only [] at he
    split at he
    · left
      refine NC.cc ?_ x ((nc_aexitLoop he).cc x h)
      nc
    · split at he
      · rename_i hce
        have h2 := (nc_aexitLoop he).cc x h
        rcases cc_cancelScope _ _ _ _ h2 with h3 | h3
        · left
          refine NC.cc ?_ x h3
          nc
        · right; left
          refine ⟨g, ws, ev, .inr hl, hce, ?_⟩
          rw [h3, (frame_setShield _ _ _).groups]
          simp
      · contradiction
  · -- TaskGroup.start: waiting for the readiness future
    rename_i g u f hl
    split at he
    · left
      simp only [Option.some.injEq, Prod.mk.injEq] at he
      obtain ⟨rfl, _⟩ := he
      refine NC.cc ?_ x h
      nc
    · rename_i hne
      simp only [] at he
      split at he
      · contradiction
      · rename_i hs hhs
        split at he
        · rename_i hcond
          have hfin : (st.tasks u).finished = false := by
            have := hcond.1; simpa using this
          split at he
          · contradiction
          · rename_i st4 hen
            have h4 : NC (cancelScope st hs false) st4 := nc_newEnter hen
            have h5 : (st4.scopes x).cancelCalled = true := by
              split at he
              all_goals
                simp only [Option.some.injEq, Prod.mk.injEq] at he
                obtain ⟨rfl, _⟩ := he
                refine NC.cc ?_ x h
                nc
            rcases cc_cancelScope _ _ _ _ (h4.cc x h5) with h6 | h6
            · exact .inl h6
            · right; right
              exact ⟨g, u, f, hl, fun h0 => hne h0, by rw [h6]; exact hhs, hfin⟩
        · left
          simp only [Option.some.injEq, Prod.mk.injEq] at he
          obtain ⟨rfl, _⟩ := he
          refine NC.cc ?_ x h
          nc
  · -- TaskGroup.start: the shielded join
    left
    split at he
    · contradiction
    · split at he
      all_goals
        simp only [Option.some.injEq, Prod.mk.injEq] at he
        obtain ⟨rfl, _⟩ := he
        refine NC.cc ?_ x h
        nc

/-- **`Task.__step` / `__wakeup` of task `t`.**  A scope `x` newly cancelled by it is
* the handle scope of `t` itself, `t` being a new child that is started normally
  (`TaskHandle._run_coro` enters the scope) while the scope's deadline has already passed; or
* one of the two cases of `cc_continueLib`, with the value `Task.__step` sends or throws. -/
theorem cc_runTask {st st' : State} {t : Nat} {o : Out} (he : runTask st t = some (st', o))
    (x : Nat) (h : (st'.scopes x).cancelCalled = true) :
    (st.scopes x).cancelCalled = true ∨
    ((st.tasks t).st = .created ∧ (st.tasks t).hscope = some x ∧ resumeValue st t = .none ∧
      ∃ d, (st.scopes x).deadline = some d ∧ d ≤ st.now) ∨
    (∃ g s ev, ((st.tasks t).lib = .aexitChk g s ev ∨ (st.tasks t).lib = .aexitWait g s ev) ∧
      (resumeValue st t).isCancelledError = true ∧ x = (st.groups g).scope) ∨
    (∃ g u f, (st.tasks t).lib = .startWait g u f ∧ resumeValue st t ≠ .none ∧
      (st.tasks u).hscope = some x ∧ (st.tasks u).finished = false) := by
  unfold runTask at he
  simp only [] at he
  split at he
  · rename_i hs hst hhs
    split at he
    · rename_i hr
      split at he
      · contradiction
      · rename_i st2 hen
        simp only [Option.some.injEq, Prod.mk.injEq] at he
        obtain ⟨rfl, _⟩ := he
        rcases cc_enterScope hen x h with h1 | ⟨hx, d, hd, hle⟩
        · exact .inl h1
        · right; left
          subst hx
          exact ⟨hst, hhs, hr, d, hd, hle⟩
    · left
      simp only [Option.some.injEq, Prod.mk.injEq] at he
      obtain ⟨rfl, _⟩ := he
      refine NC.cc ?_ x h
      nc
  · rcases cc_continueLib he x h with h1 | ⟨g, s, ev, hl, hr, hx⟩ | ⟨g, u, f, hl, hr, hh, hf⟩
    · exact .inl h1
    · right; right; left
      refine ⟨g, s, ev, ?_, hr, hx⟩
      simpa using hl
    · right; right; right
      refine ⟨g, u, f, by simpa using hl, hr, ?_, ?_⟩
      · by_cases hu : u = t
        · subst hu; simpa using hh
        · simpa [hu] using hh
      · by_cases hu : u = t
        · subst hu; simpa using hf
        · simpa [hu] using hf

end AnyioModel.Kernel
