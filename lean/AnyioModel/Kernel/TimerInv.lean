/-
Timer invariant for the kernel model (reachability part of C06), part 1: definitions.

* `tmL l s`  — the times at which a `timeout s` handle is pending in the timer list `l`;
* `SInv`     — the per-scope invariant: "the `timer` flag (`_timeout_handle`) records exactly the one
               live `timeout s` handle, whose time is the scope's deadline";
* `TInv st`  — `SInv` for every scope of `st`;
* `SEq`/`TEq` — two states agree on everything `TInv` reads;
* `SEvo`/`TEvo` — how one non-clock, non-`deadline=` step may change a scope's cancellation record
               (`cancelCalled`, `byDeadline`, `cancelTime`); transitive, so it composes along the
               helper functions of `step`.
-/
import AnyioModel.Kernel.PureProofs
import AnyioModel.Kernel.Frame

namespace AnyioModel.Kernel

/-! ### timer lists -/

/-- the times of the `timeout s` entries of a timer list -/
def tmL (l : List (Nat × Handle)) (s : Nat) : List Nat :=
  l.filterMap (fun p => if p.2 = Handle.timeout s then some p.1 else none)

@[simp] theorem tmL_nil (s : Nat) : tmL [] s = [] := rfl

theorem tmL_cons (p : Nat × Handle) (l : List (Nat × Handle)) (s : Nat) :
    tmL (p :: l) s = if p.2 = Handle.timeout s then p.1 :: tmL l s else tmL l s := by
  unfold tmL
  by_cases h : p.2 = Handle.timeout s <;> simp [h]

theorem tmL_append (l1 l2 : List (Nat × Handle)) (s : Nat) :
    tmL (l1 ++ l2) s = tmL l1 s ++ tmL l2 s := by
  unfold tmL; exact List.filterMap_append ..

theorem mem_tmL {l : List (Nat × Handle)} {s w : Nat} :
    w ∈ tmL l s ↔ (w, Handle.timeout s) ∈ l := by
  induction l with
  | nil => simp
  | cons p l ih =>
    obtain ⟨a, h⟩ := p
    rw [tmL_cons]
    by_cases hh : h = Handle.timeout s
    · subst hh; simp [ih]
    · simp [hh, ih]; intro _ h2; exact absurd h2.symm hh

theorem tmL_single_self (d s : Nat) : tmL [(d, Handle.timeout s)] s = [d] := by
  simp [tmL_cons]

theorem tmL_single_other (d : Nat) (h : Handle) (s : Nat) (hh : h ≠ Handle.timeout s) :
    tmL [(d, h)] s = [] := by
  simp [tmL_cons, hh]

/-- removing all entries of a handle `h` (`handle.cancel()`) -/
theorem tmL_filter_ne (l : List (Nat × Handle)) (h : Handle) (s : Nat) :
    tmL (l.filter (·.2 ≠ h)) s = if h = Handle.timeout s then [] else tmL l s := by
  induction l with
  | nil => simp
  | cons p l ih =>
    by_cases hp : p.2 = h
    · rw [List.filter_cons_of_neg (by simpa using hp), ih, tmL_cons]
      by_cases hh : h = Handle.timeout s
      · simp [hh]
      · have : p.2 ≠ Handle.timeout s := by rw [hp]; exact hh
        simp [hh, this]
    · rw [List.filter_cons_of_pos (by simpa using hp), tmL_cons, ih, tmL_cons]
      by_cases hh : h = Handle.timeout s
      · have : p.2 ≠ Handle.timeout s := by rw [← hh]; exact hp
        simp [hh, this]
      · simp [hh]

/-- the timers `beginCycle` leaves in the heap -/
theorem tmL_filter_time (l : List (Nat × Handle)) (q : Nat → Bool) (s : Nat) :
    tmL (l.filter (fun p => q p.1)) s = (tmL l s).filter q := by
  induction l with
  | nil => simp
  | cons p l ih =>
    by_cases hq : q p.1 = true <;> by_cases hh : p.2 = Handle.timeout s <;>
      simp [tmL_cons, hq, hh, ih]

/-- the handles `beginCycle` moves into the batch -/
theorem count_map_snd (l : List (Nat × Handle)) (s : Nat) :
    (l.map (·.2)).count (Handle.timeout s) = (tmL l s).length := by
  induction l with
  | nil => simp
  | cons p l ih =>
    rw [List.map_cons, List.count_cons, ih, tmL_cons]
    by_cases hh : p.2 = Handle.timeout s
    · simp [hh]
    · simp [hh]

theorem count_filter_ne (l : List Handle) (h a : Handle) :
    (l.filter (· ≠ h)).count a = if a = h then 0 else l.count a := by
  induction l with
  | nil => simp
  | cons b l ih =>
    by_cases hb : b = h <;> by_cases ha : a = h <;> by_cases hab : b = a <;>
      simp_all

theorem count_erase_timeout (l : List Handle) (h : Handle) (s : Nat) :
    (l.erase h).count (Handle.timeout s) =
      if h = Handle.timeout s then l.count (Handle.timeout s) - 1 else l.count (Handle.timeout s) := by
  by_cases hh : h = Handle.timeout s
  · subst hh; simp [List.count_erase_self]
  · simp [hh, List.count_erase_of_ne (Ne.symm hh)]

theorem filter_length_split (l : List Nat) (q : Nat → Bool) :
    (l.filter q).length + (l.filter (fun x => !q x)).length = l.length := by
  induction l with
  | nil => simp
  | cons a l ih =>
    by_cases h : q a = true
    · simp [h]; omega
    · simp [h]; omega

/-! ### the per-scope invariant -/

/-- `SInv now nsc s tm cu rd x`: the scope record `x` of scope `s`, with `tm` the times of its
`timeout s` entries in the timer heap, `cu`/`rd` the number of `timeout s` handles in the current
batch / the ready queue. -/
structure SInv (now nsc s : Nat) (tm : List Nat) (cu rd : Nat) (x : Scope) : Prop where
  /-- timer callbacks never sit in the ready queue (`call_at` puts them in the heap; the loop moves
  them straight into the batch it is about to run) -/
  ready : rd = 0
  /-- exactly one pending handle iff the flag is set, none otherwise -/
  count : tm.length + cu = if x.timer then 1 else 0
  /-- a handle in the heap is at the scope's current deadline, which is still ahead -/
  tm : ∀ w ∈ tm, x.deadline = some w ∧ now < w
  /-- a handle in the running batch is due -/
  cu : 0 < cu → ∃ d, x.deadline = some d ∧ d ≤ now
  /-- only an active scope has a live timer -/
  act : x.timer = true → x.active = true
  /-- an active, not yet cancelled scope with a finite deadline has a live timer -/
  live : ∀ d, x.active = true → x.cancelCalled = false → x.deadline = some d → x.timer = true
  /-- scopes not created yet -/
  dflt : nsc ≤ s → x.exists_ = false ∧ x.timer = false ∧ x.deadline = none
  /-- cancelled by deadline: then cancelled, entered, and not in the future -/
  bd : x.byDeadline = true → x.cancelCalled = true ∧ x.entered = true ∧ x.cancelTime ≤ now
  /-- `_active` is only set by `__enter__` -/
  ae : x.active = true → x.entered = true

/-- the timer invariant of a state -/
def TInv (st : State) : Prop :=
  ∀ s, SInv st.now st.nScopes s (tmL st.timers s) (st.cur.count (Handle.timeout s))
    (st.ready.count (Handle.timeout s)) (st.scopes s)

/-! ### agreement on what `TInv` reads -/

structure SEq (x y : Scope) : Prop where
  exists_ : y.exists_ = x.exists_
  timer : y.timer = x.timer
  deadline : y.deadline = x.deadline
  active : y.active = x.active
  entered : y.entered = x.entered
  cancelCalled : y.cancelCalled = x.cancelCalled
  byDeadline : y.byDeadline = x.byDeadline
  cancelTime : y.cancelTime = x.cancelTime

theorem SEq.refl (x : Scope) : SEq x x := ⟨rfl, rfl, rfl, rfl, rfl, rfl, rfl, rfl⟩

theorem SEq.trans {x y z : Scope} (h1 : SEq x y) (h2 : SEq y z) : SEq x z := by
  cases h1; cases h2; constructor <;> simp [*]

theorem SEq.of_ctl {x y : Scope} (h : y.ctl = x.ctl) : SEq x y :=
  ⟨ctl_exists h, ctl_timer h, ctl_deadline h, ctl_active h, ctl_entered h, ctl_cancelCalled h,
    ctl_byDeadline h, ctl_cancelTime h⟩

theorem SEq.of_keep {x y : Scope} (h : y.keep = x.keep) : SEq x y :=
  ⟨keep_exists h, keep_timer h, keep_deadline h, keep_active h, keep_entered h,
    keep_cancelCalled h, keep_byDeadline h, (congrArg Scope.cancelTime h :)⟩

theorem SEq.of_unlinked {x y : Scope} (h : y.unlinked = x.unlinked) : SEq x y :=
  ⟨(congrArg Scope.exists_ h :), unlinked_timer h, unlinked_deadline h, unlinked_active h,
    (congrArg Scope.entered h :), unlinked_cancelCalled h, unlinked_byDeadline h,
    unlinked_cancelTime h⟩

theorem SInv.congr {now nsc s : Nat} {tm : List Nat} {cu rd : Nat} {x y : Scope}
    (h : SInv now nsc s tm cu rd x) (e : SEq x y) : SInv now nsc s tm cu rd y := by
  obtain ⟨h1, h2, h3, h4, h5, h6, h7, h8, h9⟩ := h
  obtain ⟨e1, e2, e3, e4, e5, e6, e7, e8⟩ := e
  constructor
  all_goals (try simp only [e2, e3, e4, e5, e6, e7, e8])
  all_goals (try simp only [e1])
  all_goals assumption

/-- two states agree on everything `TInv` reads -/
structure TEq (a b : State) : Prop where
  now : b.now = a.now
  nScopes : b.nScopes = a.nScopes
  timers : ∀ s, tmL b.timers s = tmL a.timers s
  cur : ∀ s, b.cur.count (Handle.timeout s) = a.cur.count (Handle.timeout s)
  ready : ∀ s, b.ready.count (Handle.timeout s) = a.ready.count (Handle.timeout s)
  scopes : ∀ s, SEq (a.scopes s) (b.scopes s)

theorem TEq.refl (a : State) : TEq a a :=
  ⟨rfl, rfl, fun _ => rfl, fun _ => rfl, fun _ => rfl, fun _ => SEq.refl _⟩

theorem TEq.trans {a b c : State} (h1 : TEq a b) (h2 : TEq b c) : TEq a c :=
  ⟨h2.now.trans h1.now, h2.nScopes.trans h1.nScopes, fun s => (h2.timers s).trans (h1.timers s),
    fun s => (h2.cur s).trans (h1.cur s), fun s => (h2.ready s).trans (h1.ready s),
    fun s => (h1.scopes s).trans (h2.scopes s)⟩

theorem TInv.teq {a b : State} (h : TInv a) (e : TEq a b) : TInv b := by
  intro s
  rw [e.now, e.nScopes, e.timers, e.cur, e.ready]
  exact (h s).congr (e.scopes s)

/-- delivery of cancellation (`DFrame`) touches nothing `TInv` reads -/
theorem TEq.of_dframe {a b : State} (h : DFrame a b) : TEq a b := by
  obtain ⟨extra, he, hn⟩ := h.ready
  refine ⟨h.now, h.nScopes, fun s => by rw [h.timers], fun s => by rw [h.cur], fun s => ?_,
    fun s => SEq.of_ctl (h.scopes s)⟩
  rw [he, List.count_append]
  have : extra.count (Handle.timeout s) = 0 :=
    List.count_eq_zero.2 (fun hm => hn _ hm s rfl)
  omega

/-- `exitDecide` (`TailFrame`) touches nothing `TInv` reads -/
theorem TEq.of_tailFrame {a b : State} {s : Nat} (h : TailFrame s a b)
    (hn : b.nScopes = a.nScopes) : TEq a b :=
  ⟨h.now, hn, fun _ => by rw [h.timers], fun _ => by rw [h.cur], fun _ => by rw [h.ready],
    fun i => SEq.of_keep (h.keep i)⟩

/-! ### evolution of the cancellation record within one step -/

/-- a scope record `x` evolves into `y` while the clock stands at `now` and nobody assigns
`deadline`: the cancellation record (`cancelCalled`, `byDeadline`, `cancelTime`) is written once,
when `cancelCalled` goes from false to true, and "by deadline" is recorded only for an entered scope
that has not been left and whose deadline has been reached; a scope that has been left stays
inactive. -/
structure SNorm (now : Nat) (x y : Scope) : Prop where
  deadline : y.deadline = x.deadline
  entered : x.entered = true → y.entered = true
  inact : x.entered = true → x.active = false → y.active = false
  cc : x.cancelCalled = true →
    y.cancelCalled = true ∧ y.byDeadline = x.byDeadline ∧ y.cancelTime = x.cancelTime
  fresh : x.cancelCalled = false → y.cancelCalled = true →
    y.cancelTime = now ∧
      (y.byDeadline = true → y.entered = true ∧ (x.entered = true → x.active = true) ∧
        ∃ d, y.deadline = some d ∧ d ≤ now)
  nocc : y.cancelCalled = false → y.byDeadline = x.byDeadline

/-- ... or the record was (re)created in this step (`CancelScope()` with no deadline) -/
def SEvo (now : Nat) (x y : Scope) : Prop :=
  SNorm now x y ∨ (y.deadline = none ∧ y.byDeadline = false)

theorem SNorm.of_seq {now : Nat} {x y : Scope} (e : SEq x y) : SNorm now x y := by
  obtain ⟨e1, e2, e3, e4, e5, e6, e7, e8⟩ := e
  constructor
  all_goals (try simp only [e3, e4, e5, e6, e7, e8])
  all_goals simp_all

theorem SEvo.of_seq {now : Nat} {x y : Scope} (e : SEq x y) : SEvo now x y :=
  .inl (SNorm.of_seq e)

theorem SNorm.trans {now : Nat} {x y z : Scope} (h1 : SNorm now x y) (h2 : SNorm now y z) :
    SNorm now x z := by
  obtain ⟨a1, a2, a3, a4, a5, a6⟩ := h1
  obtain ⟨b1, b2, b3, b4, b5, b6⟩ := h2
  constructor <;> grind

theorem SEvo.trans {now : Nat} {x y z : Scope} (h1 : SEvo now x y) (h2 : SEvo now y z) :
    SEvo now x z := by
  rcases h2 with h2 | h2
  · rcases h1 with h1 | h1
    · exact .inl (h1.trans h2)
    · right
      obtain ⟨b1, b2, b3, b4, b5, b6⟩ := h2
      grind
  · exact .inr h2

/-- what a step that records "cancelled by deadline" for a scope must look like: the scope was not
cancelled before, it is cancelled now with cancel time `now`, it has been entered and had not been
left, and its deadline is finite and has been reached -/
def BDFresh (now : Nat) (x y : Scope) : Prop :=
  x.byDeadline = false → y.byDeadline = true →
    x.cancelCalled = false ∧ y.cancelCalled = true ∧ y.cancelTime = now ∧ y.entered = true ∧
      (x.entered = true → x.active = true) ∧ ∃ d, y.deadline = some d ∧ d ≤ now

theorem SEvo.bdFresh {now : Nat} {x y : Scope} (h : SEvo now x y) : BDFresh now x y := by
  intro h0 h1
  rcases h with h | h
  · obtain ⟨a1, a2, a3, a4, a5, a6⟩ := h
    grind
  · rw [h.2] at h1; cases h1

theorem BDFresh.of_seq {now : Nat} {x y : Scope} (e : SEq x y) : BDFresh now x y :=
  (SEvo.of_seq e).bdFresh

theorem BDFresh.congr_right {now : Nat} {x y y' : Scope} (h : BDFresh now x y) (e : SEq y y') :
    BDFresh now x y' := by
  intro h0 h1
  rw [e.byDeadline] at h1
  have := h h0 h1
  rw [e.cancelCalled, e.cancelTime, e.entered, e.deadline]
  exact this

/-- `TEvo a b`: if `a` satisfies the timer invariant then so does `b`, the clock did not move, no
scope disappeared, every scope's cancellation record evolved as `SEvo` allows, and that of the
scopes that existed before as `SNorm` allows -/
def TEvo (a b : State) : Prop :=
  TInv a → TInv b ∧ b.now = a.now ∧ a.nScopes ≤ b.nScopes ∧
    (∀ s, SEvo a.now (a.scopes s) (b.scopes s)) ∧
    (∀ s, s < a.nScopes → SNorm a.now (a.scopes s) (b.scopes s))

theorem TEvo.refl (a : State) : TEvo a a :=
  fun h => ⟨h, rfl, Nat.le_refl _, fun _ => SEvo.of_seq (SEq.refl _),
    fun _ _ => SNorm.of_seq (SEq.refl _)⟩

theorem TEvo.trans {a b c : State} (h1 : TEvo a b) (h2 : TEvo b c) : TEvo a c := by
  intro ha
  obtain ⟨hb, n1, l1, s1, t1⟩ := h1 ha
  obtain ⟨hc, n2, l2, s2, t2⟩ := h2 hb
  rw [n1] at s2 t2
  exact ⟨hc, n2.trans n1, Nat.le_trans l1 l2, fun s => (s1 s).trans (s2 s),
    fun s hs => (t1 s hs).trans (t2 s (by omega))⟩

theorem TEvo.of_teq {a b : State} (e : TEq a b) : TEvo a b :=
  fun h => ⟨h.teq e, e.now, by rw [e.nScopes]; exact Nat.le_refl _,
    fun s => SEvo.of_seq (e.scopes s), fun s _ => SNorm.of_seq (e.scopes s)⟩

theorem TEvo.of_eq {a b : State} (e : b = a) : TEvo a b := e ▸ TEvo.refl a

end AnyioModel.Kernel
