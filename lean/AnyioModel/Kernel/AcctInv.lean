/-
Accounting of the exceptions of a task group at full strength (C02): `AInv0` is `AInv` of
`GroupInv7` without the slack list `B0`.  It is a `Closed2` predicate: the first part of
`__aexit__` keeps it because `bodyErrs g = []` when `__aexit__` starts (`reach_guard`).
-/
import AnyioModel.Kernel.Closed2

namespace AnyioModel.Kernel

/-- accounting, full strength: `_exceptions` is, up to order, what the body handed to `__aexit__`
plus the errors of the routed children -/
structure AInv0 (st : State) : Prop where
  acct : ∀ g, (st.groups g).exited = false → List.Perm (st.groups g).exceptions
    ((st.groups g).bodyErrs ++ routedErrs st g)
  nodup : ∀ g, (st.groups g).routed.Nodup
  routed_cb : ∀ g u, u ∈ (st.groups g).routed → (st.tasks u).doneCbRun = true ∧
    (st.tasks u).group = some g ∧
    ∃ o, (st.tasks u).outcome = some o ∧ o.isCancelledError = false ∧ o ≠ .none

/-- what `AInv0` reads -/
theorem AInv0.transfer {a b : State} (h : AInv0 a)
    (hg : ∀ g, (b.groups g).exceptions = (a.groups g).exceptions ∧
      (b.groups g).bodyErrs = (a.groups g).bodyErrs ∧ (b.groups g).routed = (a.groups g).routed ∧
      ((b.groups g).exited = false → (a.groups g).exited = false))
    (ht : ∀ u, (a.tasks u).doneCbRun = true → (b.tasks u).doneCbRun = true ∧
      (b.tasks u).group = (a.tasks u).group ∧ (b.tasks u).outcome = (a.tasks u).outcome) :
    AInv0 b := by
  have hro : ∀ g, routedErrs b g = routedErrs a g := fun g =>
    routedErrs_congr (hg g).2.2.1 (fun u hu => (ht u (h.routed_cb g u hu).1).2.2)
  constructor
  · intro g hx
    have hp := h.acct g ((hg g).2.2.2 hx)
    rw [(hg g).1, (hg g).2.1, hro g]; exact hp
  · intro g; rw [(hg g).2.2.1]; exact h.nodup g
  · intro g u hu
    rw [(hg g).2.2.1] at hu
    have := h.routed_cb g u hu
    have t := ht u this.1
    rw [t.1, t.2.1, t.2.2]; exact ⟨rfl, this.2⟩

theorem AInv0.gle {a b : State} (h : AInv0 a) (l : GLe a b) : AInv0 b :=
  h.transfer (fun g => ⟨(l.groups g).exceptions, (l.groups g).bodyErrs, (l.groups g).routed,
      by rw [(l.groups g).exited]; exact id⟩)
    (fun u hu => ⟨by rw [(l.tasks u).doneCbRun]; exact hu, (l.tasks u).group, (l.tasks u).outcome⟩)

theorem ainv0_init : AInv0 init := by
  constructor
  · intro g _; simp [init, routedErrs]
  · intro g; simp [init]
  · intro g u hu; simp [init] at hu

theorem ainv0_closed : Closed2 AInv0 := by
  constructor
  · intro x y q _ l; exact q.gle l
  · -- spawnCore
    intro st g gs hs sf q hi _ _ _ hd _ _ _ _
    refine q.transfer (fun g' => ?_) (fun u hu => ?_)
    · by_cases hg : g' = g
      · subst hg; simp [spawnCore]
      · simp [spawnCore, hg]
    · have : u ≠ st.nTasks := by
        intro e; subst e
        have := hi.g4 _ hu; rw [hd] at this; contradiction
      simp [spawnCore, this, hu]
  · -- task_done
    intro st st' u q hi w he
    obtain ⟨g, sc, o, hg, hsc, ho, ht⟩ := runTaskDone_shape he
    have hncb : (st.tasks u).doneCbRun = false := by
      cases hc : (st.tasks u).doneCbRun
      · rfl
      · have := hi.g10 u hc; rw [hsc] at this; contradiction
    have q1 : AInv0 (taskDoneCore st u g sc) := by
      refine q.transfer (fun g' => ?_) (fun v hv => ?_)
      · unfold taskDoneCore
        by_cases hgg : g' = g
        · subst hgg; simp
        · simp [hgg]
      · unfold taskDoneCore
        by_cases hvu : v = u
        · subst hvu; simp
        · simp [hvu, hv]
    have q2 := q1.gle (gle_taskDoneMid _ g)
    generalize hM : taskDoneMid (taskDoneCore st u g sc) g = M at ht q2
    have lM : GLe (taskDoneCore st u g sc) M := hM ▸ gle_taskDoneMid _ g
    have tu : (M.tasks u).doneCbRun = true ∧ (M.tasks u).group = some g ∧
        (M.tasks u).outcome = some o := by
      rw [(lM.tasks u).doneCbRun, (lM.tasks u).group, (lM.tasks u).outcome]
      unfold taskDoneCore; simp [hg, ho]
    have hnr : u ∉ (M.groups g).routed := by
      intro hm
      rw [(lM.groups g).routed] at hm
      have hm' : u ∈ (st.groups g).routed := by
        unfold taskDoneCore at hm; simpa using hm
      have := (q.routed_cb g u hm').1
      rw [hncb] at this; contradiction
    rcases taskDoneTail_shape ht with ⟨l, _, _⟩ | ⟨hne, hnc, _, hr⟩
    · exact q2.gle l
    · have qR : AInv0 (routeErr M g u o) := by
        have Go : ∀ g', g' ≠ g → (routeErr M g u o).groups g' = M.groups g' := by
          intro g' hg'; simp [routeErr, hg']
        have Gn : ((routeErr M g u o).groups g).exceptions = (M.groups g).exceptions ++ o.leaves ∧
            ((routeErr M g u o).groups g).routed = u :: (M.groups g).routed ∧
            ((routeErr M g u o).groups g).bodyErrs = (M.groups g).bodyErrs ∧
            ((routeErr M g u o).groups g).exited = (M.groups g).exited := by simp [routeErr]
        have hre : ∀ g', routedErrs (routeErr M g u o) g' =
            (((routeErr M g u o).groups g').routed).flatMap (errsOf M) := fun g' => rfl
        constructor
        · intro g' hx
          by_cases hgg : g' = g
          · subst hgg
            rw [Gn.2.2.2] at hx
            have hp := q2.acct g' hx
            rw [Gn.1, Gn.2.2.1, hre, Gn.2.1]
            simp only [List.flatMap_cons]
            have he1 : errsOf M u = o.leaves := by
              unfold errsOf; rw [tu.2.2]; exact errs_of_not_cancelled hnc
            rw [he1]
            have : routedErrs M g' = (M.groups g').routed.flatMap (errsOf M) := rfl
            rw [this] at hp
            refine (hp.append_right o.leaves).trans ?_
            simp only [List.append_assoc]
            refine List.Perm.append_left _ ?_
            exact List.perm_append_comm
          · rw [Go g' hgg] at hx ⊢
            have : routedErrs (routeErr M g u o) g' = routedErrs M g' := by
              rw [hre, Go g' hgg]; rfl
            rw [this]; exact q2.acct g' hx
        · intro g'
          by_cases hgg : g' = g
          · subst hgg; rw [Gn.2.1]; exact List.nodup_cons.mpr ⟨hnr, q2.nodup g'⟩
          · rw [Go g' hgg]; exact q2.nodup g'
        · intro g' v hv
          show ((M.tasks v).doneCbRun = true ∧ (M.tasks v).group = some g' ∧ _)
          by_cases hgg : g' = g
          · subst hgg
            rw [Gn.2.1] at hv
            rcases List.mem_cons.mp hv with rfl | hv
            · exact ⟨tu.1, tu.2.1, o, tu.2.2, hnc, hne⟩
            · exact q2.routed_cb g' v hv
          · rw [Go g' hgg] at hv; exact q2.routed_cb g' v hv
      rcases hr with ⟨_, rfl⟩ | ⟨_, rfl⟩
      · exact qR
      · exact qR.gle (gle_cancelScope _ _ _)
  · -- setDone
    intro st t o q hi hr _
    refine q.transfer (fun g => ⟨rfl, rfl, rfl, id⟩) (fun u hu => ?_)
    have : u ≠ t := by
      intro e; subst e
      have := hi.g4 _ hu; rw [hr] at this; contradiction
    simp [this, hu]
  · -- aexitPrep
    intro st t g ev q _ _ _ _ _ _ _ hbe
    rcases aexitPrep_shape st g ev with ⟨l, _, _⟩ | ⟨_, _, e⟩
    · exact q.gle l
    · rw [e]
      have q1 := q.gle (gle_cancelScope st (st.groups g).scope false)
      have hC0 : (cancelScope st (st.groups g).scope false).groups = st.groups :=
        (cframe_cancelScope st (st.groups g).scope false).groups
      generalize cancelScope st (st.groups g).scope false = C at q1 hC0
      have hC : ∀ g', (C.groups g').bodyErrs = (st.groups g').bodyErrs := by
        intro g'; rw [hC0]
      have Go : ∀ g', g' ≠ g → (C.setGroup g (fun x =>
          { x with exceptions := x.exceptions ++ ev.leaves, bodyErrs := ev.leaves })).groups g' =
          C.groups g' := by
        intro g' hg'; simp [hg']
      constructor
      · intro g' hx
        by_cases hgg : g' = g
        · subst hgg
          have hx' : (C.groups g').exited = false := by simpa using hx
          have hp := q1.acct g' hx'
          have hbe' : (C.groups g').bodyErrs = [] := by rw [hC]; exact hbe
          have hr : routedErrs (C.setGroup g' (fun x =>
              { x with exceptions := x.exceptions ++ ev.leaves, bodyErrs := ev.leaves })) g' =
              routedErrs C g' := by
            unfold routedErrs; simp; rfl
          rw [hr]
          simp only [setGroup_groups, upd_same]
          rw [hbe'] at hp
          refine (hp.append_right ev.leaves).trans ?_
          simp only [List.nil_append]
          exact List.perm_append_comm
        · rw [Go g' hgg] at hx ⊢
          have : routedErrs (C.setGroup g (fun x =>
              { x with exceptions := x.exceptions ++ ev.leaves, bodyErrs := ev.leaves })) g' =
              routedErrs C g' := by
            unfold routedErrs; rw [Go g' hgg]; rfl
          rw [this]; exact q1.acct g' hx
      · intro g'
        by_cases hgg : g' = g
        · subst hgg; simpa using q1.nodup g'
        · rw [Go g' hgg]; exact q1.nodup g'
      · intro g' v hv
        by_cases hgg : g' = g
        · subst hgg
          have hv' : v ∈ (C.groups g').routed := by simpa using hv
          exact q1.routed_cb g' v hv'
        · rw [Go g' hgg] at hv; exact q1.routed_cb g' v hv
  · -- groupEntered
    intro st g q _ _ _
    refine q.transfer (fun g' => ?_) (fun u hu => ⟨hu, rfl, rfl⟩)
    by_cases hgg : g' = g
    · subst hgg; simp
    · simp [hgg]
  · -- setExited
    intro st g q _ _ _
    constructor
    · intro g' hx
      by_cases hgg : g' = g
      · subst hgg; simp at hx
      · have hx' : (st.groups g').exited = false := by simpa [hgg] using hx
        have hp := q.acct g' hx'
        have : routedErrs (st.setGroup g (fun x => { x with exited := true, exceptions := [] })) g' =
            routedErrs st g' := by
          unfold routedErrs; simp [hgg]; rfl
        rw [this]; simpa [hgg] using hp
    · intro g'
      by_cases hgg : g' = g
      · subst hgg; simpa using q.nodup g'
      · simpa [hgg] using q.nodup g'
    · intro g' v hv
      have hv' : v ∈ (st.groups g').routed := by
        by_cases hgg : g' = g
        · subst hgg; simpa using hv
        · simpa [hgg] using hv
      exact q.routed_cb g' v hv'
  · -- mkGroup
    intro st B s q hi hG hT _ _ _ _ _ _ _ _
    have Go : ∀ g, g ≠ st.nGroups → B.groups g = st.groups g := by
      intro g hg; rw [hG]; simp [hg]
    have Gn : B.groups st.nGroups = { scope := s } := by rw [hG]; simp
    have hre : ∀ g, g ≠ st.nGroups → routedErrs B g = routedErrs st g := by
      intro g hg; unfold routedErrs errsOf; rw [Go g hg, hT]
    constructor
    · intro g hx
      by_cases hg : g = st.nGroups
      · subst hg; unfold routedErrs; rw [Gn]; simp
      · rw [Go g hg] at hx ⊢; rw [hre g hg]; exact q.acct g hx
    · intro g
      by_cases hg : g = st.nGroups
      · subst hg; rw [Gn]; exact List.nodup_nil
      · rw [Go g hg]; exact q.nodup g
    · intro g v hv
      by_cases hg : g = st.nGroups
      · subst hg; rw [Gn] at hv; contradiction
      · rw [Go g hg] at hv; rw [hT]; exact q.routed_cb g v hv

theorem ainv0_reach {st : State} (h : Reach st) : AInv0 st :=
  closed2_reach ainv0_closed ainv0_init h

end AnyioModel.Kernel
