/-
Which transition ends the block of a task group (C02, output level).

`PX a b`: `b` agrees with `a` on everything the accounting invariant reads (all group fields except
`onCompleted`; `outcome`, `doneCbRun`, `group` of every task); transitive and invariant-free, so it
composes along the helpers of `step`.  `EX a b`: no group becomes `exited`.
`exit_step_shape`: a transition in which group `g` becomes `exited` is the resumption of the task
that is inside `__aexit__` of `g`, and it consists of a `PX` prefix followed by `aexitFinish`.
-/
import AnyioModel.Kernel.AcctInv

namespace AnyioModel.Kernel

structure PX (a b : State) : Prop where
  groups : ∀ g, GGroup (a.groups g) (b.groups g)
  tasks : ∀ u, (b.tasks u).outcome = (a.tasks u).outcome ∧
    (b.tasks u).doneCbRun = (a.tasks u).doneCbRun ∧ (b.tasks u).group = (a.tasks u).group

def EX (a b : State) : Prop := ∀ g, (b.groups g).exited = true → (a.groups g).exited = true

theorem EX.refl (a : State) : EX a a := fun _ h => h

theorem EX.trans {a b c : State} (h1 : EX a b) (h2 : EX b c) : EX a c :=
  fun g h => h1 g (h2 g h)

theorem EX.of_eq {a b : State} (h : ∀ g, (b.groups g).exited = (a.groups g).exited) : EX a b :=
  fun g hx => by rw [← h g]; exact hx

theorem EX.of_groups {a b : State} (h : b.groups = a.groups) : EX a b :=
  EX.of_eq (fun g => by rw [h])

theorem PX.tk {a b : State} (h : PX a b) (u : Nat) : (b.tasks u).outcome = (a.tasks u).outcome ∧
    (b.tasks u).doneCbRun = (a.tasks u).doneCbRun ∧ (b.tasks u).group = (a.tasks u).group :=
  h.tasks u

theorem PX.refl (a : State) : PX a a :=
  ⟨fun _ => GGroup.refl _, fun _ => ⟨rfl, rfl, rfl⟩⟩

theorem PX.trans {a b c : State} (h1 : PX a b) (h2 : PX b c) : PX a c := by
  refine ⟨fun g => (h1.groups g).trans (h2.groups g), fun u => ?_⟩
  have e1 := h1.tk u
  have e2 := h2.tk u
  exact ⟨e2.1.trans e1.1, e2.2.1.trans e1.2.1, e2.2.2.trans e1.2.2⟩

theorem PX.ex {a b : State} (h : PX a b) : EX a b := EX.of_eq (fun g => (h.groups g).exited)

theorem PX.of_cframe {a b : State} (c : CFrame a b) : PX a b :=
  ⟨fun g => by rw [c.groups]; exact GGroup.refl _,
    fun u => ⟨(c.tasks u).outcome, (c.tasks u).doneCbRun, (c.tasks u).group⟩⟩

theorem PX.of_frame {a b : State} (f : Frame a b) : PX a b := PX.of_cframe f.cframe

theorem PX.of_eq {a b : State} (hg : b.groups = a.groups) (ht : b.tasks = a.tasks) : PX a b :=
  ⟨fun g => by rw [hg]; exact GGroup.refl _, fun u => by rw [ht]; exact ⟨rfl, rfl, rfl⟩⟩

theorem px_setTask (st : State) (t : Nat) (f : Task → Task)
    (hf : ∀ x, (f x).outcome = x.outcome ∧ (f x).doneCbRun = x.doneCbRun ∧ (f x).group = x.group) :
    PX st (st.setTask t f) := by
  refine ⟨fun g => GGroup.refl _, fun u => ?_⟩
  by_cases hu : u = t
  · subst hu; simpa using hf _
  · simp [hu]

theorem px_setScope (st : State) (s : Nat) (f : Scope → Scope) : PX st (st.setScope s f) :=
  PX.of_eq rfl rfl

theorem px_setGroup (st : State) (g : Nat) (f : Group → Group)
    (hf : ∀ x, GGroup x (f x)) : PX st (st.setGroup g f) := by
  refine ⟨fun g' => ?_, fun u => ⟨rfl, rfl, rfl⟩⟩
  by_cases hg : g' = g
  · subst hg; simpa using hf _
  · simpa [hg] using GGroup.refl _

theorem px_schedule (st : State) (h : Handle) : PX st (st.schedule h) := PX.of_eq rfl rfl
theorem px_unschedule (st : State) (h : Handle) : PX st (st.unschedule h) := PX.of_eq rfl rfl
theorem px_newScope (st : State) (sh : Bool) (d : Option Nat) : PX st (newScope st sh d).1 :=
  PX.of_eq rfl rfl
theorem px_newFut (st : State) : PX st (newFut st).1 := PX.of_eq rfl rfl

theorem px_doYield (st : State) (t : Nat) : PX st (doYield st t) := by
  unfold doYield
  exact (px_setTask st t (fun x => { x with st := .yielded }) (fun x => ⟨rfl, rfl, rfl⟩)).trans
    (PX.of_eq rfl rfl)

theorem px_blockOn (st : State) (t f : Nat) : PX st (blockOn st t f) := by
  unfold blockOn
  have h1 : PX st { st.setTask t (fun x => { x with st := .blocked f }) with
      futWaiter := upd st.futWaiter f (some t), running := none } :=
    (px_setTask st t (fun x => { x with st := .blocked f }) (fun x => ⟨rfl, rfl, rfl⟩)).trans
      (PX.of_eq rfl rfl)
  simp only []
  split
  · exact (h1.trans (px_setTask _ t _ (fun x => by simp))).trans
      (PX.of_frame (frame_resolveFut _ _ _))
  · exact h1

theorem px_enterScope {st st' : State} {t s : Nat} (he : enterScope st t s = some st') :
    PX st st' := by
  obtain ⟨_, _, cf⟩ := enterScope_spec he
  refine PX.trans ⟨fun g => ?_, fun u => ?_⟩ (PX.of_cframe cf)
  · rw [(enterPre_frame st t s).2.2.2.2.1]; exact GGroup.refl _
  · rw [enterPre_task']; split <;> simp_all

theorem px_exitScope {st st' : State} {t s : Nat} {ev : ExcVal} {r : ExitResult}
    (he : exitScope st t s ev = some (st', r)) : PX st st' := by
  obtain ⟨_, _, _, _, cf⟩ := exitScope_spec he
  refine PX.trans ⟨fun g => ?_, fun u => ?_⟩ (PX.of_cframe cf)
  · rw [(exitPre_frame st t s).2.2.2.2.1]; exact GGroup.refl _
  · rw [exitPre_task]; split <;> simp_all

theorem px_setShield (st : State) (s : Nat) (b : Bool) : PX st (setShield st s b) :=
  (px_setScope st s (fun x => { x with shield := b })).trans (PX.of_frame (frame_setShield st s b))

theorem px_setDeadline (st : State) (s : Nat) (d : Option Nat) : PX st (setDeadline st s d) :=
  (px_setScope st s (fun x => { x with deadline := d })).trans
    (PX.of_cframe (cframe_setDeadline st s d))

/-- peel one layer off the later state -/
macro "px1" : tactic => `(tactic| first
  | exact PX.refl _
  | assumption
  | refine PX.trans ?_ (px_setTask _ _ _ (fun x => by simp))
  | refine PX.trans ?_ (px_setGroup _ _ _ (fun x => by constructor <;> simp))
  | refine PX.trans ?_ (px_setScope _ _ _)
  | refine PX.trans ?_ (px_schedule _ _)
  | refine PX.trans ?_ (px_unschedule _ _)
  | refine PX.trans ?_ (px_doYield _ _)
  | refine PX.trans ?_ (px_blockOn _ _ _)
  | refine PX.trans ?_ (px_newScope _ _ _)
  | refine PX.trans ?_ (px_newFut _)
  | refine PX.trans ?_ (PX.of_cframe (cframe_cancelScope _ _ _))
  | refine PX.trans ?_ (PX.of_frame (frame_resolveFut _ _ _))
  | refine PX.trans ?_ (PX.of_frame (frame_deliver _ _))
  | refine PX.trans ?_ (PX.of_frame (frame_taskCancel _ _ _))
  | refine PX.trans ?_ (PX.of_frame (frame_taskUncancel _ _ _))
  | refine PX.trans ?_ (PX.of_cframe (cframe_armTimeout _ _))
  | refine PX.trans ?_ (px_enterScope ‹_›)
  | refine PX.trans ?_ (px_exitScope ‹_›)
  | refine PX.trans ?_ (px_setShield _ _ _)
  | refine PX.trans ?_ (px_setDeadline _ _ _))

macro "px" : tactic => `(tactic| repeat px1)

/-! ### `__aexit__` -/

/-- the end of `__aexit__` of `g` changes the `exited` flag of `g` only -/
theorem aexitFinish_ex {st st' : State} {t g : Nat} {ev : ExcVal} {o : Out}
    (he : aexitFinish st t g ev = some (st', o)) :
    ∀ g', g' ≠ g → (st'.groups g').exited = (st.groups g').exited := by
  unfold aexitFinish at he
  simp only [] at he
  split at he
  · contradiction
  · rename_i st1 r hex
    simp only [Option.some.injEq, Prod.mk.injEq] at he
    obtain ⟨rfl, _⟩ := he
    intro g' hg'
    have := ((px_exitScope hex).groups g').exited
    simpa [hg'] using this

/-- what a part of a transition does: nothing to the fields the accounting reads, or it ends with
`aexitFinish` for `g` after a prefix that does nothing to them -/
def FinOr (st st' : State) (o : Out) (t g : Nat) (ev : ExcVal) : Prop :=
  PX st st' ∨ ∃ x, PX st x ∧ aexitFinish x t g ev = some (st', o)

theorem FinOr.pre {a st st' : State} {o : Out} {t g : Nat} {ev : ExcVal} (p : PX a st)
    (h : FinOr st st' o t g ev) : FinOr a st' o t g ev := by
  rcases h with h | ⟨x, hx, he⟩
  · exact .inl (p.trans h)
  · exact .inr ⟨x, p.trans hx, he⟩

theorem aexitLoop_fin {st st' : State} {t g ws : Nat} {ev : ExcVal} {o : Out}
    (he : aexitLoop st t g ws ev = some (st', o)) : FinOr st st' o t g ev := by
  unfold aexitLoop at he
  split at he
  · simp only [Option.some.injEq, Prod.mk.injEq] at he
    obtain ⟨rfl, _⟩ := he
    left; px
  · split at he
    · contradiction
    · rename_i st1 r hex
      exact .inr ⟨st1, px_exitScope hex, he⟩

theorem aexitAfterChk_fin {st st' : State} {t g : Nat} {ev : ExcVal} {o : Out}
    (he : aexitAfterChk st t g ev = some (st', o)) : FinOr st st' o t g ev := by
  unfold aexitAfterChk at he
  split at he
  · simp only [] at he
    split at he
    · contradiction
    · rename_i st1 hen
      refine FinOr.pre ?_ (aexitLoop_fin he)
      px
  · exact .inr ⟨st, PX.refl _, he⟩

/-- resumption of a task inside a library coroutine: inert for the accounting, or the task is
inside `__aexit__` of some group and ends it; the exception handed to the end of `__aexit__` has
the non-cancellation leaves of the one carried in `lib` -/
theorem continueLib_fin {st st' : State} {t : Nat} {r : Resume} {o : Out}
    (he : continueLib st t r = some (st', o)) :
    PX st st' ∨ ∃ g s ev0 ev x,
      ((st.tasks t).lib = .aexitChk g s ev0 ∨ (st.tasks t).lib = .aexitWait g s ev0) ∧
      nc ev.leaves = nc ev0.leaves ∧ PX st x ∧ aexitFinish x t g ev = some (st', o) := by
  unfold continueLib at he
  split at he
  · simp only [Option.some.injEq, Prod.mk.injEq] at he
    obtain ⟨rfl, _⟩ := he; exact .inl (PX.refl _)
  · -- chkIf
    split at he <;>
    · simp only [Option.some.injEq, Prod.mk.injEq] at he
      obtain ⟨rfl, _⟩ := he
      left; px
  · -- shChk
    split at he
    · contradiction
    · simp only [Option.some.injEq, Prod.mk.injEq] at he
      obtain ⟨rfl, _⟩ := he
      left; px
  · -- sleeping
    simp only [Option.some.injEq, Prod.mk.injEq] at he
    obtain ⟨rfl, _⟩ := he
    left; px
  · -- aexitChk
    rename_i g s ev hl
    split at he
    · contradiction
    · rename_i st1 x hex
      have p1 := px_exitScope hex
      split at he
      · rcases FinOr.pre p1 (aexitAfterChk_fin he) with h | ⟨y, hy, hf⟩
        · exact .inl h
        · exact .inr ⟨g, s, ev, ev, y, .inl hl, rfl, hy, hf⟩
      · split at he
        · rename_i hce
          have p2 : PX st (cancelScope st1 (st1.groups g).scope false) := by px
          rcases FinOr.pre p2 (aexitAfterChk_fin he) with h | ⟨y, hy, hf⟩
          · exact .inl h
          · exact .inr ⟨g, s, ev, _, y, .inl hl, nc_replace ev _ hce, hy, hf⟩
        · contradiction
  · -- aexitWait
    rename_i g ws ev hl
    simp only [] at he
    split at he
    · have p1 : PX st (st.setGroup g (fun x => { x with onCompleted := none })) := by px
      rcases FinOr.pre p1 (aexitLoop_fin he) with h | ⟨y, hy, hf⟩
      · exact .inl h
      · exact .inr ⟨g, ws, ev, ev, y, .inr hl, rfl, hy, hf⟩
    · split at he
      · rename_i hce
        have p2 : PX st (cancelScope (setShield (st.setGroup g
            (fun x => { x with onCompleted := none })) ws true)
            ((setShield (st.setGroup g (fun x => { x with onCompleted := none })) ws true).groups
              g).scope false) := by px
        rcases FinOr.pre p2 (aexitLoop_fin he) with h | ⟨y, hy, hf⟩
        · exact .inl h
        · exact .inr ⟨g, ws, ev, _, y, .inr hl, nc_replace ev _ hce, hy, hf⟩
      · contradiction
  · -- startWait
    left
    repeat' (first | split at he | simp only [] at he)
    all_goals first
      | contradiction
      | (simp only [Option.some.injEq, Prod.mk.injEq] at he; obtain ⟨rfl, _⟩ := he; px; done)
  · -- startJoin
    left
    repeat' (first | split at he | simp only [] at he)
    all_goals first
      | contradiction
      | (simp only [Option.some.injEq, Prod.mk.injEq] at he; obtain ⟨rfl, _⟩ := he; px; done)

theorem runTask_fin {st st' : State} {t : Nat} {o : Out}
    (he : runTask st t = some (st', o)) :
    EX st st' ∨ ∃ g s ev0 ev x,
      ((st.tasks t).lib = .aexitChk g s ev0 ∨ (st.tasks t).lib = .aexitWait g s ev0) ∧
      nc ev.leaves = nc ev0.leaves ∧ PX st x ∧ aexitFinish x t g ev = some (st', o) := by
  have p0 : PX st { st.setTask t (fun x => { x with st := .running, mustCancel := false }) with
      running := some t } :=
    (px_setTask st t (fun x => { x with st := .running, mustCancel := false })
      (fun x => ⟨rfl, rfl, rfl⟩)).trans (PX.of_eq rfl rfl)
  unfold runTask at he
  simp only [] at he
  split at he
  · left
    split at he
    · split at he
      · contradiction
      · rename_i st1 hen
        simp only [Option.some.injEq, Prod.mk.injEq] at he
        obtain ⟨rfl, _⟩ := he
        exact (p0.trans (px_enterScope hen)).ex
    · simp only [Option.some.injEq, Prod.mk.injEq] at he
      obtain ⟨rfl, _⟩ := he
      exact p0.ex.trans (EX.of_groups rfl)
  · rcases continueLib_fin he with h | ⟨g, s, ev0, ev, x, hl, hn, hx, hf⟩
    · exact .inl (p0.trans h).ex
    · refine .inr ⟨g, s, ev0, ev, x, ?_, hn, p0.trans hx, hf⟩
      simpa using hl

/-! ### transitions that do not end a block -/

theorem ex_spawn (st : State) (g : Nat) (sf : Option Nat) : EX st (spawn st g sf).1 := by
  rw [spawn_eq]
  simp only []
  refine EX.trans ?_ (PX.of_frame (frame_spawnTail _ _)).ex
  refine EX.of_eq ?_
  intro g'
  by_cases hg : g' = g
  · subst hg; simp [spawnCore, newScope]
  · simp [spawnCore, newScope, hg]

theorem ex_runTaskDone {st st' : State} {u : Nat} (he : runTaskDone st u = some st') :
    EX st st' := by
  obtain ⟨g, sc, o, hg, hsc, ho, ht⟩ := runTaskDone_shape he
  have e1 : EX st (taskDoneCore st u g sc) := by
    refine EX.of_eq ?_
    intro g'
    unfold taskDoneCore
    by_cases hgg : g' = g
    · subst hgg; simp
    · simp [hgg]
  have e2 : EX st (taskDoneMid (taskDoneCore st u g sc) g) := by
    refine e1.trans ?_
    unfold taskDoneMid
    split
    · split
      · exact (PX.of_frame (frame_resolveFut _ _ _)).ex
      · exact EX.refl _
    · exact EX.refl _
  generalize taskDoneMid (taskDoneCore st u g sc) g = M at ht e2
  unfold taskDoneTail at ht
  simp only [] at ht
  repeat' (split at ht)
  all_goals
    simp only [Option.some.injEq] at ht
    subst ht
    refine e2.trans ?_
    first
    | exact EX.refl _
    | exact (PX.of_frame (frame_resolveFut _ _ _)).ex
    | exact (PX.of_cframe (cframe_cancelScope _ _ _)).ex
    | (refine EX.of_eq ?_
       intro g'; by_cases hgg : g' = g
       · subst hgg; simp
       · simp [hgg])
    | (refine EX.trans ?_ (PX.of_cframe (cframe_cancelScope _ _ _)).ex
       refine EX.of_eq ?_
       intro g'; by_cases hgg : g' = g
       · subst hgg; simp
       · simp [hgg])

theorem ex_finishTask {st st' : State} {t : Nat} {o : Outcome}
    (he : finishTask st t o = some st') : EX st st' := by
  unfold finishTask at he
  simp only [] at he
  split at he
  · split at he
    · contradiction
    · rename_i st1 r hex
      simp only [Option.some.injEq] at he
      subst he
      have p : PX st st1 := by
        refine PX.trans ?_ (px_exitScope hex)
        refine PX.trans ?_ (px_setTask _ _ _ (fun x => by simp))
        refine PX.trans ?_ (PX.of_frame (frame_foldl_resolveFut _ _ _))
        px
      exact p.ex.trans (EX.of_groups rfl)
  · simp only [Option.some.injEq] at he
    subst he
    exact EX.of_groups rfl

theorem ex_aexitPrep (st : State) (g : Nat) (ev : ExcVal) : EX st (aexitPrep st g ev) := by
  unfold aexitPrep
  split
  · simp only []
    split
    · exact (PX.of_cframe (cframe_cancelScope _ _ _)).ex
    · refine (PX.of_cframe (cframe_cancelScope st (st.groups g).scope false)).ex.trans ?_
      refine EX.of_eq ?_
      intro g'
      by_cases hg : g' = g
      · subst hg; simp
      · simp [hg]
  · exact EX.refl _

/-- `.aexit` never ends the block in its own transition: with no child left it first goes through
a (shielded) checkpoint, otherwise it waits for the children -/
theorem ex_aexit {st st' : State} {g : Nat} {ev : ExcVal} {o : Out}
    (hs : step st (.aexit g ev) = some (st', o)) : EX st st' := by
  rw [step_aexit] at hs
  split at hs
  · contradiction
  · rename_i t hr
    split at hs
    · contradiction
    · have e0 := ex_aexitPrep st g ev
      simp only [] at hs
      split at hs
      · split at hs
        · contradiction
        · rename_i st1 hen
          simp only [Option.some.injEq, Prod.mk.injEq] at hs
          obtain ⟨rfl, _⟩ := hs
          refine e0.trans (PX.ex ?_)
          px
      · rename_i hne
        refine e0.trans ?_
        unfold aexitAfterChk at hs
        rw [if_pos hne] at hs
        simp only [] at hs
        split at hs
        · contradiction
        · rename_i st1 hen
          have p1 : PX (aexitPrep st g ev) st1 := by px
          have hne1 : (st1.groups g).tasks ≠ [] := by
            rw [(p1.groups g).tasks]; exact hne
          unfold aexitLoop at hs
          rw [if_pos hne1] at hs
          simp only [Option.some.injEq, Prod.mk.injEq] at hs
          obtain ⟨rfl, _⟩ := hs
          refine PX.ex ?_
          px

end AnyioModel.Kernel
