/-
Delivery of cancellation, part 11: the activity invariant `AF` — every scope that holds a task is
active and every ancestor of an active scope is active — on the maps it talks about, and its
preservation by the pure updates of `__enter__` and `__exit__`.

A task sits in a scope hosted by another task only as a *guest*: a child of the task group whose
scope this is, before `task_done` has run for it (`Guest`).  `__exit__` of a scope that has no
guest leaves no member and no active child scope behind.
-/
import AnyioModel.Kernel.DeliverInv7

namespace AnyioModel.Kernel

/-- `u` is a child (not yet reaped by `task_done`) of a task group whose scope is `p` -/
def Guest (gr : Nat → Group) (nG : Nat) (u p : Nat) : Prop :=
  ∃ g, g < nG ∧ (gr g).scope = p ∧ u ∈ (gr g).tasks

structure AF (sc : Nat → Scope) (tk : Nat → Task) (gr : Nat → Group) (nG : Nat) : Prop where
  /-- the parent of an active scope is active -/
  a1 : ∀ c p, (sc c).active = true → (sc c).parent = some p → (sc p).active = true
  /-- a scope that holds a task is active -/
  a2 : ∀ c t, t ∈ (sc c).tasks → (sc c).active = true
  /-- a member of a scope is its host or a guest -/
  a3 : ∀ s t, t ∈ (sc s).tasks → (sc s).host = some t ∨ Guest gr nG t s
  /-- an active child scope has the host of its parent, or its host is a guest of the parent -/
  a4 : ∀ c p, (sc c).active = true → (sc c).parent = some p →
    (sc c).host = (sc p).host ∨ ∃ u, (sc c).host = some u ∧ Guest gr nG u p
  /-- a task that is done hosts no scope -/
  a5 : ∀ s u, (sc s).host = some u → (tk u).st ≠ .done
  /-- a task hosts no scope above its handle scope -/
  a6 : ∀ u hs x, (tk u).hscope = some hs → x ∈ (sc hs).chain.tail → (sc x).host ≠ some u

/-- no task group that still has children has scope `s` -/
def NoGuests (gr : Nat → Group) (nG : Nat) (s : Nat) : Prop :=
  ∀ g, g < nG → (gr g).scope = s → (gr g).tasks = []

theorem AF.members_of_noGuests {sc tk gr nG} (h : AF sc tk gr nG) {s t : Nat}
    (hh : (sc s).host = some t) (hg : NoGuests gr nG s) :
    ∀ u, u ∈ (sc s).tasks → u = t := by
  intro u hu
  rcases h.a3 s u hu with h1 | ⟨g, h1, h2, h3⟩
  · rw [hh] at h1; exact (Option.some.inj h1).symm
  · rw [hg g h1 h2] at h3; cases h3

theorem AF.no_child_of_noGuests {sc tk gr nG} (h : AF sc tk gr nG) (f : Forest sc tk) {s t : Nat}
    (hh : (sc s).host = some t) (hs : (tk t).scope = some s) (hnd : (tk t).st ≠ .done)
    (hg : NoGuests gr nG s) :
    ∀ c, (sc c).active = true → (sc c).parent ≠ some s := by
  intro c hc hp
  rcases h.a4 c s hc hp with h1 | ⟨u, _, g, h1, h2, h3⟩
  · rw [hh] at h1
    rcases f.host_scope c t h1 with ⟨_, s0, h2, h3⟩ | h2
    · rw [hs] at h2
      cases h2
      have hch := f.chain_spec c (f.active_entered c hc)
      rw [hp] at hch
      simp only [] at hch
      have := f.chain_nodup c
      rw [hch] at this
      exact (List.nodup_cons.mp this).1 h3
    · exact hnd h2
  · rw [hg g h1 h2] at h3; cases h3

/-! ### `__exit__` -/

theorem AF.exit_none {sc : Nat → Scope} {tk : Nat → Task} {gr nG} (h : AF sc tk gr nG)
    (f : Forest sc tk) {t s : Nat}
    (_ha : (sc s).active = true) (hh : (sc s).host = some t) (hs : (tk t).scope = some s)
    (hnd : (tk t).st ≠ .done) (hg : NoGuests gr nG s)
    (hp : (sc s).parent = none) (S : Scope) (T : Task)
    (S1 : S.host = none) (S2 : S.tasks = (sc s).tasks.erase t) (S3 : S.parent = none)
    (S4 : S.chain = (sc s).chain)
    (S5 : S.active = false)
    (T3 : T.st = (tk t).st) (T4 : T.hscope = (tk t).hscope) :
    AF (upd sc s S) (upd tk t T) gr nG := by
  have k1 := h.members_of_noGuests hh hg
  have k2 := h.no_child_of_noGuests f hh hs hnd hg
  have hnd' := f.tasks_nodup s
  have k3 : ∀ u, u ∉ (sc s).tasks.erase t := by
    intro u hu
    have := (List.Nodup.mem_erase_iff hnd').mp hu
    exact this.1 (k1 u this.2)
  have e1 : ∀ q, ((upd sc s S) q).chain = (sc q).chain := by
    intro q; by_cases h2 : q = s <;> simp_all
  have e2 : ∀ q, ((upd sc s S) q).parent = (sc q).parent := by
    intro q; by_cases h2 : q = s <;> simp_all
  have e5 : ∀ q, ((upd sc s S) q).active = if q = s then false else (sc q).active := by
    intro q; by_cases h2 : q = s <;> simp_all
  have e6 : ∀ q, ((upd sc s S) q).host = if q = s then none else (sc q).host := by
    intro q; by_cases h2 : q = s <;> simp_all
  have e8 : ∀ q, ((upd sc s S) q).tasks =
      if q = s then (sc s).tasks.erase t else (sc q).tasks := by
    intro q; by_cases h2 : q = s <;> simp_all
  have f2 : ∀ u, ((upd tk t T) u).st = (tk u).st := by
    intro u; by_cases h1 : u = t <;> simp_all
  have f4 : ∀ u, ((upd tk t T) u).hscope = (tk u).hscope := by
    intro u; by_cases h1 : u = t <;> simp_all
  generalize upd sc s S = sc' at *
  generalize upd tk t T = tk' at *
  clear S1 S2 S3 S4 S5 T3 T4
  obtain ⟨a1, a2, a3, a4, a5, a6⟩ := h
  constructor
  · intro c p hc hpp
    rw [e5] at hc; rw [e2] at hpp; rw [e5]
    split at hc
    · cases hc
    · have hps : p ≠ s := fun e => k2 c hc (e ▸ hpp)
      simp only [hps, if_false]
      exact a1 c p hc hpp
  · intro c u hu
    rw [e8] at hu; rw [e5]
    split at hu
    · exact absurd hu (k3 u)
    · rename_i hcs; simp only [hcs, if_false]; exact a2 c u hu
  · intro x u hu
    rw [e8] at hu; rw [e6]
    split at hu
    · exact absurd hu (k3 u)
    · rename_i hxs; simp only [hxs, if_false]; exact a3 x u hu
  · intro c p hc hpp
    rw [e5] at hc; rw [e2] at hpp; rw [e6, e6]
    split at hc
    · cases hc
    · rename_i hcs
      have hps : p ≠ s := fun e => k2 c hc (e ▸ hpp)
      simp only [hcs, hps, if_false]
      exact a4 c p hc hpp
  · intro x u hu
    rw [e6] at hu; rw [f2]
    split at hu
    · cases hu
    · exact a5 x u hu
  · intro u hs' x hu hx
    rw [f4] at hu; rw [e1] at hx; rw [e6]
    split
    · simp
    · exact a6 u hs' x hu hx

theorem AF.exit_some {sc : Nat → Scope} {tk : Nat → Task} {gr nG} (h : AF sc tk gr nG)
    (f : Forest sc tk) {t s p : Nat}
    (ha : (sc s).active = true) (hh : (sc s).host = some t) (hs : (tk t).scope = some s)
    (hnd : (tk t).st ≠ .done) (hg : NoGuests gr nG s)
    (hp : (sc s).parent = some p) (S P : Scope) (T : Task)
    (S1 : S.host = none) (S2 : S.tasks = (sc s).tasks.erase t) (S3 : S.parent = some p)
    (S4 : S.chain = (sc s).chain)
    (S5 : S.active = false)
    (P1 : P.host = (sc p).host) (P2 : P.tasks = t :: (sc p).tasks) (P3 : P.parent = (sc p).parent)
    (P4 : P.chain = (sc p).chain) (P5 : P.active = (sc p).active)
    (T3 : T.st = (tk t).st) (T4 : T.hscope = (tk t).hscope) :
    AF (upd (upd sc s S) p P) (upd tk t T) gr nG := by
  have k1 := h.members_of_noGuests hh hg
  have k2 := h.no_child_of_noGuests f hh hs hnd hg
  have hnd' := f.tasks_nodup s
  have k3 : ∀ u, u ∉ (sc s).tasks.erase t := by
    intro u hu
    have := (List.Nodup.mem_erase_iff hnd').mp hu
    exact this.1 (k1 u this.2)
  have hps : p ≠ s := by rintro rfl; exact f.parent_ne hp
  have e1 : ∀ q, ((upd (upd sc s S) p P) q).chain = (sc q).chain := by
    intro q; by_cases h1 : q = p <;> by_cases h2 : q = s <;> simp_all
  have e2 : ∀ q, ((upd (upd sc s S) p P) q).parent = (sc q).parent := by
    intro q; by_cases h1 : q = p <;> by_cases h2 : q = s <;> simp_all
  have e5 : ∀ q, ((upd (upd sc s S) p P) q).active = if q = s then false else (sc q).active := by
    intro q; by_cases h1 : q = p <;> by_cases h2 : q = s <;> simp_all
  have e6 : ∀ q, ((upd (upd sc s S) p P) q).host = if q = s then none else (sc q).host := by
    intro q; by_cases h1 : q = p <;> by_cases h2 : q = s <;> simp_all
  have e8 : ∀ q, ((upd (upd sc s S) p P) q).tasks =
      if q = p then t :: (sc p).tasks else if q = s then (sc s).tasks.erase t else (sc q).tasks := by
    intro q; by_cases h1 : q = p <;> by_cases h2 : q = s <;> simp_all
  have f2 : ∀ u, ((upd tk t T) u).st = (tk u).st := by
    intro u; by_cases h1 : u = t <;> simp_all
  have f4 : ∀ u, ((upd tk t T) u).hscope = (tk u).hscope := by
    intro u; by_cases h1 : u = t <;> simp_all
  generalize upd (upd sc s S) p P = sc' at *
  generalize upd tk t T = tk' at *
  clear S1 S2 S3 S4 S5 P1 P2 P3 P4 P5 T3 T4
  obtain ⟨a1, a2, a3, a4, a5, a6⟩ := h
  have hpa : (sc p).active = true := a1 s p ha hp
  constructor
  · intro c q hc hpp
    rw [e5] at hc; rw [e2] at hpp; rw [e5]
    split at hc
    · cases hc
    · have hqs : q ≠ s := fun e => k2 c hc (e ▸ hpp)
      simp only [hqs, if_false]
      exact a1 c q hc hpp
  · intro c u hu
    rw [e8] at hu; rw [e5]
    split at hu
    · rename_i hcp; subst hcp; simp only [hps, if_false]; exact hpa
    · split at hu
      · exact absurd hu (k3 u)
      · rename_i hcs; simp only [hcs, if_false]; exact a2 c u hu
  · intro x u hu
    rw [e8] at hu; rw [e6]
    split at hu
    · rename_i hxp; subst hxp
      simp only [hps, if_false]
      rcases List.mem_cons.mp hu with rfl | hu
      · rcases a4 s x ha hp with h1 | ⟨v, h1, h2⟩
        · left; rw [← h1, hh]
        · right; rw [hh] at h1; cases h1; exact h2
      · exact a3 x u hu
    · split at hu
      · exact absurd hu (k3 u)
      · rename_i hxs; simp only [hxs, if_false]; exact a3 x u hu
  · intro c q hc hpp
    rw [e5] at hc; rw [e2] at hpp; rw [e6, e6]
    split at hc
    · cases hc
    · rename_i hcs
      have hqs : q ≠ s := fun e => k2 c hc (e ▸ hpp)
      simp only [hcs, hqs, if_false]
      exact a4 c q hc hpp
  · intro x u hu
    rw [e6] at hu; rw [f2]
    split at hu
    · cases hu
    · exact a5 x u hu
  · intro u hs' x hu hx
    rw [f4] at hu; rw [e1] at hx; rw [e6]
    split
    · simp
    · exact a6 u hs' x hu hx

/-! ### `__enter__` -/

theorem AF.enter_none {sc : Nat → Scope} {tk : Nat → Task} {gr nG} (h : AF sc tk gr nG)
    (f : Forest sc tk) {t s : Nat}
    (he : (sc s).entered = false) (hd : (tk t).st ≠ .done) (S : Scope) (T : Task)
    (S1 : S.host = some t) (S2 : S.tasks = [t]) (S3 : S.parent = none) (S4 : S.chain = [s])
    (S5 : S.active = true)
    (T3 : T.st = (tk t).st) (T4 : T.hscope = (tk t).hscope) :
    AF (upd sc s S) (upd tk t T) gr nG := by
  have kp : ∀ c, (sc c).parent ≠ some s := by
    intro c hc; have := f.parent_entered c s hc; rw [he] at this; cases this
  have kc : ∀ c, s ∉ (sc c).chain := by
    intro c hc; have := f.chain_entered c s hc; rw [he] at this; cases this
  have f2 : ∀ u, ((upd tk t T) u).st = (tk u).st := by
    intro u; by_cases h1 : u = t <;> simp_all
  have f4 : ∀ u, ((upd tk t T) u).hscope = (tk u).hscope := by
    intro u; by_cases h1 : u = t <;> simp_all
  generalize upd tk t T = tk' at *
  obtain ⟨a1, a2, a3, a4, a5, a6⟩ := h
  constructor
  · intro c p hc hpp
    by_cases hcs : c = s
    · subst hcs; simp [S3] at hpp
    · simp only [upd_other _ _ _ _ hcs] at hc hpp
      have hps : p ≠ s := fun e => kp c (e ▸ hpp)
      simp only [upd_other _ _ _ _ hps]
      exact a1 c p hc hpp
  · intro c u hu
    by_cases hcs : c = s
    · subst hcs; simp [S5]
    · simp only [upd_other _ _ _ _ hcs] at hu ⊢
      exact a2 c u hu
  · intro c u hu
    by_cases hcs : c = s
    · subst hcs
      simp only [upd_same, S2, List.mem_singleton] at hu
      subst hu
      left; simp [S1]
    · simp only [upd_other _ _ _ _ hcs] at hu ⊢
      exact a3 c u hu
  · intro c p hc hpp
    by_cases hcs : c = s
    · subst hcs; simp [S3] at hpp
    · simp only [upd_other _ _ _ _ hcs] at hc hpp
      have hps : p ≠ s := fun e => kp c (e ▸ hpp)
      simp only [upd_other _ _ _ _ hps, upd_other _ _ _ _ hcs]
      exact a4 c p hc hpp
  · intro x u hu
    rw [f2]
    by_cases hxs : x = s
    · subst hxs
      simp only [upd_same, S1] at hu
      cases hu; exact hd
    · simp only [upd_other _ _ _ _ hxs] at hu
      exact a5 x u hu
  · intro u hs' x hu hx
    rw [f4] at hu
    by_cases hss : hs' = s
    · subst hss; simp [S4] at hx
    · simp only [upd_other _ _ _ _ hss] at hx
      have hxs : x ≠ s := fun e => kc hs' (e ▸ List.mem_of_mem_tail hx)
      simp only [upd_other _ _ _ _ hxs]
      exact a6 u hs' x hu hx

theorem AF.enter_some {sc : Nat → Scope} {tk : Nat → Task} {gr nG} (h : AF sc tk gr nG)
    (f : Forest sc tk) {t s p : Nat}
    (he : (sc s).entered = false) (hd : (tk t).st ≠ .done)
    (hp : (tk t).scope = some p)
    (hE : ∀ u, (tk u).hscope = some s → ∀ x, (sc x).host ≠ some u)
    (S P : Scope) (T : Task)
    (S1 : S.host = some t) (S2 : S.tasks = [t]) (S3 : S.parent = some p)
    (S4 : S.chain = s :: (sc p).chain) (S5 : S.active = true)
    (P1 : P.host = (sc p).host) (P2 : P.tasks = (sc p).tasks.erase t) (P3 : P.parent = (sc p).parent)
    (P4 : P.chain = (sc p).chain) (P5 : P.active = (sc p).active)
    (T3 : T.st = (tk t).st) (T4 : T.hscope = (tk t).hscope) :
    AF (upd (upd sc s S) p P) (upd tk t T) gr nG := by
  have kp : ∀ c, (sc c).parent ≠ some s := by
    intro c hc; have := f.parent_entered c s hc; rw [he] at this; cases this
  have kc : ∀ c, s ∉ (sc c).chain := by
    intro c hc; have := f.chain_entered c s hc; rw [he] at this; cases this
  have hps : p ≠ s := by
    rintro rfl; have := f.entered_of_task_scope hp; rw [he] at this; cases this
  have htp : t ∈ (sc p).tasks := (f.tasks_mem p t).mpr ⟨f.task_scope t p hp, hp⟩
  have e1 : ∀ q, ((upd (upd sc s S) p P) q).chain =
      if q = s then s :: (sc p).chain else (sc q).chain := by
    intro q; by_cases h1 : q = p <;> by_cases h2 : q = s <;> simp_all
  have e2 : ∀ q, ((upd (upd sc s S) p P) q).parent = if q = s then some p else (sc q).parent := by
    intro q; by_cases h1 : q = p <;> by_cases h2 : q = s <;> simp_all
  have e5 : ∀ q, ((upd (upd sc s S) p P) q).active = if q = s then true else (sc q).active := by
    intro q; by_cases h1 : q = p <;> by_cases h2 : q = s <;> simp_all
  have e6 : ∀ q, ((upd (upd sc s S) p P) q).host = if q = s then some t else (sc q).host := by
    intro q; by_cases h1 : q = p <;> by_cases h2 : q = s <;> simp_all
  have e8 : ∀ q, ((upd (upd sc s S) p P) q).tasks =
      if q = p then (sc p).tasks.erase t else if q = s then [t] else (sc q).tasks := by
    intro q; by_cases h1 : q = p <;> by_cases h2 : q = s <;> simp_all
  have f2 : ∀ u, ((upd tk t T) u).st = (tk u).st := by
    intro u; by_cases h1 : u = t <;> simp_all
  have f4 : ∀ u, ((upd tk t T) u).hscope = (tk u).hscope := by
    intro u; by_cases h1 : u = t <;> simp_all
  generalize upd (upd sc s S) p P = sc' at *
  generalize upd tk t T = tk' at *
  clear S1 S2 S3 S4 S5 P1 P2 P3 P4 P5 T3 T4
  obtain ⟨a1, a2, a3, a4, a5, a6⟩ := h
  have hpa : (sc p).active = true := a2 p t htp
  constructor
  · intro c q hc hpp
    rw [e5] at hc; rw [e2] at hpp; rw [e5]
    by_cases hcs : c = s
    · simp only [hcs, if_true, Option.some.injEq] at hpp
      subst hpp
      simp only [hps, if_false]; exact hpa
    · simp only [hcs, if_false] at hc hpp
      have hqs : q ≠ s := fun e => kp c (e ▸ hpp)
      simp only [hqs, if_false]
      exact a1 c q hc hpp
  · intro c u hu
    rw [e8] at hu; rw [e5]
    split at hu
    · rename_i hcp; subst hcp; simp only [hps, if_false]; exact hpa
    · split at hu
      · rename_i hcs; simp [hcs]
      · rename_i hcs; simp only [hcs, if_false]; exact a2 c u hu
  · intro x u hu
    rw [e8] at hu; rw [e6]
    split at hu
    · rename_i hxp; subst hxp
      simp only [hps, if_false]
      exact a3 x u (List.mem_of_mem_erase hu)
    · split at hu
      · rename_i hxs
        simp only [List.mem_singleton] at hu
        subst hu
        left; simp [hxs]
      · rename_i hxs; simp only [hxs, if_false]; exact a3 x u hu
  · intro c q hc hpp
    rw [e5] at hc; rw [e2] at hpp; rw [e6, e6]
    by_cases hcs : c = s
    · simp only [hcs, if_true, Option.some.injEq] at hpp
      subst hpp
      simp only [hcs, hps, if_true, if_false]
      rcases a3 p t htp with h1 | h1
      · left; exact h1.symm
      · right; exact ⟨t, rfl, h1⟩
    · simp only [hcs, if_false] at hc hpp
      have hqs : q ≠ s := fun e => kp c (e ▸ hpp)
      simp only [hcs, hqs, if_false]
      exact a4 c q hc hpp
  · intro x u hu
    rw [e6] at hu; rw [f2]
    split at hu
    · cases hu; exact hd
    · exact a5 x u hu
  · intro u hs' x hu hx
    rw [f4] at hu; rw [e1] at hx; rw [e6]
    by_cases hss : hs' = s
    · subst hss
      simp only [if_true, List.tail_cons] at hx
      have hxs : x ≠ hs' := fun e => kc p (e ▸ hx)
      simp only [hxs, if_false]
      exact hE u hu x
    · simp only [hss, if_false] at hx
      have hxs : x ≠ s := fun e => kc hs' (e ▸ List.mem_of_mem_tail hx)
      simp only [hxs, if_false]
      exact a6 u hs' x hu hx

end AnyioModel.Kernel
