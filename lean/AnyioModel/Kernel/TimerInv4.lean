/-
Timer invariant, part 4: the composite helpers of `step` (`_spawn`, `task_done`, the end of a
task, `TaskGroup.__aexit__`, task resumption) evolve the state as `TEvo` allows.
-/
import AnyioModel.Kernel.TimerInv3
namespace AnyioModel.Kernel

/-- same clock, scopes, timers and batch; the ready queue grew by non-timeout handles -/
theorem TEq.of_ready {a b : State} (h1 : b.now = a.now) (h2 : b.nScopes = a.nScopes)
    (h3 : b.timers = a.timers) (h4 : b.cur = a.cur)
    (h5 : ∃ extra, b.ready = a.ready ++ extra ∧ ∀ h ∈ extra, ∀ s, h ≠ Handle.timeout s)
    (h6 : ∀ i, SEq (a.scopes i) (b.scopes i)) : TEq a b := by
  obtain ⟨extra, he, hn⟩ := h5
  refine ⟨h1, h2, fun _ => by rw [h3], fun _ => by rw [h4], fun s => ?_, h6⟩
  rw [he, List.count_append]
  have : extra.count (Handle.timeout s) = 0 :=
    List.count_eq_zero.2 (fun hm => hn _ hm s rfl)
  omega

theorem teq_doYield (st : State) (t : Nat) : TEq st (doYield st t) :=
  TEq.of_ready rfl rfl rfl rfl ⟨[.step t], rfl, by simp⟩ (fun _ => SEq.refl _)

theorem teq_blockOn (st : State) (t f : Nat) : TEq st (blockOn st t f) := by
  unfold blockOn
  dsimp only
  have h1 : TEq st { st.setTask t (fun x => { x with st := .blocked f }) with
              futWaiter := upd st.futWaiter f (some t), running := none } :=
    TEq.of_fields rfl rfl rfl rfl rfl rfl
  split
  · exact h1.trans ((TEq.setTask _ _ _).trans (TEq.resolveFut _ _ _))
  · exact h1

theorem teq_newFut (st : State) : TEq st (newFut st).1 :=
  TEq.of_fields rfl rfl rfl rfl rfl rfl

/-! ### `_spawn` -/

/-- the pure part of `_spawn` after the handle scope `hs` has been allocated -/
def tSpawnCore (st : State) (g gs hs : Nat) (sf : Option Nat) : State :=
  let u := st.nTasks
  let st := { st.setTask u (fun _ =>
      { st := .created, hasState := true, scope := some gs, group := some g,
        startFut := sf, hscope := some hs }) with nTasks := u + 1 }
  let st := st.schedule (.step u)
  let st := st.setScope gs (fun x => { x with tasks := u :: x.tasks })
  st.setGroup g (fun x => { x with tasks := u :: x.tasks, spawned := u :: x.spawned })

/-- the cancellation machinery at the end of `_spawn` -/
def tSpawnTail (st : State) (gs : Nat) : State :=
  if (st.scopes gs).cancelCalled then
    if (st.scopes gs).deliver then st else deliver st gs
  else if (st.scopes gs).shield then st
  else restartInParent st gs

theorem tSpawn_eq (st : State) (g : Nat) (sf : Option Nat) :
    spawn st g sf =
      (tSpawnTail (tSpawnCore (newScope st false none).1 g (st.groups g).scope
        (newScope st false none).2 sf) (st.groups g).scope, (newScope st false none).1.nTasks) :=
  rfl

theorem teq_tSpawnCore (st : State) (g gs hs : Nat) (sf : Option Nat) :
    TEq st (tSpawnCore st g gs hs sf) := by
  refine TEq.of_ready rfl rfl rfl rfl ⟨[.step st.nTasks], rfl, by simp⟩ (fun i => ?_)
  by_cases hi : i = gs
  · subst hi; simp [tSpawnCore]; constructor <;> rfl
  · simp [tSpawnCore, hi]; exact SEq.refl _

theorem teq_tSpawnTail (st : State) (gs : Nat) : TEq st (tSpawnTail st gs) := by
  unfold tSpawnTail
  split
  · split
    · exact TEq.refl _
    · exact TEq.deliver _ _
  · split
    · exact TEq.refl _
    · exact TEq.restartInParent _ _

theorem tevo_spawn (st : State) (g : Nat) (sf : Option Nat) : TEvo st (spawn st g sf).1 := by
  rw [tSpawn_eq]
  exact (tevo_newScope st false).trans
    (TEvo.of_teq ((teq_tSpawnCore _ _ _ _ _).trans (teq_tSpawnTail _ _)))

/-! ### `task_done` -/

/-- literal copy of the end of `runTaskDone` -/
def tdTail (st : State) (g u : Nat) (o : Outcome) (sfo : Option Nat) : Option State :=
  let gs := (st.groups g).scope
  match o with
  | .none =>
    match sfo with
    | some sf =>
      if (st.futs sf).done then some st
      else some (resolveFut st sf (.failed (.one .runtimeError)))
    | none => some st
  | e =>
    match sfo with
    | some sf =>
      if (st.futs sf) matches .cancelled _ ∧ e.isCancelledError then some st
      else if (st.futs sf).done then
        let st := if e.isCancelledError then st else
          st.setGroup g (fun x =>
            { x with exceptions := x.exceptions ++ e.leaves, routed := u :: x.routed })
        some (if effCancelled st gs then st else cancelScope st gs false)
      else some (resolveFut st sf (.failed e))
    | none =>
      let st := if e.isCancelledError then st else
        st.setGroup g (fun x =>
          { x with exceptions := x.exceptions ++ e.leaves, routed := u :: x.routed })
      some (if effCancelled st gs then st else cancelScope st gs false)

def tdMid (st : State) (g : Nat) : State :=
  match (st.groups g).onCompleted with
  | some f => if (st.groups g).tasks = [] then resolveFut st f .result else st
  | none => st

theorem tRunTaskDone_eq (st : State) (u : Nat) :
    runTaskDone st u =
      match (st.tasks u).group, (st.tasks u).scope, (st.tasks u).outcome with
      | some g, some sc, some o =>
        tdTail (tdMid
          (((st.setScope sc (fun x => { x with tasks := x.tasks.erase u })).setGroup g
            (fun x => { x with tasks := x.tasks.erase u })).setTask u
            (fun x => { x with hasState := false, scope := none, doneCbRun := true })) g)
          g u o (st.tasks u).startFut
      | _, _, _ => none := rfl

theorem tevo_tdTail {st st' : State} {g u : Nat} {o : Outcome} {sfo : Option Nat}
    (he : tdTail st g u o sfo = some st') : TEvo st st' := by
  have hc : ∀ (a : State) (s : Nat), TEvo a (cancelScope a s false) := tevo_cancel
  unfold tdTail at he
  simp only [] at he
  repeat' (split at he)
  all_goals
    simp only [Option.some.injEq] at he
    subst he
    first
    | exact TEvo.refl _
    | exact TEvo.of_teq (TEq.resolveFut _ _ _)
    | exact TEvo.of_teq (TEq.setGroup _ _ _)
    | exact hc _ _
    | exact (TEvo.of_teq (TEq.setGroup _ _ _)).trans (hc _ _)

theorem tevo_runTaskDone {st st' : State} {u : Nat} (he : runTaskDone st u = some st') :
    TEvo st st' := by
  rw [tRunTaskDone_eq] at he
  split at he
  · rename_i g sc o _ _ _
    have h1 : TEq st (((st.setScope sc (fun x => { x with tasks := x.tasks.erase u })).setGroup g
            (fun x => { x with tasks := x.tasks.erase u })).setTask u
            (fun x => { x with hasState := false, scope := none, doneCbRun := true })) :=
      ((TEq.setScope _ _ _ (fun x => by constructor <;> rfl)).trans (TEq.setGroup _ _ _)).trans
        (TEq.setTask _ _ _)
    have h2 : ∀ a : State, TEq a (tdMid a g) := by
      intro a; unfold tdMid
      split
      · split
        · exact TEq.resolveFut _ _ _
        · exact TEq.refl _
      · exact TEq.refl _
    exact (TEvo.of_teq (h1.trans (h2 _))).trans (tevo_tdTail he)
  · contradiction

/-! ### the end of a task's coroutine -/

theorem teq_foldl_resolveFut (st : State) (l : List Nat) (v : FutSt) :
    TEq st (l.foldl (fun st f => resolveFut st f v) st) := by
  induction l generalizing st with
  | nil => exact TEq.refl _
  | cons f l ih => exact (TEq.resolveFut st f v).trans (ih _)

theorem tevo_finishTask {st st' : State} {t : Nat} {o : Outcome}
    (he : finishTask st t o = some st') : TEvo st st' := by
  unfold finishTask at he
  simp only [] at he
  split at he
  · rename_i hs _
    split at he
    · contradiction
    · rename_i st1 r hex
      simp only [Option.some.injEq] at he
      subst he
      have h1 := ((TEq.setTask st t (fun x => { x with hexc := o, finished := true })).trans
        (teq_foldl_resolveFut _ (st.tasks t).hwaiters .result)).trans
        (TEq.setTask _ t (fun x => { x with hwaiters := [] }))
      refine ((TEvo.of_teq h1).trans (tevo_exitScope hex)).trans (TEvo.of_teq ?_)
      exact TEq.of_ready rfl rfl rfl rfl ⟨[.taskDone t], rfl, by simp⟩ (fun _ => SEq.refl _)
  · simp only [Option.some.injEq] at he
    subst he
    exact TEvo.of_teq (TEq.of_fields rfl rfl rfl rfl rfl rfl)

/-! ### `TaskGroup.__aexit__` -/

theorem tevo_aexitFinish {st st' : State} {t g : Nat} {ev : ExcVal} {o : Out}
    (he : aexitFinish st t g ev = some (st', o)) : TEvo st st' := by
  unfold aexitFinish at he
  simp only [] at he
  split at he
  · contradiction
  · rename_i st1 r hex
    simp only [Option.some.injEq, Prod.mk.injEq] at he
    obtain ⟨rfl, _⟩ := he
    exact (tevo_exitScope hex).trans
      (TEvo.of_teq ((TEq.setGroup _ _ _).trans (TEq.setTask _ _ _)))

theorem tevo_aexitLoop {st st' : State} {t g ws : Nat} {ev : ExcVal} {o : Out}
    (he : aexitLoop st t g ws ev = some (st', o)) : TEvo st st' := by
  unfold aexitLoop at he
  split at he
  · simp only [Option.some.injEq, Prod.mk.injEq] at he
    obtain ⟨rfl, _⟩ := he
    exact TEvo.of_teq ((((teq_newFut st).trans (TEq.setGroup _ _ _)).trans (TEq.setTask _ _ _)).trans
      (teq_blockOn _ _ _))
  · split at he
    · contradiction
    · rename_i st1 r hex
      exact (tevo_exitScope hex).trans (tevo_aexitFinish he)

theorem tevo_aexitAfterChk {st st' : State} {t g : Nat} {ev : ExcVal} {o : Out}
    (he : aexitAfterChk st t g ev = some (st', o)) : TEvo st st' := by
  unfold aexitAfterChk at he
  split at he
  · try simp only [] at he
    split at he
    · contradiction
    · rename_i st1 hen
      exact ((tevo_newScope st false).trans (tevo_enterScope hen)).trans (tevo_aexitLoop he)
  · exact tevo_aexitFinish he

/-! ### resuming a task -/

theorem tevo_continueLib {st st' : State} {t : Nat} {r : Resume} {o : Out}
    (he : continueLib st t r = some (st', o)) : TEvo st st' := by
  unfold continueLib at he
  split at he
  · -- none
    simp only [Option.some.injEq, Prod.mk.injEq] at he
    obtain ⟨rfl, _⟩ := he
    exact TEvo.refl _
  · -- chkIf
    split at he
    all_goals
      simp only [Option.some.injEq, Prod.mk.injEq] at he
      obtain ⟨rfl, _⟩ := he
    · exact TEvo.of_teq (teq_doYield _ _)
    · exact TEvo.of_teq (TEq.setTask _ _ _)
  · -- shChk
    split at he
    · contradiction
    · rename_i st1 x hex
      simp only [Option.some.injEq, Prod.mk.injEq] at he
      obtain ⟨rfl, _⟩ := he
      exact (tevo_exitScope hex).trans (TEvo.of_teq (TEq.setTask _ _ _))
  · -- sleeping
    simp only [Option.some.injEq, Prod.mk.injEq] at he
    obtain ⟨rfl, _⟩ := he
    exact TEvo.of_teq ((TEq.unschedule _ _ (by simp)).trans (TEq.setTask _ _ _))
  · -- aexitChk
    split at he
    · contradiction
    · rename_i st1 x hex
      split at he
      · exact (tevo_exitScope hex).trans (tevo_aexitAfterChk he)
      · split at he
        · exact ((tevo_exitScope hex).trans (tevo_cancel _ _)).trans (tevo_aexitAfterChk he)
        · contradiction
  · -- aexitWait
    try simp only [] at he
    split at he
    · exact (TEvo.of_teq (TEq.setGroup _ _ _)).trans (tevo_aexitLoop he)
    · split at he
      · exact (((TEvo.of_teq (TEq.setGroup _ _ _)).trans (TEvo.of_teq (teq_setShield _ _ _))).trans
          (tevo_cancel _ _)).trans (tevo_aexitLoop he)
      · contradiction
  · -- startWait
    split at he
    · simp only [Option.some.injEq, Prod.mk.injEq] at he
      obtain ⟨rfl, _⟩ := he
      exact TEvo.of_teq (TEq.setTask _ _ _)
    · try simp only [] at he
      split at he
      · contradiction
      · rename_i hs _
        split at he
        · try simp only [] at he
          split at he
          · contradiction
          · rename_i st1 hen
            have h1 := ((tevo_cancel st hs).trans (tevo_newScope _ true)).trans (tevo_enterScope hen)
            split at he
            all_goals
              simp only [Option.some.injEq, Prod.mk.injEq] at he
              obtain ⟨rfl, _⟩ := he
            · exact h1.trans (TEvo.of_teq ((TEq.setTask _ _ _).trans (teq_doYield _ _)))
            · exact h1.trans (TEvo.of_teq ((((TEq.setTask _ _ _).trans (teq_newFut _)).trans
                (TEq.setTask _ _ _)).trans (teq_blockOn _ _ _)))
        · simp only [Option.some.injEq, Prod.mk.injEq] at he
          obtain ⟨rfl, _⟩ := he
          exact TEvo.of_teq (TEq.setTask _ _ _)
  · -- startJoin
    split at he
    · contradiction
    · rename_i st1 x hex
      try simp only [] at he
      split at he
      all_goals
        simp only [Option.some.injEq, Prod.mk.injEq] at he
        obtain ⟨rfl, _⟩ := he
        exact (tevo_exitScope hex).trans (TEvo.of_teq (TEq.setTask _ _ _))

theorem tevo_runTask {st st' : State} {t : Nat} {o : Out}
    (he : runTask st t = some (st', o)) : TEvo st st' := by
  unfold runTask at he
  try simp only [] at he
  have h0 : TEq st { st.setTask t (fun x => { x with st := .running, mustCancel := false }) with
              running := some t } := TEq.of_fields rfl rfl rfl rfl rfl rfl
  split at he
  · split at he
    · split at he
      · contradiction
      · rename_i st1 hen
        simp only [Option.some.injEq, Prod.mk.injEq] at he
        obtain ⟨rfl, _⟩ := he
        exact (TEvo.of_teq h0).trans (tevo_enterScope hen)
    · simp only [Option.some.injEq, Prod.mk.injEq] at he
      obtain ⟨rfl, _⟩ := he
      refine (TEvo.of_teq h0).trans (TEvo.of_teq ?_)
      exact TEq.of_ready rfl rfl rfl rfl ⟨[.taskDone t], rfl, by simp⟩ (fun _ => SEq.refl _)
  · exact (TEvo.of_teq h0).trans (tevo_continueLib he)

end AnyioModel.Kernel
