/-
Host invariants of the kernel model, part 1: the invariant `HInv` and the steps that are inert
for it.

* `h1` the current scope of a task that has started and is not done is hosted by that task;
* `p1` the parent of a scope hosted by `t` (other than `t`'s handle scope) is hosted by `t`;
* `a1` while a task is inside `TaskGroup.__aexit__` of `g` (`InAexit`), the group scope is hosted by
  it (until it has been left);
* `b1` once `__aexit__` has recorded an exception of the body (`bodyErrs ≠ []`, or the group is
  marked by `K`), some task is inside `__aexit__` of `g` or the block has ended;
* `d1`, `d2` allocation facts: a handle scope is neither a group scope nor the scope a library
  coroutine of that task is going to leave;
* `e1` the exception `__aexit__` carries along has the non-cancellation leaves of `bodyErrs`;
* `y1` a task inside `TaskGroup.start` waiting for the readiness future is never suspended in a
  bare `yield`;
* `c1` a task that has not started yet has a `TaskHandle`.

`HInv K ext pa`: `ext` exempts one task from `h1`; `pa = some (g, t)`: task `t` has executed the
guard of `__aexit__` of `g` and is about to record that in its `lib` field (it counts as being
inside `__aexit__` for `a1`, `b1`; `x1`: nobody else is; `e1` is suspended for `g`).
-/
import AnyioModel.Kernel.FutInv5

namespace AnyioModel.Kernel

def InAexit (st : State) (g t : Nat) : Prop :=
  ∃ s ev, (st.tasks t).lib = .aexitChk g s ev ∨ (st.tasks t).lib = .aexitWait g s ev

/-- inside `__aexit__` of `g`, or about to be -/
def InAexitP (st : State) (pa : Option (Nat × Nat)) (g t : Nat) : Prop :=
  InAexit st g t ∨ pa = some (g, t)

/-- the scope the library coroutine is going to leave -/
def libScope : Lib → Option Nat
  | .shChk s => some s
  | .aexitChk _ s _ => some s
  | .aexitWait _ s _ => some s
  | .startJoin _ _ s _ => some s
  | _ => none

/-- non-cancellation leaves -/
def nc (l : List Exc) : List Exc := l.filter (fun e => !e.isCancel)

structure HInv (K : Nat → Prop) (ext : Option Nat) (pa : Option (Nat × Nat)) (st : State) :
    Prop where
  h1 : ∀ t s, some t ≠ ext → (st.tasks t).scope = some s → (st.tasks t).st ≠ .done →
    (st.tasks t).st ≠ .created → (st.scopes s).host = some t
  p1 : ∀ s t p, (st.scopes s).host = some t → (st.scopes s).parent = some p →
    (st.tasks t).hscope ≠ some s → (st.scopes p).host = some t
  a1 : ∀ t g, InAexitP st pa g t → g < st.nGroups ∧
    (st.scopes (st.groups g).scope).entered = true ∧
    ((st.scopes (st.groups g).scope).host = some t ∨
      (st.scopes (st.groups g).scope).active = false)
  b1 : ∀ g, ((st.groups g).bodyErrs ≠ [] ∨ K g) →
    (st.groups g).exited = true ∨ ∃ t, InAexitP st pa g t
  l0 : ∀ t, st.nTasks ≤ t → (st.tasks t).lib = .none
  d1 : ∀ g u, g < st.nGroups → (st.tasks u).hscope ≠ some (st.groups g).scope
  d2 : ∀ t s, libScope (st.tasks t).lib = some s → (st.tasks t).hscope ≠ some s
  e1 : ∀ t g s ev, (∀ t0, pa ≠ some (g, t0)) →
    ((st.tasks t).lib = .aexitChk g s ev ∨ (st.tasks t).lib = .aexitWait g s ev) →
    nc ev.leaves = nc (st.groups g).bodyErrs
  x1 : ∀ g t0, pa = some (g, t0) → ∀ u, ¬ InAexit st g u
  k0 : ∀ g, K g → g < st.nGroups
  y1 : ∀ t g u f, (st.tasks t).lib = .startWait g u f → (st.tasks t).st ≠ .yielded
  c1 : ∀ t, (st.tasks t).st = .created → t < st.nTasks → (st.tasks t).hscope ≠ none

/-- two states agree on everything `HInv` reads -/
structure HSame (a b : State) : Prop where
  scope : ∀ t, (b.tasks t).scope = (a.tasks t).scope
  hscope : ∀ t, (b.tasks t).hscope = (a.tasks t).hscope
  lib : ∀ t, (b.tasks t).lib = (a.tasks t).lib
  done : ∀ t, (b.tasks t).st = .done ↔ (a.tasks t).st = .done
  created : ∀ t, (b.tasks t).st = .created ↔ (a.tasks t).st = .created
  yielded : ∀ t, (b.tasks t).st = .yielded ↔ (a.tasks t).st = .yielded
  host : ∀ s, (b.scopes s).host = (a.scopes s).host
  parent : ∀ s, (b.scopes s).parent = (a.scopes s).parent
  active : ∀ s, (b.scopes s).active = (a.scopes s).active
  entered : ∀ s, (b.scopes s).entered = (a.scopes s).entered
  gscope : ∀ g, (b.groups g).scope = (a.groups g).scope
  exited : ∀ g, (b.groups g).exited = (a.groups g).exited
  bodyErrs : ∀ g, (b.groups g).bodyErrs = (a.groups g).bodyErrs
  nTasks : b.nTasks = a.nTasks
  nGroups : b.nGroups = a.nGroups

theorem HSame.refl (a : State) : HSame a a := by
  constructor <;> intros <;> rfl

theorem HSame.trans {a b c : State} (h1 : HSame a b) (h2 : HSame b c) : HSame a c := by
  obtain ⟨a1, a2, a3, a4, a5, a6, a7, a8, a9, a10, a11, a12, a13, a14, a15⟩ := h1
  obtain ⟨b1, b2, b3, b4, b5, b6, b7, b8, b9, b10, b11, b12, b13, b14, b15⟩ := h2
  constructor <;> intros <;> simp [*]

theorem HSame.of_cframe {a b : State} (c : CFrame a b) : HSame a b := by
  constructor
  · exact fun t => (c.tasks t).scope
  · exact fun t => (c.tasks t).hscope
  · exact fun t => (c.tasks t).lib
  · exact fun t => (c.tasks t).st_done
  · exact fun t => (c.tasks t).st_created
  · exact fun t => (c.tasks t).st_yielded
  · exact fun s => (c.scopes s).host
  · exact fun s => (c.scopes s).parent
  · exact fun s => (c.scopes s).active
  · exact fun s => (c.scopes s).entered
  · intro g; rw [c.groups]
  · intro g; rw [c.groups]
  · intro g; rw [c.groups]
  · exact c.nTasks
  · exact c.nGroups

theorem inAexit_hsame {a b : State} (s : HSame a b) {g t : Nat} :
    InAexit b g t ↔ InAexit a g t := by
  unfold InAexit; rw [s.lib]

theorem inAexitP_hsame {a b : State} (s : HSame a b) {pa : Option (Nat × Nat)} {g t : Nat} :
    InAexitP b pa g t ↔ InAexitP a pa g t := by
  unfold InAexitP; rw [inAexit_hsame s]

theorem hinv_hsame {K : Nat → Prop} {ext : Option Nat} {pa : Option (Nat × Nat)} {a b : State}
    (h : HInv K ext pa a) (s : HSame a b) : HInv K ext pa b := by
  constructor
  · intro t sc he hs hd hc
    rw [s.scope] at hs; rw [s.host]
    exact h.h1 t sc he hs (fun x => hd ((s.done t).mpr x)) (fun x => hc ((s.created t).mpr x))
  · intro sc t p hh hp hn
    rw [s.host] at hh ⊢; rw [s.parent] at hp; rw [s.hscope] at hn
    exact h.p1 sc t p hh hp hn
  · intro t g hi
    rw [inAexitP_hsame s] at hi
    rw [s.nGroups, s.gscope, s.entered, s.host, s.active]
    exact h.a1 t g hi
  · intro g hb
    rw [s.bodyErrs] at hb; rw [s.exited]
    rcases h.b1 g hb with h1 | ⟨t, ht⟩
    · exact .inl h1
    · exact .inr ⟨t, (inAexitP_hsame s).mpr ht⟩
  · intro t ht
    rw [s.nTasks] at ht; rw [s.lib]; exact h.l0 t ht
  · intro g u hg
    rw [s.nGroups] at hg; rw [s.hscope, s.gscope]; exact h.d1 g u hg
  · intro t sc hl
    rw [s.lib] at hl; rw [s.hscope]; exact h.d2 t sc hl
  · intro t g sc ev hp hl
    rw [s.lib] at hl; rw [s.bodyErrs]; exact h.e1 t g sc ev hp hl
  · intro g t0 hp u hu
    exact h.x1 g t0 hp u ((inAexit_hsame s).mp hu)
  · intro g hk; rw [s.nGroups]; exact h.k0 g hk
  · intro t g u f hl hy
    rw [s.lib] at hl
    exact h.y1 t g u f hl ((s.yielded t).mp hy)
  · intro t hc hlt
    rw [s.nTasks] at hlt; rw [s.hscope]
    exact h.c1 t ((s.created t).mp hc) hlt

theorem hinv_init : HInv (fun _ => False) none none init := by
  have hlib : ∀ t, (init.tasks t).lib = .none := by
    intro t; simp [init]; split <;> simp
  constructor
  · intro t s _ hs; simp [init] at hs; split at hs <;> simp at hs
  · intro s t p hh; simp [init] at hh
  · intro t g hi
    rcases hi with ⟨s, ev, hi⟩ | hi
    · rw [hlib] at hi; rcases hi with hi | hi <;> cases hi
    · cases hi
  · intro g hb; simp [init] at hb
  · intro t _; exact hlib t
  · intro g u hg; simp [init] at hg
  · intro t s hl; rw [hlib] at hl; cases hl
  · intro t g s ev _ hl; rw [hlib] at hl; rcases hl with hl | hl <;> cases hl
  · intro g t0 hp; cases hp
  · intro g hk; exact hk.elim
  · intro t g u f hl; rw [hlib] at hl; cases hl
  · intro t hc hlt
    have : t = 0 := by simp [init] at hlt; omega
    subst this; simp [init] at hc

/-- dropping the exemption of a task for which `h1` holds anyway -/
theorem hinv_unext {K : Nat → Prop} {pa : Option (Nat × Nat)} {x : State} {t : Nat}
    (h : HInv K (some t) pa x)
    (ht : ∀ s, (x.tasks t).scope = some s → (x.tasks t).st ≠ .done → (x.tasks t).st ≠ .created →
      (x.scopes s).host = some t) : HInv K none pa x := by
  obtain ⟨a1, a2, a3, a4, a5, a6, a7, a8, a9, a10, a11, a12⟩ := h
  refine ⟨?_, a2, a3, a4, a5, a6, a7, a8, a9, a10, a11, a12⟩
  intro u s _ hs hd hc
  by_cases hu : u = t
  · subst hu; exact ht s hs hd hc
  · exact a1 u s (by simpa using hu) hs hd hc

/-! ### the structural part of `__enter__` / `__exit__` as seen by `HInv` -/

theorem enterPre_hscopes (st : State) (t s x : Nat) :
    ((enterPre st t s).scopes x).host = (if x = s then some t else (st.scopes x).host) ∧
    ((enterPre st t s).scopes x).active = (if x = s then true else (st.scopes x).active) ∧
    ((enterPre st t s).scopes x).entered = (if x = s then true else (st.scopes x).entered) ∧
    ((enterPre st t s).scopes x).parent = (if x = s then
      (if (st.tasks t).hasState then (st.tasks t).scope else (st.scopes s).parent)
      else (st.scopes x).parent) := by
  unfold enterPre enterCore
  simp only []
  by_cases hx : x = s
  · subst hx
    split
    · rename_i hh
      have hf : (st.tasks t).hasState = false := by simpa using hh
      simp [hf]
    · rename_i hh
      have : (st.tasks t).hasState = true := by simpa using hh
      split
      · rename_i p hp
        by_cases hxp : x = p
        · subst hxp; simp [this, hp]
        · simp [hxp, this, hp]
      · rename_i hp; simp [this, hp]
  · split
    · simp [hx]
    · split
      · rename_i p hp
        by_cases hxp : x = p
        · subst hxp; simp [hx]
        · simp [hx, hxp]
      · simp [hx]

theorem exitPre_hscopes (st : State) (t s x : Nat) :
    ((exitPre st t s).scopes x).host = (if x = s then none else (st.scopes x).host) ∧
    ((exitPre st t s).scopes x).active = (if x = s then false else (st.scopes x).active) ∧
    ((exitPre st t s).scopes x).entered = (st.scopes x).entered ∧
    ((exitPre st t s).scopes x).parent = (st.scopes x).parent := by
  cases hB : (st.scopes s).parent <;> cases hT : (st.scopes s).timer <;>
    simp only [exitPre, exitCore, hB, hT, setScope_scopes, setTask_scopes, unschedule_scopes,
      Bool.false_eq_true, if_false, if_true] <;>
    grind

end AnyioModel.Kernel
