/-
Host invariants of the kernel model, part 1: the invariant `HInv` and the steps that are inert
for it.

* `h1` the current scope of a task that has started and is not done is hosted by that task;
* `p1` the parent of a scope hosted by `t` (other than `t`'s handle scope) is hosted by `t`;
* `a1` while a task is inside `TaskGroup.__aexit__` of `g` (`InAexit`), the group scope is hosted by
  it (until it has been left);
* `b1` once `__aexit__` has recorded an exception of the body (`bodyErrs ≠ []`, or the group is
  marked by `K`), some task is inside `__aexit__` of `g` or the block has ended.

`HInv K ext exg`: `ext` exempts one task from `h1`, `exg` one group from `b1` (for the few
intermediate states of a transition in which they do not hold).

STATUS: the invariant, the inert relation `HSame`, the closure lemmas for every elementary update
(`HostInv2.lean`) and `hinv_aexit_disabled` (a marked group cannot start `__aexit__` again) are
proved.  NOT yet done: the pass over `step` (`hinv_step`, `hinv_reach`; same skeleton as
`FutInv4/5`, threading `WFR` with the `WFR.*` lemmas of `WF7`).  For that pass two more fields are
needed so that `hinv_exitPre` can be applied to the exits of library scopes:
`d1 : g < nGroups → hscope u ≠ some (groups g).scope` and
`d2 : lib t ∈ {shChk s, aexitChk _ s _, aexitWait _ s _, startJoin _ _ s _} → hscope t ≠ some s`
(both are allocation facts: the scope was allocated after the handle scope, `WF.hscope_lt`).
-/
import AnyioModel.Kernel.FutInv5

namespace AnyioModel.Kernel

def InAexit (st : State) (g t : Nat) : Prop :=
  ∃ s ev, (st.tasks t).lib = .aexitChk g s ev ∨ (st.tasks t).lib = .aexitWait g s ev

structure HInv (K : Nat → Prop) (ext exg : Option Nat) (st : State) : Prop where
  h1 : ∀ t s, some t ≠ ext → (st.tasks t).scope = some s → (st.tasks t).st ≠ .done →
    (st.tasks t).st ≠ .created → (st.scopes s).host = some t
  p1 : ∀ s t p, (st.scopes s).host = some t → (st.scopes s).parent = some p →
    (st.tasks t).hscope ≠ some s → (st.scopes p).host = some t
  a1 : ∀ t g, InAexit st g t → g < st.nGroups ∧
    (st.scopes (st.groups g).scope).entered = true ∧
    ((st.scopes (st.groups g).scope).host = some t ∨
      (st.scopes (st.groups g).scope).active = false)
  b1 : ∀ g, some g ≠ exg → ((st.groups g).bodyErrs ≠ [] ∨ K g) →
    (st.groups g).exited = true ∨ ∃ t, InAexit st g t
  l0 : ∀ t, st.nTasks ≤ t → (st.tasks t).lib = .none

/-- two states agree on everything `HInv` reads -/
structure HSame (a b : State) : Prop where
  scope : ∀ t, (b.tasks t).scope = (a.tasks t).scope
  hscope : ∀ t, (b.tasks t).hscope = (a.tasks t).hscope
  lib : ∀ t, (b.tasks t).lib = (a.tasks t).lib
  done : ∀ t, (b.tasks t).st = .done ↔ (a.tasks t).st = .done
  created : ∀ t, (b.tasks t).st = .created ↔ (a.tasks t).st = .created
  host : ∀ s, (b.scopes s).host = (a.scopes s).host
  parent : ∀ s, (b.scopes s).parent = (a.scopes s).parent
  active : ∀ s, (b.scopes s).active = (a.scopes s).active
  entered : ∀ s, (b.scopes s).entered = (a.scopes s).entered
  gscope : ∀ g, (b.groups g).scope = (a.groups g).scope
  exited : ∀ g, (b.groups g).exited = (a.groups g).exited
  bodyErrs : ∀ g, (b.groups g).bodyErrs = (a.groups g).bodyErrs
  nTasks : b.nTasks = a.nTasks
  nGroups : b.nGroups = a.nGroups

theorem HSame.refl (a : State) : HSame a a := by
  constructor <;> intros <;> rfl

theorem HSame.trans {a b c : State} (h1 : HSame a b) (h2 : HSame b c) : HSame a c := by
  obtain ⟨a1, a2, a3, a4, a5, a6, a7, a8, a9, a10, a11, a12, a13, a14⟩ := h1
  obtain ⟨b1, b2, b3, b4, b5, b6, b7, b8, b9, b10, b11, b12, b13, b14⟩ := h2
  constructor <;> intros <;> simp [*]

theorem HSame.of_cframe {a b : State} (c : CFrame a b) : HSame a b := by
  constructor
  · exact fun t => (c.tasks t).scope
  · exact fun t => (c.tasks t).hscope
  · exact fun t => (c.tasks t).lib
  · exact fun t => (c.tasks t).st_done
  · exact fun t => (c.tasks t).st_created
  · exact fun s => (c.scopes s).host
  · exact fun s => (c.scopes s).parent
  · exact fun s => (c.scopes s).active
  · exact fun s => (c.scopes s).entered
  · intro g; rw [c.groups]
  · intro g; rw [c.groups]
  · intro g; rw [c.groups]
  · exact c.nTasks
  · exact c.nGroups

theorem inAexit_hsame {a b : State} (s : HSame a b) {g t : Nat} :
    InAexit b g t ↔ InAexit a g t := by
  unfold InAexit; rw [s.lib]

theorem hinv_hsame {K : Nat → Prop} {ext exg : Option Nat} {a b : State}
    (h : HInv K ext exg a) (s : HSame a b) : HInv K ext exg b := by
  constructor
  · intro t sc he hs hd hc
    rw [s.scope] at hs; rw [s.host]
    exact h.h1 t sc he hs (fun x => hd ((s.done t).mpr x)) (fun x => hc ((s.created t).mpr x))
  · intro sc t p hh hp hn
    rw [s.host] at hh ⊢; rw [s.parent] at hp; rw [s.hscope] at hn
    exact h.p1 sc t p hh hp hn
  · intro t g hi
    rw [inAexit_hsame s] at hi
    rw [s.nGroups, s.gscope, s.entered, s.host, s.active]
    exact h.a1 t g hi
  · intro g he hb
    rw [s.bodyErrs] at hb; rw [s.exited]
    rcases h.b1 g he hb with h1 | ⟨t, ht⟩
    · exact .inl h1
    · exact .inr ⟨t, (inAexit_hsame s).mpr ht⟩
  · intro t ht
    rw [s.nTasks] at ht; rw [s.lib]; exact h.l0 t ht

theorem hinv_init : HInv (fun _ => False) none none init := by
  constructor
  · intro t s _ hs; simp [init] at hs; split at hs <;> simp at hs
  · intro s t p hh; simp [init] at hh
  · intro t g ⟨s, ev, hi⟩; simp [init] at hi; split at hi <;> simp at hi
  · intro g _ hb; simp [init] at hb
  · intro t _; simp [init]; split <;> simp

/-! ### the structural part of `__enter__` / `__exit__` as seen by `HInv` -/

theorem enterPre_hscopes (st : State) (t s x : Nat) :
    ((enterPre st t s).scopes x).host = (if x = s then some t else (st.scopes x).host) ∧
    ((enterPre st t s).scopes x).active = (if x = s then true else (st.scopes x).active) ∧
    ((enterPre st t s).scopes x).entered = (if x = s then true else (st.scopes x).entered) ∧
    ((enterPre st t s).scopes x).parent = (if x = s then
      (if (st.tasks t).hasState then (st.tasks t).scope else (st.scopes s).parent)
      else (st.scopes x).parent) := by
  unfold enterPre enterCore
  simp only []
  by_cases hx : x = s
  · subst hx
    split
    · rename_i hh
      have hf : (st.tasks t).hasState = false := by simpa using hh
      simp [hf]
    · rename_i hh
      have : (st.tasks t).hasState = true := by simpa using hh
      split
      · rename_i p hp
        by_cases hxp : x = p
        · subst hxp; simp [this, hp]
        · simp [hxp, this, hp]
      · rename_i hp; simp [this, hp]
  · split
    · simp [hx]
    · split
      · rename_i p hp
        by_cases hxp : x = p
        · subst hxp; simp [hx]
        · simp [hx, hxp]
      · simp [hx]

theorem exitPre_hscopes (st : State) (t s x : Nat) :
    ((exitPre st t s).scopes x).host = (if x = s then none else (st.scopes x).host) ∧
    ((exitPre st t s).scopes x).active = (if x = s then false else (st.scopes x).active) ∧
    ((exitPre st t s).scopes x).entered = (st.scopes x).entered ∧
    ((exitPre st t s).scopes x).parent = (st.scopes x).parent := by
  cases hB : (st.scopes s).parent <;> cases hT : (st.scopes s).timer <;>
    simp only [exitPre, exitCore, hB, hT, setScope_scopes, setTask_scopes, unschedule_scopes,
      Bool.false_eq_true, if_false, if_true] <;>
    grind

end AnyioModel.Kernel
