/-
Fresh-allocation invariant for futures, part 6: how one transition changes the futures.

`FE N S a b`: between `a` and `b` the futures outside `S` that existed at the start of the
transition (`f < N`) or are still unallocated (`b.nFuts ≤ f`) change only by cancellation of a
task blocked on them, no task becomes blocked on such a future, and only futures in `S` get a
result.  Transitive, so it composes along the helpers of `step` (no invariant needed).
`fe_step`: every transition is an `FE st.nFuts (Touched st e)`.
-/
import AnyioModel.Kernel.FutInv5

namespace AnyioModel.Kernel

structure FE (N : Nat) (S : Nat → Prop) (a b : State) : Prop where
  nF : a.nFuts ≤ b.nFuts
  futs : ∀ f, ¬ S f → (f < N ∨ b.nFuts ≤ f) → b.futs f = a.futs f ∨
    (a.futs f = .pending ∧ (∃ an, b.futs f = .cancelled an) ∧ ∃ t, (a.tasks t).st = .blocked f)
  blk : ∀ t f, ¬ S f → (f < N ∨ b.nFuts ≤ f) → (b.tasks t).st = .blocked f →
    (a.tasks t).st = .blocked f
  res : ∀ f, b.futs f = .result → a.futs f = .result ∨ S f
  done : ∀ f, f < N → (a.futs f).done = true → b.futs f = a.futs f
  sfut : ∀ u f, (b.tasks u).startFut = some f → (a.tasks u).startFut = some f ∨ N ≤ f

variable {N : Nat} {S : Nat → Prop}

theorem FE.refl (a : State) : FE N S a a :=
  ⟨Nat.le_refl _, fun _ _ _ => .inl rfl, fun _ _ _ _ h => h, fun _ h => .inl h,
    fun _ _ _ => rfl, fun _ _ h => .inl h⟩

theorem FE.trans {a b c : State} (h1 : FE N S a b) (h2 : FE N S b c) : FE N S a c := by
  have hn1 := h1.nF
  have hn2 := h2.nF
  refine ⟨Nat.le_trans hn1 hn2, ?_, ?_, ?_, ?_, ?_⟩
  · intro f hS hf
    have hf' : f < N ∨ b.nFuts ≤ f := by omega
    rcases h2.futs f hS hf with e | ⟨hp, ⟨an, hc⟩, t, ht⟩
    · rw [e]; exact h1.futs f hS hf'
    · right
      have ha : a.futs f = .pending := by
        rcases h1.futs f hS hf' with e1 | ⟨hp1, _⟩
        · rw [← e1]; exact hp
        · exact hp1
      exact ⟨ha, ⟨an, hc⟩, t, h1.blk t f hS hf' ht⟩
  · intro t f hS hf hb
    have hf' : f < N ∨ b.nFuts ≤ f := by omega
    exact h1.blk t f hS hf' (h2.blk t f hS hf hb)
  · intro f hr
    rcases h2.res f hr with h | h
    · exact h1.res f h
    · exact .inr h
  · intro f hf hd
    have e1 := h1.done f hf hd
    rw [h2.done f hf (by rw [e1]; exact hd), e1]
  · intro u f hs
    rcases h2.sfut u f hs with h | h
    · exact h1.sfut u f h
    · exact .inr h

theorem FE.of_fsame {a b : State} (s : FSame a b) : FE N S a b := by
  refine ⟨by rw [s.nFuts]; exact Nat.le_refl _, fun f _ _ => s.futs f,
    fun t f _ _ hb => (s.tasks t).blocked hb, ?_, ?_,
    fun u f h => .inl (by rw [← (s.tasks u).startFut]; exact h)⟩
  · intro f hr
    rcases s.futs f with e | ⟨_, ⟨an, hc⟩, _⟩
    · rw [← e]; exact .inl hr
    · rw [hc] at hr; cases hr
  · intro f _ hd
    rcases s.futs f with e | ⟨hp, _⟩
    · exact e
    · rw [hp] at hd; cases hd

theorem fe_pure {a b : State} (hf : b.futs = a.futs) (ht : b.tasks = a.tasks)
    (hn : a.nFuts ≤ b.nFuts) : FE N S a b :=
  ⟨hn, fun f _ _ => .inl (by rw [hf]), fun t f _ _ hb => by rw [← ht]; exact hb,
    fun f hr => .inl (by rw [← hf]; exact hr), fun f _ _ => by rw [hf],
    fun u f h => .inl (by rw [← ht]; exact h)⟩

theorem fe_setTask (x : State) (t : Nat) (F : Task → Task)
    (h : ∀ f, (F (x.tasks t)).st = .blocked f → (x.tasks t).st = .blocked f)
    (h2 : (F (x.tasks t)).startFut = (x.tasks t).startFut) :
    FE N S x (x.setTask t F) := by
  refine ⟨Nat.le_refl _, fun f _ _ => .inl rfl, ?_, fun f hr => .inl hr, fun _ _ _ => rfl, ?_⟩
  · intro u f _ _ hb
    by_cases hu : u = t
    · subst hu; exact h f (by simpa using hb)
    · simpa [hu] using hb
  · intro u f hs
    left
    by_cases hu : u = t
    · subst hu; simpa [h2] using hs
    · simpa [hu] using hs

theorem fe_setGroup (x : State) (g : Nat) (F : Group → Group) : FE N S x (x.setGroup g F) :=
  fe_pure rfl rfl (Nat.le_refl _)

theorem fe_setScope (x : State) (s : Nat) (F : Scope → Scope) : FE N S x (x.setScope s F) :=
  fe_pure rfl rfl (Nat.le_refl _)

theorem fe_schedule (x : State) (h : Handle) : FE N S x (x.schedule h) :=
  fe_pure rfl rfl (Nat.le_refl _)

theorem fe_unschedule (x : State) (h : Handle) : FE N S x (x.unschedule h) :=
  fe_pure rfl rfl (Nat.le_refl _)

theorem fe_newScope (x : State) (sh : Bool) (d : Option Nat) : FE N S x (newScope x sh d).1 :=
  fe_pure rfl rfl (Nat.le_refl _)

theorem fe_setRunning (x : State) (r : Option Nat) : FE N S x { x with running := r } :=
  fe_pure rfl rfl (Nat.le_refl _)

theorem fe_setCur (x : State) (c : List Handle) : FE N S x { x with cur := c } :=
  fe_pure rfl rfl (Nat.le_refl _)

theorem fe_resolveFut (x : State) (f : Nat) (v : FutSt)
    (hS : S f ∨ (N ≤ f ∧ f < x.nFuts ∧ v ≠ .result)) : FE N S x (resolveFut x f v) := by
  have fr := frame_resolveFut x f v
  refine ⟨by rw [fr.nFuts]; exact Nat.le_refl _, ?_, ?_, ?_, ?_,
    fun u f' h => .inl (by rw [← (fr.tasks u).startFut]; exact h)⟩
  · intro f' hS' hf'
    left
    rw [rf_futs]
    rw [fr.nFuts] at hf'
    have : f' ≠ f := by
      rintro rfl
      rcases hS with h | h
      · exact hS' h
      · omega
    simp [this]
  · intro t f' _ _ hb
    exact (fr.tasks t).st_blocked hb
  · intro f' hr
    rw [rf_futs] at hr
    split at hr
    · rename_i h
      rcases hS with hS | hS
      · exact .inr (h.1 ▸ hS)
      · exact absurd hr hS.2.2
    · exact .inl hr
  · intro f' _ hd
    exact fr.futs f' hd

theorem fe_foldl_resolveFut (x : State) (l : List Nat) (v : FutSt) (hS : ∀ f ∈ l, S f) :
    FE N S x (l.foldl (fun st f => resolveFut st f v) x) := by
  induction l generalizing x with
  | nil => exact FE.refl _
  | cons f l ih =>
    exact (fe_resolveFut x f v (.inl (hS f (by simp)))).trans
      (ih _ (fun f' hf' => hS f' (by simp [hf'])))

theorem fe_newFut (x : State) (hN : N ≤ x.nFuts) : FE N S x (newFut x).1 := by
  refine ⟨by simp [newFut], ?_, fun t f _ _ hb => hb, ?_, ?_, fun u f h => .inl h⟩
  · intro f _ hf
    left
    have : f ≠ x.nFuts := by simp [newFut] at hf; omega
    simp [newFut, this]
  · intro f hr
    left
    by_cases hf : f = x.nFuts
    · subst hf; simp [newFut] at hr
    · simpa [newFut, hf] using hr
  · intro f hf _
    have : f ≠ x.nFuts := by omega
    simp [newFut, this]

theorem fe_doYield (x : State) (t : Nat) : FE N S x (doYield x t) := by
  unfold doYield
  exact ((fe_setTask x t _ (by simp) rfl).trans (fe_schedule _ _)).trans (fe_setRunning _ _)

theorem fe_blockOn (x : State) (t f : Nat) (hS : S f ∨ (N ≤ f ∧ f < x.nFuts)) :
    FE N S x (blockOn x t f) := by
  unfold blockOn
  simp only []
  have h1 : FE N S x { x.setTask t (fun y => { y with st := .blocked f }) with
      futWaiter := upd x.futWaiter f (some t), running := none } := by
    refine ⟨Nat.le_refl _, fun f' _ _ => .inl rfl, ?_, fun f' hr => .inl hr, fun _ _ _ => rfl, ?_⟩
    · intro u f' hS' hf' hb
      by_cases hu : u = t
      · subst hu
        have : f' = f := by simpa using hb.symm
        subst this
        rcases hS with h | h
        · exact absurd h hS'
        · simp only [setTask_nFuts] at hf'; omega
      · simpa [hu] using hb
    · intro u f' hs
      left
      by_cases hu : u = t
      · subst hu; simpa using hs
      · simpa [hu] using hs
  split
  · refine (h1.trans (fe_setTask _ t _ (by simp) rfl)).trans (fe_resolveFut _ _ _ ?_)
    rcases hS with h | h
    · exact .inl h
    · exact .inr ⟨h.1, h.2, by simp⟩
  · exact h1

theorem fe_enterScope {st st' : State} {t s : Nat} (he : enterScope st t s = some st') :
    FE N S st st' := FE.of_fsame (fsame_enterScope he)

theorem fe_exitScope {st st' : State} {t s : Nat} {ev : ExcVal} {r : ExitResult}
    (he : exitScope st t s ev = some (st', r)) : FE N S st st' :=
  FE.of_fsame (fsame_exitScope he)

theorem fe_cancelScope (x : State) (s : Nat) (b : Bool) : FE N S x (cancelScope x s b) :=
  FE.of_fsame (FSame.of_xc (xc_cancelScope x s b))

/-- peel one layer off the later state -/
macro "fe1" : tactic => `(tactic| first
  | exact FE.refl _
  | assumption
  | refine FE.trans ?_ (fe_setTask _ _ _ (by simp) rfl)
  | refine FE.trans ?_ (fe_setGroup _ _ _)
  | refine FE.trans ?_ (fe_setScope _ _ _)
  | refine FE.trans ?_ (fe_schedule _ _)
  | refine FE.trans ?_ (fe_unschedule _ _)
  | refine FE.trans ?_ (fe_doYield _ _)
  | refine FE.trans ?_ (fe_cancelScope _ _ _)
  | refine FE.trans ?_ (FE.of_fsame (FSame.of_xc (xc_deliver _ _)))
  | refine FE.trans ?_ (FE.of_fsame (FSame.of_xc (xc_taskCancel _ _ _)))
  | refine FE.trans ?_ (FE.of_fsame (FSame.of_xc (xc_taskUncancel _ _ _)))
  | refine FE.trans ?_ (FE.of_fsame (FSame.of_xc (xc_armTimeout _ _)))
  | refine FE.trans ?_ (FE.of_fsame (FSame.of_xc (xc_setShield _ _ _)))
  | refine FE.trans ?_ (FE.of_fsame (FSame.of_xc (xc_setDeadline _ _ _)))
  | refine FE.trans ?_ (FE.of_fsame (FSame.of_xc (xc_spawnTail _ _)))
  | refine FE.trans ?_ (fe_enterScope ‹_›)
  | refine FE.trans ?_ (fe_exitScope ‹_›))

macro "fe" : tactic => `(tactic| repeat fe1)

theorem fe_aexitFinish {st st' : State} {t g : Nat} {ev : ExcVal} {o : Out}
    (he : aexitFinish st t g ev = some (st', o)) : FE N S st st' := by
  unfold aexitFinish at he
  simp only [] at he
  split at he
  · contradiction
  · simp only [Option.some.injEq, Prod.mk.injEq] at he
    obtain ⟨rfl, _⟩ := he
    fe

theorem fe_aexitLoop {st st' : State} {t g ws : Nat} {ev : ExcVal} {o : Out}
    (hN : N ≤ st.nFuts) (he : aexitLoop st t g ws ev = some (st', o)) : FE N S st st' := by
  unfold aexitLoop at he
  split at he
  · simp only [Option.some.injEq, Prod.mk.injEq] at he
    obtain ⟨rfl, _⟩ := he
    refine FE.trans ?_ (fe_blockOn _ _ _ (.inr ⟨hN, by simp [newFut]⟩))
    refine FE.trans ?_ (fe_setTask _ _ _ (by simp) rfl)
    refine FE.trans ?_ (fe_setGroup _ _ _)
    exact fe_newFut _ hN
  · split at he
    · contradiction
    · refine FE.trans ?_ (fe_aexitFinish he)
      fe

theorem fe_aexitAfterChk {st st' : State} {t g : Nat} {ev : ExcVal} {o : Out}
    (hN : N ≤ st.nFuts) (he : aexitAfterChk st t g ev = some (st', o)) : FE N S st st' := by
  unfold aexitAfterChk at he
  split at he
  · simp only [] at he
    split at he
    · contradiction
    · rename_i st1 hen
      have s1 := (fsame_newScope st false none).trans (fsame_enterScope hen)
      refine FE.trans ?_ (fe_aexitLoop (by rw [s1.nFuts]; exact hN) he)
      exact FE.of_fsame s1
  · exact fe_aexitFinish he

theorem fe_spawn (x : State) (g : Nat) (sf : Option Nat) (hsf : ∀ f, sf = some f → N ≤ f) :
    FE N S x (spawn x g sf).1 := by
  rw [spawn_eq]
  simp only []
  refine FE.trans ?_ (FE.of_fsame (FSame.of_xc (xc_spawnTail _ _)))
  refine FE.trans (fe_newScope x false none) ?_
  generalize (newScope x false none).1 = y
  unfold spawnCore
  simp only []
  refine FE.trans ?_ (fe_setGroup _ _ _)
  refine FE.trans ?_ (fe_setScope _ _ _)
  refine FE.trans ?_ (fe_schedule _ _)
  refine ⟨Nat.le_refl _, fun f _ _ => .inl rfl, ?_, fun f hr => .inl hr, fun _ _ _ => rfl, ?_⟩
  · intro t f _ _ hb
    by_cases ht : t = y.nTasks
    · subst ht; simp at hb
    · simpa [ht] using hb
  · intro u f hs
    by_cases ht : u = y.nTasks
    · subst ht
      right
      exact hsf f (by simpa using hs)
    · left; simpa [ht] using hs

theorem fe_runTaskDone {st st' : State} {u : Nat} (he : runTaskDone st u = some st')
    (hS1 : ∀ g f, (st.tasks u).group = some g → (st.groups g).onCompleted = some f → S f)
    (hS2 : ∀ f, (st.tasks u).startFut = some f → S f) : FE N S st st' := by
  obtain ⟨g, sc, o, hg, hsc, ho, ht⟩ := runTaskDone_shape he
  have h1 : FE N S st (taskDoneCore st u g sc) := by
    unfold taskDoneCore
    fe
  have h2 : FE N S st (taskDoneMid (taskDoneCore st u g sc) g) := by
    refine h1.trans ?_
    unfold taskDoneMid
    split
    · rename_i f hf
      split
      · refine fe_resolveFut _ _ _ (.inl (hS1 g f hg ?_))
        simpa [taskDoneCore] using hf
      · exact FE.refl _
    · exact FE.refl _
  refine h2.trans ?_
  generalize taskDoneMid (taskDoneCore st u g sc) g = M at ht
  generalize hsfo : (st.tasks u).startFut = sfo at ht
  unfold taskDoneTail at ht
  simp only [] at ht
  repeat' (split at ht)
  all_goals
    simp only [Option.some.injEq] at ht
    subst ht
    first
    | exact FE.refl _
    | exact fe_resolveFut _ _ _ (.inl (hS2 _ hsfo))
    | (fe; done)

theorem fe_finishTask {st st' : State} {t : Nat} {o : Outcome}
    (he : finishTask st t o = some st') (hS : ∀ f ∈ (st.tasks t).hwaiters, S f) :
    FE N S st st' := by
  unfold finishTask at he
  simp only [] at he
  split at he
  · split at he
    · contradiction
    · simp only [Option.some.injEq] at he
      subst he
      refine FE.trans ?_ (fe_schedule _ _)
      refine FE.trans ?_ (fe_setRunning _ _)
      refine FE.trans ?_ (fe_setTask _ _ _ (by simp) rfl)
      refine FE.trans ?_ (fe_exitScope ‹_›)
      refine FE.trans ?_ (fe_setTask _ _ _ (by simp) rfl)
      refine FE.trans ?_ (fe_foldl_resolveFut _ _ _ hS)
      exact fe_setTask _ _ _ (by simp) rfl
  · simp only [Option.some.injEq] at he
    subst he
    exact (fe_setTask _ _ _ (by simp) rfl).trans (fe_setRunning _ _)

theorem fe_continueLib {st st' : State} {t : Nat} {r : Resume} {o : Out} (hN : N ≤ st.nFuts)
    (he : continueLib st t r = some (st', o)) : FE N S st st' := by
  unfold continueLib at he
  split at he
  · simp only [Option.some.injEq, Prod.mk.injEq] at he
    obtain ⟨rfl, _⟩ := he; exact FE.refl _
  · split at he <;>
    · simp only [Option.some.injEq, Prod.mk.injEq] at he
      obtain ⟨rfl, _⟩ := he; fe
  · split at he
    · contradiction
    · simp only [Option.some.injEq, Prod.mk.injEq] at he
      obtain ⟨rfl, _⟩ := he; fe
  · simp only [Option.some.injEq, Prod.mk.injEq] at he
    obtain ⟨rfl, _⟩ := he; fe
  · -- aexitChk
    split at he
    · contradiction
    · rename_i st1 x hex
      have s1 := fsame_exitScope hex
      split at he
      · exact (FE.of_fsame s1).trans (fe_aexitAfterChk (by rw [s1.nFuts]; exact hN) he)
      · split at he
        · refine ((FE.of_fsame s1).trans (fe_cancelScope _ _ _)).trans
            (fe_aexitAfterChk ?_ he)
          rw [(xc_cancelScope _ _ _).c.nFuts, s1.nFuts]; exact hN
        · contradiction
  · -- aexitWait
    rename_i g ws ev hl
    simp only [] at he
    split at he
    · exact (fe_setGroup _ _ _).trans (fe_aexitLoop (by simpa using hN) he)
    · split at he
      · refine FE.trans ?_ (fe_aexitLoop ?_ he)
        · fe
        · rw [(xc_cancelScope _ _ _).c.nFuts, (xc_setShield _ _ _).c.nFuts]; simpa using hN
      · contradiction
  · -- startWait
    split at he
    · simp only [Option.some.injEq, Prod.mk.injEq] at he
      obtain ⟨rfl, _⟩ := he; fe
    · simp only [] at he
      split at he
      · contradiction
      · rename_i hs hhs
        split at he
        · split at he
          · contradiction
          · rename_i st2 hen
            have s3 : FSame st st2 := ((FSame.of_xc (xc_cancelScope st hs false)).trans
              (fsame_newScope _ true none)).trans (fsame_enterScope hen)
            split at he
            · simp only [Option.some.injEq, Prod.mk.injEq] at he
              obtain ⟨rfl, _⟩ := he
              refine FE.trans ?_ (fe_doYield _ _)
              refine FE.trans ?_ (fe_setTask _ _ _ (by simp) rfl)
              exact FE.of_fsame s3
            · simp only [Option.some.injEq, Prod.mk.injEq] at he
              obtain ⟨rfl, _⟩ := he
              refine FE.trans ?_ (fe_blockOn _ _ _ (.inr ⟨?_, by simp [newFut]⟩))
              · refine FE.trans ?_ (fe_setTask _ _ _ (by simp) rfl)
                refine FE.trans ?_ (fe_newFut _ (by simp only [setTask_nFuts]; rw [s3.nFuts]; exact hN))
                refine FE.trans ?_ (fe_setTask _ _ _ (by simp) rfl)
                exact FE.of_fsame s3
              · simp only [newFut, setTask_nFuts]; rw [s3.nFuts]; exact hN
        · simp only [Option.some.injEq, Prod.mk.injEq] at he
          obtain ⟨rfl, _⟩ := he; fe
  · -- startJoin
    split at he
    · contradiction
    · simp only [] at he
      split at he <;>
      · simp only [Option.some.injEq, Prod.mk.injEq] at he
        obtain ⟨rfl, _⟩ := he; fe

theorem fe_runTask {st st' : State} {t : Nat} {o : Out} (hN : N ≤ st.nFuts)
    (he : runTask st t = some (st', o)) : FE N S st st' := by
  have h0 : FE N S st { st.setTask t (fun x => { x with st := .running, mustCancel := false }) with
      running := some t } := (fe_setTask _ _ _ (by simp) rfl).trans (fe_setRunning _ _)
  unfold runTask at he
  simp only [] at he
  split at he
  · split at he
    · split at he
      · contradiction
      · simp only [Option.some.injEq, Prod.mk.injEq] at he
        obtain ⟨rfl, _⟩ := he
        exact h0.trans (fe_enterScope ‹_›)
    · simp only [Option.some.injEq, Prod.mk.injEq] at he
      obtain ⟨rfl, _⟩ := he
      refine FE.trans ?_ (fe_schedule _ _)
      refine FE.trans ?_ (fe_setRunning _ _)
      refine FE.trans ?_ (fe_setTask _ _ _ (by simp) rfl)
      exact h0
  · exact h0.trans (fe_continueLib (by simpa using hN) he)

/-- the futures a transition resolves explicitly (not by cancelling a blocked task) -/
def Touched (st : State) : Ev → Nat → Prop
  | .started, f => ∃ t, st.running = some t ∧ (st.tasks t).startFut = some f
  | .run (.sleepDone f0), f => f = f0 ∧ Handle.sleepDone f0 ∈ st.cur
  | .setFut f0, f => f = f0 ∧ st.userFut f0 = true
  | .awaitFut f0, f => f = f0 ∧ st.userFut f0 = true
  | .run (.taskDone u), f =>
    (∃ g, (st.tasks u).group = some g ∧ (st.groups g).onCompleted = some f) ∨
      (st.tasks u).startFut = some f
  | .finish _, f => ∃ t, st.running = some t ∧ f ∈ (st.tasks t).hwaiters
  | _, _ => False

theorem fe_setTimers (x : State) (c : List (Nat × Handle)) : FE N S x { x with timers := c } :=
  fe_pure rfl rfl (Nat.le_refl _)

theorem fe_setUserFut (x : State) (c : Nat → Bool) : FE N S x { x with userFut := c } :=
  fe_pure rfl rfl (Nat.le_refl _)

macro "fe_leaf" h:ident : tactic => `(tactic| first
  | contradiction
  | (simp only [Option.some.injEq, Prod.mk.injEq] at $h:ident; rcases $h:ident with ⟨h1, _⟩
     subst h1; fe; done))

theorem fe_runHandle {st st' : State} {x : Handle} {o : Out}
    (hs : step st (.run x) = some (st', o)) : FE st.nFuts (Touched st (.run x)) st st' := by
  simp only [step] at hs
  split at hs
  · contradiction
  · rename_i hg
    have hxc : x ∈ st.cur := by
      apply Classical.byContradiction; intro hx; exact hg (.inr hx)
    have h0 : FE st.nFuts (Touched st (.run x)) st { st with cur := st.cur.erase x } :=
      fe_setCur _ _
    cases x with
    | step t =>
      simp only [] at hs
      split at hs
      · exact h0.trans (fe_runTask (Nat.le_refl _) hs)
      · contradiction
    | wakeup t =>
      simp only [] at hs
      split at hs
      · exact h0.trans (fe_runTask (Nat.le_refl _) hs)
      · contradiction
    | deliver s =>
      simp only [Option.some.injEq, Prod.mk.injEq] at hs
      obtain ⟨rfl, _⟩ := hs
      exact h0.trans (FE.of_fsame (FSame.of_xc (xc_deliver _ _)))
    | timeout s =>
      simp only [Option.some.injEq, Prod.mk.injEq] at hs
      obtain ⟨rfl, _⟩ := hs
      exact (h0.trans (fe_setScope _ _ _)).trans (FE.of_fsame (FSame.of_xc (xc_armTimeout _ _)))
    | sleepDone f =>
      simp only [Option.some.injEq, Prod.mk.injEq] at hs
      obtain ⟨rfl, _⟩ := hs
      exact h0.trans (fe_resolveFut _ _ _ (.inl ⟨rfl, hxc⟩))
    | taskDone u =>
      simp only [] at hs
      split at hs
      · rename_i st1 htd
        simp only [Option.some.injEq, Prod.mk.injEq] at hs
        obtain ⟨rfl, _⟩ := hs
        refine h0.trans (fe_runTaskDone htd ?_ ?_)
        · intro g f h1 h2; exact .inl ⟨g, h1, h2⟩
        · intro f h1; exact .inr h1
      · contradiction

theorem fe_step {st st' : State} {e : Ev} {o : Out} (hs : step st e = some (st', o)) :
    FE st.nFuts (Touched st e) st st' := by
  cases e with
  | beginCycle now =>
    simp only [step] at hs
    split at hs
    · contradiction
    · simp only [Option.some.injEq, Prod.mk.injEq] at hs
      obtain ⟨rfl, _⟩ := hs
      exact fe_pure rfl rfl (Nat.le_refl _)
  | run x => exact fe_runHandle hs
  | mkScope sh d =>
    simp only [step, Option.some.injEq, Prod.mk.injEq] at hs
    obtain ⟨rfl, _⟩ := hs
    exact fe_newScope _ _ _
  | mkFut =>
    simp only [step, Option.some.injEq, Prod.mk.injEq] at hs
    obtain ⟨rfl, _⟩ := hs
    exact (fe_newFut st (Nat.le_refl _)).trans (fe_setUserFut _ _)
  | setFut f =>
    simp only [step] at hs
    split at hs
    · contradiction
    · rename_i hg
      simp only [Option.some.injEq, Prod.mk.injEq] at hs
      obtain ⟨rfl, _⟩ := hs
      have hu : st.userFut f = true := by
        cases hu : st.userFut f <;> simp_all
      exact fe_resolveFut _ _ _ (.inl ⟨rfl, hu⟩)
  | awaitFut f =>
    simp only [step] at hs
    split at hs
    · contradiction
    · split at hs
      · contradiction
      · rename_i hg
        have hu : st.userFut f = true := by
          cases hu : st.userFut f
          · exact absurd (.inr (.inr (by simp [hu]))) hg
          · rfl
        split at hs
        · split at hs
          · contradiction
          · simp only [Option.some.injEq, Prod.mk.injEq] at hs
            obtain ⟨rfl, _⟩ := hs
            exact fe_blockOn _ _ _ (.inl ⟨rfl, hu⟩)
        all_goals
          simp only [Option.some.injEq, Prod.mk.injEq] at hs
          obtain ⟨rfl, _⟩ := hs; exact FE.refl _
  | sleep d =>
    simp only [step] at hs
    split at hs
    · contradiction
    · split at hs
      · contradiction
      · simp only [Option.some.injEq, Prod.mk.injEq] at hs
        obtain ⟨rfl, _⟩ := hs
        refine FE.trans ?_ (fe_blockOn _ _ _ (.inr ⟨Nat.le_refl _, by simp [newFut]⟩))
        refine FE.trans ?_ (fe_setTask _ _ _ (by simp) rfl)
        exact (fe_newFut st (Nat.le_refl _)).trans (fe_setTimers _ _)
  | shieldedChk =>
    simp only [step] at hs
    split at hs
    · contradiction
    · split at hs
      · contradiction
      · split at hs
        · contradiction
        · rename_i st1 hen
          simp only [Option.some.injEq, Prod.mk.injEq] at hs
          obtain ⟨rfl, _⟩ := hs
          refine FE.trans ?_ (fe_doYield _ _)
          refine FE.trans ?_ (fe_setTask _ _ _ (by simp) rfl)
          exact (fe_newScope _ _ _).trans (fe_enterScope hen)
  | mkGroup =>
    simp only [step, Option.some.injEq, Prod.mk.injEq] at hs
    obtain ⟨rfl, _⟩ := hs
    exact (fe_newScope st false none).trans (fe_pure rfl rfl (Nat.le_refl _))
  | spawn g =>
    simp only [step] at hs
    split at hs
    · contradiction
    · split at hs
      · simp only [Option.some.injEq, Prod.mk.injEq] at hs
        obtain ⟨rfl, _⟩ := hs; exact FE.refl _
      · simp only [Option.some.injEq, Prod.mk.injEq] at hs
        obtain ⟨rfl, _⟩ := hs
        exact fe_spawn _ _ _ (fun f hf => by cases hf)
  | aexit g ev =>
    rw [step_aexit] at hs
    split at hs
    · contradiction
    · split at hs
      · contradiction
      · have h0 : FE st.nFuts (Touched st (.aexit g ev)) st (aexitPrep st g ev) := by
          unfold aexitPrep
          split
          · simp only []
            split <;> fe
          · exact FE.refl _
        have hn : (aexitPrep st g ev).nFuts = st.nFuts := by
          unfold aexitPrep
          split
          · simp only []
            split
            · exact (xc_cancelScope _ _ _).c.nFuts
            · exact (xc_cancelScope _ _ _).c.nFuts
          · rfl
        simp only [] at hs
        split at hs
        · split at hs
          · contradiction
          · rename_i st1 hen
            simp only [Option.some.injEq, Prod.mk.injEq] at hs
            obtain ⟨rfl, _⟩ := hs
            refine FE.trans ?_ (fe_doYield _ _)
            refine FE.trans ?_ (fe_setTask _ _ _ (by simp) rfl)
            exact (h0.trans (fe_newScope _ _ _)).trans (fe_enterScope hen)
        · exact h0.trans (fe_aexitAfterChk (by rw [hn]; exact Nat.le_refl _) hs)
  | start g =>
    simp only [step] at hs
    split at hs
    · contradiction
    · split at hs
      · contradiction
      · split at hs
        · simp only [Option.some.injEq, Prod.mk.injEq] at hs
          obtain ⟨rfl, _⟩ := hs; exact FE.refl _
        · simp only [Option.some.injEq, Prod.mk.injEq] at hs
          obtain ⟨rfl, _⟩ := hs
          have hnf : (spawn (newFut st).1 g (some (newFut st).2)).1.nFuts = st.nFuts + 1 := by
            rw [spawn_eq]
            simp only []
            rw [(xc_spawnTail _ _).c.nFuts]
            simp [spawnCore, newScope, newFut]
          refine FE.trans ?_ (fe_blockOn _ _ _ (.inr ⟨Nat.le_refl _, ?_⟩))
          · refine FE.trans ?_ (fe_setTask _ _ _ (by simp) rfl)
            exact (fe_newFut st (Nat.le_refl _)).trans
              (fe_spawn _ _ _ (fun f hf => by cases hf; exact Nat.le_refl _))
          · simp only [setTask_nFuts]; rw [hnf]; simp [newFut]
  | started =>
    simp only [step] at hs
    split at hs
    · contradiction
    · rename_i t hr
      split at hs
      · contradiction
      · rename_i sf hsf
        split at hs
        · simp only [Option.some.injEq, Prod.mk.injEq] at hs
          obtain ⟨rfl, _⟩ := hs
          exact fe_resolveFut _ _ _ (.inl ⟨t, hr, hsf⟩)
        all_goals
          simp only [Option.some.injEq, Prod.mk.injEq] at hs
          obtain ⟨rfl, _⟩ := hs; exact FE.refl _
  | handleCancel u =>
    simp only [step] at hs
    split at hs
    · contradiction
    · simp only [Option.some.injEq, Prod.mk.injEq] at hs
      obtain ⟨rfl, _⟩ := hs
      split
      · exact FE.refl _
      · exact fe_cancelScope _ _ _
  | handleWait u =>
    simp only [step] at hs
    split at hs
    · contradiction
    · split at hs
      · contradiction
      · split at hs
        · simp only [Option.some.injEq, Prod.mk.injEq] at hs
          obtain ⟨rfl, _⟩ := hs
          exact fe_doYield _ _
        · simp only [Option.some.injEq, Prod.mk.injEq] at hs
          obtain ⟨rfl, _⟩ := hs
          refine FE.trans ?_ (fe_blockOn _ _ _ (.inr ⟨Nat.le_refl _, by simp [newFut]⟩))
          refine FE.trans ?_ (fe_setTask _ _ _ (by simp) rfl)
          exact fe_newFut st (Nat.le_refl _)
  | finish o =>
    simp only [step] at hs
    split at hs
    · contradiction
    · rename_i t hr
      split at hs
      · contradiction
      · split at hs
        · contradiction
        · split at hs
          · contradiction
          · rename_i st1 hf
            simp only [Option.some.injEq, Prod.mk.injEq] at hs
            obtain ⟨rfl, _⟩ := hs
            exact fe_finishTask hf (fun f hf' => ⟨t, hr, hf'⟩)
  | groupEnter g =>
    simp only [step] at hs
    repeat' (first | split at hs | simp only [] at hs)
    all_goals fe_leaf hs
  | _ =>
    simp only [step] at hs
    repeat' (first | split at hs | simp only [] at hs)
    all_goals fe_leaf hs

/-- a future that a transition resolves explicitly has a role other than "start future of `u`",
unless the transition is `started()` by `u` or `task_done` of `u` -/
theorem touched_role {st : State} {e : Ev} {f : Nat} (ht : Touched st e f) :
    ∃ r, HasRole st f r := by
  cases e with
  | started => obtain ⟨t, _, h⟩ := ht; exact ⟨.start t, h⟩
  | run x =>
    cases x with
    | sleepDone f0 => obtain ⟨rfl, h⟩ := ht; exact ⟨.sleep, .inr (.inr (.inl h))⟩
    | taskDone u =>
      rcases ht with ⟨g, _, h⟩ | h
      · exact ⟨.onC g, h⟩
      · exact ⟨.start u, h⟩
    | _ => cases ht
  | setFut f0 => obtain ⟨rfl, h⟩ := ht; exact ⟨.user, h⟩
  | awaitFut f0 => obtain ⟨rfl, h⟩ := ht; exact ⟨.user, h⟩
  | finish o => obtain ⟨t, _, h⟩ := ht; exact ⟨.hw t, h⟩
  | _ => cases ht


/-- what the `wakeup` transition of a task does -/
theorem step_wakeup_eq {st st' : State} {t : Nat} {o : Out}
    (hs : step st (.run (.wakeup t)) = some (st', o)) :
    ∃ f, (st.tasks t).st = .woken f ∧
      continueLib
        { ({ st with cur := st.cur.erase (.wakeup t) } : State).setTask t
            (fun x => { x with st := .running, mustCancel := false }) with running := some t } t
        (resumeValue st t) = some (st', o) := by
  simp only [step] at hs
  split at hs
  · contradiction
  · split at hs
    · rename_i f hst
      refine ⟨f, hst, ?_⟩
      unfold runTask at hs
      simp only [] at hs
      have e : (({ st with cur := st.cur.erase (.wakeup t) } : State).tasks t).st = .woken f := hst
      rw [e] at hs
      exact hs
    · contradiction

/-- the same for the `step` transition of a task that is not at its very beginning -/
theorem step_step_eq {st st' : State} {t : Nat} {o : Out}
    (hs : step st (.run (.step t)) = some (st', o)) (hy : (st.tasks t).st = .yielded) :
    continueLib
        { ({ st with cur := st.cur.erase (.step t) } : State).setTask t
            (fun x => { x with st := .running, mustCancel := false }) with running := some t } t
        (resumeValue st t) = some (st', o) := by
  simp only [step] at hs
  split at hs
  · contradiction
  · split at hs
    · unfold runTask at hs
      simp only [] at hs
      have e : (({ st with cur := st.cur.erase (.step t) } : State).tasks t).st = .yielded := hy
      rw [e] at hs
      exact hs
    · contradiction

/-- if a resumed task is sent a plain value, the future it waited for has a result -/
theorem resumeValue_none_woken {st : State} (h : Reach st) {t f : Nat}
    (hw : (st.tasks t).st = .woken f) (hr : resumeValue st t = .none) : st.futs f = .result := by
  have i := finv_reach h
  have hd := i.wk_done t f hw
  have hn := i.fail_ne f
  unfold resumeValue at hr
  simp only [hw] at hr
  cases hf : st.futs f with
  | pending => rw [hf] at hd; cases hd
  | result => rfl
  | cancelled a => rw [hf] at hr; simp at hr
  | failed e =>
    rw [hf] at hr
    simp only [] at hr
    split at hr
    · split at hr <;> cases hr
    · subst hr; exact absurd hf hn


end AnyioModel.Kernel
