/-
Delivery of cancellation, part 7: lemmas for the property files — `deliver` (with the rescheduling
at its end) per task, `reachDown` against `effCancelled` and against the chain of the scope.
-/
import AnyioModel.Kernel.DeliverInv6

namespace AnyioModel.Kernel

/-! ### one run of `_deliver_cancellation`, per task -/

theorem deliver_tasks_eq (st : State) (o : Nat) :
    (deliver st o).tasks = (deliverGo (st.nScopes + 1) st o o).1.tasks ∧
    (deliver st o).futs = (deliverGo (st.nScopes + 1) st o o).1.futs ∧
    (∀ h, h ∈ (deliverGo (st.nScopes + 1) st o o).1.ready → h ∈ (deliver st o).ready) := by
  unfold deliver
  simp only []
  split
  · refine ⟨rfl, rfl, ?_⟩
    intro h hm
    simp only [schedule_ready, setScope_ready, List.mem_append]
    exact .inl hm
  · exact ⟨rfl, rfl, fun _ h => h⟩

theorem deliver_task {st : State} (w : Tree st) (bw : BW st) (o t : Nat) :
    (hitSet st o t → HitRel st (deliver st o) t) ∧
    (¬ hitSet st o t → (deliver st o).tasks t = st.tasks t) := by
  obtain ⟨e1, e2, e3⟩ := deliver_tasks_eq st o
  obtain ⟨h1, h2⟩ := deliverGo_task w bw o t
  constructor
  · intro hh
    have r := h1 hh
    constructor
    · rw [e1]; exact r.nAnyio
    · intro f hf
      obtain ⟨a, b, c, d⟩ := r.blocked f hf
      exact ⟨by rw [e1]; exact a, by rw [e2]; exact b, e3 _ c, by rw [e1]; exact d⟩
    · intro hb; rw [e1]; exact r.other hb
  · intro hn; rw [e1]; exact h2 hn

/-- `hitSet` reads scopes, tasks and the running task only -/
theorem hitSet_congr {a b : State} {o t : Nat} (h1 : b.scopes = a.scopes) (h2 : b.tasks = a.tasks)
    (h3 : b.running = a.running) (h : hitSet a o t) : hitSet b o t := by
  obtain ⟨c, hr, ht, hc⟩ := h
  refine ⟨c, reachDown_congr (fun s => by rw [h1]; exact ⟨rfl, rfl, rfl, rfl⟩) hr,
    by rw [h1]; exact ht, ?_⟩
  rw [← hc]
  unfold hitCancels
  rw [h1, h2, h3]

theorem hitCancels_iff (st : State) (s t : Nat) :
    hitCancels st s t = true ↔
      (st.tasks t).st ≠ .done ∧ (st.tasks t).mustCancel = false ∧ st.running ≠ some t ∧
      ((st.scopes s).host = some t ∨ (st.tasks t).st ≠ .created) ∧
      ∀ f, (st.tasks t).st ≠ .woken f := by
  simp only [hitCancels, Bool.and_eq_true, decide_eq_true_eq, Bool.not_eq_eq_eq_not,
    Bool.not_true]
  constructor
  · rintro ⟨⟨⟨h1, h2⟩, h3, h4⟩, h5⟩
    refine ⟨h1, h2, h3, h4, ?_⟩
    intro f hf; rw [hf] at h5; simp at h5
  · rintro ⟨h1, h2, h3, h4, h5⟩
    refine ⟨⟨⟨h1, h2⟩, h3, h4⟩, ?_⟩
    split
    · rename_i f hf; exact absurd hf (h5 f)
    · rfl

/-! ### `reachDown` and `_effectively_cancelled` -/

theorem chain_of_entered {st : State} (w : WF st) {s : Nat} (he : (st.scopes s).entered = true) :
    ∃ rest, (st.scopes s).chain = s :: rest := ⟨_, w.chain_spec s he⟩

/-- a scope reached from a cancelled origin is effectively cancelled -/
theorem effCancelled_of_reachDown {st : State} (w : WF st) {o c : Nat} (r : reachDown st o c)
    (hc : (st.scopes o).cancelCalled = true) : effCancelled st c = true := by
  induction r with
  | refl =>
    unfold effCancelled
    cases he : (st.scopes o).entered
    · rw [(w.not_entered o he).2.2.2.2.2]; simp [effCancelledList, hc]
    · obtain ⟨rest, e⟩ := chain_of_entered w he
      rw [e]; simp [effCancelledList, hc]
  | @step c p hp ha hs hcc _ ih =>
    have e := w.chain_spec c (w.active_entered c ha)
    rw [hp] at e
    simp only [] at e
    obtain ⟨rest, ep⟩ := chain_of_entered w (w.parent_entered c p hp)
    unfold effCancelled at ih ⊢
    rw [ep] at ih
    rw [e, ep]
    simpa [effCancelledList, hcc, hs] using ih

/-- a scope reached from `o` is `o` or has `o` in its chain (it lies in `o`'s subtree) -/
theorem mem_chain_of_reachDown {st : State} (w : WF st) {o c : Nat} (r : reachDown st o c) :
    c = o ∨ o ∈ (st.scopes c).chain := by
  induction r with
  | refl => exact .inl rfl
  | @step c p hp ha hs hcc _ ih =>
    right
    have e := w.chain_spec c (w.active_entered c ha)
    rw [hp] at e
    simp only [] at e
    rw [e]
    rcases ih with rfl | ih
    · obtain ⟨rest, ep⟩ := chain_of_entered w (w.parent_entered c p hp)
      rw [ep]; simp
    · exact List.mem_cons_of_mem _ ih

/-- the walk of `reachDown` along the chain of `c` (nearest scope first): `o` is met at some
position and every scope before it is active, not shielded and not cancelled -/
def reachDownChain (st : State) (o : Nat) (l : List Nat) : Prop :=
  ∃ i, ∃ h : i < l.length, l[i] = o ∧
    ∀ j (hj : j < i), (st.scopes (l[j]'(Nat.lt_trans hj h))).active = true ∧
      (st.scopes (l[j]'(Nat.lt_trans hj h))).shield = false ∧
      (st.scopes (l[j]'(Nat.lt_trans hj h))).cancelCalled = false

theorem reachDownChain_cons_self (st : State) (o : Nat) (l : List Nat) :
    reachDownChain st o (o :: l) := ⟨0, by simp, rfl, fun j hj => by omega⟩

theorem reachDownChain_cons {st : State} {o c : Nat} {l : List Nat}
    (ha : (st.scopes c).active = true) (hs : (st.scopes c).shield = false)
    (hc : (st.scopes c).cancelCalled = false) (h : reachDownChain st o l) :
    reachDownChain st o (c :: l) := by
  obtain ⟨i, hi, e, hb⟩ := h
  refine ⟨i + 1, by simp; omega, by simpa using e, ?_⟩
  intro j hj
  cases j with
  | zero => exact ⟨ha, hs, hc⟩
  | succ j => simpa using hb j (by omega)

theorem reachDownChain_of_reachDown {st : State} (w : WF st) {o c : Nat}
    (r : reachDown st o c) : c = o ∨ reachDownChain st o (st.scopes c).chain := by
  induction r with
  | refl => exact .inl rfl
  | @step c p hp ha hs hcc _ ih =>
    right
    have e := w.chain_spec c (w.active_entered c ha)
    rw [hp] at e
    simp only [] at e
    rw [e]
    apply reachDownChain_cons ha hs hcc
    rcases ih with rfl | ih
    · obtain ⟨rest, ep⟩ := chain_of_entered w (w.parent_entered c p hp)
      rw [ep]; exact reachDownChain_cons_self _ _ _
    · exact ih

theorem reachDown_of_reachDownChain {st : State} (w : WF st) {o : Nat} :
    ∀ (n c : Nat), (st.scopes c).chain.length = n →
      reachDownChain st o (st.scopes c).chain → reachDown st o c := by
  intro n
  induction n using Nat.strongRecOn with
  | _ n ih =>
    intro c hn ⟨i, hi, e, hb⟩
    have hent : (st.scopes c).entered = true := by
      cases he : (st.scopes c).entered
      · rw [(w.not_entered c he).2.2.2.2.2] at hi; simp at hi
      · rfl
    have hch := w.chain_spec c hent
    cases i with
    | zero =>
      have : c = o := by
        have := e
        simp only [hch] at this
        simpa using this
      subst this; exact .refl
    | succ i =>
      have h0 := hb 0 (by omega)
      have hc0 : (st.scopes c).chain[0]'(by omega) = c := by simp only [hch]; simp
      rw [hc0] at h0
      cases hp : (st.scopes c).parent with
      | none =>
        rw [hp] at hch
        simp only [] at hch
        rw [hch] at hi; simp at hi
      | some p =>
        rw [hp] at hch
        simp only [] at hch
        refine .step hp h0.1 h0.2.1 h0.2.2 ?_
        apply ih (st.scopes p).chain.length (by rw [← hn, hch]; simp) p rfl
        have hi' : i < (st.scopes p).chain.length := by
          have := hi; rw [hch] at this; simpa using this
        refine ⟨i, hi', ?_, ?_⟩
        · have := e
          simp only [hch] at this
          simpa using this
        · intro j hj
          have := hb (j + 1) (by omega)
          simp only [hch] at this
          simpa using this

end AnyioModel.Kernel
