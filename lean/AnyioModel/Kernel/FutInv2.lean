/-
Fresh-allocation invariant for futures, part 2: the invariant `FInv` and its preservation by the
elementary updates of which the transitions are composed.

`FInv` holds at every intermediate state of a transition (the running task may have any `lib`
while it is running; the links only speak about suspended tasks).  `FFresh st f`: `f` was just
allocated: it has no role yet, nobody waits for it, it is pending.
-/
import AnyioModel.Kernel.FutInv

namespace AnyioModel.Kernel

structure FInv (st : State) : Prop where
  role_lt : ∀ f r, HasRole st f r → f < st.nFuts
  role_uniq : ∀ f r r', HasRole st f r → HasRole st f r' → r = r'
  tk_dflt : ∀ u, st.nTasks ≤ u → (st.tasks u).hwaiters = [] ∧ (st.tasks u).startFut = none ∧
    (st.tasks u).finished = false
  blk_lt : ∀ t f, ((st.tasks t).st = .blocked f ∨ (st.tasks t).st = .woken f) → f < st.nFuts
  wk_done : ∀ t f, (st.tasks t).st = .woken f → (st.futs f).done = true
  sw_start : ∀ t g u f, (st.tasks t).lib = .startWait g u f → (st.tasks u).startFut = some f
  sw_blk : ∀ t g u f f', (st.tasks t).lib = .startWait g u f →
    ((st.tasks t).st = .blocked f' ∨ (st.tasks t).st = .woken f') → f' = f
  start_blk : ∀ u f t, (st.tasks u).startFut = some f → (st.tasks t).st = .blocked f →
    ∃ g, (st.tasks t).lib = .startWait g u f
  sj_yield : ∀ t g u s e, (st.tasks t).lib = .startJoin g u s e → (st.tasks t).st = .yielded →
    (st.tasks u).finished = true
  sj_blk : ∀ t g u s e f, (st.tasks t).lib = .startJoin g u s e → (st.tasks t).st = .blocked f →
    f ∈ (st.tasks u).hwaiters ∨ (st.tasks u).finished = true
  sj_woken : ∀ t g u s e f, (st.tasks t).lib = .startJoin g u s e → (st.tasks t).st = .woken f →
    st.futs f = .result → (st.tasks u).finished = true
  fut_dflt : ∀ f, st.nFuts ≤ f → st.futs f = .pending
  fail_ne : ∀ f, st.futs f ≠ .failed .none
  lib_created : ∀ t, (st.tasks t).st = .created → (st.tasks t).lib = .none

/-- `f` has just been allocated -/
structure FFresh (st : State) (f : Nat) : Prop where
  lt : f < st.nFuts
  norole : ∀ r, ¬ HasRole st f r
  noblk : ∀ t, (st.tasks t).st ≠ .blocked f ∧ (st.tasks t).st ≠ .woken f
  pending : st.futs f = .pending

theorem finv_init : FInv init := by
  constructor
  · intro f r h
    cases r <;> simp [HasRole, init, sdIn] at h
    · split at h <;> simp at h
    · split at h <;> simp at h
    · obtain ⟨t, h⟩ := h; split at h <;> simp at h
  · intro f r r' h
    cases r <;> simp [HasRole, init, sdIn] at h
    · split at h <;> simp at h
    · split at h <;> simp at h
    · obtain ⟨t, h⟩ := h; split at h <;> simp at h
  · intro u hu
    simp [init]; split <;> simp
  all_goals
    intros
    simp_all [init]
    try (split at * <;> simp_all)

/-! ### inert steps -/

theorem hasRole_of_fsame {a b : State} (h : FSame a b) {f : Nat} {r : Role}
    (hr : HasRole b f r) : HasRole a f r := by
  cases r with
  | start u => simpa [HasRole, (h.tasks u).startFut] using hr
  | onC g =>
    simp only [HasRole] at hr ⊢
    rcases h.onc g with e | e
    · rw [← e]; exact hr
    · rw [e] at hr; cases hr
  | hw u => simpa [HasRole, (h.tasks u).hwaiters] using hr
  | sleep =>
    simp only [HasRole] at hr ⊢
    rcases hr with ⟨t, ht⟩ | hr
    · exact .inl ⟨t, by rw [← (h.tasks t).lib]; exact ht⟩
    · exact .inr (h.sd f hr)
  | user => simpa [HasRole, h.userFut] using hr

theorem finv_fsame {a b : State} (h : FInv a) (s : FSame a b) : FInv b := by
  have hst : ∀ t, (b.tasks t).st = (a.tasks t).st ∨ ∃ f an, (a.tasks t).st = .blocked f ∧
      (b.tasks t).st = .woken f ∧ a.futs f = .pending ∧ b.futs f = .cancelled an :=
    fun t => (s.tasks t).st
  have hl : ∀ t, (b.tasks t).lib = (a.tasks t).lib := fun t => (s.tasks t).lib
  have hsf : ∀ t, (b.tasks t).startFut = (a.tasks t).startFut := fun t => (s.tasks t).startFut
  have hhw : ∀ t, (b.tasks t).hwaiters = (a.tasks t).hwaiters := fun t => (s.tasks t).hwaiters
  have hfi : ∀ t, (b.tasks t).finished = (a.tasks t).finished := fun t => (s.tasks t).finished
  have hfu := s.futs
  constructor
  · intro f r hr
    rw [s.nFuts]; exact h.role_lt f r (hasRole_of_fsame s hr)
  · intro f r r' h1 h2
    exact h.role_uniq f r r' (hasRole_of_fsame s h1) (hasRole_of_fsame s h2)
  · intro u hu
    rw [s.nTasks] at hu
    rw [hhw, hsf, hfi]; exact h.tk_dflt u hu
  · intro t f hb
    rw [s.nFuts]
    have := h.blk_lt t f
    have := hst t
    grind
  · intro t f hw
    have := h.wk_done t f
    have := hst t
    have := hfu f
    grind [FutSt.done]
  · intro t g u f hlib
    rw [hl] at hlib; rw [hsf]; exact h.sw_start t g u f hlib
  · intro t g u f f' hlib hb
    rw [hl] at hlib
    have := h.sw_blk t g u f f' hlib
    have := hst t
    grind
  · intro u f t hs hb
    rw [hsf] at hs
    rw [hl]
    exact h.start_blk u f t hs ((s.tasks t).blocked hb)
  · intro t g u sc e hlib hy
    rw [hl] at hlib; rw [hfi]
    have := h.sj_yield t g u sc e hlib
    have := hst t
    grind
  · intro t g u sc e f hlib hb
    rw [hl] at hlib; rw [hfi, hhw]
    exact h.sj_blk t g u sc e f hlib ((s.tasks t).blocked hb)
  · intro t g u sc e f hlib hw hres
    rw [hl] at hlib; rw [hfi]
    have := h.sj_woken t g u sc e f hlib
    have := hst t
    have := hfu f
    grind
  · intro f hf
    rw [s.nFuts] at hf
    rcases hfu f with e | ⟨_, _, t, ht⟩
    · rw [e]; exact h.fut_dflt f hf
    · have := h.blk_lt t f (.inl ht); omega
  · intro f hc
    rcases hfu f with e | ⟨_, ⟨an, ha⟩, _⟩
    · rw [e] at hc; exact h.fail_ne f hc
    · rw [ha] at hc; cases hc
  · intro t hc
    rw [hl]
    have := h.lib_created t
    have := hst t
    grind

theorem fresh_fsame {a b : State} {f : Nat} (h : FFresh a f) (s : FSame a b) : FFresh b f := by
  refine ⟨by rw [s.nFuts]; exact h.lt, fun r hr => h.norole r (hasRole_of_fsame s hr), ?_, ?_⟩
  · intro t
    have := h.noblk t
    have := (s.tasks t).st
    grind
  · rcases s.futs f with e | ⟨_, _, t, ht⟩
    · rw [e]; exact h.pending
    · exact absurd ht (h.noblk t).1

/-! ### pure updates that are inert -/

theorem fsame_setTask (st : State) (t : Nat) (F : Task → Task)
    (h : (F (st.tasks t)).lib = (st.tasks t).lib ∧ (F (st.tasks t)).startFut = (st.tasks t).startFut ∧
      (F (st.tasks t)).hwaiters = (st.tasks t).hwaiters ∧
      (F (st.tasks t)).finished = (st.tasks t).finished ∧ (F (st.tasks t)).st = (st.tasks t).st) :
    FSame st (st.setTask t F) := by
  refine FSame.of_view (fun u => ?_) rfl (fun g => .inl rfl) rfl rfl rfl (fun f hf => hf)
  by_cases hu : u = t
  · subst hu; simpa using h
  · simp [hu]

theorem fsame_setScope (st : State) (s : Nat) (F : Scope → Scope) : FSame st (st.setScope s F) :=
  FSame.of_view (fun u => ⟨rfl, rfl, rfl, rfl, rfl⟩) rfl (fun g => .inl rfl) rfl rfl rfl
    (fun f hf => hf)

theorem fsame_setGroup (st : State) (g : Nat) (F : Group → Group)
    (h : (F (st.groups g)).onCompleted = (st.groups g).onCompleted ∨
      (F (st.groups g)).onCompleted = none) : FSame st (st.setGroup g F) := by
  refine FSame.of_view (fun u => ⟨rfl, rfl, rfl, rfl, rfl⟩) rfl (fun g' => ?_) rfl rfl rfl
    (fun f hf => hf)
  by_cases hg : g' = g
  · subst hg; simpa using h
  · simp [hg]

theorem fsame_schedule (st : State) (h : Handle) (hn : ∀ f, h ≠ .sleepDone f) :
    FSame st (st.schedule h) := by
  refine FSame.of_view (fun u => ⟨rfl, rfl, rfl, rfl, rfl⟩) rfl (fun g => .inl rfl) rfl rfl rfl ?_
  intro f hf
  rcases hf with hf | hf | hf
  · simp only [schedule_ready, List.mem_append, List.mem_singleton] at hf
    rcases hf with hf | hf
    · exact .inl hf
    · exact absurd hf.symm (hn f)
  · exact .inr (.inl hf)
  · exact .inr (.inr hf)

theorem fsame_unschedule (st : State) (h : Handle) : FSame st (st.unschedule h) :=
  FSame.of_xc (xc_unschedule st h)

theorem fsame_newScope (st : State) (sh : Bool) (d : Option Nat) :
    FSame st (newScope st sh d).1 :=
  FSame.of_view (fun u => ⟨rfl, rfl, rfl, rfl, rfl⟩) rfl (fun g => .inl rfl) rfl rfl rfl
    (fun f hf => hf)

/-- changes of the loop's queues (no new `sleepDone` handle), the clock, `running` -/
theorem fsame_loop {a b : State} (ht : b.tasks = a.tasks) (hf : b.futs = a.futs)
    (hg : b.groups = a.groups) (hu : b.userFut = a.userFut) (h1 : b.nFuts = a.nFuts)
    (h2 : b.nTasks = a.nTasks) (hsd : ∀ f, sdIn b f → sdIn a f) : FSame a b :=
  FSame.of_view (fun u => by rw [ht]; exact ⟨rfl, rfl, rfl, rfl, rfl⟩) hf
    (fun g => .inl (by rw [hg])) hu h1 h2 hsd

/-! ### roles under updates -/

theorem roles_of_sub {a b : State} (h : FInv a) (hn : a.nFuts ≤ b.nFuts)
    (sub : ∀ f r, HasRole b f r → HasRole a f r) :
    (∀ f r, HasRole b f r → f < b.nFuts) ∧
      (∀ f r r', HasRole b f r → HasRole b f r' → r = r') :=
  ⟨fun f r hr => Nat.lt_of_lt_of_le (h.role_lt f r (sub f r hr)) hn,
    fun f r r' h1 h2 => h.role_uniq f r r' (sub f r h1) (sub f r' h2)⟩

theorem roles_of_add {a b : State} (h : FInv a) (hn : a.nFuts ≤ b.nFuts) (F : Nat) (R : Role)
    (hF : ∀ r, ¬ HasRole a F r) (hlt : F < b.nFuts)
    (sub : ∀ f r, HasRole b f r → HasRole a f r ∨ (f = F ∧ r = R)) :
    (∀ f r, HasRole b f r → f < b.nFuts) ∧
      (∀ f r r', HasRole b f r → HasRole b f r' → r = r') := by
  refine ⟨fun f r hr => ?_, fun f r r' h1 h2 => ?_⟩
  · rcases sub f r hr with h1 | ⟨rfl, _⟩
    · exact Nat.lt_of_lt_of_le (h.role_lt f r h1) hn
    · exact hlt
  · rcases sub f r h1 with a1 | ⟨rfl, rfl⟩
    · rcases sub f r' h2 with a2 | ⟨rfl, rfl⟩
      · exact h.role_uniq f r r' a1 a2
      · exact absurd a1 (hF r)
    · rcases sub f r' h2 with a2 | ⟨_, rfl⟩
      · exact absurd a2 (hF r')
      · rfl

end AnyioModel.Kernel
