/-
Frame lemmas for the ghost counters of a task (`ncancel`, `nNative`, `nAnyio`, `nUncancel`,
`nUserUncancel`, `nOwn`, `nForeign`, `nDropped`) and for `pending` of a scope: which helper
changes which counter, and by how much.
-/
import AnyioModel.Kernel.Frame

namespace AnyioModel.Kernel

/-- all eight counters agree -/
structure GhostEq (x y : Task) : Prop where
  ncancel : y.ncancel = x.ncancel
  nNative : y.nNative = x.nNative
  nAnyio : y.nAnyio = x.nAnyio
  nUncancel : y.nUncancel = x.nUncancel
  nUserUncancel : y.nUserUncancel = x.nUserUncancel
  nOwn : y.nOwn = x.nOwn
  nForeign : y.nForeign = x.nForeign
  nDropped : y.nDropped = x.nDropped

theorem GhostEq.refl (x : Task) : GhostEq x x := by constructor <;> rfl

theorem GhostEq.trans {x y z : Task} (h1 : GhostEq x y) (h2 : GhostEq y z) : GhostEq x z := by
  cases h1; cases h2; constructor <;> simp [*]

/-- `resolveFut` touches no counter and no `pending` -/
theorem resolveFut_ghost (st : State) (f : Nat) (v : FutSt) (u : Nat) :
    GhostEq (st.tasks u) ((resolveFut st f v).tasks u) := by
  unfold resolveFut
  split
  · exact GhostEq.refl _
  · simp only []
    split
    · rename_i t ht
      split
      · by_cases hu : u = t
        · subst hu; simp; constructor <;> rfl
        · simpa [hu] using GhostEq.refl _
      · exact GhostEq.refl _
    · exact GhostEq.refl _

theorem resolveFut_scopes (st : State) (f : Nat) (v : FutSt) :
    (resolveFut st f v).scopes = st.scopes := by
  unfold resolveFut
  split
  · rfl
  · simp only []
    split
    · split <;> rfl
    · rfl

theorem resolveFut_mustCancel (st : State) (f : Nat) (v : FutSt) (u : Nat) :
    ((resolveFut st f v).tasks u).mustCancel = (st.tasks u).mustCancel ∧
    ((resolveFut st f v).tasks u).mcAnyio = (st.tasks u).mcAnyio := by
  unfold resolveFut
  split
  · exact ⟨rfl, rfl⟩
  · simp only []
    split
    · rename_i t ht
      split
      · by_cases hu : u = t
        · subst hu; simp
        · simp [hu]
      · exact ⟨rfl, rfl⟩
    · exact ⟨rfl, rfl⟩

/-- `Task.cancel()` on another task leaves `u` alone -/
theorem taskCancel_ghost_other (st : State) (t : Nat) (a : Bool) {u : Nat} (hu : u ≠ t) :
    GhostEq (st.tasks u) ((taskCancel st t a).tasks u) := by
  unfold taskCancel
  simp only []
  split
  · exact GhostEq.refl _
  · split
    · refine GhostEq.trans ?_ (resolveFut_ghost _ _ _ u)
      simpa [hu] using GhostEq.refl _
    · simpa [hu] using GhostEq.refl _

theorem taskCancel_scopes (st : State) (t : Nat) (a : Bool) :
    (taskCancel st t a).scopes = st.scopes := by
  unfold taskCancel
  simp only []
  split
  · rfl
  · split
    · rw [resolveFut_scopes]; rfl
    · rfl

theorem taskCancel_done (st : State) (t : Nat) (a : Bool) (hd : (st.tasks t).st = .done) :
    taskCancel st t a = st := by
  simp [taskCancel, hd]

/-- `Task.cancel()` on a task that is not done: `ncancel + 1`, and `nNative + 1` or `nAnyio + 1` -/
theorem taskCancel_ghost_self (st : State) (t : Nat) (a : Bool) (hd : (st.tasks t).st ≠ .done) :
    let x := st.tasks t
    let y := (taskCancel st t a).tasks t
    y.ncancel = x.ncancel + 1 ∧
    y.nNative = (if a then x.nNative else x.nNative + 1) ∧
    y.nAnyio = (if a then x.nAnyio + 1 else x.nAnyio) ∧
    y.nUncancel = x.nUncancel ∧ y.nUserUncancel = x.nUserUncancel ∧ y.nOwn = x.nOwn ∧
    y.nForeign = x.nForeign ∧ y.nDropped = x.nDropped := by
  unfold taskCancel
  simp only [hd, if_false]
  split
  · have := resolveFut_ghost (st.setTask t (fun x =>
      { x with ncancel := x.ncancel + 1,
               nNative := if a then x.nNative else x.nNative + 1,
               nAnyio := if a then x.nAnyio + 1 else x.nAnyio })) ‹Nat› (.cancelled a) t
    obtain ⟨g1, g2, g3, g4, g5, g6, g7, g8⟩ := this
    simp only [g1, g2, g3, g4, g5, g6, g7, g8]
    simp
  · simp

/-- `Task.uncancel()` × n -/
theorem taskUncancel_ghost_self (st : State) (t n : Nat) :
    let x := st.tasks t
    let y := (taskUncancel st t n).tasks t
    y.ncancel = x.ncancel - n ∧ y.nUncancel = x.nUncancel + min n x.ncancel ∧
    y.nNative = x.nNative ∧ y.nAnyio = x.nAnyio ∧ y.nUserUncancel = x.nUserUncancel ∧
    y.nOwn = x.nOwn ∧ y.nForeign = x.nForeign ∧ y.nDropped = x.nDropped ∧
    y.mustCancel = x.mustCancel ∧ y.st = x.st := by
  simp [taskUncancel]

theorem taskUncancel_other (st : State) (t n : Nat) {u : Nat} (hu : u ≠ t) :
    (taskUncancel st t n).tasks u = st.tasks u := by
  simp [taskUncancel, hu]

theorem taskUncancel_scopes (st : State) (t n : Nat) : (taskUncancel st t n).scopes = st.scopes := rfl

/-- the condition under which the delivery loop body calls `task.cancel()` on `t` -/
def hitCancels (st : State) (s t : Nat) : Bool :=
  decide ((st.tasks t).st ≠ .done) && !(st.tasks t).mustCancel &&
    decide (st.running ≠ some t ∧ ((st.scopes s).host = some t ∨ (st.tasks t).st ≠ .created)) &&
    (match (st.tasks t).st with | .woken _ => false | _ => true)

theorem hitTask_skip (origin s : Nat) (acc : State × Bool) (t : Nat)
    (h : hitCancels acc.1 s t = false) : (hitTask origin s acc t).1 = acc.1 := by
  unfold hitTask
  simp only []
  split
  · rfl
  · split
    · rfl
    · split
      · split
        · rfl
        · rename_i h1 h2 h3 _ h4
          exfalso
          have : (match (acc.1.tasks t).st with | .woken _ => false | _ => true) = true := by
            split
            · rename_i f hf; exact absurd hf (h4 f)
            · rfl
          simp [hitCancels, h1, h2, h3, this] at h
      · rfl

/-- the bookkeeping after `task.cancel()` in the delivery loop: who is to pay it back -/
def hitDo (st : State) (origin t : Nat) : State :=
  if (st.scopes origin).host = some t then
    (st.setScope origin (fun x => { x with pending := x.pending + 1 })).setTask t
      (fun x => { x with nOwn := x.nOwn + 1 })
  else st.setTask t (fun x => { x with nForeign := x.nForeign + 1 })

/-- when the loop body cancels `t`: the state is `taskCancel st t true` followed by `hitDo` -/
theorem hitTask_hit (origin s : Nat) (acc : State × Bool) (t : Nat)
    (h : hitCancels acc.1 s t = true) :
    (hitTask origin s acc t).1 = hitDo (taskCancel acc.1 t true) origin t := by
  simp only [hitCancels, Bool.and_eq_true, decide_eq_true_eq,
    Bool.not_eq_eq_eq_not, Bool.not_true] at h
  obtain ⟨⟨⟨h1, h2⟩, h3⟩, h4⟩ := h
  have h2' : ¬ (acc.1.tasks t).mustCancel = true := by simp [h2]
  unfold hitTask
  simp only []
  rw [if_neg h1, if_neg h2', if_pos h3]
  split
  · rename_i f hf; simp [hf] at h4
  · rfl

/-- counters of the task hit by the delivery loop body -/
theorem hitTask_ghost_self (origin s : Nat) (acc : State × Bool) (t : Nat)
    (h : hitCancels acc.1 s t = true) :
    let x := acc.1.tasks t
    let y := (hitTask origin s acc t).1.tasks t
    let own := decide ((acc.1.scopes origin).host = some t)
    y.ncancel = x.ncancel + 1 ∧ y.nAnyio = x.nAnyio + 1 ∧ y.nNative = x.nNative ∧
    y.nUncancel = x.nUncancel ∧ y.nUserUncancel = x.nUserUncancel ∧ y.nDropped = x.nDropped ∧
    y.nOwn = (if own then x.nOwn + 1 else x.nOwn) ∧
    y.nForeign = (if own then x.nForeign else x.nForeign + 1) ∧
    ((hitTask origin s acc t).1.scopes origin).pending =
      (if own then (acc.1.scopes origin).pending + 1 else (acc.1.scopes origin).pending) := by
  have hd : (acc.1.tasks t).st ≠ .done := by
    simp only [hitCancels, Bool.and_eq_true, decide_eq_true_eq] at h
    exact h.1.1.1
  have g := taskCancel_ghost_self acc.1 t true hd
  simp only [if_true] at g
  rw [hitTask_hit origin s acc t h]
  unfold hitDo
  by_cases ho : (acc.1.scopes origin).host = some t
  · simp [ho, g, taskCancel_scopes]
  · simp [ho, g, taskCancel_scopes]

theorem hitTask_ghost_other (origin s : Nat) (acc : State × Bool) (t : Nat) {u : Nat}
    (hu : u ≠ t) : GhostEq (acc.1.tasks u) ((hitTask origin s acc t).1.tasks u) := by
  cases h : hitCancels acc.1 s t
  · rw [hitTask_skip origin s acc t h]; exact GhostEq.refl _
  · rw [hitTask_hit origin s acc t h]
    refine GhostEq.trans (taskCancel_ghost_other acc.1 t true hu) ?_
    unfold hitDo; split <;> simpa [hu] using GhostEq.refl _

theorem hitTask_pending_other (origin s : Nat) (acc : State × Bool) (t : Nat) {x : Nat}
    (hx : x ≠ origin) : ((hitTask origin s acc t).1.scopes x) = (acc.1.scopes x) := by
  cases h : hitCancels acc.1 s t
  · rw [hitTask_skip origin s acc t h]
  · rw [hitTask_hit origin s acc t h]
    unfold hitDo; split <;> simp [hx, taskCancel_scopes]

end AnyioModel.Kernel
