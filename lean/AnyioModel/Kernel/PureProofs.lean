/-
Helper lemmas for the pure-function theorems of C04 (containment) and C06 (deadlines).

Everything here is about the model's functions for *all* states and arguments; no reachability.

* `DFrame`: what `resolveFut`, `taskCancel`, `hitTask`, `deliverGo`, `deliver`, `restartList`,
  `restartInParent` leave untouched: every field of every scope except the bookkeeping fields
  `pending` and `deliver`, the clock, the timers, the current batch, the `scope`/`hasState`
  fields of every task; `ready` only grows, and never by a `timeout` handle.
* the walk functions (`effCancelledList`, `effCancelled`, `parentVisible`, `effDeadlineList`)
  depend only on framed fields.
* `exitScope` is split into `exitMid` (unlinking + `_restart_cancellation_in_parent`) and
  `exitDecide` (the absorb-or-propagate decision); `exitScope_split` holds by `rfl`.
-/
import AnyioModel.Kernel.Step

namespace AnyioModel.Kernel

/-! ### the control part of a scope -/

/-- a scope with the two bookkeeping fields that cancellation delivery writes erased -/
def Scope.ctl (x : Scope) : Scope := { x with pending := 0, deliver := false }

@[simp] theorem Scope.ctl_pending (x : Scope) (f : Nat) :
    ({ x with pending := f } : Scope).ctl = x.ctl := rfl

@[simp] theorem Scope.ctl_deliver (x : Scope) (b : Bool) :
    ({ x with deliver := b } : Scope).ctl = x.ctl := rfl

/-- what cancellation delivery leaves untouched -/
structure DFrame (st st' : State) : Prop where
  scopes : ∀ i, (st'.scopes i).ctl = (st.scopes i).ctl
  now : st'.now = st.now
  timers : st'.timers = st.timers
  cur : st'.cur = st.cur
  running : st'.running = st.running
  nScopes : st'.nScopes = st.nScopes
  ready : ∃ extra, st'.ready = st.ready ++ extra ∧ ∀ h ∈ extra, ∀ s, h ≠ Handle.timeout s
  taskScope : ∀ t, (st'.tasks t).scope = (st.tasks t).scope
  taskHasState : ∀ t, (st'.tasks t).hasState = (st.tasks t).hasState

theorem DFrame.refl (st : State) : DFrame st st :=
  ⟨fun _ => rfl, rfl, rfl, rfl, rfl, rfl, ⟨[], by simp⟩, fun _ => rfl, fun _ => rfl⟩

theorem DFrame.trans {a b c : State} (h1 : DFrame a b) (h2 : DFrame b c) : DFrame a c := by
  obtain ⟨e1, he1, hn1⟩ := h1.ready
  obtain ⟨e2, he2, hn2⟩ := h2.ready
  refine ⟨fun i => (h2.scopes i).trans (h1.scopes i), h2.now.trans h1.now,
    h2.timers.trans h1.timers, h2.cur.trans h1.cur, h2.running.trans h1.running,
    h2.nScopes.trans h1.nScopes, ⟨e1 ++ e2, by simp [he2, he1], ?_⟩,
    fun t => (h2.taskScope t).trans (h1.taskScope t),
    fun t => (h2.taskHasState t).trans (h1.taskHasState t)⟩
  intro h hm s
  rcases List.mem_append.1 hm with hm | hm
  · exact hn1 h hm s
  · exact hn2 h hm s

/-! field projections out of a `ctl` equation -/
section
variable {a b : Scope} (h : a.ctl = b.ctl)
include h
theorem ctl_cancelCalled : a.cancelCalled = b.cancelCalled := (congrArg Scope.cancelCalled h :)
theorem ctl_shield : a.shield = b.shield := (congrArg Scope.shield h :)
theorem ctl_parent : a.parent = b.parent := (congrArg Scope.parent h :)
theorem ctl_chain : a.chain = b.chain := (congrArg Scope.chain h :)
theorem ctl_deadline : a.deadline = b.deadline := (congrArg Scope.deadline h :)
theorem ctl_caught : a.caught = b.caught := (congrArg Scope.caught h :)
theorem ctl_active : a.active = b.active := (congrArg Scope.active h :)
theorem ctl_host : a.host = b.host := (congrArg Scope.host h :)
theorem ctl_timer : a.timer = b.timer := (congrArg Scope.timer h :)
theorem ctl_byDeadline : a.byDeadline = b.byDeadline := (congrArg Scope.byDeadline h :)
theorem ctl_cancelTime : a.cancelTime = b.cancelTime := (congrArg Scope.cancelTime h :)
theorem ctl_entered : a.entered = b.entered := (congrArg Scope.entered h :)
theorem ctl_exists : a.exists_ = b.exists_ := (congrArg Scope.exists_ h :)
theorem ctl_tasks : a.tasks = b.tasks := (congrArg Scope.tasks h :)
theorem ctl_children : a.children = b.children := (congrArg Scope.children h :)
end

/-! ### frames of the primitive updates -/

theorem DFrame.setTask_st (st : State) (t : Nat) (f : Task → Task)
    (h1 : ∀ x, (f x).scope = x.scope) (h2 : ∀ x, (f x).hasState = x.hasState) :
    DFrame st (st.setTask t f) := by
  refine ⟨fun _ => rfl, rfl, rfl, rfl, rfl, rfl, ⟨[], by simp [State.setTask]⟩, ?_, ?_⟩
  · intro u; simp only [State.setTask, upd_apply]; split
    · subst_vars; exact h1 _
    · rfl
  · intro u; simp only [State.setTask, upd_apply]; split
    · subst_vars; exact h2 _
    · rfl

theorem DFrame.setFut (st : State) (f : Nat) (v : FutSt) : DFrame st (st.setFut f v) :=
  ⟨fun _ => rfl, rfl, rfl, rfl, rfl, rfl, ⟨[], by simp [State.setFut]⟩, fun _ => rfl, fun _ => rfl⟩

theorem DFrame.schedule (st : State) (h : Handle) (hh : ∀ s, h ≠ .timeout s) :
    DFrame st (st.schedule h) :=
  ⟨fun _ => rfl, rfl, rfl, rfl, rfl, rfl, ⟨[h], by simp [State.schedule], by simpa using hh⟩,
    fun _ => rfl, fun _ => rfl⟩

theorem DFrame.setScope_ctl (st : State) (s : Nat) (f : Scope → Scope)
    (h : ∀ x, (f x).ctl = x.ctl) : DFrame st (st.setScope s f) := by
  refine ⟨?_, rfl, rfl, rfl, rfl, rfl, ⟨[], by simp [State.setScope]⟩, fun _ => rfl, fun _ => rfl⟩
  intro i; simp only [State.setScope, upd_apply]; split
  · subst_vars; exact h _
  · rfl

theorem DFrame.resolveFut (st : State) (f : Nat) (v : FutSt) : DFrame st (resolveFut st f v) := by
  unfold AnyioModel.Kernel.resolveFut
  split
  · exact DFrame.refl _
  · have h1 := DFrame.setFut st f v
    dsimp only
    split
    · split
      · refine h1.trans ?_
        refine DFrame.trans ?_ (DFrame.schedule _ _ (by intro s; simp))
        exact DFrame.setTask_st _ _ _ (fun _ => rfl) (fun _ => rfl)
      · exact h1
    · exact h1

theorem DFrame.taskCancel (st : State) (t : Nat) (a : Bool) : DFrame st (taskCancel st t a) := by
  unfold AnyioModel.Kernel.taskCancel
  dsimp only
  split
  · exact DFrame.refl _
  · have h1 : DFrame st (st.setTask t (fun x =>
        { x with ncancel := x.ncancel + 1,
                 nNative := if a then x.nNative else x.nNative + 1,
                 nAnyio := if a then x.nAnyio + 1 else x.nAnyio })) :=
      DFrame.setTask_st _ _ _ (fun _ => rfl) (fun _ => rfl)
    split
    · exact h1.trans (DFrame.resolveFut _ _ _)
    · exact h1.trans (DFrame.setTask_st _ _ _ (fun _ => rfl) (fun _ => rfl))

theorem DFrame.taskUncancel (st : State) (t n : Nat) : DFrame st (taskUncancel st t n) :=
  DFrame.setTask_st _ _ _ (fun _ => rfl) (fun _ => rfl)

theorem DFrame.hitTask (origin s : Nat) (acc : State × Bool) (t : Nat) :
    DFrame acc.1 (hitTask origin s acc t).1 := by
  unfold AnyioModel.Kernel.hitTask
  dsimp only
  split
  · exact DFrame.refl _
  · split
    · exact DFrame.refl _
    · split
      · split
        · exact DFrame.refl _
        · dsimp only
          split
          · refine DFrame.trans (DFrame.taskCancel acc.1 t true) ?_
            refine DFrame.trans ?_ (DFrame.setTask_st _ _ _ (by intro _; rfl) (by intro _; rfl))
            exact DFrame.setScope_ctl _ _ _ (by intro _; rfl)
          · refine DFrame.trans (DFrame.taskCancel acc.1 t true) ?_
            exact DFrame.setTask_st _ _ _ (by intro _; rfl) (by intro _; rfl)
      · exact DFrame.refl _

theorem DFrame.foldl {α : Type} (f : State × Bool → α → State × Bool)
    (hf : ∀ acc a, DFrame acc.1 (f acc a).1) (l : List α) (acc : State × Bool) :
    DFrame acc.1 (l.foldl f acc).1 := by
  induction l generalizing acc with
  | nil => exact DFrame.refl _
  | cons a l ih => exact (hf acc a).trans (ih _)

theorem DFrame.deliverGo (fuel : Nat) (st : State) (origin s : Nat) :
    DFrame st (deliverGo fuel st origin s).1 := by
  induction fuel generalizing st s with
  | zero => exact DFrame.refl _
  | succ n ih =>
    unfold AnyioModel.Kernel.deliverGo
    dsimp only
    refine DFrame.trans (DFrame.foldl _ (DFrame.hitTask origin s) (st.scopes s).tasks (st, false)) ?_
    refine DFrame.foldl _ ?_ _ _
    intro acc c
    split
    · exact ih _ _
    · exact DFrame.refl _

theorem DFrame.deliver (st : State) (origin : Nat) : DFrame st (deliver st origin) := by
  unfold AnyioModel.Kernel.deliver
  dsimp only
  have h := DFrame.deliverGo (st.nScopes + 1) st origin origin
  split
  · refine h.trans ?_
    refine DFrame.trans ?_ (DFrame.schedule _ _ (by intro s; simp))
    exact DFrame.setScope_ctl _ _ _ (fun _ => rfl)
  · exact h.trans (DFrame.setScope_ctl _ _ _ (fun _ => rfl))

theorem DFrame.restartList (st : State) (l : List Nat) : DFrame st (restartList st l) := by
  induction l with
  | nil => exact DFrame.refl _
  | cons s rest ih =>
    unfold AnyioModel.Kernel.restartList
    split
    · split
      · exact DFrame.refl _
      · exact DFrame.deliver _ _
    · split
      · exact DFrame.refl _
      · exact ih

theorem DFrame.restartInParent (st : State) (s : Nat) : DFrame st (restartInParent st s) :=
  DFrame.restartList _ _

end AnyioModel.Kernel

namespace AnyioModel.Kernel

/-! ### the walk part of a scope: what `exitScope`'s unlinking also leaves untouched -/

def Scope.walk (x : Scope) : Scope :=
  { x with pending := 0, deliver := false, active := false, timer := false, tasks := [],
           children := [] }

theorem Scope.walk_of_ctl {a b : Scope} (h : a.ctl = b.ctl) : a.walk = b.walk :=
  (congrArg Scope.walk h :)

section
variable {a b : Scope} (h : a.walk = b.walk)
include h
theorem walk_cancelCalled : a.cancelCalled = b.cancelCalled := (congrArg Scope.cancelCalled h :)
theorem walk_shield : a.shield = b.shield := (congrArg Scope.shield h :)
theorem walk_parent : a.parent = b.parent := (congrArg Scope.parent h :)
theorem walk_chain : a.chain = b.chain := (congrArg Scope.chain h :)
theorem walk_deadline : a.deadline = b.deadline := (congrArg Scope.deadline h :)
theorem walk_caught : a.caught = b.caught := (congrArg Scope.caught h :)
theorem walk_host : a.host = b.host := (congrArg Scope.host h :)
theorem walk_byDeadline : a.byDeadline = b.byDeadline := (congrArg Scope.byDeadline h :)
theorem walk_cancelTime : a.cancelTime = b.cancelTime := (congrArg Scope.cancelTime h :)
theorem walk_entered : a.entered = b.entered := (congrArg Scope.entered h :)
theorem walk_exists : a.exists_ = b.exists_ := (congrArg Scope.exists_ h :)
end

/-- the two states agree on the walk part of every scope -/
def SameWalk (st st' : State) : Prop := ∀ i, (st'.scopes i).walk = (st.scopes i).walk

theorem SameWalk.refl (st : State) : SameWalk st st := fun _ => rfl

theorem SameWalk.trans {a b c : State} (h1 : SameWalk a b) (h2 : SameWalk b c) : SameWalk a c :=
  fun i => (h2 i).trans (h1 i)

theorem DFrame.sameWalk {st st' : State} (h : DFrame st st') : SameWalk st st' :=
  fun i => Scope.walk_of_ctl (h.scopes i)

theorem SameWalk.setScope (st : State) (s : Nat) (f : Scope → Scope)
    (h : ∀ x, (f x).walk = x.walk) : SameWalk st (st.setScope s f) := by
  intro i; simp only [State.setScope, upd_apply]; split
  · subst_vars; exact h _
  · rfl

theorem SameWalk.of_scopes_eq {st st' : State} (h : st'.scopes = st.scopes) : SameWalk st st' :=
  fun i => by rw [h]

/-! ### the walks only read `cancelCalled`, `shield`, `parent`, `chain`, `deadline` -/

/-- the navigation part of a scope: all that `_effectively_cancelled`,
`_parent_cancellation_is_visible_to_us` and `current_effective_deadline` read -/
def Scope.nav (x : Scope) : Scope :=
  { cancelCalled := x.cancelCalled, shield := x.shield, parent := x.parent, chain := x.chain,
    deadline := x.deadline }

def SameNav (st st' : State) : Prop := ∀ i, (st'.scopes i).nav = (st.scopes i).nav

theorem SameNav.refl (st : State) : SameNav st st := fun _ => rfl

theorem SameNav.trans {a b c : State} (h1 : SameNav a b) (h2 : SameNav b c) : SameNav a c :=
  fun i => (h2 i).trans (h1 i)

theorem SameWalk.nav {st st' : State} (h : SameWalk st st') : SameNav st st' :=
  fun i => (congrArg Scope.nav (h i) :)

theorem DFrame.sameNav {st st' : State} (h : DFrame st st') : SameNav st st' := h.sameWalk.nav

section
variable {a b : Scope} (h : a.nav = b.nav)
include h
theorem nav_cancelCalled : a.cancelCalled = b.cancelCalled := (congrArg Scope.cancelCalled h :)
theorem nav_shield : a.shield = b.shield := (congrArg Scope.shield h :)
theorem nav_parent : a.parent = b.parent := (congrArg Scope.parent h :)
theorem nav_chain : a.chain = b.chain := (congrArg Scope.chain h :)
theorem nav_deadline : a.deadline = b.deadline := (congrArg Scope.deadline h :)
end

theorem effCancelledList_congr {st st' : State} (h : SameNav st st') (l : List Nat) :
    effCancelledList st' l = effCancelledList st l := by
  induction l with
  | nil => rfl
  | cons s rest ih =>
    simp only [effCancelledList, nav_cancelCalled (h s), nav_shield (h s), ih]

theorem effCancelled_congr {st st' : State} (h : SameNav st st') (s : Nat) :
    effCancelled st' s = effCancelled st s := by
  simp only [effCancelled, nav_chain (h s), effCancelledList_congr h]

theorem parentVisible_congr {st st' : State} (h : SameNav st st') (s : Nat) :
    parentVisible st' s = parentVisible st s := by
  simp only [parentVisible, nav_parent (h s), nav_shield (h s), effCancelled_congr h]

theorem effDeadlineList_congr {st st' : State} (h : SameNav st st') (l : List Nat)
    (acc : Option Nat) : effDeadlineList st' l acc = effDeadlineList st l acc := by
  induction l generalizing acc with
  | nil => rfl
  | cons s rest ih =>
    simp only [effDeadlineList, nav_cancelCalled (h s), nav_shield (h s),
      nav_deadline (h s), ih]

theorem effDeadline_congr {st st' : State} (h : SameNav st st')
    (ht : ∀ t, (st'.tasks t).scope = (st.tasks t).scope) (t : Nat) :
    effDeadline st' t = effDeadline st t := by
  unfold effDeadline
  rw [ht t]
  cases (st.tasks t).scope with
  | none => rfl
  | some s => simp only [nav_chain (h s), effDeadlineList_congr h]

/-! ### `_effectively_cancelled` against its declarative reading -/

theorem effCancelledList_iff (st : State) (l : List Nat) :
    effCancelledList st l = true ↔
      ∃ i, ∃ h : i < l.length, (st.scopes l[i]).cancelCalled = true ∧
        ∀ j (hj : j < i), (st.scopes (l[j]'(Nat.lt_trans hj h))).cancelCalled = false ∧
          (st.scopes (l[j]'(Nat.lt_trans hj h))).shield = false := by
  induction l with
  | nil => simp [effCancelledList]
  | cons s rest ih =>
    unfold effCancelledList
    by_cases hc : (st.scopes s).cancelCalled = true
    · simp only [hc, if_true, true_iff]
      exact ⟨0, by simp, by simpa using hc, by intro j hj; omega⟩
    · by_cases hs : (st.scopes s).shield = true
      · simp only [hc, hs, if_true, if_false, Bool.false_eq_true, false_iff]
        rintro ⟨i, h, hci, hb⟩
        cases i with
        | zero => exact hc (by simpa using hci)
        | succ i =>
          have := (hb 0 (by omega)).2
          simp [hs] at this
      · simp only [hc, hs, Bool.false_eq_true, if_false]
        rw [ih]
        constructor
        · rintro ⟨i, h, hci, hb⟩
          refine ⟨i + 1, by simpa using h, by simpa using hci, ?_⟩
          intro j hj
          cases j with
          | zero => simpa using And.intro hc hs
          | succ j => simpa using hb j (by omega)
        · rintro ⟨i, h, hci, hb⟩
          cases i with
          | zero => exact absurd (by simpa using hci) hc
          | succ i =>
            refine ⟨i, by simpa using h, by simpa using hci, ?_⟩
            intro j hj
            simpa using hb (j + 1) (by omega)

end AnyioModel.Kernel

namespace AnyioModel.Kernel

/-! ### `exitScope` in three pieces -/

/-- `__exit__` up to and including `_task_states[host].cancel_scope = parent`:
deactivate, cancel the timeout handle, move the host task to the parent scope -/
def exitUnlink (st : State) (t s : Nat) : State :=
  let sc := st.scopes s
  let st := st.setScope s (fun x => { x with active := false })
  let st :=
    if sc.timer then (st.unschedule (.timeout s)).setScope s (fun x => { x with timer := false })
    else st
  let st := st.setScope s (fun x => { x with tasks := x.tasks.erase t })
  let st :=
    match sc.parent with
    | some p =>
      st.setScope p (fun x => { x with children := x.children.erase s, tasks := t :: x.tasks })
    | none => st
  st.setTask t (fun x => { x with scope := sc.parent })

/-- ... followed by `_restart_cancellation_in_parent()` -/
def exitMid (st : State) (t s : Nat) : State :=
  restartInParent (exitUnlink st t s) s

/-- the absorb-or-propagate decision of `__exit__`, on the state `exitMid` produced -/
def exitDecide (st : State) (t s : Nat) (ev : ExcVal) : Option (State × ExitResult) :=
  let sc := st.scopes s
  let fin := fun (st : State) => st.setScope s (fun x => { x with host := none })
  if sc.cancelCalled ∧ !parentVisible st s then
    let st := taskUncancel st t sc.pending
    let st := st.setScope s (fun x => { x with pending := 0 })
    match ev with
    | .group es =>
      let cancels := es.filter (· = .cancelAnyio)
      let rest := es.filter (· ≠ .cancelAnyio)
      if cancels = [] then some (fin st, .passed)
      else
        let st := st.setScope s (fun x => { x with caught := true })
        if rest = [] then some (fin st, .swallowed) else some (fin st, .raised rest)
    | .one .cancelAnyio =>
      some (fin (st.setScope s (fun x => { x with caught := true })), .swallowed)
    | _ => some (fin st, .passed)
  else
    let st :=
      if sc.pending > 0 then
        let drop := fun (st : State) =>
          st.setTask t (fun x => { x with nDropped := x.nDropped + sc.pending })
        let st :=
          match sc.parent with
          | some p =>
            if (st.scopes p).host = some t then
              st.setScope p (fun x => { x with pending := x.pending + sc.pending })
            else drop st
          | none => drop st
        st.setScope s (fun x => { x with pending := 0 })
      else st
    some (fin st, .passed)

/-- the RuntimeError conditions of `__exit__` -/
def exitGuard (st : State) (t s : Nat) : Prop :=
  (!(st.scopes s).active) = true ∨ (st.scopes s).host ≠ some t ∨
    (!(st.tasks t).hasState) = true ∨ (st.tasks t).scope ≠ some s

instance (st : State) (t s : Nat) : Decidable (exitGuard st t s) := by
  unfold exitGuard; infer_instance

theorem exitScope_split (st : State) (t s : Nat) (ev : ExcVal) :
    exitScope st t s ev =
      if exitGuard st t s then none else exitDecide (exitMid st t s) t s ev := rfl

/-! ### facts about `exitUnlink` and `exitMid` -/

theorem SameWalk.setScope_r {a b : State} (h : SameWalk a b) (s : Nat) (f : Scope → Scope)
    (hf : ∀ x, (f x).walk = x.walk) : SameWalk a (b.setScope s f) :=
  h.trans (SameWalk.setScope _ _ _ hf)

theorem SameWalk.setTask_r {a b : State} (h : SameWalk a b) (t : Nat) (f : Task → Task) :
    SameWalk a (b.setTask t f) := h

theorem SameWalk.unschedule_r {a b : State} (h : SameWalk a b) (x : Handle) :
    SameWalk a (b.unschedule x) := h

theorem exitUnlink_sameWalk (st : State) (t s : Nat) : SameWalk st (exitUnlink st t s) := by
  unfold exitUnlink
  dsimp only
  apply SameWalk.setTask_r
  have h1 : SameWalk st (st.setScope s (fun x => { x with active := false })) :=
    SameWalk.setScope _ _ _ (fun _ => rfl)
  have h2 : SameWalk st (if (st.scopes s).timer = true then
      ((st.setScope s (fun x => { x with active := false })).unschedule (.timeout s)).setScope s
        (fun x => { x with timer := false })
      else st.setScope s (fun x => { x with active := false })) := by
    split
    · apply SameWalk.setScope_r
      · exact h1.unschedule_r _
      · intro x; rfl
    · exact h1
  split
  · apply SameWalk.setScope_r
    · apply SameWalk.setScope_r
      · exact h2
      · intro x; rfl
    · intro x; rfl
  · apply SameWalk.setScope_r
    · exact h2
    · intro x; rfl

theorem exitUnlink_scope (st : State) (t s : Nat) :
    ((exitUnlink st t s).scopes s).active = false ∧
    ((exitUnlink st t s).scopes s).timer = false := by
  unfold exitUnlink
  dsimp only
  by_cases ht : (st.scopes s).timer = true <;> cases hp : (st.scopes s).parent <;>
    simp [ht, State.setScope, State.setTask, State.unschedule, upd_apply] <;>
    split <;> simp_all

theorem exitUnlink_task (st : State) (t s : Nat) :
    ((exitUnlink st t s).tasks t).scope = (st.scopes s).parent ∧
    ((exitUnlink st t s).tasks t).hasState = (st.tasks t).hasState := by
  unfold exitUnlink
  dsimp only
  by_cases ht : (st.scopes s).timer = true <;> cases hp : (st.scopes s).parent <;>
    simp [ht, State.setScope, State.setTask, State.unschedule, upd_apply]

theorem exitUnlink_queues (st : State) (t s : Nat) :
    (exitUnlink st t s).now = st.now ∧
    (exitUnlink st t s).timers =
      (if (st.scopes s).timer then st.timers.filter (·.2 ≠ .timeout s) else st.timers) ∧
    (exitUnlink st t s).cur =
      (if (st.scopes s).timer then st.cur.filter (· ≠ .timeout s) else st.cur) ∧
    (exitUnlink st t s).ready =
      (if (st.scopes s).timer then st.ready.filter (· ≠ .timeout s) else st.ready) := by
  unfold exitUnlink
  dsimp only
  by_cases ht : (st.scopes s).timer = true <;> cases hp : (st.scopes s).parent <;>
    simp [ht, State.setScope, State.setTask, State.unschedule]
theorem exitMid_frame (st : State) (t s : Nat) : DFrame (exitUnlink st t s) (exitMid st t s) :=
  DFrame.restartInParent _ _

theorem exitMid_sameWalk (st : State) (t s : Nat) : SameWalk st (exitMid st t s) :=
  (exitUnlink_sameWalk st t s).trans (exitMid_frame st t s).sameWalk

/-! ### the decision part of `__exit__` -/

/-- what the decision part of `__exit__` leaves untouched in a scope: everything but
`pending`, `caught` and `host` -/
def Scope.keep (x : Scope) : Scope := { x with pending := 0, caught := false, host := none }

theorem pure_setScope_proj {α : Type} (π : Scope → α) (st : State) (p : Nat) (f : Scope → Scope)
    (hf : ∀ x, π (f x) = π x) (i : Nat) : π ((st.setScope p f).scopes i) = π (st.scopes i) := by
  simp only [State.setScope, upd_apply]; split
  · subst_vars; exact hf _
  · rfl

theorem pure_setScope_same (st : State) (s : Nat) (f : Scope → Scope) :
    (st.setScope s f).scopes s = f (st.scopes s) := by
  simp [State.setScope]

/-- `exitDecide` touches nothing but `pending` of `s` and of its parent, the cancellation counters
of `t`, and `caught` / `host` of `s` -/
structure TailFrame (s : Nat) (m m' : State) : Prop where
  keep : ∀ i, (m'.scopes i).keep = (m.scopes i).keep
  caughtOther : ∀ i, i ≠ s → (m'.scopes i).caught = (m.scopes i).caught
  hostOther : ∀ i, i ≠ s → (m'.scopes i).host = (m.scopes i).host
  now : m'.now = m.now
  timers : m'.timers = m.timers
  cur : m'.cur = m.cur
  ready : m'.ready = m.ready
  running : m'.running = m.running
  taskScope : ∀ u, (m'.tasks u).scope = (m.tasks u).scope

theorem TailFrame.refl (s : Nat) (m : State) : TailFrame s m m :=
  ⟨fun _ => rfl, fun _ _ => rfl, fun _ _ => rfl, rfl, rfl, rfl, rfl, rfl, fun _ => rfl⟩

theorem TailFrame.setScope_any {s : Nat} {m m' : State} (h : TailFrame s m m') (p : Nat)
    (f : Scope → Scope) (hk : ∀ x, (f x).keep = x.keep) (hc : ∀ x, (f x).caught = x.caught)
    (hh : ∀ x, (f x).host = x.host) : TailFrame s m (m'.setScope p f) :=
  ⟨fun i => (pure_setScope_proj Scope.keep _ _ _ hk i).trans (h.keep i),
   fun i hi => (pure_setScope_proj Scope.caught _ _ _ hc i).trans (h.caughtOther i hi),
   fun i hi => (pure_setScope_proj Scope.host _ _ _ hh i).trans (h.hostOther i hi),
   h.now, h.timers, h.cur, h.ready, h.running, h.taskScope⟩

theorem TailFrame.setScope_self {s : Nat} {m m' : State} (h : TailFrame s m m')
    (f : Scope → Scope) (hk : ∀ x, (f x).keep = x.keep) : TailFrame s m (m'.setScope s f) := by
  refine ⟨fun i => (pure_setScope_proj Scope.keep _ _ _ hk i).trans (h.keep i), ?_, ?_,
   h.now, h.timers, h.cur, h.ready, h.running, h.taskScope⟩
  · intro i hi; simp only [State.setScope, upd_other _ _ _ _ hi]; exact h.caughtOther i hi
  · intro i hi; simp only [State.setScope, upd_other _ _ _ _ hi]; exact h.hostOther i hi

theorem TailFrame.setTask_r {s : Nat} {m m' : State} (h : TailFrame s m m') (t : Nat)
    (f : Task → Task) (hf : ∀ x, (f x).scope = x.scope) : TailFrame s m (m'.setTask t f) := by
  refine ⟨h.keep, h.caughtOther, h.hostOther, h.now, h.timers, h.cur, h.ready, h.running, ?_⟩
  intro u
  rw [← h.taskScope u]
  simp only [State.setTask, upd_apply]
  split
  · subst_vars; exact hf _
  · rfl

theorem TailFrame.taskUncancel {s : Nat} {m m' : State} (h : TailFrame s m m') (t n : Nat) :
    TailFrame s m (taskUncancel m' t n) := by
  refine ⟨h.keep, h.caughtOther, h.hostOther, h.now, h.timers, h.cur, h.ready, h.running, ?_⟩
  intro u
  rw [← h.taskScope u]
  simp only [AnyioModel.Kernel.taskUncancel, State.setTask, upd_apply]
  split
  · subst_vars; rfl
  · rfl

/-- the result of `__exit__` as a function of the three things it depends on -/
def exitClass (cc vis : Bool) (ev : ExcVal) : ExitResult :=
  if cc && !vis then
    match ev with
    | .group es =>
      if es.filter (· = .cancelAnyio) = [] then .passed
      else if es.filter (· ≠ .cancelAnyio) = [] then .swallowed
      else .raised (es.filter (· ≠ .cancelAnyio))
    | .one .cancelAnyio => .swallowed
    | _ => .passed
  else .passed

structure TailSpec (m : State) (s : Nat) (r : ExitResult) (m' : State) : Prop where
  frame : TailFrame s m m'
  caught : (m'.scopes s).caught = ((m.scopes s).caught || decide (r ≠ .passed))
  host : (m'.scopes s).host = none

/-- finishing without setting `caught` -/
theorem TailSpec.fin_passed {s : Nat} {m m' : State} (h : TailFrame s m m')
    (hc : (m'.scopes s).caught = (m.scopes s).caught) :
    TailSpec m s .passed (m'.setScope s (fun x => { x with host := none })) :=
  ⟨h.setScope_self _ (by intro _; rfl), by simp [pure_setScope_same, hc], by simp [pure_setScope_same]⟩

/-- finishing after setting `caught` -/
theorem TailSpec.fin_caught {s : Nat} {m m' : State} (h : TailFrame s m m') (r : ExitResult)
    (hr : r ≠ .passed) :
    TailSpec m s r ((m'.setScope s (fun x => { x with caught := true })).setScope s
      (fun x => { x with host := none })) :=
  ⟨(h.setScope_self _ (by intro _; rfl)).setScope_self _ (by intro _; rfl),
    by simp [pure_setScope_same, hr], by simp [pure_setScope_same]⟩

theorem exitDecide_spec (m : State) (t s : Nat) (ev : ExcVal) :
    ∃ m', exitDecide m t s ev =
        some (m', exitClass (m.scopes s).cancelCalled (parentVisible m s) ev) ∧
      TailSpec m s (exitClass (m.scopes s).cancelCalled (parentVisible m s) ev) m' := by
  unfold exitDecide exitClass
  dsimp only
  by_cases hc : (m.scopes s).cancelCalled = true ∧ (!parentVisible m s) = true
  · have hc' : ((m.scopes s).cancelCalled && !parentVisible m s) = true := by simpa using hc
    rw [if_pos hc, if_pos hc']
    have base : TailFrame s m ((taskUncancel m t (m.scopes s).pending).setScope s
        (fun x => { x with pending := 0 })) :=
      ((TailFrame.refl s m).taskUncancel t _).setScope_self _ (by intro _; rfl)
    have bc : (((taskUncancel m t (m.scopes s).pending).setScope s
        (fun x => { x with pending := 0 })).scopes s).caught = (m.scopes s).caught := by
      simp [pure_setScope_same, taskUncancel, State.setTask]
    cases ev with
    | none => exact ⟨_, rfl, TailSpec.fin_passed base bc⟩
    | one e =>
      cases e
      case cancelAnyio => exact ⟨_, rfl, TailSpec.fin_caught base _ (by simp)⟩
      all_goals exact ⟨_, rfl, TailSpec.fin_passed base bc⟩
    | group es =>
      dsimp only
      by_cases h1 : es.filter (· = .cancelAnyio) = []
      · rw [if_pos h1, if_pos h1]; exact ⟨_, rfl, TailSpec.fin_passed base bc⟩
      · rw [if_neg h1, if_neg h1]
        by_cases h2 : es.filter (· ≠ .cancelAnyio) = []
        · rw [if_pos h2, if_pos h2]; exact ⟨_, rfl, TailSpec.fin_caught base _ (by simp)⟩
        · rw [if_neg h2, if_neg h2]; exact ⟨_, rfl, TailSpec.fin_caught base _ (by simp)⟩
  · have hc' : ¬ ((m.scopes s).cancelCalled && !parentVisible m s) = true := by simpa using hc
    rw [if_neg hc, if_neg hc']
    refine ⟨_, rfl, ?_⟩
    apply TailSpec.fin_passed
    · split
      · apply TailFrame.setScope_self
        · split
          · split
            · exact (TailFrame.refl s m).setScope_any _ _ (by intro _; rfl) (by intro _; rfl) (by intro _; rfl)
            · exact (TailFrame.refl s m).setTask_r _ _ (by intro _; rfl)
          · exact (TailFrame.refl s m).setTask_r _ _ (by intro _; rfl)
        · intro x; rfl
      · exact TailFrame.refl s m
    · split
      · rw [pure_setScope_proj Scope.caught _ _ _ (by intro _; rfl)]
        split
        · split
          · rw [pure_setScope_proj Scope.caught _ _ _ (by intro _; rfl)]
          · rfl
        · rfl
      · rfl

/-- `exitScope` = guard, then `exitMid`, then the decision, whose result is `exitClass` of the
pre-state's `cancelCalled` and `parentVisible` -/
theorem exitScope_class {st st' : State} {t s : Nat} {ev : ExcVal} {r : ExitResult}
    (h : exitScope st t s ev = some (st', r)) :
    ¬ exitGuard st t s ∧ r = exitClass (st.scopes s).cancelCalled (parentVisible st s) ev ∧
      TailSpec (exitMid st t s) s r st' := by
  rw [exitScope_split] at h
  split at h
  · exact absurd h (by simp)
  · rename_i hg
    obtain ⟨m', he, hs⟩ := exitDecide_spec (exitMid st t s) t s ev
    rw [he] at h
    have hw := exitMid_sameWalk st t s
    rw [walk_cancelCalled (hw s), parentVisible_congr hw.nav] at h hs
    simp only [Option.some.injEq, Prod.mk.injEq] at h
    obtain ⟨rfl, rfl⟩ := h
    exact ⟨hg, rfl, hs⟩

theorem exitScope_enabled {st : State} {t s : Nat} (ev : ExcVal) (hg : ¬ exitGuard st t s) :
    ∃ st', exitScope st t s ev =
      some (st', exitClass (st.scopes s).cancelCalled (parentVisible st s) ev) := by
  rw [exitScope_split, if_neg hg]
  obtain ⟨m', he, _⟩ := exitDecide_spec (exitMid st t s) t s ev
  have hw := exitMid_sameWalk st t s
  rw [walk_cancelCalled (hw s), parentVisible_congr hw.nav] at he
  exact ⟨m', he⟩

/-! ### `exitClass` against its declarative reading -/

theorem filter_ne_cancel_eq_nil (es : List Exc) :
    es.filter (· ≠ .cancelAnyio) = [] ↔ ∀ e ∈ es, e = .cancelAnyio := by
  simp [List.filter_eq_nil_iff]

theorem filter_eq_cancel_eq_nil (es : List Exc) :
    es.filter (· = .cancelAnyio) = [] ↔ ∀ e ∈ es, e ≠ .cancelAnyio := by
  simp [List.filter_eq_nil_iff]

theorem exitClass_swallowed_iff (cc vis : Bool) (ev : ExcVal) :
    exitClass cc vis ev = .swallowed ↔
      cc = true ∧ vis = false ∧
        (ev = .one .cancelAnyio ∨
          ∃ es, ev = .group es ∧ es ≠ [] ∧ ∀ e ∈ es, e = .cancelAnyio) := by
  unfold exitClass
  by_cases h : (cc && !vis) = true
  · have h' : cc = true ∧ vis = false := by simpa using h
    rw [if_pos h]
    cases ev with
    | none => simp
    | one e => cases e <;> simp [h']
    | group es =>
      simp only [h', true_and, reduceCtorEq, false_or, ExcVal.group.injEq, exists_eq_left']
      by_cases h1 : es.filter (· = .cancelAnyio) = []
      · rw [if_pos h1]
        rw [filter_eq_cancel_eq_nil] at h1
        simp only [reduceCtorEq, false_iff, not_and]
        intro hne hall
        cases es with
        | nil => exact hne rfl
        | cons a l => exact h1 a (by simp) (hall a (by simp))
      · rw [if_neg h1]
        by_cases h2 : es.filter (· ≠ .cancelAnyio) = []
        · rw [if_pos h2]
          rw [filter_ne_cancel_eq_nil] at h2
          simp only [true_iff]
          refine ⟨?_, h2⟩
          rintro rfl; simp at h1
        · rw [if_neg h2]
          rw [filter_ne_cancel_eq_nil] at h2
          simp only [reduceCtorEq, false_iff, not_and]
          intro _ hall; exact h2 hall
  · rw [if_neg h]
    have h' : ¬ (cc = true ∧ vis = false) := by simpa using h
    simp only [reduceCtorEq, false_iff]
    rintro ⟨a, b, _⟩; exact h' ⟨a, b⟩

theorem exitClass_raised_iff (cc vis : Bool) (ev : ExcVal) (rest : List Exc) :
    exitClass cc vis ev = .raised rest ↔
      cc = true ∧ vis = false ∧
        ∃ es, ev = .group es ∧ (∃ e ∈ es, e = .cancelAnyio) ∧
          rest = es.filter (· ≠ .cancelAnyio) ∧ rest ≠ [] := by
  unfold exitClass
  by_cases h : (cc && !vis) = true
  · have h' : cc = true ∧ vis = false := by simpa using h
    rw [if_pos h]
    cases ev with
    | none => simp
    | one e => cases e <;> simp
    | group es =>
      simp only [h', true_and, ExcVal.group.injEq, exists_eq_left']
      by_cases h1 : es.filter (· = .cancelAnyio) = []
      · rw [if_pos h1]
        rw [filter_eq_cancel_eq_nil] at h1
        simp only [reduceCtorEq, false_iff, not_and]
        rintro ⟨e, he, rfl⟩; exact absurd rfl (h1 _ he)
      · rw [if_neg h1]
        have h1' : ∃ e ∈ es, e = Exc.cancelAnyio := by
          rw [filter_eq_cancel_eq_nil] at h1
          simpa using h1
        by_cases h2 : es.filter (· ≠ .cancelAnyio) = []
        · rw [if_pos h2]
          simp only [reduceCtorEq, false_iff, not_and]
          rintro _ rfl; exact fun h => h h2
        · rw [if_neg h2]
          simp only [ExitResult.raised.injEq]
          constructor
          · rintro rfl; exact ⟨h1', rfl, h2⟩
          · rintro ⟨_, rfl, _⟩; rfl
  · rw [if_neg h]
    have h' : ¬ (cc = true ∧ vis = false) := by simpa using h
    simp only [reduceCtorEq, false_iff]
    rintro ⟨a, b, _⟩; exact h' ⟨a, b⟩

theorem exitClass_cases (cc vis : Bool) (ev : ExcVal) :
    exitClass cc vis ev = .swallowed ∨ exitClass cc vis ev = .passed ∨
      ∃ rest, exitClass cc vis ev = .raised rest := by
  cases h : exitClass cc vis ev with
  | swallowed => simp
  | passed => simp
  | raised es => simp

/-- the non-AnyIO-cancellation leaves are never dropped and never reordered -/
theorem exitClass_leaves (cc vis : Bool) (ev : ExcVal) :
    (exitToOut ev (exitClass cc vis ev)).leaves.filter (· ≠ .cancelAnyio) =
      ev.leaves.filter (· ≠ .cancelAnyio) := by
  rcases exitClass_cases cc vis ev with h | h | ⟨rest, h⟩
  · rw [h]
    rcases (exitClass_swallowed_iff cc vis ev).1 h with ⟨_, _, rfl | ⟨es, rfl, _, hall⟩⟩
    · simp [exitToOut, ExcVal.leaves]
    · simp only [exitToOut, ExcVal.leaves]
      exact ((filter_ne_cancel_eq_nil es).2 hall).symm ▸ rfl
  · rw [h]; rfl
  · rw [h]
    obtain ⟨_, _, es, rfl, _, rfl, _⟩ := (exitClass_raised_iff cc vis ev rest).1 h
    simp [exitToOut, ExcVal.leaves]

theorem exitClass_one_ne (cc vis : Bool) {e : Exc} (he : e ≠ .cancelAnyio) :
    exitClass cc vis (.one e) = .passed := by
  unfold exitClass
  cases e <;> simp at he ⊢

theorem exitClass_none (cc vis : Bool) : exitClass cc vis .none = .passed := by
  unfold exitClass; simp

theorem exitClass_passed_iff (cc vis : Bool) (ev : ExcVal) :
    exitClass cc vis ev = .passed ↔ cc = false ∨ vis = true ∨ Exc.cancelAnyio ∉ ev.leaves := by
  unfold exitClass
  by_cases h : (cc && !vis) = true
  · have h' : cc = true ∧ vis = false := by simpa using h
    rw [if_pos h]
    cases ev with
    | none => simp [ExcVal.leaves]
    | one e => cases e <;> simp [ExcVal.leaves, h']
    | group es =>
      simp only [h', ExcVal.leaves, Bool.true_eq_false, Bool.false_eq_true, false_or]
      by_cases h1 : es.filter (· = .cancelAnyio) = []
      · rw [if_pos h1]
        rw [filter_eq_cancel_eq_nil] at h1
        simp only [true_iff]
        intro hm; exact h1 _ hm rfl
      · rw [if_neg h1]
        have : Exc.cancelAnyio ∈ es := by
          rw [filter_eq_cancel_eq_nil] at h1
          simp only [ne_eq, Classical.not_forall, Decidable.not_not] at h1
          obtain ⟨e, he, rfl⟩ := h1; exact he
        split <;> simp [this]
  · rw [if_neg h]
    have h' : cc = false ∨ vis = true := by
      cases cc <;> cases vis <;> simp at h ⊢
    simp only [true_iff]
    rcases h' with h' | h'
    · exact Or.inl h'
    · exact Or.inr (Or.inl h')

/-- no `timeout s` handle anywhere in the loop -/
def NoTimeout (st : State) (s : Nat) : Prop :=
  (∀ d, (d, Handle.timeout s) ∉ st.timers) ∧ Handle.timeout s ∉ st.ready ∧
    Handle.timeout s ∉ st.cur

/-- the loop's queues after `exitScope`: `unschedule` removes *every* `timeout s` handle when
the scope's `timer` flag is set, nothing else is removed, and only `wakeup`/`deliver` handles
are added -/
theorem exitScope_queues {st st' : State} {t s : Nat} {ev : ExcVal} {r : ExitResult}
    (h : exitScope st t s ev = some (st', r)) :
    st'.now = st.now ∧
    st'.timers =
      (if (st.scopes s).timer then st.timers.filter (·.2 ≠ .timeout s) else st.timers) ∧
    st'.cur = (if (st.scopes s).timer then st.cur.filter (· ≠ .timeout s) else st.cur) ∧
    ∃ extra, st'.ready =
        (if (st.scopes s).timer then st.ready.filter (· ≠ .timeout s) else st.ready) ++ extra ∧
      ∀ h ∈ extra, ∀ s', h ≠ Handle.timeout s' := by
  obtain ⟨_, _, hs⟩ := exitScope_class h
  have hf := exitMid_frame st t s
  obtain ⟨q1, q2, q3, q4⟩ := exitUnlink_queues st t s
  refine ⟨hs.frame.now.trans (hf.now.trans q1), hs.frame.timers.trans (hf.timers.trans q2),
    hs.frame.cur.trans (hf.cur.trans q3), ?_⟩
  obtain ⟨extra, he, hn⟩ := hf.ready
  exact ⟨extra, by rw [hs.frame.ready, he, q4], hn⟩

theorem exitScope_noTimeout {st st' : State} {t s : Nat} {ev : ExcVal} {r : ExitResult}
    (h : exitScope st t s ev = some (st', r))
    (hrec : (st.scopes s).timer = false → NoTimeout st s) : NoTimeout st' s := by
  obtain ⟨_, q2, q3, extra, q4, hn⟩ := exitScope_queues h
  cases ht : (st.scopes s).timer with
  | true =>
    simp only [ht, if_true] at q2 q3 q4
    refine ⟨?_, ?_, ?_⟩
    · intro d; rw [q2]; simp
    · rw [q4]; simp only [List.mem_append, List.mem_filter, not_or]
      exact ⟨by simp, fun hm => hn _ hm s rfl⟩
    · rw [q3]; simp
  | false =>
    simp only [ht, Bool.false_eq_true, if_false] at q2 q3 q4
    obtain ⟨a, b, c⟩ := hrec ht
    refine ⟨?_, ?_, ?_⟩
    · rw [q2]; exact a
    · rw [q4]; simp only [List.mem_append, not_or]
      exact ⟨b, fun hm => hn _ hm s rfl⟩
    · rw [q3]; exact c

section
variable {a b : Scope} (h : a.keep = b.keep)
include h
theorem keep_cancelCalled : a.cancelCalled = b.cancelCalled := (congrArg Scope.cancelCalled h :)
theorem keep_shield : a.shield = b.shield := (congrArg Scope.shield h :)
theorem keep_parent : a.parent = b.parent := (congrArg Scope.parent h :)
theorem keep_chain : a.chain = b.chain := (congrArg Scope.chain h :)
theorem keep_deadline : a.deadline = b.deadline := (congrArg Scope.deadline h :)
theorem keep_active : a.active = b.active := (congrArg Scope.active h :)
theorem keep_timer : a.timer = b.timer := (congrArg Scope.timer h :)
theorem keep_byDeadline : a.byDeadline = b.byDeadline := (congrArg Scope.byDeadline h :)
theorem keep_entered : a.entered = b.entered := (congrArg Scope.entered h :)
theorem keep_exists : a.exists_ = b.exists_ := (congrArg Scope.exists_ h :)
theorem keep_nav : a.nav = b.nav := (congrArg Scope.nav h :)
end

theorem TailFrame.sameNav {s : Nat} {m m' : State} (h : TailFrame s m m') : SameNav m m' :=
  fun i => keep_nav (h.keep i)

/-- `exitScope` changes the navigation part of no scope -/
theorem exitScope_sameNav {st st' : State} {t s : Nat} {ev : ExcVal} {r : ExitResult}
    (h : exitScope st t s ev = some (st', r)) : SameNav st st' :=
  (exitMid_sameWalk st t s).nav.trans (exitScope_class h).2.2.frame.sameNav

/-! ### `current_effective_deadline` against a declarative spec -/

/-- the walk of `current_effective_deadline` / `_effectively_cancelled` stops at this scope -/
def stops (st : State) (s : Nat) : Bool := (st.scopes s).cancelCalled || (st.scopes s).shield

/-- index of the first scope of the chain that is cancelled or shielded (`l.length` if none) -/
def stopIdx (st : State) (l : List Nat) : Nat := l.findIdx (stops st)

/-- the scopes the walk visits: the chain up to and including the first cancelled-or-shielded
scope -/
def walked (st : State) (l : List Nat) : List Nat := l.take (stopIdx st l + 1)

/-- the scope the walk stops at exists and is cancelled -/
def cancelledFirst (st : State) (l : List Nat) : Bool :=
  (l[stopIdx st l]?).any (fun s => (st.scopes s).cancelCalled)

def toED : Option Nat → EDeadline
  | none => .inf
  | some d => .at d

/-- declarative reading of `current_effective_deadline()`: −∞ if the first cancelled-or-shielded
scope is a cancelled one, otherwise the least finite deadline among the visited scopes -/
def effDeadlineSpec (st : State) (l : List Nat) : EDeadline :=
  if cancelledFirst st l then .negInf
  else toED ((walked st l).filterMap (fun s => (st.scopes s).deadline)).min?

theorem walked_nil (st : State) : walked st [] = [] := rfl

theorem walked_cons (st : State) (s : Nat) (rest : List Nat) :
    walked st (s :: rest) = if stops st s then [s] else s :: walked st rest := by
  unfold walked stopIdx
  rw [List.findIdx_cons]
  cases stops st s <;> simp

theorem cancelledFirst_nil (st : State) : cancelledFirst st [] = false := rfl

theorem cancelledFirst_cons (st : State) (s : Nat) (rest : List Nat) :
    cancelledFirst st (s :: rest) =
      if stops st s then (st.scopes s).cancelCalled else cancelledFirst st rest := by
  unfold cancelledFirst stopIdx
  rw [List.findIdx_cons]
  cases stops st s <;> simp

theorem cancelledFirst_eq_effCancelledList (st : State) (l : List Nat) :
    cancelledFirst st l = effCancelledList st l := by
  induction l with
  | nil => rfl
  | cons s rest ih =>
    rw [cancelledFirst_cons, effCancelledList, ih, stops]
    cases (st.scopes s).cancelCalled <;> cases (st.scopes s).shield <;> simp

theorem minOpt_none_right (a : Option Nat) : minOpt a none = a := by
  cases a <;> rfl

theorem minOpt_assoc (a b c : Option Nat) : minOpt (minOpt a b) c = minOpt a (minOpt b c) := by
  cases a <;> cases b <;> cases c <;> simp [minOpt, Nat.min_assoc]

theorem min?_filterMap_cons (f : Nat → Option Nat) (a : Nat) (l : List Nat) :
    ((a :: l).filterMap f).min? = minOpt (f a) (l.filterMap f).min? := by
  rw [List.filterMap_cons]
  cases f a with
  | none => rfl
  | some d =>
    simp only [List.min?_cons]
    cases (l.filterMap f).min? <;> simp [minOpt]

theorem effDeadlineList_eq (st : State) (l : List Nat) (acc : Option Nat) :
    effDeadlineList st l acc =
      if cancelledFirst st l then .negInf
      else toED (minOpt acc ((walked st l).filterMap (fun s => (st.scopes s).deadline)).min?) := by
  induction l generalizing acc with
  | nil =>
    simp only [effDeadlineList, cancelledFirst_nil, walked_nil, List.filterMap_nil,
      Bool.false_eq_true, if_false]
    cases acc <;> rfl
  | cons s rest ih =>
    rw [effDeadlineList, cancelledFirst_cons, walked_cons]
    by_cases hc : (st.scopes s).cancelCalled = true
    · simp [hc, stops]
    · by_cases hs : (st.scopes s).shield = true
      · have : stops st s = true := by simp [stops, hs]
        simp only [hc, hs, this, if_true, if_false, Bool.false_eq_true]
        rw [min?_filterMap_cons]
        simp only [List.filterMap_nil, List.min?_nil, minOpt_none_right]
        cases minOpt acc (st.scopes s).deadline <;> rfl
      · have : stops st s = false := by
          simp only [stops]; cases h1 : (st.scopes s).cancelCalled <;>
            cases h2 : (st.scopes s).shield <;> simp_all
        simp only [hc, hs, this, Bool.false_eq_true, if_false]
        rw [ih, min?_filterMap_cons, minOpt_assoc]

/-- `current_effective_deadline()` along a chain equals the declarative spec -/
theorem effDeadlineList_spec (st : State) (l : List Nat) :
    effDeadlineList st l none = effDeadlineSpec st l := by
  rw [effDeadlineList_eq]; rfl

/-- which scopes the walk visits, declaratively: those before which nobody is cancelled or
shielded -/
theorem mem_walked_iff (st : State) (l : List Nat) (s : Nat) :
    s ∈ walked st l ↔
      ∃ i, ∃ h : i < l.length, l[i] = s ∧
        ∀ j (hj : j < i), stops st (l[j]'(Nat.lt_trans hj h)) = false := by
  induction l with
  | nil => simp [walked_nil]
  | cons a rest ih =>
    rw [walked_cons]
    by_cases hst : stops st a = true
    · simp only [hst, if_true, List.mem_singleton]
      constructor
      · rintro rfl; exact ⟨0, by simp, rfl, by intro j hj; omega⟩
      · rintro ⟨i, h, hi, hb⟩
        cases i with
        | zero => simpa using hi.symm
        | succ i => have := hb 0 (by omega); simp [hst] at this
    · have hst' : stops st a = false := by simpa using hst
      simp only [hst', Bool.false_eq_true, if_false, List.mem_cons, ih]
      constructor
      · rintro (rfl | ⟨i, h, hi, hb⟩)
        · exact ⟨0, by simp, rfl, by intro j hj; omega⟩
        · refine ⟨i + 1, by simpa using h, by simpa using hi, ?_⟩
          intro j hj
          cases j with
          | zero => simpa using hst'
          | succ j => simpa using hb j (by omega)
      · rintro ⟨i, h, hi, hb⟩
        cases i with
        | zero => left; simpa using hi.symm
        | succ i =>
          right
          refine ⟨i, by simpa using h, by simpa using hi, ?_⟩
          intro j hj
          simpa using hb (j + 1) (by omega)

theorem toED_eq_at (o : Option Nat) (d : Nat) : toED o = .at d ↔ o = some d := by
  cases o <;> simp [toED]

theorem toED_eq_inf (o : Option Nat) : toED o = .inf ↔ o = none := by
  cases o <;> simp [toED]

theorem toED_ne_negInf (o : Option Nat) : toED o ≠ .negInf := by
  cases o <;> simp [toED]

/-! ### `cancel()`, `_timeout()`, `deadline = ...` -/

/-- `handle.cancel()` of the timeout handle, if there is one -/
def disarm (st : State) (s : Nat) : State :=
  if (st.scopes s).timer then
    (st.unschedule (.timeout s)).setScope s (fun x => { x with timer := false })
  else st

/-- `cancel()` up to the call of `_deliver_cancellation` -/
def cancelMark (st : State) (s : Nat) (byDeadline : Bool) : State :=
  (disarm st s).setScope s (fun x =>
    { x with cancelCalled := true, byDeadline := byDeadline, cancelTime := (disarm st s).now })

theorem cancelScope_split (st : State) (s : Nat) (bd : Bool) :
    cancelScope st s bd =
      if (st.scopes s).cancelCalled then st
      else if ((cancelMark st s bd).scopes s).host.isSome then deliver (cancelMark st s bd) s
      else cancelMark st s bd := by
  unfold cancelScope cancelMark disarm
  split
  · rfl
  · rfl

theorem disarm_scopes (st : State) (s : Nat) :
    (disarm st s).scopes = upd st.scopes s { st.scopes s with timer := false } := by
  unfold disarm
  split
  · simp [State.setScope, State.unschedule]
  · rename_i h
    funext i
    simp only [upd_apply]
    split
    · subst_vars
      have h' : (st.scopes i).timer = false := by simpa using h
      cases hx : st.scopes i
      rw [hx] at h'
      simp only at h'
      subst h'
      rfl
    · rfl

theorem disarm_now (st : State) (s : Nat) : (disarm st s).now = st.now := by
  unfold disarm; split <;> rfl

theorem disarm_timers (st : State) (s : Nat) :
    (disarm st s).timers =
      if (st.scopes s).timer then st.timers.filter (·.2 ≠ .timeout s) else st.timers := by
  unfold disarm; split <;> simp [State.setScope, State.unschedule]

/-- if the flag records every timer of `s`, disarming removes them all either way -/
theorem disarm_timers_of_rec (st : State) (s : Nat)
    (hrec : (st.scopes s).timer = false → ∀ w, (w, Handle.timeout s) ∉ st.timers) :
    (disarm st s).timers = st.timers.filter (·.2 ≠ .timeout s) := by
  rw [disarm_timers]
  split
  · rfl
  · rename_i h
    have := hrec (by simpa using h)
    symm
    rw [List.filter_eq_self]
    intro p hp
    obtain ⟨w, x⟩ := p
    simp only [ne_eq, decide_not, Bool.not_eq_eq_eq_not, Bool.not_true, decide_eq_false_iff_not]
    rintro rfl
    exact this w hp

theorem cancelMark_scopes (st : State) (s : Nat) (bd : Bool) :
    (cancelMark st s bd).scopes = upd st.scopes s
      { st.scopes s with timer := false, cancelCalled := true, byDeadline := bd,
                         cancelTime := st.now } := by
  unfold cancelMark
  funext i
  simp only [State.setScope, disarm_scopes, disarm_now, upd_apply]
  split <;> simp

/-- what `cancel()` does to a scope that was not cancelled yet, up to the bookkeeping fields -/
theorem cancelScope_fresh (st : State) (s : Nat) (bd : Bool)
    (hc : (st.scopes s).cancelCalled = false) :
    ((cancelScope st s bd).scopes s).ctl =
      { (st.scopes s).ctl with timer := false, cancelCalled := true, byDeadline := bd,
                               cancelTime := st.now } ∧
    (∀ i, i ≠ s → ((cancelScope st s bd).scopes i).ctl = (st.scopes i).ctl) ∧
    (cancelScope st s bd).now = st.now ∧
    (cancelScope st s bd).timers =
      (if (st.scopes s).timer then st.timers.filter (·.2 ≠ .timeout s) else st.timers) ∧
    (∀ t, ((cancelScope st s bd).tasks t).scope = (st.tasks t).scope) := by
  have hm : ((cancelMark st s bd).scopes s).ctl =
      { (st.scopes s).ctl with timer := false, cancelCalled := true, byDeadline := bd,
                               cancelTime := st.now } := by
    rw [cancelMark_scopes]; simp only [upd_same]; rfl
  have ho : ∀ i, i ≠ s → ((cancelMark st s bd).scopes i).ctl = (st.scopes i).ctl := by
    intro i hi; rw [cancelMark_scopes, upd_other _ _ _ _ hi]
  have hn : (cancelMark st s bd).now = st.now := by
    simp [cancelMark, State.setScope, disarm_now]
  have ht : (cancelMark st s bd).timers =
      (if (st.scopes s).timer then st.timers.filter (·.2 ≠ .timeout s) else st.timers) := by
    simp only [cancelMark, State.setScope, disarm_timers]
  have hk : ∀ t, ((cancelMark st s bd).tasks t).scope = (st.tasks t).scope := by
    intro t; unfold cancelMark disarm; split <;> rfl
  rw [cancelScope_split, if_neg (by simp [hc])]
  split
  · have hf := DFrame.deliver (cancelMark st s bd) s
    exact ⟨(hf.scopes s).trans hm, fun i hi => (hf.scopes i).trans (ho i hi), hf.now.trans hn,
      hf.timers.trans ht, fun t => (hf.taskScope t).trans (hk t)⟩
  · exact ⟨hm, ho, hn, ht, hk⟩

theorem cancelScope_already (st : State) (s : Nat) (bd : Bool)
    (hc : (st.scopes s).cancelCalled = true) : cancelScope st s bd = st := by
  rw [cancelScope_split, if_pos hc]

theorem armTimeout_none (st : State) (s : Nat) (h : (st.scopes s).deadline = none) :
    armTimeout st s = st := by
  simp [armTimeout, h]

theorem armTimeout_due (st : State) (s d : Nat) (h : (st.scopes s).deadline = some d)
    (hd : d ≤ st.now) : armTimeout st s = cancelScope st s true := by
  simp [armTimeout, h, hd]

theorem armTimeout_early (st : State) (s d : Nat) (h : (st.scopes s).deadline = some d)
    (hd : st.now < d) :
    armTimeout st s =
      { st.setScope s (fun x => { x with timer := true }) with
        timers := st.timers ++ [(d, .timeout s)] } := by
  have : ¬ st.now ≥ d := by omega
  simp [armTimeout, h, this]

theorem setDeadline_split (st : State) (s : Nat) (d : Option Nat) :
    setDeadline st s d =
      if (st.scopes s).active = true ∧ (st.scopes s).cancelCalled = false then
        armTimeout (disarm (st.setScope s (fun x => { x with deadline := d })) s) s
      else disarm (st.setScope s (fun x => { x with deadline := d })) s := by
  have h1 : ((disarm (st.setScope s (fun x => { x with deadline := d })) s).scopes s).active =
      (st.scopes s).active := by
    rw [disarm_scopes]; simp [State.setScope]
  have h2 : ((disarm (st.setScope s (fun x => { x with deadline := d })) s).scopes s).cancelCalled =
      (st.scopes s).cancelCalled := by
    rw [disarm_scopes]; simp [State.setScope]
  unfold setDeadline
  show (if ((disarm (st.setScope s (fun x => { x with deadline := d })) s).scopes s).active = true ∧
      (!((disarm (st.setScope s (fun x => { x with deadline := d })) s).scopes s).cancelCalled) = true
      then armTimeout (disarm (st.setScope s (fun x => { x with deadline := d })) s) s
      else disarm (st.setScope s (fun x => { x with deadline := d })) s) = _
  rw [h1, h2]
  simp


/-- the state `deadline = d` produces before re-arming -/
def deadlineMid (st : State) (s : Nat) (d : Option Nat) : State :=
  disarm (st.setScope s (fun x => { x with deadline := d })) s

theorem deadlineMid_scopes (st : State) (s : Nat) (d : Option Nat) :
    (deadlineMid st s d).scopes =
      upd st.scopes s { st.scopes s with deadline := d, timer := false } := by
  unfold deadlineMid
  rw [disarm_scopes]
  funext i
  simp only [State.setScope, upd_apply]
  split <;> simp

theorem deadlineMid_now (st : State) (s : Nat) (d : Option Nat) :
    (deadlineMid st s d).now = st.now := by
  unfold deadlineMid; rw [disarm_now]; rfl

theorem deadlineMid_timers (st : State) (s : Nat) (d : Option Nat) :
    (deadlineMid st s d).timers =
      if (st.scopes s).timer then st.timers.filter (·.2 ≠ .timeout s) else st.timers := by
  unfold deadlineMid; rw [disarm_timers]; simp [State.setScope]

theorem deadlineMid_timers_of_rec (st : State) (s : Nat) (d : Option Nat)
    (hrec : (st.scopes s).timer = false → ∀ w, (w, Handle.timeout s) ∉ st.timers) :
    (deadlineMid st s d).timers = st.timers.filter (·.2 ≠ .timeout s) := by
  unfold deadlineMid
  rw [disarm_timers_of_rec]
  · rfl
  · simpa [State.setScope] using hrec

theorem deadlineMid_tasks (st : State) (s : Nat) (d : Option Nat) :
    (deadlineMid st s d).tasks = st.tasks := by
  unfold deadlineMid disarm; split <;> rfl

theorem setDeadline_split' (st : State) (s : Nat) (d : Option Nat) :
    setDeadline st s d =
      if (st.scopes s).active = true ∧ (st.scopes s).cancelCalled = false then
        armTimeout (deadlineMid st s d) s
      else deadlineMid st s d := setDeadline_split st s d

/-! ### the `timeout s` callback, `_timeout()` as a whole -/

/-- the state in which `_timeout()` runs: the handle has been popped and is no longer live -/
def runMid (st : State) (s : Nat) : State :=
  ({ st with cur := st.cur.erase (.timeout s) }).setScope s (fun x => { x with timer := false })

theorem step_run_timeout (st : State) (s : Nat) :
    step st (.run (.timeout s)) =
      if st.running.isSome ∨ Handle.timeout s ∉ st.cur then none
      else some (armTimeout (runMid st s) s, .none) := by
  simp only [step, runMid]

theorem runMid_scopes (st : State) (s : Nat) :
    (runMid st s).scopes = upd st.scopes s { st.scopes s with timer := false } := rfl

/-- everything `_timeout()` (= `armTimeout`) does, for any state -/
theorem armTimeout_cases (st : State) (s : Nat) :
    (armTimeout st s).now = st.now ∧
    (∀ i, i ≠ s → ((armTimeout st s).scopes i).ctl = (st.scopes i).ctl) ∧
    (∀ t, ((armTimeout st s).tasks t).scope = (st.tasks t).scope) ∧
    (match (st.scopes s).deadline with
     | none => armTimeout st s = st
     | some d =>
       if st.now < d then
         ((armTimeout st s).scopes s).ctl = { (st.scopes s).ctl with timer := true } ∧
         (armTimeout st s).timers = st.timers ++ [(d, .timeout s)]
       else if (st.scopes s).cancelCalled then armTimeout st s = st
       else
         ((armTimeout st s).scopes s).ctl =
           { (st.scopes s).ctl with timer := false, cancelCalled := true, byDeadline := true,
                                    cancelTime := st.now } ∧
         (armTimeout st s).timers =
           (if (st.scopes s).timer then st.timers.filter (·.2 ≠ .timeout s) else st.timers)) := by
  cases hd : (st.scopes s).deadline with
  | none =>
    rw [armTimeout_none st s hd]
    exact ⟨rfl, fun _ _ => rfl, fun _ => rfl, rfl⟩
  | some d =>
    by_cases hlt : st.now < d
    · rw [armTimeout_early st s d hd hlt]
      refine ⟨rfl, ?_, fun _ => rfl, ?_⟩
      · intro i hi; simp [State.setScope, upd_other _ _ _ _ hi]
      · show (if st.now < d then _ else _)
        rw [if_pos hlt]
        refine ⟨?_, rfl⟩
        simp only [State.setScope, upd_same]; rfl
    · rw [armTimeout_due st s d hd (by omega)]
      cases hc : (st.scopes s).cancelCalled with
      | true =>
        rw [cancelScope_already st s true hc]
        refine ⟨rfl, fun _ _ => rfl, fun _ => rfl, ?_⟩
        simp [hlt]
      | false =>
        obtain ⟨h1, h2, h3, h4, h5⟩ := cancelScope_fresh st s true hc
        refine ⟨h3, h2, h5, ?_⟩
        simp only [hlt, if_false, Bool.false_eq_true]
        exact ⟨h1, h4⟩

/-! ### `__enter__`: linking, then `_timeout()`, then activation -/

/-- `__enter__` up to (not including) the call of `_timeout()` -/
def enterLink (st : State) (t s : Nat) : State :=
  let tk := st.tasks t
  let st := st.setScope s (fun x => { x with host := some t, tasks := t :: x.tasks })
  if !tk.hasState then
    (st.setTask t (fun x => { x with hasState := true, scope := some s })).setScope s
      (fun x => { x with chain := [s] })
  else
    let pchain : List Nat := match tk.scope with
      | some p => (st.scopes p).chain
      | none => []
    let st := st.setScope s (fun x => { x with parent := tk.scope, chain := s :: pchain })
    let st := st.setTask t (fun x => { x with scope := some s })
    match tk.scope with
    | some p =>
      st.setScope p (fun x => { x with children := s :: x.children, tasks := x.tasks.erase t })
    | none => st

theorem enterScope_split (st : State) (t s : Nat) :
    enterScope st t s =
      if (st.scopes s).active ∨ (st.scopes s).entered then none else
      let st3 := armTimeout (enterLink st t s) s
      let st4 := st3.setScope s (fun x => { x with active := true, entered := true })
      some (if (st4.scopes s).cancelCalled then deliver st4 s else st4) := rfl

/-- what linking leaves untouched in a scope -/
def Scope.unlinked (x : Scope) : Scope :=
  { x with host := none, tasks := [], children := [], parent := none, chain := [] }

theorem pure_setTask_scopes (st : State) (t : Nat) (f : Task → Task) :
    (st.setTask t f).scopes = st.scopes := rfl

theorem enterLink_unlinked (st : State) (t s : Nat) (i : Nat) :
    ((enterLink st t s).scopes i).unlinked = (st.scopes i).unlinked := by
  unfold enterLink
  dsimp only
  split
  · repeat (first | rw [pure_setTask_scopes] | rw [pure_setScope_proj Scope.unlinked _ _ _ (by intro _; rfl)])
  · split <;>
    repeat (first | rw [pure_setTask_scopes] | rw [pure_setScope_proj Scope.unlinked _ _ _ (by intro _; rfl)])

theorem enterLink_queues (st : State) (t s : Nat) :
    (enterLink st t s).now = st.now ∧ (enterLink st t s).timers = st.timers := by
  unfold enterLink
  dsimp only
  split
  · exact ⟨rfl, rfl⟩
  · split <;> exact ⟨rfl, rfl⟩


section
variable {a b : Scope} (h : a.unlinked = b.unlinked)
include h
theorem unlinked_cancelCalled : a.cancelCalled = b.cancelCalled := (congrArg Scope.cancelCalled h :)
theorem unlinked_deadline : a.deadline = b.deadline := (congrArg Scope.deadline h :)
theorem unlinked_byDeadline : a.byDeadline = b.byDeadline := (congrArg Scope.byDeadline h :)
theorem unlinked_cancelTime : a.cancelTime = b.cancelTime := (congrArg Scope.cancelTime h :)
theorem unlinked_timer : a.timer = b.timer := (congrArg Scope.timer h :)
theorem unlinked_shield : a.shield = b.shield := (congrArg Scope.shield h :)
theorem unlinked_active : a.active = b.active := (congrArg Scope.active h :)
theorem unlinked_caught : a.caught = b.caught := (congrArg Scope.caught h :)
end

/-- `__enter__` after its call of `_timeout()`: activation and the first delivery change nothing
that `_timeout()` decided -/
theorem enterScope_after_arm {st st' : State} {t s : Nat} (h : enterScope st t s = some st') :
    (st.scopes s).active = false ∧ (st.scopes s).entered = false ∧
    (st'.scopes s).active = true ∧
    (st'.scopes s).cancelCalled = ((armTimeout (enterLink st t s) s).scopes s).cancelCalled ∧
    (st'.scopes s).byDeadline = ((armTimeout (enterLink st t s) s).scopes s).byDeadline ∧
    (st'.scopes s).cancelTime = ((armTimeout (enterLink st t s) s).scopes s).cancelTime ∧
    (st'.scopes s).timer = ((armTimeout (enterLink st t s) s).scopes s).timer ∧
    (∀ i, i ≠ s → (st'.scopes i).ctl = ((armTimeout (enterLink st t s) s).scopes i).ctl) ∧
    st'.timers = (armTimeout (enterLink st t s) s).timers ∧
    st'.now = (armTimeout (enterLink st t s) s).now := by
  rw [enterScope_split] at h
  split at h
  · cases h
  · rename_i hg
    have hg' : (st.scopes s).active = false ∧ (st.scopes s).entered = false := by
      cases h1 : (st.scopes s).active <;> cases h2 : (st.scopes s).entered <;> simp_all
    simp only [Option.some.injEq] at h
    have key : ∀ m : State, DFrame ((armTimeout (enterLink st t s) s).setScope s
        (fun x => { x with active := true, entered := true })) m →
        (m.scopes s).active = true ∧
        (m.scopes s).cancelCalled = ((armTimeout (enterLink st t s) s).scopes s).cancelCalled ∧
        (m.scopes s).byDeadline = ((armTimeout (enterLink st t s) s).scopes s).byDeadline ∧
        (m.scopes s).cancelTime = ((armTimeout (enterLink st t s) s).scopes s).cancelTime ∧
        (m.scopes s).timer = ((armTimeout (enterLink st t s) s).scopes s).timer ∧
        (∀ i, i ≠ s → (m.scopes i).ctl = ((armTimeout (enterLink st t s) s).scopes i).ctl) ∧
        m.timers = (armTimeout (enterLink st t s) s).timers ∧
        m.now = (armTimeout (enterLink st t s) s).now := by
      intro m hf
      have hs := hf.scopes s
      rw [pure_setScope_same] at hs
      refine ⟨(ctl_active hs :), (ctl_cancelCalled hs :), (ctl_byDeadline hs :),
        (ctl_cancelTime hs :), (ctl_timer hs :), ?_, hf.timers, hf.now⟩
      intro i hi
      have := hf.scopes i
      simp only [State.setScope, upd_other _ _ _ _ hi] at this
      exact this
    refine ⟨hg'.1, hg'.2, ?_⟩
    split at h
    · subst h; exact key _ (DFrame.deliver _ _)
    · subst h; exact key _ (DFrame.refl _)

/-! ### scope-tree links after `__exit__` (for C05) -/

theorem exitUnlink_links (st : State) (t s : Nat) :
    (∀ p, (st.scopes s).parent = some p → p ≠ s →
      ((exitUnlink st t s).scopes p).children = (st.scopes p).children.erase s ∧
      ((exitUnlink st t s).scopes p).tasks = t :: (st.scopes p).tasks) ∧
    ((st.scopes s).parent ≠ some s →
      ((exitUnlink st t s).scopes s).tasks = (st.scopes s).tasks.erase t ∧
      ((exitUnlink st t s).scopes s).children = (st.scopes s).children) ∧
    (∀ i, i ≠ s → (st.scopes s).parent ≠ some i →
      ((exitUnlink st t s).scopes i).tasks = (st.scopes i).tasks ∧
      ((exitUnlink st t s).scopes i).children = (st.scopes i).children) := by
  unfold exitUnlink
  dsimp only
  refine ⟨?_, ?_, ?_⟩
  · intro p hp hne
    rw [hp]
    by_cases ht : (st.scopes s).timer = true <;>
      simp [ht, State.setScope, State.setTask, State.unschedule, hne]
  · intro hne
    cases hp : (st.scopes s).parent with
    | none =>
      by_cases ht : (st.scopes s).timer = true <;>
        simp [ht, State.setScope, State.setTask, State.unschedule]
    | some p =>
      have : s ≠ p := by rintro rfl; exact hne hp
      by_cases ht : (st.scopes s).timer = true <;>
        simp [ht, State.setScope, State.setTask, State.unschedule, this]
  · intro i hi hne
    cases hp : (st.scopes s).parent with
    | none =>
      by_cases ht : (st.scopes s).timer = true <;>
        simp [ht, State.setScope, State.setTask, State.unschedule, hi]
    | some p =>
      have : i ≠ p := by rintro rfl; exact hne hp
      by_cases ht : (st.scopes s).timer = true <;>
        simp [ht, State.setScope, State.setTask, State.unschedule, hi, this]

/-- `tasks` and `children` of every scope after `exitScope` are those `exitUnlink` produced -/
theorem exitScope_links {st st' : State} {t s : Nat} {ev : ExcVal} {r : ExitResult}
    (h : exitScope st t s ev = some (st', r)) (i : Nat) :
    (st'.scopes i).tasks = ((exitUnlink st t s).scopes i).tasks ∧
    (st'.scopes i).children = ((exitUnlink st t s).scopes i).children := by
  obtain ⟨_, _, hs⟩ := exitScope_class h
  have hf := exitMid_frame st t s
  have hk := hs.frame.keep i
  have h1 : (st'.scopes i).tasks = ((exitMid st t s).scopes i).tasks := (congrArg Scope.tasks hk :)
  have h2 : (st'.scopes i).children = ((exitMid st t s).scopes i).children :=
    (congrArg Scope.children hk :)
  exact ⟨h1.trans (ctl_tasks (hf.scopes i)), h2.trans (ctl_children (hf.scopes i))⟩

end AnyioModel.Kernel
