/-
Helper lemmas for the pure-function theorems of C04 (containment) and C06 (deadlines).

Everything here is about the model's functions for *all* states and arguments; no reachability.

* `Frame`: what `resolveFut`, `taskCancel`, `hitTask`, `deliverGo`, `deliver`, `restartList`,
  `restartInParent` leave untouched: every field of every scope except the bookkeeping fields
  `pending` and `deliver`, the clock, the timers, the current batch, the `scope`/`hasState`
  fields of every task; `ready` only grows, and never by a `timeout` handle.
* the walk functions (`effCancelledList`, `effCancelled`, `parentVisible`, `effDeadlineList`)
  depend only on framed fields.
* `exitScope` is split into `exitMid` (unlinking + `_restart_cancellation_in_parent`) and
  `exitTail` (the absorb-or-propagate decision); `exitScope_eq` holds by `rfl`.
-/
import AnyioModel.Kernel.Step

namespace AnyioModel.Kernel

/-! ### the control part of a scope -/

/-- a scope with the two bookkeeping fields that cancellation delivery writes erased -/
def Scope.ctl (x : Scope) : Scope := { x with pending := 0, deliver := false }

@[simp] theorem Scope.ctl_pending (x : Scope) (f : Nat) :
    ({ x with pending := f } : Scope).ctl = x.ctl := rfl

@[simp] theorem Scope.ctl_deliver (x : Scope) (b : Bool) :
    ({ x with deliver := b } : Scope).ctl = x.ctl := rfl

/-- what cancellation delivery leaves untouched -/
structure Frame (st st' : State) : Prop where
  scopes : ∀ i, (st'.scopes i).ctl = (st.scopes i).ctl
  now : st'.now = st.now
  timers : st'.timers = st.timers
  cur : st'.cur = st.cur
  running : st'.running = st.running
  nScopes : st'.nScopes = st.nScopes
  ready : ∃ extra, st'.ready = st.ready ++ extra ∧ ∀ h ∈ extra, ∀ s, h ≠ Handle.timeout s
  taskScope : ∀ t, (st'.tasks t).scope = (st.tasks t).scope
  taskHasState : ∀ t, (st'.tasks t).hasState = (st.tasks t).hasState

theorem Frame.refl (st : State) : Frame st st :=
  ⟨fun _ => rfl, rfl, rfl, rfl, rfl, rfl, ⟨[], by simp⟩, fun _ => rfl, fun _ => rfl⟩

theorem Frame.trans {a b c : State} (h1 : Frame a b) (h2 : Frame b c) : Frame a c := by
  obtain ⟨e1, he1, hn1⟩ := h1.ready
  obtain ⟨e2, he2, hn2⟩ := h2.ready
  refine ⟨fun i => (h2.scopes i).trans (h1.scopes i), h2.now.trans h1.now,
    h2.timers.trans h1.timers, h2.cur.trans h1.cur, h2.running.trans h1.running,
    h2.nScopes.trans h1.nScopes, ⟨e1 ++ e2, by simp [he2, he1], ?_⟩,
    fun t => (h2.taskScope t).trans (h1.taskScope t),
    fun t => (h2.taskHasState t).trans (h1.taskHasState t)⟩
  intro h hm s
  rcases List.mem_append.1 hm with hm | hm
  · exact hn1 h hm s
  · exact hn2 h hm s

/-! field projections out of a `ctl` equation -/
section
variable {a b : Scope} (h : a.ctl = b.ctl)
include h
theorem ctl_cancelCalled : a.cancelCalled = b.cancelCalled := (congrArg Scope.cancelCalled h :)
theorem ctl_shield : a.shield = b.shield := (congrArg Scope.shield h :)
theorem ctl_parent : a.parent = b.parent := (congrArg Scope.parent h :)
theorem ctl_chain : a.chain = b.chain := (congrArg Scope.chain h :)
theorem ctl_deadline : a.deadline = b.deadline := (congrArg Scope.deadline h :)
theorem ctl_caught : a.caught = b.caught := (congrArg Scope.caught h :)
theorem ctl_active : a.active = b.active := (congrArg Scope.active h :)
theorem ctl_host : a.host = b.host := (congrArg Scope.host h :)
theorem ctl_timer : a.timer = b.timer := (congrArg Scope.timer h :)
theorem ctl_byDeadline : a.byDeadline = b.byDeadline := (congrArg Scope.byDeadline h :)
theorem ctl_cancelTime : a.cancelTime = b.cancelTime := (congrArg Scope.cancelTime h :)
theorem ctl_entered : a.entered = b.entered := (congrArg Scope.entered h :)
theorem ctl_exists : a.exists_ = b.exists_ := (congrArg Scope.exists_ h :)
theorem ctl_tasks : a.tasks = b.tasks := (congrArg Scope.tasks h :)
theorem ctl_children : a.children = b.children := (congrArg Scope.children h :)
end

/-! ### frames of the primitive updates -/

theorem Frame.setTask_st (st : State) (t : Nat) (f : Task → Task)
    (h1 : ∀ x, (f x).scope = x.scope) (h2 : ∀ x, (f x).hasState = x.hasState) :
    Frame st (st.setTask t f) := by
  refine ⟨fun _ => rfl, rfl, rfl, rfl, rfl, rfl, ⟨[], by simp [State.setTask]⟩, ?_, ?_⟩
  · intro u; simp only [State.setTask, upd_apply]; split
    · subst_vars; exact h1 _
    · rfl
  · intro u; simp only [State.setTask, upd_apply]; split
    · subst_vars; exact h2 _
    · rfl

theorem Frame.setFut (st : State) (f : Nat) (v : FutSt) : Frame st (st.setFut f v) :=
  ⟨fun _ => rfl, rfl, rfl, rfl, rfl, rfl, ⟨[], by simp [State.setFut]⟩, fun _ => rfl, fun _ => rfl⟩

theorem Frame.schedule (st : State) (h : Handle) (hh : ∀ s, h ≠ .timeout s) :
    Frame st (st.schedule h) :=
  ⟨fun _ => rfl, rfl, rfl, rfl, rfl, rfl, ⟨[h], by simp [State.schedule], by simpa using hh⟩,
    fun _ => rfl, fun _ => rfl⟩

theorem Frame.setScope_ctl (st : State) (s : Nat) (f : Scope → Scope)
    (h : ∀ x, (f x).ctl = x.ctl) : Frame st (st.setScope s f) := by
  refine ⟨?_, rfl, rfl, rfl, rfl, rfl, ⟨[], by simp [State.setScope]⟩, fun _ => rfl, fun _ => rfl⟩
  intro i; simp only [State.setScope, upd_apply]; split
  · subst_vars; exact h _
  · rfl

theorem Frame.resolveFut (st : State) (f : Nat) (v : FutSt) : Frame st (resolveFut st f v) := by
  unfold AnyioModel.Kernel.resolveFut
  split
  · exact Frame.refl _
  · have h1 := Frame.setFut st f v
    dsimp only
    split
    · split
      · refine h1.trans ?_
        refine Frame.trans ?_ (Frame.schedule _ _ (by intro s; simp))
        exact Frame.setTask_st _ _ _ (fun _ => rfl) (fun _ => rfl)
      · exact h1
    · exact h1

theorem Frame.taskCancel (st : State) (t : Nat) (a : Bool) : Frame st (taskCancel st t a) := by
  unfold AnyioModel.Kernel.taskCancel
  dsimp only
  split
  · exact Frame.refl _
  · have h1 : Frame st (st.setTask t (fun x =>
        { x with ncancel := x.ncancel + 1,
                 nNative := if a then x.nNative else x.nNative + 1,
                 nAnyio := if a then x.nAnyio + 1 else x.nAnyio })) :=
      Frame.setTask_st _ _ _ (fun _ => rfl) (fun _ => rfl)
    split
    · exact h1.trans (Frame.resolveFut _ _ _)
    · exact h1.trans (Frame.setTask_st _ _ _ (fun _ => rfl) (fun _ => rfl))

theorem Frame.taskUncancel (st : State) (t n : Nat) : Frame st (taskUncancel st t n) :=
  Frame.setTask_st _ _ _ (fun _ => rfl) (fun _ => rfl)

theorem Frame.hitTask (origin s : Nat) (acc : State × Bool) (t : Nat) :
    Frame acc.1 (hitTask origin s acc t).1 := by
  unfold AnyioModel.Kernel.hitTask
  dsimp only
  split
  · exact Frame.refl _
  · split
    · exact Frame.refl _
    · split
      · split
        · exact Frame.refl _
        · dsimp only
          split
          · exact (Frame.taskCancel _ _ _).trans
              (Frame.setScope_ctl _ _ _ (fun _ => rfl))
          · exact Frame.taskCancel _ _ _
      · exact Frame.refl _

theorem Frame.foldl {α : Type} (f : State × Bool → α → State × Bool)
    (hf : ∀ acc a, Frame acc.1 (f acc a).1) (l : List α) (acc : State × Bool) :
    Frame acc.1 (l.foldl f acc).1 := by
  induction l generalizing acc with
  | nil => exact Frame.refl _
  | cons a l ih => exact (hf acc a).trans (ih _)

theorem Frame.deliverGo (fuel : Nat) (st : State) (origin s : Nat) :
    Frame st (deliverGo fuel st origin s).1 := by
  induction fuel generalizing st s with
  | zero => exact Frame.refl _
  | succ n ih =>
    unfold AnyioModel.Kernel.deliverGo
    dsimp only
    refine Frame.trans (Frame.foldl _ (Frame.hitTask origin s) (st.scopes s).tasks (st, false)) ?_
    refine Frame.foldl _ ?_ _ _
    intro acc c
    split
    · exact ih _ _
    · exact Frame.refl _

theorem Frame.deliver (st : State) (origin : Nat) : Frame st (deliver st origin) := by
  unfold AnyioModel.Kernel.deliver
  dsimp only
  have h := Frame.deliverGo (st.nScopes + 1) st origin origin
  split
  · refine h.trans ?_
    refine Frame.trans ?_ (Frame.schedule _ _ (by intro s; simp))
    exact Frame.setScope_ctl _ _ _ (fun _ => rfl)
  · exact h.trans (Frame.setScope_ctl _ _ _ (fun _ => rfl))

theorem Frame.restartList (st : State) (l : List Nat) : Frame st (restartList st l) := by
  induction l with
  | nil => exact Frame.refl _
  | cons s rest ih =>
    unfold AnyioModel.Kernel.restartList
    split
    · split
      · exact Frame.refl _
      · exact Frame.deliver _ _
    · split
      · exact Frame.refl _
      · exact ih

theorem Frame.restartInParent (st : State) (s : Nat) : Frame st (restartInParent st s) :=
  Frame.restartList _ _

end AnyioModel.Kernel

namespace AnyioModel.Kernel

/-! ### the walk part of a scope: what `exitScope`'s unlinking also leaves untouched -/

def Scope.walk (x : Scope) : Scope :=
  { x with pending := 0, deliver := false, active := false, timer := false, tasks := [],
           children := [] }

theorem Scope.walk_of_ctl {a b : Scope} (h : a.ctl = b.ctl) : a.walk = b.walk :=
  (congrArg Scope.walk h :)

section
variable {a b : Scope} (h : a.walk = b.walk)
include h
theorem walk_cancelCalled : a.cancelCalled = b.cancelCalled := (congrArg Scope.cancelCalled h :)
theorem walk_shield : a.shield = b.shield := (congrArg Scope.shield h :)
theorem walk_parent : a.parent = b.parent := (congrArg Scope.parent h :)
theorem walk_chain : a.chain = b.chain := (congrArg Scope.chain h :)
theorem walk_deadline : a.deadline = b.deadline := (congrArg Scope.deadline h :)
theorem walk_caught : a.caught = b.caught := (congrArg Scope.caught h :)
theorem walk_host : a.host = b.host := (congrArg Scope.host h :)
theorem walk_byDeadline : a.byDeadline = b.byDeadline := (congrArg Scope.byDeadline h :)
theorem walk_cancelTime : a.cancelTime = b.cancelTime := (congrArg Scope.cancelTime h :)
theorem walk_entered : a.entered = b.entered := (congrArg Scope.entered h :)
theorem walk_exists : a.exists_ = b.exists_ := (congrArg Scope.exists_ h :)
end

/-- the two states agree on the walk part of every scope -/
def SameWalk (st st' : State) : Prop := ∀ i, (st'.scopes i).walk = (st.scopes i).walk

theorem SameWalk.refl (st : State) : SameWalk st st := fun _ => rfl

theorem SameWalk.trans {a b c : State} (h1 : SameWalk a b) (h2 : SameWalk b c) : SameWalk a c :=
  fun i => (h2 i).trans (h1 i)

theorem Frame.sameWalk {st st' : State} (h : Frame st st') : SameWalk st st' :=
  fun i => Scope.walk_of_ctl (h.scopes i)

theorem SameWalk.setScope (st : State) (s : Nat) (f : Scope → Scope)
    (h : ∀ x, (f x).walk = x.walk) : SameWalk st (st.setScope s f) := by
  intro i; simp only [State.setScope, upd_apply]; split
  · subst_vars; exact h _
  · rfl

theorem SameWalk.of_scopes_eq {st st' : State} (h : st'.scopes = st.scopes) : SameWalk st st' :=
  fun i => by rw [h]

/-! ### the walks only read `cancelCalled`, `shield`, `parent`, `chain`, `deadline` -/

/-- the navigation part of a scope: all that `_effectively_cancelled`,
`_parent_cancellation_is_visible_to_us` and `current_effective_deadline` read -/
def Scope.nav (x : Scope) : Scope :=
  { cancelCalled := x.cancelCalled, shield := x.shield, parent := x.parent, chain := x.chain,
    deadline := x.deadline }

def SameNav (st st' : State) : Prop := ∀ i, (st'.scopes i).nav = (st.scopes i).nav

theorem SameNav.refl (st : State) : SameNav st st := fun _ => rfl

theorem SameNav.trans {a b c : State} (h1 : SameNav a b) (h2 : SameNav b c) : SameNav a c :=
  fun i => (h2 i).trans (h1 i)

theorem SameWalk.nav {st st' : State} (h : SameWalk st st') : SameNav st st' :=
  fun i => (congrArg Scope.nav (h i) :)

theorem Frame.sameNav {st st' : State} (h : Frame st st') : SameNav st st' := h.sameWalk.nav

section
variable {a b : Scope} (h : a.nav = b.nav)
include h
theorem nav_cancelCalled : a.cancelCalled = b.cancelCalled := (congrArg Scope.cancelCalled h :)
theorem nav_shield : a.shield = b.shield := (congrArg Scope.shield h :)
theorem nav_parent : a.parent = b.parent := (congrArg Scope.parent h :)
theorem nav_chain : a.chain = b.chain := (congrArg Scope.chain h :)
theorem nav_deadline : a.deadline = b.deadline := (congrArg Scope.deadline h :)
end

theorem effCancelledList_congr {st st' : State} (h : SameNav st st') (l : List Nat) :
    effCancelledList st' l = effCancelledList st l := by
  induction l with
  | nil => rfl
  | cons s rest ih =>
    simp only [effCancelledList, nav_cancelCalled (h s), nav_shield (h s), ih]

theorem effCancelled_congr {st st' : State} (h : SameNav st st') (s : Nat) :
    effCancelled st' s = effCancelled st s := by
  simp only [effCancelled, nav_chain (h s), effCancelledList_congr h]

theorem parentVisible_congr {st st' : State} (h : SameNav st st') (s : Nat) :
    parentVisible st' s = parentVisible st s := by
  simp only [parentVisible, nav_parent (h s), nav_shield (h s), effCancelled_congr h]

theorem effDeadlineList_congr {st st' : State} (h : SameNav st st') (l : List Nat)
    (acc : Option Nat) : effDeadlineList st' l acc = effDeadlineList st l acc := by
  induction l generalizing acc with
  | nil => rfl
  | cons s rest ih =>
    simp only [effDeadlineList, nav_cancelCalled (h s), nav_shield (h s),
      nav_deadline (h s), ih]

theorem effDeadline_congr {st st' : State} (h : SameNav st st')
    (ht : ∀ t, (st'.tasks t).scope = (st.tasks t).scope) (t : Nat) :
    effDeadline st' t = effDeadline st t := by
  unfold effDeadline
  rw [ht t]
  cases (st.tasks t).scope with
  | none => rfl
  | some s => simp only [nav_chain (h s), effDeadlineList_congr h]

/-! ### `_effectively_cancelled` against its declarative reading -/

theorem effCancelledList_iff (st : State) (l : List Nat) :
    effCancelledList st l = true ↔
      ∃ i, ∃ h : i < l.length, (st.scopes l[i]).cancelCalled = true ∧
        ∀ j (hj : j < i), (st.scopes (l[j]'(Nat.lt_trans hj h))).cancelCalled = false ∧
          (st.scopes (l[j]'(Nat.lt_trans hj h))).shield = false := by
  induction l with
  | nil => simp [effCancelledList]
  | cons s rest ih =>
    unfold effCancelledList
    by_cases hc : (st.scopes s).cancelCalled = true
    · simp only [hc, if_true, true_iff]
      exact ⟨0, by simp, by simpa using hc, by intro j hj; omega⟩
    · by_cases hs : (st.scopes s).shield = true
      · simp only [hc, hs, if_true, if_false, Bool.false_eq_true, false_iff]
        rintro ⟨i, h, hci, hb⟩
        cases i with
        | zero => exact hc (by simpa using hci)
        | succ i =>
          have := (hb 0 (by omega)).2
          simp [hs] at this
      · simp only [hc, hs, Bool.false_eq_true, if_false]
        rw [ih]
        constructor
        · rintro ⟨i, h, hci, hb⟩
          refine ⟨i + 1, by simpa using h, by simpa using hci, ?_⟩
          intro j hj
          cases j with
          | zero => simpa using And.intro hc hs
          | succ j => simpa using hb j (by omega)
        · rintro ⟨i, h, hci, hb⟩
          cases i with
          | zero => exact absurd (by simpa using hci) hc
          | succ i =>
            refine ⟨i, by simpa using h, by simpa using hci, ?_⟩
            intro j hj
            simpa using hb (j + 1) (by omega)

end AnyioModel.Kernel

namespace AnyioModel.Kernel

/-! ### `exitScope` in three pieces -/

/-- `__exit__` up to and including `_task_states[host].cancel_scope = parent`:
deactivate, cancel the timeout handle, move the host task to the parent scope -/
def exitUnlink (st : State) (t s : Nat) : State :=
  let sc := st.scopes s
  let st := st.setScope s (fun x => { x with active := false })
  let st :=
    if sc.timer then (st.unschedule (.timeout s)).setScope s (fun x => { x with timer := false })
    else st
  let st := st.setScope s (fun x => { x with tasks := x.tasks.erase t })
  let st :=
    match sc.parent with
    | some p =>
      st.setScope p (fun x => { x with children := x.children.erase s, tasks := t :: x.tasks })
    | none => st
  st.setTask t (fun x => { x with scope := sc.parent })

/-- ... followed by `_restart_cancellation_in_parent()` -/
def exitMid (st : State) (t s : Nat) : State :=
  restartInParent (exitUnlink st t s) s

/-- the absorb-or-propagate decision of `__exit__`, on the state `exitMid` produced -/
def exitTail (st : State) (t s : Nat) (ev : ExcVal) : Option (State × ExitResult) :=
  let sc := st.scopes s
  let fin := fun (st : State) => st.setScope s (fun x => { x with host := none })
  if sc.cancelCalled ∧ !parentVisible st s then
    let st := taskUncancel st t sc.pending
    let st := st.setScope s (fun x => { x with pending := 0 })
    match ev with
    | .group es =>
      let cancels := es.filter (· = .cancelAnyio)
      let rest := es.filter (· ≠ .cancelAnyio)
      if cancels = [] then some (fin st, .passed)
      else
        let st := st.setScope s (fun x => { x with caught := true })
        if rest = [] then some (fin st, .swallowed) else some (fin st, .raised rest)
    | .one .cancelAnyio =>
      some (fin (st.setScope s (fun x => { x with caught := true })), .swallowed)
    | _ => some (fin st, .passed)
  else
    let st :=
      if sc.pending > 0 then
        let st :=
          match sc.parent with
          | some p =>
            if (st.scopes p).host = some t then
              st.setScope p (fun x => { x with pending := x.pending + sc.pending })
            else st
          | none => st
        st.setScope s (fun x => { x with pending := 0 })
      else st
    some (fin st, .passed)

/-- the RuntimeError conditions of `__exit__` -/
def exitGuard (st : State) (t s : Nat) : Prop :=
  (!(st.scopes s).active) = true ∨ (st.scopes s).host ≠ some t ∨
    (!(st.tasks t).hasState) = true ∨ (st.tasks t).scope ≠ some s

instance (st : State) (t s : Nat) : Decidable (exitGuard st t s) := by
  unfold exitGuard; infer_instance

theorem exitScope_eq (st : State) (t s : Nat) (ev : ExcVal) :
    exitScope st t s ev =
      if exitGuard st t s then none else exitTail (exitMid st t s) t s ev := rfl

/-! ### facts about `exitUnlink` and `exitMid` -/

theorem SameWalk.setScope_r {a b : State} (h : SameWalk a b) (s : Nat) (f : Scope → Scope)
    (hf : ∀ x, (f x).walk = x.walk) : SameWalk a (b.setScope s f) :=
  h.trans (SameWalk.setScope _ _ _ hf)

theorem SameWalk.setTask_r {a b : State} (h : SameWalk a b) (t : Nat) (f : Task → Task) :
    SameWalk a (b.setTask t f) := h

theorem SameWalk.unschedule_r {a b : State} (h : SameWalk a b) (x : Handle) :
    SameWalk a (b.unschedule x) := h

theorem exitUnlink_sameWalk (st : State) (t s : Nat) : SameWalk st (exitUnlink st t s) := by
  unfold exitUnlink
  dsimp only
  apply SameWalk.setTask_r
  have h1 : SameWalk st (st.setScope s (fun x => { x with active := false })) :=
    SameWalk.setScope _ _ _ (fun _ => rfl)
  have h2 : SameWalk st (if (st.scopes s).timer = true then
      ((st.setScope s (fun x => { x with active := false })).unschedule (.timeout s)).setScope s
        (fun x => { x with timer := false })
      else st.setScope s (fun x => { x with active := false })) := by
    split
    · apply SameWalk.setScope_r
      · exact h1.unschedule_r _
      · intro x; rfl
    · exact h1
  split
  · apply SameWalk.setScope_r
    · apply SameWalk.setScope_r
      · exact h2
      · intro x; rfl
    · intro x; rfl
  · apply SameWalk.setScope_r
    · exact h2
    · intro x; rfl

theorem exitUnlink_scope (st : State) (t s : Nat) :
    ((exitUnlink st t s).scopes s).active = false ∧
    ((exitUnlink st t s).scopes s).timer = false := by
  unfold exitUnlink
  dsimp only
  by_cases ht : (st.scopes s).timer = true <;> cases hp : (st.scopes s).parent <;>
    simp [ht, State.setScope, State.setTask, State.unschedule, upd_apply] <;>
    split <;> simp_all

theorem exitUnlink_task (st : State) (t s : Nat) :
    ((exitUnlink st t s).tasks t).scope = (st.scopes s).parent ∧
    ((exitUnlink st t s).tasks t).hasState = (st.tasks t).hasState := by
  unfold exitUnlink
  dsimp only
  by_cases ht : (st.scopes s).timer = true <;> cases hp : (st.scopes s).parent <;>
    simp [ht, State.setScope, State.setTask, State.unschedule, upd_apply]

theorem exitUnlink_queues (st : State) (t s : Nat) :
    (exitUnlink st t s).now = st.now ∧
    (exitUnlink st t s).timers =
      (if (st.scopes s).timer then st.timers.filter (·.2 ≠ .timeout s) else st.timers) ∧
    (exitUnlink st t s).cur =
      (if (st.scopes s).timer then st.cur.filter (· ≠ .timeout s) else st.cur) ∧
    (exitUnlink st t s).ready =
      (if (st.scopes s).timer then st.ready.filter (· ≠ .timeout s) else st.ready) := by
  unfold exitUnlink
  dsimp only
  by_cases ht : (st.scopes s).timer = true <;> cases hp : (st.scopes s).parent <;>
    simp [ht, State.setScope, State.setTask, State.unschedule]
theorem exitMid_frame (st : State) (t s : Nat) : Frame (exitUnlink st t s) (exitMid st t s) :=
  Frame.restartInParent _ _

theorem exitMid_sameWalk (st : State) (t s : Nat) : SameWalk st (exitMid st t s) :=
  (exitUnlink_sameWalk st t s).trans (exitMid_frame st t s).sameWalk

/-! ### the decision part of `__exit__` -/

/-- what the decision part of `__exit__` leaves untouched in a scope: everything but
`pending`, `caught` and `host` -/
def Scope.keep (x : Scope) : Scope := { x with pending := 0, caught := false, host := none }

theorem setScope_proj {α : Type} (π : Scope → α) (st : State) (p : Nat) (f : Scope → Scope)
    (hf : ∀ x, π (f x) = π x) (i : Nat) : π ((st.setScope p f).scopes i) = π (st.scopes i) := by
  simp only [State.setScope, upd_apply]; split
  · subst_vars; exact hf _
  · rfl

theorem setScope_same (st : State) (s : Nat) (f : Scope → Scope) :
    (st.setScope s f).scopes s = f (st.scopes s) := by
  simp [State.setScope]

/-- `exitTail` touches nothing but `pending` of `s` and of its parent, the cancellation counters
of `t`, and `caught` / `host` of `s` -/
structure TailFrame (s : Nat) (m m' : State) : Prop where
  keep : ∀ i, (m'.scopes i).keep = (m.scopes i).keep
  caughtOther : ∀ i, i ≠ s → (m'.scopes i).caught = (m.scopes i).caught
  hostOther : ∀ i, i ≠ s → (m'.scopes i).host = (m.scopes i).host
  now : m'.now = m.now
  timers : m'.timers = m.timers
  cur : m'.cur = m.cur
  ready : m'.ready = m.ready
  running : m'.running = m.running
  taskScope : ∀ u, (m'.tasks u).scope = (m.tasks u).scope

theorem TailFrame.refl (s : Nat) (m : State) : TailFrame s m m :=
  ⟨fun _ => rfl, fun _ _ => rfl, fun _ _ => rfl, rfl, rfl, rfl, rfl, rfl, fun _ => rfl⟩

theorem TailFrame.setScope_any {s : Nat} {m m' : State} (h : TailFrame s m m') (p : Nat)
    (f : Scope → Scope) (hk : ∀ x, (f x).keep = x.keep) (hc : ∀ x, (f x).caught = x.caught)
    (hh : ∀ x, (f x).host = x.host) : TailFrame s m (m'.setScope p f) :=
  ⟨fun i => (setScope_proj Scope.keep _ _ _ hk i).trans (h.keep i),
   fun i hi => (setScope_proj Scope.caught _ _ _ hc i).trans (h.caughtOther i hi),
   fun i hi => (setScope_proj Scope.host _ _ _ hh i).trans (h.hostOther i hi),
   h.now, h.timers, h.cur, h.ready, h.running, h.taskScope⟩

theorem TailFrame.setScope_self {s : Nat} {m m' : State} (h : TailFrame s m m')
    (f : Scope → Scope) (hk : ∀ x, (f x).keep = x.keep) : TailFrame s m (m'.setScope s f) := by
  refine ⟨fun i => (setScope_proj Scope.keep _ _ _ hk i).trans (h.keep i), ?_, ?_,
   h.now, h.timers, h.cur, h.ready, h.running, h.taskScope⟩
  · intro i hi; simp only [State.setScope, upd_other _ _ _ _ hi]; exact h.caughtOther i hi
  · intro i hi; simp only [State.setScope, upd_other _ _ _ _ hi]; exact h.hostOther i hi

theorem TailFrame.taskUncancel {s : Nat} {m m' : State} (h : TailFrame s m m') (t n : Nat) :
    TailFrame s m (taskUncancel m' t n) := by
  refine ⟨h.keep, h.caughtOther, h.hostOther, h.now, h.timers, h.cur, h.ready, h.running, ?_⟩
  intro u
  rw [← h.taskScope u]
  simp only [AnyioModel.Kernel.taskUncancel, State.setTask, upd_apply]
  split
  · subst_vars; rfl
  · rfl

/-- the result of `__exit__` as a function of the three things it depends on -/
def exitClass (cc vis : Bool) (ev : ExcVal) : ExitResult :=
  if cc && !vis then
    match ev with
    | .group es =>
      if es.filter (· = .cancelAnyio) = [] then .passed
      else if es.filter (· ≠ .cancelAnyio) = [] then .swallowed
      else .raised (es.filter (· ≠ .cancelAnyio))
    | .one .cancelAnyio => .swallowed
    | _ => .passed
  else .passed

structure TailSpec (m : State) (s : Nat) (r : ExitResult) (m' : State) : Prop where
  frame : TailFrame s m m'
  caught : (m'.scopes s).caught = ((m.scopes s).caught || decide (r ≠ .passed))
  host : (m'.scopes s).host = none

/-- finishing without setting `caught` -/
theorem TailSpec.fin_passed {s : Nat} {m m' : State} (h : TailFrame s m m')
    (hc : (m'.scopes s).caught = (m.scopes s).caught) :
    TailSpec m s .passed (m'.setScope s (fun x => { x with host := none })) :=
  ⟨h.setScope_self _ (by intro _; rfl), by simp [setScope_same, hc], by simp [setScope_same]⟩

/-- finishing after setting `caught` -/
theorem TailSpec.fin_caught {s : Nat} {m m' : State} (h : TailFrame s m m') (r : ExitResult)
    (hr : r ≠ .passed) :
    TailSpec m s r ((m'.setScope s (fun x => { x with caught := true })).setScope s
      (fun x => { x with host := none })) :=
  ⟨(h.setScope_self _ (by intro _; rfl)).setScope_self _ (by intro _; rfl),
    by simp [setScope_same, hr], by simp [setScope_same]⟩

theorem exitTail_spec (m : State) (t s : Nat) (ev : ExcVal) :
    ∃ m', exitTail m t s ev =
        some (m', exitClass (m.scopes s).cancelCalled (parentVisible m s) ev) ∧
      TailSpec m s (exitClass (m.scopes s).cancelCalled (parentVisible m s) ev) m' := by
  unfold exitTail exitClass
  dsimp only
  by_cases hc : (m.scopes s).cancelCalled = true ∧ (!parentVisible m s) = true
  · have hc' : ((m.scopes s).cancelCalled && !parentVisible m s) = true := by simpa using hc
    rw [if_pos hc, if_pos hc']
    have base : TailFrame s m ((taskUncancel m t (m.scopes s).pending).setScope s
        (fun x => { x with pending := 0 })) :=
      ((TailFrame.refl s m).taskUncancel t _).setScope_self _ (by intro _; rfl)
    have bc : (((taskUncancel m t (m.scopes s).pending).setScope s
        (fun x => { x with pending := 0 })).scopes s).caught = (m.scopes s).caught := by
      simp [setScope_same, taskUncancel, State.setTask]
    cases ev with
    | none => exact ⟨_, rfl, TailSpec.fin_passed base bc⟩
    | one e =>
      cases e
      case cancelAnyio => exact ⟨_, rfl, TailSpec.fin_caught base _ (by simp)⟩
      all_goals exact ⟨_, rfl, TailSpec.fin_passed base bc⟩
    | group es =>
      dsimp only
      by_cases h1 : es.filter (· = .cancelAnyio) = []
      · rw [if_pos h1, if_pos h1]; exact ⟨_, rfl, TailSpec.fin_passed base bc⟩
      · rw [if_neg h1, if_neg h1]
        by_cases h2 : es.filter (· ≠ .cancelAnyio) = []
        · rw [if_pos h2, if_pos h2]; exact ⟨_, rfl, TailSpec.fin_caught base _ (by simp)⟩
        · rw [if_neg h2, if_neg h2]; exact ⟨_, rfl, TailSpec.fin_caught base _ (by simp)⟩
  · have hc' : ¬ ((m.scopes s).cancelCalled && !parentVisible m s) = true := by simpa using hc
    rw [if_neg hc, if_neg hc']
    refine ⟨_, rfl, ?_⟩
    apply TailSpec.fin_passed
    · split
      · apply TailFrame.setScope_self
        · split
          · split
            · exact (TailFrame.refl s m).setScope_any _ _ (by intro _; rfl) (by intro _; rfl) (by intro _; rfl)
            · exact TailFrame.refl s m
          · exact TailFrame.refl s m
        · intro x; rfl
      · exact TailFrame.refl s m
    · split
      · rw [setScope_proj Scope.caught _ _ _ (by intro _; rfl)]
        split
        · split
          · rw [setScope_proj Scope.caught _ _ _ (by intro _; rfl)]
          · rfl
        · rfl
      · rfl

/-- `exitScope` = guard, then `exitMid`, then the decision, whose result is `exitClass` of the
pre-state's `cancelCalled` and `parentVisible` -/
theorem exitScope_spec {st st' : State} {t s : Nat} {ev : ExcVal} {r : ExitResult}
    (h : exitScope st t s ev = some (st', r)) :
    ¬ exitGuard st t s ∧ r = exitClass (st.scopes s).cancelCalled (parentVisible st s) ev ∧
      TailSpec (exitMid st t s) s r st' := by
  rw [exitScope_eq] at h
  split at h
  · exact absurd h (by simp)
  · rename_i hg
    obtain ⟨m', he, hs⟩ := exitTail_spec (exitMid st t s) t s ev
    rw [he] at h
    have hw := exitMid_sameWalk st t s
    rw [walk_cancelCalled (hw s), parentVisible_congr hw.nav] at h hs
    simp only [Option.some.injEq, Prod.mk.injEq] at h
    obtain ⟨rfl, rfl⟩ := h
    exact ⟨hg, rfl, hs⟩

theorem exitScope_enabled {st : State} {t s : Nat} (ev : ExcVal) (hg : ¬ exitGuard st t s) :
    ∃ st', exitScope st t s ev =
      some (st', exitClass (st.scopes s).cancelCalled (parentVisible st s) ev) := by
  rw [exitScope_eq, if_neg hg]
  obtain ⟨m', he, _⟩ := exitTail_spec (exitMid st t s) t s ev
  have hw := exitMid_sameWalk st t s
  rw [walk_cancelCalled (hw s), parentVisible_congr hw.nav] at he
  exact ⟨m', he⟩

/-! ### `exitClass` against its declarative reading -/

theorem filter_ne_cancel_eq_nil (es : List Exc) :
    es.filter (· ≠ .cancelAnyio) = [] ↔ ∀ e ∈ es, e = .cancelAnyio := by
  simp [List.filter_eq_nil_iff]

theorem filter_eq_cancel_eq_nil (es : List Exc) :
    es.filter (· = .cancelAnyio) = [] ↔ ∀ e ∈ es, e ≠ .cancelAnyio := by
  simp [List.filter_eq_nil_iff]

theorem exitClass_swallowed_iff (cc vis : Bool) (ev : ExcVal) :
    exitClass cc vis ev = .swallowed ↔
      cc = true ∧ vis = false ∧
        (ev = .one .cancelAnyio ∨
          ∃ es, ev = .group es ∧ es ≠ [] ∧ ∀ e ∈ es, e = .cancelAnyio) := by
  unfold exitClass
  by_cases h : (cc && !vis) = true
  · have h' : cc = true ∧ vis = false := by simpa using h
    rw [if_pos h]
    cases ev with
    | none => simp
    | one e => cases e <;> simp [h']
    | group es =>
      simp only [h', true_and, reduceCtorEq, false_or, ExcVal.group.injEq, exists_eq_left']
      by_cases h1 : es.filter (· = .cancelAnyio) = []
      · rw [if_pos h1]
        rw [filter_eq_cancel_eq_nil] at h1
        simp only [reduceCtorEq, false_iff, not_and]
        intro hne hall
        cases es with
        | nil => exact hne rfl
        | cons a l => exact h1 a (by simp) (hall a (by simp))
      · rw [if_neg h1]
        by_cases h2 : es.filter (· ≠ .cancelAnyio) = []
        · rw [if_pos h2]
          rw [filter_ne_cancel_eq_nil] at h2
          simp only [true_iff]
          refine ⟨?_, h2⟩
          rintro rfl; simp at h1
        · rw [if_neg h2]
          rw [filter_ne_cancel_eq_nil] at h2
          simp only [reduceCtorEq, false_iff, not_and]
          intro _ hall; exact h2 hall
  · rw [if_neg h]
    have h' : ¬ (cc = true ∧ vis = false) := by simpa using h
    simp only [reduceCtorEq, false_iff]
    rintro ⟨a, b, _⟩; exact h' ⟨a, b⟩

theorem exitClass_raised_iff (cc vis : Bool) (ev : ExcVal) (rest : List Exc) :
    exitClass cc vis ev = .raised rest ↔
      cc = true ∧ vis = false ∧
        ∃ es, ev = .group es ∧ (∃ e ∈ es, e = .cancelAnyio) ∧
          rest = es.filter (· ≠ .cancelAnyio) ∧ rest ≠ [] := by
  unfold exitClass
  by_cases h : (cc && !vis) = true
  · have h' : cc = true ∧ vis = false := by simpa using h
    rw [if_pos h]
    cases ev with
    | none => simp
    | one e => cases e <;> simp
    | group es =>
      simp only [h', true_and, ExcVal.group.injEq, exists_eq_left']
      by_cases h1 : es.filter (· = .cancelAnyio) = []
      · rw [if_pos h1]
        rw [filter_eq_cancel_eq_nil] at h1
        simp only [reduceCtorEq, false_iff, not_and]
        rintro ⟨e, he, rfl⟩; exact absurd rfl (h1 _ he)
      · rw [if_neg h1]
        have h1' : ∃ e ∈ es, e = Exc.cancelAnyio := by
          rw [filter_eq_cancel_eq_nil] at h1
          simpa using h1
        by_cases h2 : es.filter (· ≠ .cancelAnyio) = []
        · rw [if_pos h2]
          simp only [reduceCtorEq, false_iff, not_and]
          rintro _ rfl; exact fun h => h h2
        · rw [if_neg h2]
          simp only [ExitResult.raised.injEq]
          constructor
          · rintro rfl; exact ⟨h1', rfl, h2⟩
          · rintro ⟨_, rfl, _⟩; rfl
  · rw [if_neg h]
    have h' : ¬ (cc = true ∧ vis = false) := by simpa using h
    simp only [reduceCtorEq, false_iff]
    rintro ⟨a, b, _⟩; exact h' ⟨a, b⟩

theorem exitClass_cases (cc vis : Bool) (ev : ExcVal) :
    exitClass cc vis ev = .swallowed ∨ exitClass cc vis ev = .passed ∨
      ∃ rest, exitClass cc vis ev = .raised rest := by
  cases h : exitClass cc vis ev with
  | swallowed => simp
  | passed => simp
  | raised es => simp

/-- the non-AnyIO-cancellation leaves are never dropped and never reordered -/
theorem exitClass_leaves (cc vis : Bool) (ev : ExcVal) :
    (exitToOut ev (exitClass cc vis ev)).leaves.filter (· ≠ .cancelAnyio) =
      ev.leaves.filter (· ≠ .cancelAnyio) := by
  rcases exitClass_cases cc vis ev with h | h | ⟨rest, h⟩
  · rw [h]
    rcases (exitClass_swallowed_iff cc vis ev).1 h with ⟨_, _, rfl | ⟨es, rfl, _, hall⟩⟩
    · simp [exitToOut, ExcVal.leaves]
    · simp only [exitToOut, ExcVal.leaves]
      exact ((filter_ne_cancel_eq_nil es).2 hall).symm ▸ rfl
  · rw [h]; rfl
  · rw [h]
    obtain ⟨_, _, es, rfl, _, rfl, _⟩ := (exitClass_raised_iff cc vis ev rest).1 h
    simp [exitToOut, ExcVal.leaves]

theorem exitClass_one_ne (cc vis : Bool) {e : Exc} (he : e ≠ .cancelAnyio) :
    exitClass cc vis (.one e) = .passed := by
  unfold exitClass
  cases e <;> simp at he ⊢

theorem exitClass_none (cc vis : Bool) : exitClass cc vis .none = .passed := by
  unfold exitClass; simp

theorem exitClass_passed_iff (cc vis : Bool) (ev : ExcVal) :
    exitClass cc vis ev = .passed ↔ cc = false ∨ vis = true ∨ Exc.cancelAnyio ∉ ev.leaves := by
  unfold exitClass
  by_cases h : (cc && !vis) = true
  · have h' : cc = true ∧ vis = false := by simpa using h
    rw [if_pos h]
    cases ev with
    | none => simp [ExcVal.leaves]
    | one e => cases e <;> simp [ExcVal.leaves, h']
    | group es =>
      simp only [h', ExcVal.leaves, Bool.true_eq_false, Bool.false_eq_true, false_or]
      by_cases h1 : es.filter (· = .cancelAnyio) = []
      · rw [if_pos h1]
        rw [filter_eq_cancel_eq_nil] at h1
        simp only [true_iff]
        intro hm; exact h1 _ hm rfl
      · rw [if_neg h1]
        have : Exc.cancelAnyio ∈ es := by
          rw [filter_eq_cancel_eq_nil] at h1
          simp only [ne_eq, Classical.not_forall, Decidable.not_not] at h1
          obtain ⟨e, he, rfl⟩ := h1; exact he
        split <;> simp [this]
  · rw [if_neg h]
    have h' : cc = false ∨ vis = true := by
      cases cc <;> cases vis <;> simp at h ⊢
    simp only [true_iff]
    rcases h' with h' | h'
    · exact Or.inl h'
    · exact Or.inr (Or.inl h')

/-- no `timeout s` handle anywhere in the loop -/
def NoTimeout (st : State) (s : Nat) : Prop :=
  (∀ d, (d, Handle.timeout s) ∉ st.timers) ∧ Handle.timeout s ∉ st.ready ∧
    Handle.timeout s ∉ st.cur

/-- the loop's queues after `exitScope`: `unschedule` removes *every* `timeout s` handle when
the scope's `timer` flag is set, nothing else is removed, and only `wakeup`/`deliver` handles
are added -/
theorem exitScope_queues {st st' : State} {t s : Nat} {ev : ExcVal} {r : ExitResult}
    (h : exitScope st t s ev = some (st', r)) :
    st'.now = st.now ∧
    st'.timers =
      (if (st.scopes s).timer then st.timers.filter (·.2 ≠ .timeout s) else st.timers) ∧
    st'.cur = (if (st.scopes s).timer then st.cur.filter (· ≠ .timeout s) else st.cur) ∧
    ∃ extra, st'.ready =
        (if (st.scopes s).timer then st.ready.filter (· ≠ .timeout s) else st.ready) ++ extra ∧
      ∀ h ∈ extra, ∀ s', h ≠ Handle.timeout s' := by
  obtain ⟨_, _, hs⟩ := exitScope_spec h
  have hf := exitMid_frame st t s
  obtain ⟨q1, q2, q3, q4⟩ := exitUnlink_queues st t s
  refine ⟨hs.frame.now.trans (hf.now.trans q1), hs.frame.timers.trans (hf.timers.trans q2),
    hs.frame.cur.trans (hf.cur.trans q3), ?_⟩
  obtain ⟨extra, he, hn⟩ := hf.ready
  exact ⟨extra, by rw [hs.frame.ready, he, q4], hn⟩

theorem exitScope_noTimeout {st st' : State} {t s : Nat} {ev : ExcVal} {r : ExitResult}
    (h : exitScope st t s ev = some (st', r))
    (hrec : (st.scopes s).timer = false → NoTimeout st s) : NoTimeout st' s := by
  obtain ⟨_, q2, q3, extra, q4, hn⟩ := exitScope_queues h
  cases ht : (st.scopes s).timer with
  | true =>
    simp only [ht, if_true] at q2 q3 q4
    refine ⟨?_, ?_, ?_⟩
    · intro d; rw [q2]; simp
    · rw [q4]; simp only [List.mem_append, List.mem_filter, not_or]
      exact ⟨by simp, fun hm => hn _ hm s rfl⟩
    · rw [q3]; simp
  | false =>
    simp only [ht, Bool.false_eq_true, if_false] at q2 q3 q4
    obtain ⟨a, b, c⟩ := hrec ht
    refine ⟨?_, ?_, ?_⟩
    · rw [q2]; exact a
    · rw [q4]; simp only [List.mem_append, not_or]
      exact ⟨b, fun hm => hn _ hm s rfl⟩
    · rw [q3]; exact c

section
variable {a b : Scope} (h : a.keep = b.keep)
include h
theorem keep_cancelCalled : a.cancelCalled = b.cancelCalled := (congrArg Scope.cancelCalled h :)
theorem keep_shield : a.shield = b.shield := (congrArg Scope.shield h :)
theorem keep_parent : a.parent = b.parent := (congrArg Scope.parent h :)
theorem keep_chain : a.chain = b.chain := (congrArg Scope.chain h :)
theorem keep_deadline : a.deadline = b.deadline := (congrArg Scope.deadline h :)
theorem keep_active : a.active = b.active := (congrArg Scope.active h :)
theorem keep_timer : a.timer = b.timer := (congrArg Scope.timer h :)
theorem keep_byDeadline : a.byDeadline = b.byDeadline := (congrArg Scope.byDeadline h :)
theorem keep_entered : a.entered = b.entered := (congrArg Scope.entered h :)
theorem keep_exists : a.exists_ = b.exists_ := (congrArg Scope.exists_ h :)
theorem keep_nav : a.nav = b.nav := (congrArg Scope.nav h :)
end

theorem TailFrame.sameNav {s : Nat} {m m' : State} (h : TailFrame s m m') : SameNav m m' :=
  fun i => keep_nav (h.keep i)

/-- `exitScope` changes the navigation part of no scope -/
theorem exitScope_sameNav {st st' : State} {t s : Nat} {ev : ExcVal} {r : ExitResult}
    (h : exitScope st t s ev = some (st', r)) : SameNav st st' :=
  (exitMid_sameWalk st t s).nav.trans (exitScope_spec h).2.2.frame.sameNav

end AnyioModel.Kernel
