/-
`WF`, part 10: every transition preserves `WF`; `WF` holds in every reachable state.
-/
import AnyioModel.Kernel.WF9

namespace AnyioModel.Kernel

theorem wf_setCur {st : State} (h : WF st) (c : List Handle) (hc : ∀ x ∈ c, x ∈ st.cur) :
    WF { st with cur := c } := by
  apply wf_congr h
  case tk => intro u; simp
  case tkst => intro u; simp
  case run => exact h.running_spec
  case scx => exact h.scope_exists
  case scd => exact h.deadline_exists
  case grs => intro g h1 h2; exact absurd h2 (by simp; exact h1)
  case cu => exact fun x hx => .inl (hc x hx)
  all_goals first | (exact fun _ h => Or.inl h) | (exact fun _ _ h => Or.inl h) | simp

theorem wf_beginCycle {st st' : State} {now : Nat} {o : Out} (h : WF st)
    (hs : step st (.beginCycle now) = some (st', o)) : WF st' := by
  simp only [step] at hs
  split at hs
  · contradiction
  · simp only [Option.some.injEq, Prod.mk.injEq] at hs
    obtain ⟨rfl, _⟩ := hs
    apply wf_congr h
    case tk => intro u; simp
    case tkst => intro u; simp
    case run => exact h.running_spec
    case scx => exact h.scope_exists
    case scd => exact h.deadline_exists
    case grs => intro g h1 h2; exact absurd h2 (by simp; exact h1)
    case rd => intro x hx; simp at hx
    case cu =>
      intro x hx
      right
      simp only [dueTimers, List.mem_append, List.mem_map, List.mem_filter] at hx
      rcases hx with hx | ⟨p, ⟨hp, _⟩, rfl⟩
      · exact h.ready_ok x hx
      · exact h.timers_ok p hp
    case ti =>
      intro x hx
      simp only [List.mem_filter] at hx
      exact .inl hx.1
    all_goals first | (exact fun _ h => Or.inl h) | (exact fun _ _ h => Or.inl h) | simp

theorem wf_runHandle {st st' : State} {x : Handle} {o : Out} (h : WF st)
    (hs : step st (.run x) = some (st', o)) : WF st' := by
  simp only [step] at hs
  split at hs
  · contradiction
  · rename_i hg
    have hrun : st.running = none := by
      cases hr : st.running <;> simp_all
    have hxc : x ∈ st.cur := by
      apply Classical.byContradiction; intro hx; exact hg (.inr hx)
    have hok := h.cur_ok x hxc
    have h1 : WF { st with cur := st.cur.erase x } :=
      wf_setCur h _ (fun y hy => List.mem_of_mem_erase hy)
    cases x with
    | step t =>
      simp only [] at hs
      split at hs
      · rename_i hst
        refine wf_runTask h1 hrun hok ?_ hs
        rcases hst with hst | hst <;> simp_all
      · contradiction
    | wakeup t =>
      simp only [] at hs
      split at hs
      · rename_i f hst
        refine wf_runTask h1 hrun hok ?_ hs
        simp_all
      · contradiction
    | deliver s =>
      simp only [Option.some.injEq, Prod.mk.injEq] at hs
      obtain ⟨rfl, _⟩ := hs
      exact wf_frame h1 (frame_deliver _ _)
    | timeout s =>
      simp only [Option.some.injEq, Prod.mk.injEq] at hs
      obtain ⟨rfl, _⟩ := hs
      exact wf_cframe (wf_setScope_inert h1 s _ (by simp; exact fun h => .inl h))
        (cframe_armTimeout _ _)
    | sleepDone f =>
      simp only [Option.some.injEq, Prod.mk.injEq] at hs
      obtain ⟨rfl, _⟩ := hs
      exact wf_frame h1 (frame_resolveFut _ _ _)
    | taskDone u =>
      simp only [] at hs
      split at hs
      · rename_i st1 htd
        simp only [Option.some.injEq, Prod.mk.injEq] at hs
        obtain ⟨rfl, _⟩ := hs
        exact (wf_runTaskDone h1 htd).1
      · contradiction

theorem wf_setUserFut {st : State} (h : WF st) (v : Nat → Bool) :
    WF { st with userFut := v } := by
  apply wf_congr h
  case tk => intro u; simp
  case tkst => intro u; simp
  case run => exact h.running_spec
  case scx => exact h.scope_exists
  case scd => exact h.deadline_exists
  case grs => intro g h1 h2; exact absurd h2 (by simp; exact h1)
  all_goals first | (exact fun _ h => Or.inl h) | (exact fun _ _ h => Or.inl h) | simp

theorem wf_addTimer {st : State} (h : WF st) (d : Nat) (x : Handle) (hx : HandleOk st x) :
    WF { st with timers := st.timers ++ [(d, x)] } := by
  apply wf_congr h
  case tk => intro u; simp
  case tkst => intro u; simp
  case run => exact h.running_spec
  case scx => exact h.scope_exists
  case scd => exact h.deadline_exists
  case grs => intro g h1 h2; exact absurd h2 (by simp; exact h1)
  case ti =>
    intro y hy
    simp at hy
    rcases hy with hy | rfl
    · exact .inl hy
    · exact .inr hx
  all_goals first | (exact fun _ h => Or.inl h) | (exact fun _ _ h => Or.inl h) | simp

theorem wf_mkGroup {st : State} (h : WF st) {s : Nat} (hs : s < st.nScopes) :
    WF { st.setGroup st.nGroups (fun _ => { scope := s }) with nGroups := st.nGroups + 1 } := by
  have hd := h.group_dflt st.nGroups (Nat.le_refl _)
  apply wf_congr h
  case tk => intro u; simp
  case tkst => intro u; simp
  case run => exact h.running_spec
  case scx => exact h.scope_exists
  case scd => exact h.deadline_exists
  case gr =>
    intro g
    by_cases hg : g = st.nGroups
    · subst hg; simp [hd]
    · simp [hg]
  case grs =>
    intro g h1 h2
    have : g = st.nGroups := by simp at h2; omega
    subst this; simpa using hs
  all_goals first | (exact fun _ h => Or.inl h) | (exact fun _ _ h => Or.inl h) | simp

/-- the first part of `__aexit__`: an exception from the body cancels the group -/
def aexitPrep (st : State) (g : Nat) (ev : ExcVal) : State :=
  if ev ≠ .none then
    let st := cancelScope st (st.groups g).scope false
    if ev.isCancelledError then st
    else st.setGroup g (fun x =>
      { x with exceptions := x.exceptions ++ ev.leaves, bodyErrs := ev.leaves })
  else st

theorem step_aexit (st : State) (g : Nat) (ev : ExcVal) :
    step st (.aexit g ev) =
      match st.running with
      | none => none
      | some t =>
        if g ≥ st.nGroups ∨ (st.tasks t).lib ≠ .none ∨ !(st.groups g).entered ∨ (st.groups g).exited
            ∨ (st.tasks t).scope ≠ some (st.groups g).scope
        then none else
        let st := aexitPrep st g ev
        if (st.groups g).tasks = [] then
          let (st, s) := newScope st true none
          match enterScope st t s with
          | none => none
          | some st =>
            some (doYield (st.setTask t (fun x => { x with lib := .aexitChk g s ev })) t, .susp)
        else aexitAfterChk st t g ev := rfl

theorem wfr_aexitPrep {st : State} {t : Nat} (h : WFR st t) (g : Nat) (ev : ExcVal) :
    WFR (aexitPrep st g ev) t := by
  unfold aexitPrep
  split
  · simp only []
    split
    · exact h.cframe (cframe_cancelScope _ _ _)
    · exact (h.cframe (cframe_cancelScope _ _ _)).setGroup_inert g _ (fun x => by simp)
  · exact h

theorem wf_aexit {st st' : State} {g : Nat} {ev : ExcVal} {o : Out} (h : WF st)
    (hs : step st (.aexit g ev) = some (st', o)) : WF st' := by
  rw [step_aexit] at hs
  split at hs
  · contradiction
  · rename_i t hr
    split at hs
    · contradiction
    · have h1 := wfr_aexitPrep ⟨h, hr⟩ g ev
      simp only [] at hs
      split at hs
      · have h2 := h1.mkScope true none
        split at hs
        · contradiction
        · rename_i st1 hen
          simp only [Option.some.injEq, Prod.mk.injEq] at hs
          obtain ⟨rfl, _⟩ := hs
          exact ((h2.1.enterScope h2.2 hen).setTask_inert t _ (fun x => by simp)).doYield
      · exact wf_aexitAfterChk h1 hs

theorem wf_step {st st' : State} {e : Ev} {o : Out} (h : WF st)
    (hs : step st e = some (st', o)) : WF st' := by
  cases e with
  | beginCycle now => exact wf_beginCycle h hs
  | run x => exact wf_runHandle h hs
  | mkScope sh d =>
    simp only [step, Option.some.injEq, Prod.mk.injEq] at hs
    obtain ⟨rfl, _⟩ := hs
    exact wf_newScope h sh d
  | enter s =>
    simp only [step] at hs
    split at hs
    · contradiction
    · rename_i t hr
      split at hs
      · contradiction
      · rename_i hg
        have hx : (st.scopes s).exists_ = true := by
          cases hx : (st.scopes s).exists_ <;> simp_all
        split at hs
        · simp only [Option.some.injEq, Prod.mk.injEq] at hs
          obtain ⟨rfl, _⟩ := hs; exact h
        · rename_i st1 hen
          simp only [Option.some.injEq, Prod.mk.injEq] at hs
          obtain ⟨rfl, _⟩ := hs
          exact (WFR.enterScope ⟨h, hr⟩ hx hen).1
  | exit s ev =>
    simp only [step] at hs
    split at hs
    · contradiction
    · rename_i t hr
      split at hs
      · contradiction
      · split at hs
        · simp only [Option.some.injEq, Prod.mk.injEq] at hs
          obtain ⟨rfl, _⟩ := hs; exact h
        · rename_i st1 r hex
          simp only [Option.some.injEq, Prod.mk.injEq] at hs
          obtain ⟨rfl, _⟩ := hs
          exact wf_exitScope h hex
  | cancel s =>
    simp only [step] at hs
    split at hs
    · contradiction
    · simp only [Option.some.injEq, Prod.mk.injEq] at hs
      obtain ⟨rfl, _⟩ := hs
      exact wf_cframe h (cframe_cancelScope _ _ _)
  | setShield s b =>
    simp only [step] at hs
    split at hs
    · contradiction
    · simp only [Option.some.injEq, Prod.mk.injEq] at hs
      obtain ⟨rfl, _⟩ := hs
      exact wf_frame (wf_setScope_inert h s _ (by simp; exact fun h => .inl h))
        (frame_setShield _ _ _)
  | setDeadline s d =>
    simp only [step] at hs
    split at hs
    · contradiction
    · rename_i hg
      have hx : (st.scopes s).exists_ = true := by
        cases hx : (st.scopes s).exists_ <;> simp_all
      simp only [Option.some.injEq, Prod.mk.injEq] at hs
      obtain ⟨rfl, _⟩ := hs
      exact wf_cframe (wf_setScope_inert h s _ (by simp; exact fun _ => .inr hx))
        (cframe_setDeadline _ _ _)
  | yield =>
    simp only [step] at hs
    split at hs
    · contradiction
    · rename_i t hr
      split at hs
      · contradiction
      · simp only [Option.some.injEq, Prod.mk.injEq] at hs
        obtain ⟨rfl, _⟩ := hs
        exact wf_doYield h hr
  | mkFut =>
    simp only [step, Option.some.injEq, Prod.mk.injEq] at hs
    obtain ⟨rfl, _⟩ := hs
    exact wf_setUserFut (wf_newFut h) _
  | setFut f =>
    simp only [step] at hs
    split at hs
    · contradiction
    · simp only [Option.some.injEq, Prod.mk.injEq] at hs
      obtain ⟨rfl, _⟩ := hs
      exact wf_frame h (frame_resolveFut _ _ _)
  | awaitFut f =>
    simp only [step] at hs
    split at hs
    · contradiction
    · rename_i t hr
      split at hs
      · contradiction
      · rename_i hg
        have hf : f < st.nFuts := by
          simp only [not_or] at hg; omega
        split at hs
        · split at hs
          · contradiction
          · simp only [Option.some.injEq, Prod.mk.injEq] at hs
            obtain ⟨rfl, _⟩ := hs
            exact wf_blockOn h hr hf
        all_goals
          simp only [Option.some.injEq, Prod.mk.injEq] at hs
          obtain ⟨rfl, _⟩ := hs; exact h
  | sleep d =>
    simp only [step] at hs
    split at hs
    · contradiction
    · rename_i t hr
      split at hs
      · contradiction
      · simp only [Option.some.injEq, Prod.mk.injEq] at hs
        obtain ⟨rfl, _⟩ := hs
        have h1 := (WFR.mkFut ⟨h, hr⟩)
        have h2 : WFR { (newFut st).1 with timers := (newFut st).1.timers ++
            [((newFut st).1.now + d, Handle.sleepDone (newFut st).2)] } t :=
          ⟨wf_addTimer h1.1.1 _ _ (by simpa [HandleOk] using h1.2), h1.1.2⟩
        refine WFR.blockOn (h2.setTask_inert t _ (fun x => by simp)) ?_
        simpa using h1.2
  | chkIfCancelled =>
    simp only [step] at hs
    split at hs
    · contradiction
    · rename_i t hr
      split at hs
      · contradiction
      · split at hs
        · split at hs
          · simp only [Option.some.injEq, Prod.mk.injEq] at hs
            obtain ⟨rfl, _⟩ := hs
            exact (WFR.setTask_inert ⟨h, hr⟩ t _ (fun x => by simp)).doYield
          · simp only [Option.some.injEq, Prod.mk.injEq] at hs
            obtain ⟨rfl, _⟩ := hs; exact h
        · simp only [Option.some.injEq, Prod.mk.injEq] at hs
          obtain ⟨rfl, _⟩ := hs; exact h
  | shieldedChk =>
    simp only [step] at hs
    split at hs
    · contradiction
    · rename_i t hr
      split at hs
      · contradiction
      · have h1 := WFR.mkScope ⟨h, hr⟩ true none
        split at hs
        · contradiction
        · rename_i st1 hen
          simp only [Option.some.injEq, Prod.mk.injEq] at hs
          obtain ⟨rfl, _⟩ := hs
          exact ((h1.1.enterScope h1.2 hen).setTask_inert t _ (fun x => by simp)).doYield
  | nativeCancel u =>
    simp only [step] at hs
    split at hs
    · contradiction
    · simp only [Option.some.injEq, Prod.mk.injEq] at hs
      obtain ⟨rfl, _⟩ := hs
      exact wf_frame h (frame_taskCancel _ _ _)
  | uncancel =>
    simp only [step] at hs
    split at hs
    · contradiction
    · rename_i t hr
      split at hs
      · contradiction
      · simp only [Option.some.injEq, Prod.mk.injEq] at hs
        obtain ⟨rfl, _⟩ := hs
        exact wf_setTask_inert (wf_frame h (frame_taskUncancel _ _ _)) t _ (fun x => by simp)
  | mkGroup =>
    simp only [step, Option.some.injEq, Prod.mk.injEq] at hs
    obtain ⟨rfl, _⟩ := hs
    exact wf_mkGroup (wf_newScope h false none) (by simp [newScope])
  | groupEnter g =>
    simp only [step] at hs
    split at hs
    · contradiction
    · rename_i t hr
      split at hs
      · contradiction
      · rename_i hg
        split at hs
        · simp only [Option.some.injEq, Prod.mk.injEq] at hs
          obtain ⟨rfl, _⟩ := hs; exact h
        · split at hs
          · contradiction
          · rename_i st1 hen
            simp only [Option.some.injEq, Prod.mk.injEq] at hs
            obtain ⟨rfl, _⟩ := hs
            have hx := (h.scope_exists _).mpr (h.group_scope_lt g (by omega))
            exact ((WFR.enterScope ⟨h, hr⟩ hx hen).setGroup_inert g _ (fun x => by simp)).1
  | spawn g =>
    simp only [step] at hs
    split at hs
    · contradiction
    · rename_i hg
      split at hs
      · simp only [Option.some.injEq, Prod.mk.injEq] at hs
        obtain ⟨rfl, _⟩ := hs; exact h
      · rename_i hg2
        simp only [Option.some.injEq, Prod.mk.injEq] at hs
        obtain ⟨rfl, _⟩ := hs
        refine (wf_spawn none h (by omega) ?_).1
        cases ha : (st.scopes (st.groups g).scope).active <;> simp_all
  | aexit g ev => exact wf_aexit h hs
  | start g =>
    simp only [step] at hs
    split at hs
    · contradiction
    · rename_i t hr
      split at hs
      · contradiction
      · rename_i hg
        split at hs
        · simp only [Option.some.injEq, Prod.mk.injEq] at hs
          obtain ⟨rfl, _⟩ := hs; exact h
        · rename_i hg2
          simp only [Option.some.injEq, Prod.mk.injEq] at hs
          obtain ⟨rfl, _⟩ := hs
          have h1 := WFR.mkFut ⟨h, hr⟩
          have hg' : g < (newFut st).1.nGroups := by simp [newFut]; omega
          have ha : ((newFut st).1.scopes ((newFut st).1.groups g).scope).active = true := by
            cases ha : (st.scopes (st.groups g).scope).active <;> simp_all [newFut]
          have h2 := wf_spawn (some (newFut st).2) h1.1.1 hg' ha
          have h3 : WFR (spawn (newFut st).1 g (some (newFut st).2)).1 t :=
            ⟨h2.1, by rw [h2.2.1]; exact h1.1.2⟩
          refine WFR.blockOn (h3.setTask_inert t _ (fun x => by simp)) ?_
          simp only [setTask_nFuts, h2.2.2]; exact h1.2
  | started =>
    simp only [step] at hs
    split at hs
    · contradiction
    · rename_i t hr
      split at hs
      · contradiction
      · split at hs
        · simp only [Option.some.injEq, Prod.mk.injEq] at hs
          obtain ⟨rfl, _⟩ := hs
          exact wf_frame h (frame_resolveFut _ _ _)
        all_goals
          simp only [Option.some.injEq, Prod.mk.injEq] at hs
          obtain ⟨rfl, _⟩ := hs; exact h
  | handleCancel u =>
    simp only [step] at hs
    split at hs
    · contradiction
    · simp only [Option.some.injEq, Prod.mk.injEq] at hs
      obtain ⟨rfl, _⟩ := hs
      split
      · exact h
      · exact wf_cframe h (cframe_cancelScope _ _ _)
  | handleWait u =>
    simp only [step] at hs
    split at hs
    · contradiction
    · rename_i t hr
      split at hs
      · contradiction
      · split at hs
        · simp only [Option.some.injEq, Prod.mk.injEq] at hs
          obtain ⟨rfl, _⟩ := hs
          exact wf_doYield h hr
        · simp only [Option.some.injEq, Prod.mk.injEq] at hs
          obtain ⟨rfl, _⟩ := hs
          have h1 := WFR.mkFut ⟨h, hr⟩
          refine WFR.blockOn (h1.1.setTask_inert u _ (fun x => by simp)) ?_
          simpa using h1.2
  | finish o' =>
    simp only [step] at hs
    split at hs
    · contradiction
    · rename_i t hr
      split at hs
      · contradiction
      · split at hs
        · contradiction
        · split at hs
          · contradiction
          · rename_i st1 hf
            simp only [Option.some.injEq, Prod.mk.injEq] at hs
            obtain ⟨rfl, _⟩ := hs
            exact wf_finishTask ⟨h, hr⟩ hf

theorem wf_reach {st : State} (h : Reach st) : WF st :=
  Reachable.invariant WF (fun s (hs : s = init) => by rw [hs]; exact wf_init)
    (fun _ _ _ _ hi hs => wf_step hi hs) st h

/-! ### fuel: chains are short -/

theorem nodup_length_le_of_lt : ∀ (n : Nat) (l : List Nat), l.Nodup → (∀ x ∈ l, x < n) → l.length ≤ n
  | 0, l, _, hb => by
    cases l with
    | nil => simp
    | cons a l => exact absurd (hb a (by simp)) (by omega)
  | n + 1, l, hn, hb => by
    have h1 : (l.erase n).Nodup := hn.erase n
    have h2 : ∀ x ∈ l.erase n, x < n := by
      intro x hx
      have := (hn.mem_erase_iff).mp hx
      have := hb x this.2
      omega
    have ih := nodup_length_le_of_lt n (l.erase n) h1 h2
    have : l.length ≤ (l.erase n).length + 1 := by
      rw [List.length_erase]; split <;> omega
    omega

theorem chain_length_le {st : State} (h : WF st) (s : Nat) :
    ((st.scopes s).chain).length ≤ st.nScopes :=
  nodup_length_le_of_lt _ _ (h.chain_nodup s) (fun _ hx => h.chain_lt hx)

end AnyioModel.Kernel
