/-
Delivery of cancellation, part 18: cancellation is delivered synchronously.

`QR tb f c a b` relates a state `a` to a later state `b` of the same transition, for a task `tb`
that is blocked on `f` in scope `c` (and is not the running task): if `tb` is still blocked on `f`
in `b`, then it was so in `a`, and every active cancelled scope `x` whose delivery reaches `c` in
`b` was already cancelled, active and reaching `c` in `a`.  In other words: no transition cancels a
scope and leaves a task blocked within its reach — `cancel()` delivers at once
(`qr_cancelScope`) — and no transition moves a blocked task into the reach of a cancelled scope.

This file: the relation and the helpers of `Kernel/Scope.lean`.
-/
import AnyioModel.Kernel.DeliverInv17

namespace AnyioModel.Kernel

structure QR (tb f c : Nat) (a b : State) : Prop where
  bl : (b.tasks tb).st = .blocked f → (a.tasks tb).st = .blocked f
  mem : (b.tasks tb).st = .blocked f → tb ∈ (b.scopes c).tasks → tb ∈ (a.scopes c).tasks
  sit : (b.tasks tb).st = .blocked f → tb ∈ (b.scopes c).tasks →
    ∀ x, (b.scopes x).cancelCalled = true → (b.scopes x).active = true → reachDown b x c →
      (a.scopes x).cancelCalled = true ∧ (a.scopes x).active = true ∧ reachDown a x c

theorem QR.refl (tb f c : Nat) (a : State) : QR tb f c a a :=
  ⟨fun h => h, fun _ h => h, fun _ _ _ h1 h2 h3 => ⟨h1, h2, h3⟩⟩

theorem QR.trans {tb f c : Nat} {a b d : State} (h1 : QR tb f c a b) (h2 : QR tb f c b d) :
    QR tb f c a d := by
  refine ⟨fun h => h1.bl (h2.bl h), fun h hm => h1.mem (h2.bl h) (h2.mem h hm), ?_⟩
  intro hb hm x hc ha hr
  obtain ⟨c1, a1, r1⟩ := h2.sit hb hm x hc ha hr
  exact h1.sit (h2.bl hb) (h2.mem hb hm) x c1 a1 r1

/-- updates under which the reach of every cancelled scope can only shrink -/
theorem QR.of_shrink {tb f c : Nat} {a b : State}
    (hb : (b.tasks tb).st = .blocked f → (a.tasks tb).st = .blocked f)
    (hm : (b.tasks tb).st = .blocked f → ∀ s, tb ∈ (b.scopes s).tasks → tb ∈ (a.scopes s).tasks)
    (hs : ∀ s, (b.scopes s).active = true → (a.scopes s).active = true ∧
      (b.scopes s).parent = (a.scopes s).parent ∧
      ((b.scopes s).shield = false → (a.scopes s).shield = false) ∧
      (b.scopes s).cancelCalled = (a.scopes s).cancelCalled) : QR tb f c a b := by
  refine ⟨hb, fun h hm' => hm h c hm', ?_⟩
  intro h1 h2 x hc ha hr
  refine ⟨by rw [← (hs x ha).2.2.2]; exact hc, (hs x ha).1, ?_⟩
  clear hc ha h1 h2
  induction hr with
  | refl => exact .refl
  | @step c' p hp hact hsh hcc _ ih =>
    obtain ⟨e1, e2, e3, e4⟩ := hs c' hact
    exact .step (by rw [← e2]; exact hp) e1 (e3 hsh) (by rw [← e4]; exact hcc) ih

theorem QR.of_frame {tb f c : Nat} {a b : State} (fr : Frame a b) : QR tb f c a b :=
  QR.of_shrink (fun h => (fr.tasks tb).st_blocked h)
    (fun _ s h => by rw [← (fr.scopes s).tasks]; exact h)
    (fun s h => ⟨by rw [← (fr.scopes s).active]; exact h, (fr.scopes s).parent,
      fun h' => by rw [← (fr.scopes s).shield]; exact h', (fr.scopes s).cancelCalled⟩)

theorem QR.of_fields {tb f c : Nat} {a b : State} (h1 : b.tasks = a.tasks)
    (h2 : b.scopes = a.scopes) : QR tb f c a b :=
  QR.of_shrink (fun h => by rw [← h1]; exact h) (fun _ s h => by rw [← h2]; exact h)
    (fun s h => by rw [h2] at h ⊢; exact ⟨h, rfl, fun h' => h', rfl⟩)

theorem qr_setTask {tb f c : Nat} (a : State) (t : Nat) (g : Task → Task)
    (hg : ∀ x, (g x).st = .blocked f → x.st = .blocked f) : QR tb f c a (a.setTask t g) := by
  refine QR.of_shrink ?_ (fun _ s h => h) (fun s h => ⟨h, rfl, fun h' => h', rfl⟩)
  intro h
  by_cases ht : tb = t
  · subst ht; simp only [setTask_tasks, upd_same] at h; exact hg _ h
  · simpa [ht] using h

theorem qr_setScope {tb f c : Nat} (a : State) (s : Nat) (g : Scope → Scope)
    (hg : ∀ x, ((g x).active = true → x.active = true ∧ (g x).parent = x.parent ∧
      ((g x).shield = false → x.shield = false) ∧ (g x).cancelCalled = x.cancelCalled) ∧
      (∀ v, v ∈ (g x).tasks → v ∈ x.tasks)) : QR tb f c a (a.setScope s g) := by
  refine QR.of_shrink (fun h => h) ?_ ?_
  · intro _ x h
    by_cases hx : x = s
    · subst hx; simp only [setScope_scopes, upd_same] at h; exact (hg _).2 _ h
    · simpa [hx] using h
  · intro x h
    by_cases hx : x = s
    · subst hx; simp only [setScope_scopes, upd_same] at h ⊢; exact (hg _).1 h
    · have e : (a.setScope s g).scopes x = a.scopes x := by simp [hx]
      rw [e] at h ⊢
      exact ⟨h, rfl, fun h' => h', rfl⟩

theorem qr_setGroup {tb f c : Nat} (a : State) (g : Nat) (k : Group → Group) :
    QR tb f c a (a.setGroup g k) := QR.of_fields rfl rfl

theorem qr_setFut {tb f c : Nat} (a : State) (x : Nat) (v : FutSt) :
    QR tb f c a (a.setFut x v) := QR.of_fields rfl rfl

theorem qr_schedule {tb f c : Nat} (a : State) (h : Handle) : QR tb f c a (a.schedule h) :=
  QR.of_fields rfl rfl

theorem qr_unschedule {tb f c : Nat} (a : State) (h : Handle) : QR tb f c a (a.unschedule h) :=
  QR.of_fields rfl rfl

theorem qr_newFut {tb f c : Nat} (a : State) : QR tb f c a (newFut a).1 :=
  QR.of_fields rfl rfl

/-- the new scope is not active and holds no task -/
theorem qr_newScope {tb f c : Nat} (a : State) (sh : Bool) (d : Option Nat) :
    QR tb f c a (newScope a sh d).1 := by
  unfold newScope
  refine QR.of_shrink (fun h => h) ?_ ?_
  · intro _ x h
    by_cases hx : x = a.nScopes
    · subst hx; simp at h
    · simpa [hx] using h
  · intro x h
    by_cases hx : x = a.nScopes
    · subst hx; simp at h
    · have e : (upd a.scopes a.nScopes
          ({ exists_ := true, shield := sh, deadline := d } : Scope)) x = a.scopes x := by simp [hx]
      simp only [setScope_scopes] at h ⊢
      rw [e] at h ⊢
      exact ⟨h, rfl, fun h' => h', rfl⟩

/-- peel one pure update off the later state -/
macro "qr0" : tactic => `(tactic| first
  | exact QR.refl _ _ _ _
  | assumption
  | refine QR.trans ?_ (qr_setTask _ _ _ (fun x => by simp))
  | refine QR.trans ?_ (qr_setScope _ _ _ (fun x => by simp))
  | refine QR.trans ?_ (qr_setGroup _ _ _)
  | refine QR.trans ?_ (qr_setFut _ _ _)
  | refine QR.trans ?_ (qr_schedule _ _)
  | refine QR.trans ?_ (qr_unschedule _ _)
  | refine QR.trans ?_ (qr_newFut _)
  | refine QR.trans ?_ (qr_newScope _ _ _))

/-! ### `cancel()` delivers at once -/

/-- what the cancel machinery needs to know about the state it runs in -/
structure QH (tb f : Nat) (st : State) : Prop where
  tree : Tree st
  host : ∀ s, (st.scopes s).active = true → (st.scopes s).host.isSome = true
  bw : BW st
  bm : (st.tasks tb).st = .blocked f → (st.tasks tb).mustCancel = false
  run : st.running ≠ some tb

theorem qr_cancelScope {tb f c : Nat} {a : State} (q : QH tb f a) (s : Nat) (b : Bool) :
    QR tb f c a (cancelScope a s b) := by
  rw [cancelScope_eq]
  split
  · exact QR.refl _ _ _ _
  · rename_i hcc
    have hs := cancelPre_scope_self a s b
    have ho := fun x (hx : x ≠ s) => cancelPre_scope_other a s b hx
    have ht : (cancelPre a s b).tasks = a.tasks := by
      unfold cancelPre; simp only []; split <;> rfl
    have hrn : (cancelPre a s b).running = a.running := by
      unfold cancelPre; simp only []; split <;> rfl
    -- scopes other than `s` read the same; the reach of every other origin can only shrink
    have key : ∀ x, ((cancelPre a s b).scopes x).parent = (a.scopes x).parent ∧
        ((cancelPre a s b).scopes x).active = (a.scopes x).active ∧
        ((cancelPre a s b).scopes x).shield = (a.scopes x).shield ∧
        ((cancelPre a s b).scopes x).tasks = (a.scopes x).tasks ∧
        (((cancelPre a s b).scopes x).cancelCalled = false → (a.scopes x).cancelCalled = false) := by
      intro x
      by_cases hx : x = s
      · subst hx
        refine ⟨hs.1, hs.2.1, hs.2.2.1, hs.2.2.2.2.1, ?_⟩
        intro h; rw [hs.2.2.2.1] at h; cases h
      · rw [ho x hx]; exact ⟨rfl, rfl, rfl, rfl, fun h => h⟩
    have hrd : ∀ x c', reachDown (cancelPre a s b) x c' → reachDown a x c' := by
      intro x c' hr
      induction hr with
      | refl => exact .refl
      | @step c'' p hp hact hsh hc _ ih =>
        obtain ⟨e1, e2, e3, _, e5⟩ := key c''
        exact .step (by rw [← e1]; exact hp) (by rw [← e2]; exact hact) (by rw [← e3]; exact hsh)
          (e5 hc) ih
    have build : ∀ m, Frame (cancelPre a s b) m →
        ((m.tasks tb).st = .blocked f → tb ∈ (m.scopes c).tasks →
          (m.scopes s).active = true → reachDown m s c → False) → QR tb f c a m := by
      intro m fr hfalse
      refine ⟨fun h => by rw [← ht]; exact (fr.tasks tb).st_blocked h, ?_, ?_⟩
      · intro _ h
        rw [(fr.scopes c).tasks, (key c).2.2.2.1] at h; exact h
      · intro hb hm x hc ha hr
        by_cases hx : x = s
        · subst hx; exact (hfalse hb hm ha hr).elim
        · have hr' : reachDown (cancelPre a s b) x c :=
            reachDown_congr (fun y => ⟨((fr.scopes y).parent).symm, ((fr.scopes y).active).symm,
              ((fr.scopes y).shield).symm, ((fr.scopes y).cancelCalled).symm⟩) hr
          rw [(fr.scopes x).cancelCalled, ho x hx] at hc
          rw [(fr.scopes x).active, ho x hx] at ha
          exact ⟨hc, ha, hrd x c hr'⟩
    split
    · -- the scope has a host: `_deliver_cancellation` runs now and hits the blocked task
      refine build (deliver (cancelPre a s b) s) (frame_deliver _ _) ?_
      intro hb hm _ hr
      have fr := frame_deliver (cancelPre a s b) s
      have hb' : ((cancelPre a s b).tasks tb).st = .blocked f := (fr.tasks tb).st_blocked hb
      have hm' : tb ∈ ((cancelPre a s b).scopes c).tasks := by
        rw [← (fr.scopes c).tasks]; exact hm
      have hr' : reachDown (cancelPre a s b) s c :=
        reachDown_congr (fun y => ⟨((fr.scopes y).parent).symm, ((fr.scopes y).active).symm,
          ((fr.scopes y).shield).symm, ((fr.scopes y).cancelCalled).symm⟩) hr
      have hba : (a.tasks tb).st = .blocked f := by rw [← ht]; exact hb'
      have hh : hitSet (cancelPre a s b) s tb := by
        refine ⟨c, hr', hm', (hitCancels_iff _ c tb).mpr ⟨?_, ?_, ?_, .inr ?_, ?_⟩⟩
        · rw [hb']; simp
        · rw [ht]; exact q.bm hba
        · rw [hrn]; exact q.run
        · rw [hb']; simp
        · intro g; rw [hb']; simp
      have r := (deliver_task (tree_cancelPre q.tree s b) ((dw_cancelPre a s b).bw q.bw) s tb).1 hh
      have := (r.blocked f hb').1
      rw [hb] at this; cases this
    · -- no host: the scope is not active
      rename_i hnh
      refine build (cancelPre a s b) (Frame.refl _) ?_
      intro _ _ ha _
      rw [hs.2.1] at ha
      have := q.host s ha
      rw [hs.2.2.2.2.2.2.1] at hnh
      exact hnh this

end AnyioModel.Kernel
