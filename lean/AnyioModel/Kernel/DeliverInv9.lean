/-
Delivery of cancellation, part 9: `SR` (see part 8) for the helpers of `Kernel/Step.lean` and for
every transition.  `WF` is threaded only to know that no handle of a not yet allocated scope is
scheduled when a scope is allocated.
-/
import AnyioModel.Kernel.DeliverInv8

namespace AnyioModel.Kernel

theorem WF.noFresh {st : State} (w : WF st) : Handle.deliver st.nScopes ∉ st.ready ++ st.cur := by
  intro h
  rcases List.mem_append.mp h with h | h
  · have := w.ready_ok _ h; simp [HandleOk] at this
  · have := w.cur_ok _ h; simp [HandleOk] at this

/-- only fields that `SR` does not read change -/
theorem SR.of_fields {a b : State} (h1 : b.tasks = a.tasks) (h2 : b.scopes = a.scopes)
    (h3 : b.ready = a.ready) (h4 : b.cur = a.cur) (h5 : b.timers = a.timers) : SR a b := by
  refine SR.of_parts (fun _ => by rw [h3]) (fun _ => by rw [h4]) (fun _ h => .inl (h5 ▸ h))
    (fun _ _ h => by rw [h2]; exact h) (fun _ _ h1' h2' => by rw [h1] at h1' h2'; exact ⟨h1', h2'⟩)

theorem sr_doYield (a : State) (t : Nat) : SR a (doYield a t) := by
  unfold doYield
  refine SR.trans (b := (a.setTask t (fun x => { x with st := .yielded })).schedule (.step t)) ?_
    (SR.of_fields rfl rfl rfl rfl rfl)
  repeat sr0

theorem sr_blockOn (a : State) (t f : Nat) : SR a (blockOn a t f) := by
  unfold blockOn
  simp only []
  split
  · rename_i hm
    refine SR.trans ?_ (sr_resolveFut _ _ _)
    refine SR.of_parts (fun _ => Iff.rfl) (fun _ => Iff.rfl) (fun _ h => .inl h)
      (fun _ _ h => h) ?_
    intro u g hb hmc
    by_cases hu : u = t
    · subst hu; simp at hmc
    · simp only [setTask_tasks, upd_other _ _ _ _ hu] at hb hmc
      exact ⟨hb, hmc⟩
  · rename_i hm
    refine SR.of_parts (fun _ => Iff.rfl) (fun _ => Iff.rfl) (fun _ h => .inl h)
      (fun _ _ h => h) ?_
    intro u g hb hmc
    by_cases hu : u = t
    · subst hu; exact absurd hmc hm
    · simp only [setTask_tasks, upd_other _ _ _ _ hu] at hb hmc
      exact ⟨hb, hmc⟩

theorem sr_foldl_resolveFut (a : State) (l : List Nat) (v : FutSt) :
    SR a (l.foldl (fun st f => resolveFut st f v) a) := by
  induction l generalizing a with
  | nil => exact SR.refl _
  | cons f l ih => exact (sr_resolveFut a f v).trans (ih _)

theorem sr_spawnCore (a : State) (g gs hs : Nat) (sf : Option Nat) :
    SR a (spawnCore a g gs hs sf) := by
  unfold spawnCore
  simp only []
  refine SR.trans (b := { a.setTask a.nTasks (fun _ =>
      { st := .created, hasState := true, scope := some gs, group := some g,
        startFut := sf, hscope := some hs }) with nTasks := a.nTasks + 1 }) ?_ ?_
  · refine SR.trans (b := a.setTask a.nTasks (fun _ =>
        { st := .created, hasState := true, scope := some gs, group := some g,
          startFut := sf, hscope := some hs })) ?_ (SR.of_fields rfl rfl rfl rfl rfl)
    repeat sr0
  · repeat sr0

theorem sr_spawnTail (a : State) (gs : Nat) : SR a (spawnTail a gs) := by
  unfold spawnTail
  split
  · rename_i hc
    split
    · exact SR.refl _
    · exact sr_deliver _ _ hc
  · split
    · exact SR.refl _
    · exact sr_restartInParent _ _

theorem sr_spawn (a : State) (g : Nat) (sf : Option Nat)
    (hok : Handle.deliver a.nScopes ∉ a.ready ++ a.cur) : SR a (spawn a g sf).1 := by
  rw [spawn_eq]
  simp only []
  exact ((sr_newScope a false none hok).trans (sr_spawnCore _ _ _ _ _)).trans (sr_spawnTail _ _)

/-- peel one layer off the later state -/
macro "sr1" : tactic => `(tactic| first
  | sr0
  | refine SR.trans ?_ (sr_doYield _ _)
  | refine SR.trans ?_ (sr_blockOn _ _ _)
  | refine SR.trans ?_ (sr_foldl_resolveFut _ _ _)
  | refine SR.trans ?_ (sr_cancelScope _ _ _)
  | refine SR.trans ?_ (sr_resolveFut _ _ _)
  | refine SR.trans ?_ (sr_taskCancel _ _ _)
  | refine SR.trans ?_ (sr_taskUncancel _ _ _)
  | refine SR.trans ?_ (sr_armTimeout _ _)
  | refine SR.trans ?_ (sr_enterScope ‹_›)
  | refine SR.trans ?_ (sr_exitScope ‹_›)
  | refine SR.trans ?_ (sr_setShield _ _ _)
  | refine SR.trans ?_ (sr_setDeadline _ _ _)
  | refine SR.trans ?_ (sr_restartInParent _ _))

macro "sr" : tactic => `(tactic| repeat sr1)

/-! ### `TaskGroup.__aexit__`, `task_done`, the end of a coroutine -/

theorem sr_aexitFinish {st st' : State} {t g : Nat} {ev : ExcVal} {o : Out}
    (he : aexitFinish st t g ev = some (st', o)) : SR st st' := by
  unfold aexitFinish at he
  simp only [] at he
  split at he
  · contradiction
  · simp only [Option.some.injEq, Prod.mk.injEq] at he
    obtain ⟨rfl, _⟩ := he
    sr

theorem sr_aexitLoop {st st' : State} {t g ws : Nat} {ev : ExcVal} {o : Out}
    (he : aexitLoop st t g ws ev = some (st', o)) : SR st st' := by
  unfold aexitLoop at he
  split at he
  · simp only [Option.some.injEq, Prod.mk.injEq] at he
    obtain ⟨rfl, _⟩ := he
    sr
  · split at he
    · contradiction
    · refine SR.trans ?_ (sr_aexitFinish he)
      sr

theorem sr_aexitAfterChk {st st' : State} {t g : Nat} {ev : ExcVal} {o : Out} (w : WFR st t)
    (he : aexitAfterChk st t g ev = some (st', o)) : SR st st' := by
  unfold aexitAfterChk at he
  split at he
  · simp only [] at he
    split at he
    · contradiction
    · refine SR.trans ?_ (sr_aexitLoop he)
      refine SR.trans ?_ (sr_enterScope ‹_›)
      exact sr_newScope _ _ _ w.1.noFresh
  · exact sr_aexitFinish he

theorem sr_taskDoneTail {st st' : State} {g u : Nat} {o : Outcome} {sfo : Option Nat}
    (he : taskDoneTail st g u o sfo = some st') : SR st st' := by
  unfold taskDoneTail at he
  simp only [] at he
  repeat' (split at he)
  all_goals
    simp only [Option.some.injEq] at he
    subst he
    sr

theorem sr_runTaskDone {st st' : State} {u : Nat}
    (he : runTaskDone st u = some st') : SR st st' := by
  rw [runTaskDone_eq] at he
  split at he
  · refine SR.trans ?_ (sr_taskDoneTail he)
    unfold taskDoneMid
    split
    · split <;> sr
    · sr
  · contradiction

theorem sr_setTaskRunning (st : State) (t : Nat) (f : Task → Task) (r : Option Nat)
    (hf : ∀ x, ((f x).st = x.st ∧ (f x).mustCancel = x.mustCancel) ∨ (f x).mustCancel = false ∨
      ∀ g, (f x).st ≠ .blocked g) : SR st { st.setTask t f with running := r } :=
  SR.trans (sr_setTask st t f hf) (SR.of_fields rfl rfl rfl rfl rfl)

theorem sr_finishTask {st st' : State} {t : Nat} {o : Outcome}
    (he : finishTask st t o = some st') : SR st st' := by
  unfold finishTask at he
  simp only [] at he
  split at he
  · split at he
    · contradiction
    · simp only [Option.some.injEq] at he
      subst he
      refine SR.trans ?_ (sr_schedule _ _ (fun o e => by cases e))
      refine SR.trans ?_ (sr_setTaskRunning _ _ _ _ (fun x => by simp))
      sr
  · simp only [Option.some.injEq] at he
    subst he
    exact sr_setTaskRunning _ _ _ _ (fun x => by simp)

/-! ### resuming a task -/

theorem sr_continueLib {st st' : State} {t : Nat} {r : Resume} {o : Out} (w : WFR st t)
    (he : continueLib st t r = some (st', o)) : SR st st' := by
  unfold continueLib at he
  split at he
  · simp only [Option.some.injEq, Prod.mk.injEq] at he
    obtain ⟨rfl, _⟩ := he; exact SR.refl _
  · -- chkIf
    split at he <;>
    · simp only [Option.some.injEq, Prod.mk.injEq] at he
      obtain ⟨rfl, _⟩ := he; sr
  · -- shChk
    split at he
    · contradiction
    · simp only [Option.some.injEq, Prod.mk.injEq] at he
      obtain ⟨rfl, _⟩ := he; sr
  · -- sleeping
    simp only [Option.some.injEq, Prod.mk.injEq] at he
    obtain ⟨rfl, _⟩ := he; sr
  · -- aexitChk
    split at he
    · contradiction
    · rename_i st1 x hex
      have w1 := w.exitScope hex
      split at he
      · refine SR.trans ?_ (sr_aexitAfterChk w1 he); sr
      · split at he
        · refine SR.trans ?_ (sr_aexitAfterChk (w1.cframe (cframe_cancelScope _ _ _)) he); sr
        · contradiction
  · -- aexitWait
    simp only [] at he
    split at he
    · refine SR.trans ?_ (sr_aexitLoop he); sr
    · split at he
      · refine SR.trans ?_ (sr_aexitLoop he); sr
      · contradiction
  · -- startWait
    split at he
    · simp only [Option.some.injEq, Prod.mk.injEq] at he
      obtain ⟨rfl, _⟩ := he; sr
    · simp only [] at he
      split at he
      · contradiction
      · rename_i hs hhs
        split at he
        · have w1 := w.cframe (cframe_cancelScope st hs false)
          have h1 : SR st (newScope (cancelScope st hs false) true none).1 :=
            (sr_cancelScope st hs false).trans (sr_newScope _ _ _ w1.1.noFresh)
          split at he
          · contradiction
          · split at he <;>
            · simp only [Option.some.injEq, Prod.mk.injEq] at he
              obtain ⟨rfl, _⟩ := he; sr
        · simp only [Option.some.injEq, Prod.mk.injEq] at he
          obtain ⟨rfl, _⟩ := he; sr
  · -- startJoin
    split at he
    · contradiction
    · simp only [] at he
      split at he <;>
      · simp only [Option.some.injEq, Prod.mk.injEq] at he
        obtain ⟨rfl, _⟩ := he; sr

theorem sr_runTask {st st' : State} {t : Nat} {o : Out} (w : WF st) (hr : st.running = none)
    (hlt : t < st.nTasks) (hnd : (st.tasks t).st ≠ .done)
    (he : runTask st t = some (st', o)) : SR st st' := by
  have w1 := wfr_runPre w hr hlt hnd
  have h0 : SR st { st.setTask t (fun x => { x with st := .running, mustCancel := false }) with
      running := some t } := sr_setTaskRunning _ _ _ _ (fun x => by simp)
  unfold runTask at he
  simp only [] at he
  split at he
  · split at he
    · split at he
      · contradiction
      · simp only [Option.some.injEq, Prod.mk.injEq] at he
        obtain ⟨rfl, _⟩ := he; sr
    · simp only [Option.some.injEq, Prod.mk.injEq] at he
      obtain ⟨rfl, _⟩ := he
      refine SR.trans ?_ (sr_schedule _ _ (fun o e => by cases e))
      refine SR.trans ?_ (sr_setTaskRunning _ _ _ _ (fun x => by simp))
      exact h0
  · exact h0.trans (sr_continueLib w1 he)

end AnyioModel.Kernel
