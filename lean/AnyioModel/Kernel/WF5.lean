/-
`WF`, part 5: updates that do not touch the forest (`wf_congr` and its instances), allocation of
new scopes / futures / groups, `doYield`, `blockOn`.
-/
import AnyioModel.Kernel.WF4

namespace AnyioModel.Kernel

/-- `b` agrees with `a` on everything `WF` looks at, except that task states may have moved
(not from/to `created`, not away from `done`) -/
theorem wf_congr {a b : State} (h : WF a)
    (nT : b.nTasks = a.nTasks) (nS : a.nScopes ≤ b.nScopes) (nF : a.nFuts ≤ b.nFuts)
    (nG : a.nGroups ≤ b.nGroups)
    (fw : ∀ f t, b.futWaiter f = some t → a.futWaiter f = some t ∨ (f < b.nFuts ∧ t < b.nTasks))
    (rd : ∀ x ∈ b.ready, x ∈ a.ready ∨ HandleOk a x) (cu : ∀ x ∈ b.cur, x ∈ a.cur ∨ HandleOk a x)
    (ti : ∀ x ∈ b.timers, x ∈ a.timers ∨ HandleOk a x.2)
    (tk : ∀ t, (b.tasks t).hasState = (a.tasks t).hasState ∧ (b.tasks t).scope = (a.tasks t).scope ∧
      (b.tasks t).hscope = (a.tasks t).hscope ∧
      (b.tasks t).group = (a.tasks t).group ∧ (b.tasks t).startFut = (a.tasks t).startFut ∧
      ((b.tasks t).outcome = (a.tasks t).outcome ∨ ((b.tasks t).st = .done ∧ t < a.nTasks)))
    (tkst : ∀ t, ((a.tasks t).st = .done → (b.tasks t).st = .done) ∧
      ((b.tasks t).st = .created → (a.tasks t).st = .created) ∧
      (a.nTasks ≤ t → (b.tasks t).st = (a.tasks t).st))
    (run : ∀ t, b.running = some t ↔ (b.tasks t).st = .running)
    (scx : ∀ s, (b.scopes s).exists_ = true ↔ s < b.nScopes)
    (scd : ∀ s, (b.scopes s).deadline.isSome → (b.scopes s).exists_ = true)
    (sc : ∀ s,
      (b.scopes s).parent = (a.scopes s).parent ∧ (b.scopes s).active = (a.scopes s).active ∧
      (b.scopes s).entered = (a.scopes s).entered ∧ (b.scopes s).host = (a.scopes s).host ∧
      (b.scopes s).tasks = (a.scopes s).tasks ∧ (b.scopes s).children = (a.scopes s).children ∧
      (b.scopes s).chain = (a.scopes s).chain)
    (gr : ∀ g, (g < a.nGroups → (b.groups g).scope = (a.groups g).scope) ∧
      (∀ t ∈ (b.groups g).tasks, t ∈ (a.groups g).tasks) ∧
      (∀ t ∈ (b.groups g).spawned, t ∈ (a.groups g).spawned))
    (grs : ∀ g, a.nGroups ≤ g → g < b.nGroups → (b.groups g).scope < b.nScopes) :
    WF b := by
  have ok : ∀ x, HandleOk a x → HandleOk b x :=
    fun x hx => hx.mono (by omega) (by omega) (by omega)
  constructor
  · intro t ht
    have := h.task_dflt t (by omega)
    have e := tk t
    have eo : (b.tasks t).outcome = (a.tasks t).outcome := by
      rcases e.2.2.2.2.2 with eo | eo
      · exact eo
      · omega
    rw [(tkst t).2.2 (by omega), e.1, e.2.1, e.2.2.1, e.2.2.2.1, e.2.2.2.2.1, eo]
    exact this
  · exact scx
  · exact scd
  · intro g hg
    have := h.group_dflt g (by omega)
    have e := gr g
    rw [this.1] at e; rw [this.2] at e
    exact ⟨List.eq_nil_iff_forall_not_mem.mpr (fun t ht => by simpa using e.2.1 t ht),
      List.eq_nil_iff_forall_not_mem.mpr (fun t ht => by simpa using e.2.2 t ht)⟩
  · intro x hx; rcases rd x hx with hx | hx
    · exact ok x (h.ready_ok x hx)
    · exact ok x hx
  · intro x hx; rcases cu x hx with hx | hx
    · exact ok x (h.cur_ok x hx)
    · exact ok x hx
  · intro x hx; rcases ti x hx with hx | hx
    · exact ok _ (h.timers_ok x hx)
    · exact ok _ hx
  · intro f t hf
    rcases fw f t hf with hf | hf
    · have := h.futWaiter_lt f t hf; omega
    · exact hf
  · intro t s; rw [(tk t).2.2.1]; intro hs; have := h.hscope_lt t s hs; omega
  · intro g hg
    by_cases hga : g < a.nGroups
    · rw [(gr g).1 hga]; have := h.group_scope_lt g hga; omega
    · exact grs g (by omega) hg
  · intro g t ht; rw [nT]
    exact h.group_tasks_lt g t (ht.imp ((gr g).2.1 t) ((gr g).2.2 t))
  · intro t g; rw [(tk t).2.2.2.1]; intro hg; have := h.task_group_lt t g hg; omega
  · intro s; have e := sc s
    rw [e.2.2.1, e.2.1, e.2.2.2.1, e.2.2.2.2.1, e.2.2.2.2.2.1, e.1,
      e.2.2.2.2.2.2]
    exact h.not_entered s
  · intro s; rw [(sc s).2.2.1]; intro he
    have := h.entered_lt he
    exact (scx s).mpr (by omega)
  · intro s; rw [(sc s).2.2.1, (sc s).2.1]; exact h.active_entered s
  · intro p c; rw [(sc p).2.2.2.2.2.1, (sc c).2.1, (sc c).1]; exact h.child_spec p c
  · intro p c; rw [(sc p).2.2.2.2.2.1, (sc c).2.1, (sc c).1]; exact h.child_conv p c
  · intro s; rw [(sc s).2.2.1, (sc s).2.2.2.2.2.2, (sc s).1]
    intro he
    rw [h.chain_spec s he]
    cases (a.scopes s).parent with
    | none => rfl
    | some p => simp only [(sc p).2.2.2.2.2.2]
  · intro s x; rw [(sc s).2.2.2.2.2.2, (sc x).2.2.1]; exact h.chain_entered s x
  · intro s; rw [(sc s).2.2.2.2.2.2]; exact h.chain_nodup s
  · intro s p; rw [(sc s).1, (sc p).2.2.1]; exact h.parent_entered s p
  · intro t s; rw [(tk t).1, (tk t).2.1]; exact h.task_scope t s
  · intro s t; rw [(sc s).2.2.2.2.1, (tk t).1, (tk t).2.1]; exact h.tasks_mem s t
  · intro s; rw [(sc s).2.2.2.2.1]; exact h.tasks_nodup s
  · intro s; rw [(sc s).2.2.2.2.2.1]; exact h.children_nodup s
  · intro s; rw [(sc s).2.2.2.1, (sc s).2.1]; exact h.host_active s
  · intro s t; rw [(sc s).2.2.2.1, (tk t).1, (tk t).2.1]
    intro hh
    rcases h.host_scope s t hh with ⟨h1, s0, h2, h3⟩ | h1
    · exact .inl ⟨h1, s0, h2, by rw [(sc s0).2.2.2.2.2.2]; exact h3⟩
    · exact .inr ((tkst t).1 h1)
  · intro s t; rw [(sc s).2.2.2.1]
    intro hh hc; exact h.host_started s t hh ((tkst t).2.1 hc)
  · exact run
  · intro t ho
    rcases (tk t).2.2.2.2.2 with eo | eo
    · rw [eo] at ho; exact (tkst t).1 (h.outcome_done t ho)
    · exact eo.1

/-! ### instances -/

theorem upd_task_field {α : Type} (tk : Nat → Task) (t u : Nat) (x : Task) (p : Task → α)
    (hp : p x = p (tk t)) : p (upd tk t x u) = p (tk u) := by
  by_cases hu : u = t
  · subst hu; simp [hp]
  · simp [hu]

theorem wf_setTask_inert {st : State} (h : WF st) (t : Nat) (f : Task → Task)
    (hf : ∀ x, (f x).st = x.st ∧ (f x).hasState = x.hasState ∧ (f x).scope = x.scope ∧
      (f x).hscope = x.hscope ∧ (f x).group = x.group ∧ (f x).startFut = x.startFut ∧
      (f x).outcome = x.outcome) : WF (st.setTask t f) := by
  have hf' := hf (st.tasks t)
  have e : ∀ u, ((st.setTask t f).tasks u).st = (st.tasks u).st ∧
      ((st.setTask t f).tasks u).hasState = (st.tasks u).hasState ∧
      ((st.setTask t f).tasks u).scope = (st.tasks u).scope ∧
      ((st.setTask t f).tasks u).hscope = (st.tasks u).hscope ∧
      ((st.setTask t f).tasks u).group = (st.tasks u).group ∧
      ((st.setTask t f).tasks u).startFut = (st.tasks u).startFut ∧
      ((st.setTask t f).tasks u).outcome = (st.tasks u).outcome := by
    intro u
    by_cases hu : u = t
    · subst hu; simpa using hf'
    · simp [hu]
  apply wf_congr h
  case tk => exact fun u => ⟨(e u).2.1, (e u).2.2.1, (e u).2.2.2.1, (e u).2.2.2.2.1, (e u).2.2.2.2.2.1, .inl (e u).2.2.2.2.2.2⟩
  case tkst => intro u; rw [(e u).1]; simp
  case run => intro u; rw [(e u).1]; exact h.running_spec u
  case scx => exact h.scope_exists
  case scd => exact h.deadline_exists
  case grs => intro g h1 h2; exact absurd h2 (by simp; exact h1)
  all_goals first | (exact fun _ h => Or.inl h) | (exact fun _ _ h => Or.inl h) | simp

theorem wf_setGroup_inert {st : State} (h : WF st) (g : Nat)
    (f : Group → Group)
    (hf : ∀ x, (f x).scope = x.scope ∧ (∀ t ∈ (f x).tasks, t ∈ x.tasks) ∧
      (∀ t ∈ (f x).spawned, t ∈ x.spawned)) :
    WF (st.setGroup g f) := by
  have hf' := hf (st.groups g)
  apply wf_congr h
  case tk => intro u; simp
  case tkst => intro u; simp
  case run => exact h.running_spec
  case scx => exact h.scope_exists
  case scd => exact h.deadline_exists
  case grs => intro g h1 h2; exact absurd h2 (by simp; exact h1)
  case gr =>
    intro g'
    by_cases hgg : g' = g
    · subst hgg; simpa using ⟨fun _ => hf'.1, hf'.2⟩
    · simp [hgg]
  all_goals first | (exact fun _ h => Or.inl h) | (exact fun _ _ h => Or.inl h) | simp

theorem wf_setScope_inert {st : State} (h : WF st) (s : Nat) (f : Scope → Scope)
    (hf : (f (st.scopes s)).exists_ = (st.scopes s).exists_ ∧
      ((f (st.scopes s)).deadline.isSome → (st.scopes s).deadline.isSome ∨
        (st.scopes s).exists_ = true) ∧
      (f (st.scopes s)).parent = (st.scopes s).parent ∧
      (f (st.scopes s)).active = (st.scopes s).active ∧
      (f (st.scopes s)).entered = (st.scopes s).entered ∧
      (f (st.scopes s)).host = (st.scopes s).host ∧ (f (st.scopes s)).tasks = (st.scopes s).tasks ∧
      (f (st.scopes s)).children = (st.scopes s).children ∧
      (f (st.scopes s)).chain = (st.scopes s).chain) : WF (st.setScope s f) := by
  have hf' := hf
  apply wf_congr h
  case tk => intro u; simp
  case tkst => intro u; simp
  case run => exact h.running_spec
  case scx =>
    intro x
    by_cases hx : x = s
    · subst hx; simp [hf']; exact h.scope_exists x
    · simp [hx]; exact h.scope_exists x
  case scd =>
    intro x
    by_cases hx : x = s
    · subst hx; simp only [setScope_scopes, upd_same, hf'.1]
      intro hd
      rcases hf'.2.1 hd with hd | hd
      · exact h.deadline_exists x hd
      · exact hd
    · simp [hx]; simpa using h.deadline_exists x
  case sc =>
    intro x
    by_cases hx : x = s
    · subst hx; simp [hf']
    · simp [hx]
  case grs => intro g h1 h2; exact absurd h2 (by simp; exact h1)
  all_goals first | (exact fun _ h => Or.inl h) | (exact fun _ _ h => Or.inl h) | simp

/-! ### allocation -/

theorem wf_newScope {st : State} (h : WF st) (sh : Bool) (d : Option Nat) :
    WF (newScope st sh d).1 := by
  have hd := h.scope_dflt (s := st.nScopes) (Nat.le_refl _)
  unfold newScope
  apply wf_congr h
  case tk => intro u; simp
  case tkst => intro u; simp
  case run => exact h.running_spec
  case scx =>
    intro x
    by_cases hx : x = st.nScopes
    · subst hx; simp
    · simp [hx]; rw [h.scope_exists x]; omega
  case scd =>
    intro x
    by_cases hx : x = st.nScopes
    · subst hx; simp
    · simp [hx]; simpa using h.deadline_exists x
  case sc =>
    intro x
    by_cases hx : x = st.nScopes
    · subst hx; simp [hd]
    · simp [hx]
  case grs => intro g h1 h2; exact absurd h2 (by simp; exact h1)
  all_goals first | (exact fun _ h => Or.inl h) | (exact fun _ _ h => Or.inl h) | simp

theorem wf_newFut {st : State} (h : WF st) : WF (newFut st).1 := by
  unfold newFut
  apply wf_congr h
  case tk => intro u; simp
  case tkst => intro u; simp
  case run => exact h.running_spec
  case scx => exact h.scope_exists
  case scd => exact h.deadline_exists
  case grs => intro g h1 h2; exact absurd h2 (by simp; exact h1)
  all_goals first | (exact fun _ h => Or.inl h) | (exact fun _ _ h => Or.inl h) | simp

/-! ### suspension of the running task -/

theorem wf_doYield {st : State} {t : Nat} (h : WF st) (hr : st.running = some t) :
    WF (doYield st t) := by
  have hst := (h.running_spec t).mp hr
  have hlt := h.running_lt hr
  unfold doYield
  apply wf_congr h
  case tk => intro u; by_cases hu : u = t <;> simp [hu]
  case tkst =>
    intro u; by_cases hu : u = t
    · subst hu; simp [hst]; omega
    · simp [hu]
  case run =>
    intro u; by_cases hu : u = t
    · subst hu; simp
    · simp [hu]
      intro hu'
      have := (h.running_spec u).mpr hu'
      simp_all
  case scx => exact h.scope_exists
  case scd => exact h.deadline_exists
  case grs => intro g h1 h2; exact absurd h2 (by simp; exact h1)
  case rd =>
    intro x hx
    simp at hx
    rcases hx with hx | rfl
    · exact .inl hx
    · exact .inr hlt
  all_goals first | (exact fun _ h => Or.inl h) | (exact fun _ _ h => Or.inl h) | simp

theorem wf_blockOn {st : State} {t f : Nat} (h : WF st) (hr : st.running = some t)
    (hf : f < st.nFuts) : WF (blockOn st t f) := by
  have hst := (h.running_spec t).mp hr
  have hlt := h.running_lt hr
  have h1 : WF { st.setTask t (fun x => { x with st := .blocked f }) with
      futWaiter := upd st.futWaiter f (some t), running := none } := by
    apply wf_congr h
    case tk => intro u; by_cases hu : u = t <;> simp [hu]
    case tkst =>
      intro u; by_cases hu : u = t
      · subst hu; simp [hst]; omega
      · simp [hu]
    case run =>
      intro u; by_cases hu : u = t
      · subst hu; simp
      · simp [hu]
        intro hu'
        have := (h.running_spec u).mpr hu'
        simp_all
    case scx => exact h.scope_exists
    case scd => exact h.deadline_exists
    case grs => intro g h1 h2; exact absurd h2 (by simp; exact h1)
    case fw =>
      intro g u hg
      by_cases hgf : g = f
      · subst hgf; simp at hg; subst hg; exact .inr ⟨hf, hlt⟩
      · simp [hgf] at hg; exact .inl hg
    all_goals first | (exact fun _ h => Or.inl h) | (exact fun _ _ h => Or.inl h) | simp
  unfold blockOn
  simp only []
  split
  · exact wf_frame (wf_setTask_inert h1 t _ (fun x => by simp)) (frame_resolveFut _ _ _)
  · exact h1

end AnyioModel.Kernel
