/-
Host invariants, part 4: `_spawn`, `task_done`, the end of a coroutine, task resumption.
-/
import AnyioModel.Kernel.HostInv3

namespace AnyioModel.Kernel

variable {K : Nat → Prop} {ext ext' : Option Nat} {pa pa' : Option (Nat × Nat)}

/-! ### `_spawn` -/

theorem hinv_spawn {st : State} (h : HInv K ext pa st) (w : WF st) (g : Nat) (sf : Option Nat) :
    HInv K ext pa (spawn st g sf).1 := by
  rw [spawn_eq]
  simp only []
  have w1 := wf_newScope w false none
  have i1 : HInv K ext pa (newScope st false none).1 := hinv_hsame h (hsame_newScope w false none)
  have i2 := hinv_newTask i1 g (st.groups g).scope (newScope st false none).2 sf
    (fun s hs => by have := w1.host_lt hs; omega)
    (fun g' hg' => by
      have : g' < st.nGroups := hg'
      have := w.group_scope_lt g' this
      show (st.groups g').scope ≠ st.nScopes
      omega)
  have e : spawnCore (newScope st false none).1 g (st.groups g).scope (newScope st false none).2 sf =
      (((newTaskSt (newScope st false none).1 g (st.groups g).scope (newScope st false none).2
        sf).schedule (.step (newScope st false none).1.nTasks)).setScope (st.groups g).scope
      (fun x => { x with tasks := (newScope st false none).1.nTasks :: x.tasks })).setGroup g
      (fun x => { x with tasks := (newScope st false none).1.nTasks :: x.tasks,
                         spawned := (newScope st false none).1.nTasks :: x.spawned }) := rfl
  rw [e]
  refine hinv_hsame i2 ?_
  refine HSame.trans ?_ (HSame.of_cframe (frame_spawnTail _ _).cframe)
  refine HSame.trans (hsame_loop (b := (newTaskSt (newScope st false none).1 g (st.groups g).scope
    (newScope st false none).2 sf).schedule (.step (newScope st false none).1.nTasks))
    rfl rfl rfl rfl rfl) ?_
  exact (hsame_setScope _ _ _ ⟨rfl, rfl, rfl, rfl⟩).trans (hsame_setGroup _ _ _ ⟨rfl, rfl, rfl⟩)

/-! ### `task_done` -/

theorem hinv_runTaskDone {st st' : State} {u : Nat} (h : HInv K ext pa st)
    (he : runTaskDone st u = some st') : HInv K ext pa st' := by
  obtain ⟨g, sc, o, hg, hsc, ho, ht⟩ := runTaskDone_shape he
  have i1 : HInv K ext pa (taskDoneCore st u g sc) := by
    unfold taskDoneCore
    exact hinv_clearScope (hinv_hsame h ((hsame_setScope _ _ _ (by simp)).trans
      (hsame_setGroup _ _ _ (by simp)))) u
  have i2 : HInv K ext pa (taskDoneMid (taskDoneCore st u g sc) g) := by
    unfold taskDoneMid
    split
    · split
      · exact hinv_hsame i1 (HSame.of_cframe (frame_resolveFut _ _ _).cframe)
      · exact i1
    · exact i1
  generalize taskDoneMid (taskDoneCore st u g sc) g = M at ht i2
  unfold taskDoneTail at ht
  simp only [] at ht
  repeat' (split at ht)
  all_goals
    simp only [Option.some.injEq] at ht
    subst ht
    first
    | exact i2
    | exact hinv_hsame i2 (HSame.of_cframe (frame_resolveFut _ _ _).cframe)
    | exact hinv_hsame i2 (HSame.of_cframe (cframe_cancelScope _ _ _))
    | exact hinv_hsame i2 (hsame_setGroup _ _ _ (by simp))
    | exact hinv_hsame i2 ((hsame_setGroup _ _ _ (by simp)).trans
        (HSame.of_cframe (cframe_cancelScope _ _ _)))

/-! ### the end of a coroutine -/

/-- the task record of the running task is closed -/
theorem hinv_endTask {x : State} {t : Nat} (h : HInv K ext none x) (hl : (x.tasks t).lib = .none)
    (F : Task → Task) (h1 : (F (x.tasks t)).scope = (x.tasks t).scope)
    (h2 : (F (x.tasks t)).hscope = (x.tasks t).hscope) (h3 : (F (x.tasks t)).lib = .none)
    (h4 : (F (x.tasks t)).st = .done) (hext : ext = none ∨ ext = some t) :
    HInv K none none (x.setTask t F) := by
  have hna : ∀ g, ¬ LibAexit (F (x.tasks t)).lib g := by
    intro g ⟨s, ev, hh⟩; rw [h3] at hh; rcases hh with hh | hh <;> cases hh
  refine hinv_setTask h t F h1 h2 (.inr (.inl h4)) ?_ (.inl rfl)
    (fun g hg => absurd hg (hna g)) ?_ (.inr h3) ?_ ?_ (fun g t0 hp => by cases hp) ?_ ?_
  · intro u hu _
    rcases hext with e | e
    · rw [e]; simp
    · rw [e]; simpa using hu
  · intro g ⟨s, ev, hh⟩; rw [hl] at hh; rcases hh with hh | hh <;> cases hh
  · intro s hs; rw [h3] at hs; cases hs
  · intro g s ev _ hh; rw [h3] at hh; rcases hh with hh | hh <;> cases hh
  · intro g u f hs; rw [h3] at hs; cases hs
  · intro hc; rw [h4] at hc; cases hc

theorem hw_finishTask {st st' : State} {t : Nat} {o : Outcome} (h : HW K none none st t)
    (hl : (st.tasks t).lib = .none) (he : finishTask st t o = some st') :
    HInv K none none st' := by
  unfold finishTask at he
  simp only [] at he
  split at he
  · rename_i hs hhs
    split at he
    · contradiction
    · rename_i st1 r hex
      simp only [Option.some.injEq] at he
      subst he
      have h1 : HW K none none (st.setTask t (fun x => { x with hexc := o, finished := true })) t :=
        h.hsame (hsame_setTask _ _ _ (by simp)) (h.w.setTask_inert t _ (fun x => by simp))
      have fr := frame_foldl_resolveFut (st.setTask t (fun x => { x with hexc := o, finished := true }))
        (st.tasks t).hwaiters .result
      have h2 : HW K none none (List.foldl (fun st f => resolveFut st f FutSt.result)
          (st.setTask t (fun x => { x with hexc := o, finished := true }))
          (st.tasks t).hwaiters) t := h1.cframe fr.cframe
      have h3 : HW K none none ((List.foldl (fun st f => resolveFut st f FutSt.result)
          (st.setTask t (fun x => { x with hexc := o, finished := true }))
          (st.tasks t).hwaiters).setTask t (fun x => { x with hwaiters := [] })) t :=
        h2.hsame (hsame_setTask _ _ _ (by simp)) (h2.w.setTask_inert t _ (fun x => by simp))
      have hl3 : (((List.foldl (fun st f => resolveFut st f FutSt.result)
          (st.setTask t (fun x => { x with hexc := o, finished := true }))
          (st.tasks t).hwaiters).setTask t (fun x => { x with hwaiters := [] })).tasks t).lib =
          .none := by
        simp only [setTask_tasks, upd_same]
        rw [(fr.tasks t).lib]; simpa using hl
      have h4 : HW K (some t) none st1 t :=
        h3.exitScope hex (fun u _ _ => by simp) (.inl rfl)
      have hl4 : (st1.tasks t).lib = .none := by rw [((exitScope_keeps hex).1 t).1]; exact hl3
      have i5 := hinv_endTask h4.h hl4
        (fun x => { x with st := .done, outcome := some (exitToOut o r), lib := .none })
        rfl rfl rfl rfl (.inr rfl)
      exact hinv_hsame i5 (hsame_loop rfl rfl rfl rfl rfl)
  · simp only [Option.some.injEq] at he
    subst he
    have i5 := hinv_endTask h.h hl
      (fun x => { x with st := .done, outcome := some o, lib := .none }) rfl rfl rfl rfl (.inl rfl)
    exact hinv_hsame i5 (hsame_loop rfl rfl rfl rfl rfl)

/-! ### task resumption -/

theorem nc_cancelled {e : ExcVal} (h : e.isCancelledError = true) : nc e.leaves = [] := by
  cases e with
  | none => rfl
  | one c =>
    have : c.isCancel = true := h
    simp [nc, ExcVal.leaves, this]
  | group es => cases h

/-- a cancellation arriving in `__aexit__` replaces the exception carried along only if that is
no exception or a cancellation -/
theorem nc_replace (ev e : ExcVal) (he : e.isCancelledError = true) :
    nc (if ev = .none ∨ (ev.isCancelledError ∧ e ≠ .one .cancelAnyio) then e else ev).leaves =
      nc ev.leaves := by
  split
  · rename_i hc
    rw [nc_cancelled he]
    rcases hc with hc | ⟨hc, _⟩
    · subst hc; rfl
    · rw [nc_cancelled hc]
  · rfl

theorem not_inAexit_of_lib {st : State} {t : Nat} (h : ∀ g, ¬ LibAexit (st.tasks t).lib g) :
    ∀ g, InAexit st g t → (st.groups g).exited = true :=
  fun g hi => absurd hi (h g)

theorem hw_continueLib {st st' : State} {t : Nat} {r : Resume} {o : Out}
    (h : HW K none none st t) (he : continueLib st t r = some (st', o)) :
    HInv K none none st' := by
  have hnone : ∀ g, ¬ LibAexit Lib.none g := by
    intro g ⟨s, ev, hh⟩; rcases hh with hh | hh <;> cases hh
  unfold continueLib at he
  split at he
  · simp only [Option.some.injEq, Prod.mk.injEq] at he
    obtain ⟨rfl, _⟩ := he; exact h.h
  · -- chkIf
    rename_i hl
    have hna : ∀ g, ¬ LibAexit (st.tasks t).lib g := by
      intro g ⟨s, ev, hh⟩; rw [hl] at hh; rcases hh with hh | hh <;> cases hh
    split at he
    · simp only [Option.some.injEq, Prod.mk.injEq] at he
      obtain ⟨rfl, _⟩ := he
      exact h.doYield (fun g u f hc => by rw [hl] at hc; cases hc)
    · simp only [Option.some.injEq, Prod.mk.injEq] at he
      obtain ⟨rfl, _⟩ := he
      exact (h.setLibPlain .none hnone rfl (not_inAexit_of_lib hna)).h
  · -- shChk
    rename_i s hl
    split at he
    · contradiction
    · rename_i st1 x hex
      simp only [Option.some.injEq, Prod.mk.injEq] at he
      obtain ⟨rfl, _⟩ := he
      have h1 : HW K none none st1 t :=
        h.exitScope hex (fun u _ hu => hu) (.inr (h.h.d2 t s (by rw [hl]; rfl)))
      have hna : ∀ g, ¬ LibAexit (st1.tasks t).lib g := by
        intro g ⟨s', ev, hh⟩
        rw [((exitScope_keeps hex).1 t).1, hl] at hh; rcases hh with hh | hh <;> cases hh
      exact (h1.setLibPlain .none hnone rfl (not_inAexit_of_lib hna)).h
  · -- sleeping
    rename_i f hl
    simp only [Option.some.injEq, Prod.mk.injEq] at he
    obtain ⟨rfl, _⟩ := he
    have h1 : HW K none none (st.unschedule (.sleepDone f)) t :=
      h.cframe (CFrame.of_unschedule _ _)
    have hna : ∀ g, ¬ LibAexit ((st.unschedule (.sleepDone f)).tasks t).lib g := by
      intro g ⟨s', ev, hh⟩
      have hh' : (st.tasks t).lib = .aexitChk g s' ev ∨ (st.tasks t).lib = .aexitWait g s' ev := hh
      rw [hl] at hh'; rcases hh' with hh' | hh' <;> cases hh'
    exact (h1.setLibPlain .none hnone rfl (not_inAexit_of_lib hna)).h
  · -- aexitChk
    rename_i g s ev hl
    split at he
    · contradiction
    · rename_i st1 x hex
      have h1 : HW K none none st1 t :=
        h.exitScope hex (fun u _ hu => hu) (.inr (h.h.d2 t s (by rw [hl]; rfl)))
      have hl1 : (st1.tasks t).lib = .aexitChk g s ev := by
        rw [((exitScope_keeps hex).1 t).1]; exact hl
      have hin : InAexit st1 g t := ⟨s, ev, .inl hl1⟩
      have hev := h1.h.e1 t g s ev (fun t0 => by simp) (.inl hl1)
      split at he
      · exact hw_aexitAfterChk h1 (.inl ⟨rfl, hin⟩) hev he
      · split at he
        · rename_i hce
          have h2 := h1.cancelScope (st1.groups g).scope false
          have cf := cframe_cancelScope st1 (st1.groups g).scope false
          refine hw_aexitAfterChk h2 (.inl ⟨rfl, ?_⟩) ?_ he
          · unfold InAexit; rw [(cf.tasks t).lib]; exact hin
          · rw [cf.groups, nc_replace ev _ hce]; exact hev
        · contradiction
  · -- aexitWait
    rename_i g ws ev hl
    have h1 := h.setGroupInert g (fun x => { x with onCompleted := none }) (fun x => by simp)
      (by simp)
    have hl1 : ((st.setGroup g (fun x => { x with onCompleted := none })).tasks t).lib =
        .aexitWait g ws ev := hl
    have hin : InAexit (st.setGroup g (fun x => { x with onCompleted := none })) g t :=
      ⟨ws, ev, .inr hl1⟩
    have hev : nc ev.leaves =
        nc ((st.setGroup g (fun x => { x with onCompleted := none })).groups g).bodyErrs := by
      have := h.h.e1 t g ws ev (fun t0 => by simp) (.inr hl)
      simpa using this
    have hws : ((st.setGroup g (fun x => { x with onCompleted := none })).tasks t).hscope ≠
        some ws := h.h.d2 t ws (by rw [hl]; rfl)
    simp only [] at he
    split at he
    · exact hw_aexitLoop h1 (.inl ⟨rfl, hin⟩) hws hev he
    · split at he
      · rename_i hce
        have h2 := h1.setShieldTrue ws
        have f2 := frame_setShield (st.setGroup g (fun x => { x with onCompleted := none })) ws true
        have h3 := h2.cancelScope
          ((setShield (st.setGroup g (fun x => { x with onCompleted := none })) ws true).groups
            g).scope false
        have cf := (cframe_cancelScope
          (setShield (st.setGroup g (fun x => { x with onCompleted := none })) ws true)
          ((setShield (st.setGroup g (fun x => { x with onCompleted := none })) ws true).groups
            g).scope false)
        refine hw_aexitLoop h3 (.inl ⟨rfl, ?_⟩) ?_ ?_ he
        · unfold InAexit; rw [(cf.tasks t).lib, (f2.tasks t).lib]; exact hin
        · rw [(cf.tasks t).hscope, (f2.tasks t).hscope]; exact hws
        · rw [cf.groups, f2.groups, nc_replace ev _ hce]; exact hev
      · contradiction
  · -- startWait
    rename_i g u f hl
    have hna : ∀ g, ¬ LibAexit (st.tasks t).lib g := by
      intro g ⟨s, ev, hh⟩; rw [hl] at hh; rcases hh with hh | hh <;> cases hh
    split at he
    · simp only [Option.some.injEq, Prod.mk.injEq] at he
      obtain ⟨rfl, _⟩ := he
      exact (h.setLibPlain .none hnone rfl (not_inAexit_of_lib hna)).h
    · simp only [] at he
      split at he
      · contradiction
      · rename_i hs hhs
        split at he
        · have h1 := h.cancelScope hs false
          have cf := cframe_cancelScope st hs false
          have h2 := h1.mkScope true none
          split at he
          · contradiction
          · rename_i st2 hen
            have h3 : HW K none none st2 t :=
              h2.1.enterScope h2.2 hen (fun u _ hu => hu) (.inr (by simp))
            have k := enterScope_keeps hen
            have hl3 : (st2.tasks t).lib = .startWait g u f := by
              rw [(k.1 t).1]
              show ((cancelScope st hs false).tasks t).lib = _
              rw [(cf.tasks t).lib]; exact hl
            have hna3 : ∀ g, ¬ LibAexit (st2.tasks t).lib g := by
              intro g ⟨s, ev, hh⟩; rw [hl3] at hh; rcases hh with hh | hh <;> cases hh
            have hhs3 : (st2.tasks t).hscope ≠ some (newScope (cancelScope st hs false) true none).2 := by
              rw [(k.1 t).2]
              show ((cancelScope st hs false).tasks t).hscope ≠ some (cancelScope st hs false).nScopes
              rw [(cf.tasks t).hscope, cf.nScopes]
              intro hh
              have := h.w.1.hscope_lt t _ hh
              omega
            have h4 := h3.setLib (pa' := none) (Lib.startJoin (((st.tasks u).group).getD 0) u
                (newScope (cancelScope st hs false) true none).2 r) (.inl rfl)
              (fun g' ⟨s, ev, hh⟩ => by rcases hh with hh | hh <;> cases hh)
              (fun g' hi => absurd hi (hna3 g'))
              (fun s hs' => by
                simp only [libScope, Option.some.injEq] at hs'
                subst hs'; exact hhs3)
              (fun g' s ev _ hh => by rcases hh with hh | hh <;> cases hh)
              (fun g t0 hp => by cases hp)
            split at he
            · simp only [Option.some.injEq, Prod.mk.injEq] at he
              obtain ⟨rfl, _⟩ := he
              exact h4.doYield (fun g' u' f' hc => by simp at hc)
            · simp only [Option.some.injEq, Prod.mk.injEq] at he
              obtain ⟨rfl, _⟩ := he
              have h5 := h4.mkFut.1
              refine HW.blockOn (t := t) ⟨hinv_hsame h5.h (hsame_setTask _ u _ ?_),
                h5.w.setTask_inert u _ (fun x => by simp)⟩ _
              simp
        · simp only [Option.some.injEq, Prod.mk.injEq] at he
          obtain ⟨rfl, _⟩ := he
          exact (h.setLibPlain .none hnone rfl (not_inAexit_of_lib hna)).h
  · -- startJoin
    rename_i g u s e hl
    split at he
    · contradiction
    · rename_i st1 x hex
      have h1 : HW K none none st1 t :=
        h.exitScope hex (fun u _ hu => hu) (.inr (h.h.d2 t s (by rw [hl]; rfl)))
      have hna : ∀ g, ¬ LibAexit (st1.tasks t).lib g := by
        intro g ⟨s', ev, hh⟩
        rw [((exitScope_keeps hex).1 t).1, hl] at hh; rcases hh with hh | hh <;> cases hh
      have h2 := h1.setLibPlain .none hnone rfl (not_inAexit_of_lib hna)
      simp only [] at he
      split at he <;>
      · simp only [Option.some.injEq, Prod.mk.injEq] at he
        obtain ⟨rfl, _⟩ := he
        exact h2.h

/-- the state in which `Task.__step` runs the coroutine -/
theorem wfr_runTask_pre {st : State} {t : Nat} (w : WF st) (hr : st.running = none)
    (hlt : t < st.nTasks) (hnd : (st.tasks t).st ≠ .done) :
    WFR { st.setTask t (fun x => { x with st := .running, mustCancel := false }) with
      running := some t } t := by
  refine ⟨?_, rfl⟩
  apply wf_congr w
  case tk => intro u; by_cases hu : u = t <;> simp [hu]
  case tkst =>
    intro u; by_cases hu : u = t
    · subst hu; simp [hnd]; omega
    · simp [hu]
  case run =>
    intro u; by_cases hu : u = t
    · subst hu; simp
    · simp [hu]
      constructor
      · intro e; exact absurd e.symm hu
      · intro hu'
        have := (w.running_spec u).mpr hu'
        simp_all
  case scx => exact w.scope_exists
  case scd => exact w.deadline_exists
  case grs => intro g h1 h2; exact absurd h2 (by simp; exact h1)
  all_goals first | (exact fun _ h => Or.inl h) | (exact fun _ _ h => Or.inl h) | simp

theorem hinv_runTask {st st' : State} {t : Nat} {o : Out} (h : HInv K none none st) (w : WF st)
    (fi : FInv st) (hr : st.running = none) (hlt : t < st.nTasks) (hnd : (st.tasks t).st ≠ .done)
    (he : runTask st t = some (st', o)) : HInv K none none st' := by
  have w1 := wfr_runTask_pre w hr hlt hnd
  have hy : ((fun x : Task => { x with st := TSt.running, mustCancel := false })
      (st.tasks t)).st = .yielded → ∀ g u f, (st.tasks t).lib ≠ .startWait g u f := by
    intro hc; cases hc
  have hcr : ((fun x : Task => { x with st := TSt.running, mustCancel := false })
      (st.tasks t)).st = .created → (st.tasks t).st = .created := by
    intro hc; cases hc
  unfold runTask at he
  simp only [] at he
  split at he
  · -- first step of a child
    rename_i hs hst hhs
    have i1 := hinv_hsame (hinv_setTask_st (ext' := some t) h t
        (fun x => { x with st := .running, mustCancel := false }) rfl rfl rfl (.inl rfl)
        (fun u _ _ => by simp) hy hcr)
      (hsame_loop (b := { st.setTask t (fun x => { x with st := .running, mustCancel := false })
        with running := some t }) rfl rfl rfl rfl rfl)
    have h1 : HW K (some t) none _ t := ⟨i1, w1⟩
    split at he
    · split at he
      · contradiction
      · rename_i st1 hen
        simp only [Option.some.injEq, Prod.mk.injEq] at he
        obtain ⟨rfl, _⟩ := he
        have hx : hs < st.nScopes := w.hscope_lt t hs hhs
        exact (h1.enterScope (ext' := none) (by simpa using (w.scope_exists hs).mpr hx) hen
          (fun u hu _ => by simpa using hu) (.inl (by simpa using hhs))).h
    · simp only [Option.some.injEq, Prod.mk.injEq] at he
      obtain ⟨rfl, _⟩ := he
      have hl0 := fi.lib_created t hst
      have i5 := hinv_endTask (t := t) i1 (by simpa using hl0)
        (fun x => { x with st := .done, outcome := some (resumeValue st t) })
        rfl rfl (by simpa using hl0) rfl (.inr rfl)
      exact hinv_hsame i5 (hsame_loop rfl rfl rfl rfl rfl)
  · rename_i hmatch
    have hnc : (st.tasks t).st ≠ .created := by
      intro hc
      have := h.c1 t hc hlt
      cases hhs : (st.tasks t).hscope with
      | none => exact this hhs
      | some hs => exact hmatch hs hc hhs
    have i1 := hinv_hsame (hinv_setTask_st (ext' := none) h t
        (fun x => { x with st := .running, mustCancel := false }) rfl rfl rfl
        (.inr (.inr ⟨by simp, hnd, hnc⟩)) (fun u _ hu => hu) hy hcr)
      (hsame_loop (b := { st.setTask t (fun x => { x with st := .running, mustCancel := false })
        with running := some t }) rfl rfl rfl rfl rfl)
    exact hw_continueLib ⟨i1, w1⟩ he

end AnyioModel.Kernel
