/-
Delivery of cancellation, part 19: `QR` (see part 18) for `_timeout()`, `__enter__`, `__exit__`,
suspension and `_spawn`.  `u` is the running task, `tb ≠ u` the blocked task `QR` talks about.
-/
import AnyioModel.Kernel.DeliverInv18

namespace AnyioModel.Kernel

theorem QH.of_wf {tb f : Nat} {st : State} (w : WF st) (bw : BW st)
    (bm : (st.tasks tb).st = .blocked f → (st.tasks tb).mustCancel = false)
    (run : st.running ≠ some tb) : QH tb f st :=
  ⟨w.tree, fun s h => by rw [w.host_active s]; exact h, bw, bm, run⟩

/-- `_must_cancel` of the blocked task along a piece of a transition -/
theorem bm_of_sr {tb f : Nat} {a b : State} (r : SR a b)
    (h : (a.tasks tb).st = .blocked f → (a.tasks tb).mustCancel = false) :
    (b.tasks tb).st = .blocked f → (b.tasks tb).mustCancel = false := by
  intro hb
  cases hm : (b.tasks tb).mustCancel
  · rfl
  · obtain ⟨h1, h2⟩ := r.bm tb f hb hm
    rw [h h1] at h2; cases h2

theorem armTimeout_other (st : State) (s : Nat) {x : Nat} (hx : x ≠ s) :
    ScopeStructEq (st.scopes x) ((armTimeout st s).scopes x) := by
  unfold armTimeout
  split
  · exact ScopeStructEq.refl _
  · split
    · exact cancelScope_other _ _ _ hx
    · simpa [hx] using ScopeStructEq.refl _

theorem qr_armTimeout {tb f c : Nat} {a : State} (q : QH tb f a) (s : Nat) :
    QR tb f c a (armTimeout a s) := by
  unfold armTimeout
  split
  · exact QR.refl _ _ _ _
  · split
    · exact qr_cancelScope q _ _
    · refine QR.trans (b := a.setScope s (fun x => { x with timer := true })) ?_
        (QR.of_fields rfl rfl)
      repeat qr0

theorem qr_setShield_true {tb f c : Nat} (a : State) (s : Nat) :
    QR tb f c a (setShield a s true) := by
  unfold setShield
  split
  · exact QR.refl _ _ _ _
  · simp only [if_true]
    repeat qr0

/-! ### `__enter__` -/

theorem enterScope_other {a b : State} {u s : Nat} (he : enterScope a u s = some b) {x : Nat}
    (hx : x ≠ s) :
    (b.scopes x).parent = (a.scopes x).parent ∧ (b.scopes x).active = (a.scopes x).active ∧
    (b.scopes x).shield = (a.scopes x).shield ∧
    (b.scopes x).cancelCalled = (a.scopes x).cancelCalled ∧
    (∀ v, v ∈ (b.scopes x).tasks → v ∈ (a.scopes x).tasks) := by
  obtain ⟨_, _, cf⟩ := enterScope_spec he
  obtain ⟨e1, e2, e3, e4, _, e6⟩ := enterPre_other a u s hx
  refine ⟨by rw [(cf.scopes x).parent, e1], by rw [(cf.scopes x).active, e2],
    by rw [(cf.scopes x).shield, e3], ?_, fun v hv => e6 v (by rw [← (cf.scopes x).tasks]; exact hv)⟩
  -- `cancelCalled`: only the entered scope can be cancelled by `__enter__`
  rw [enterScope_eq] at he
  split at he
  · contradiction
  · simp only [Option.some.injEq] at he
    subst he
    have h3 : (((armTimeout (enterCore a u s) s).setScope s
        (fun y => { y with active := true, entered := true })).scopes x).cancelCalled =
        (a.scopes x).cancelCalled := by
      simp only [setScope_scopes, upd_other _ _ _ _ hx]
      rw [(armTimeout_other (enterCore a u s) s hx).cancelCalled]
      have : (enterCore a u s).scopes x = (enterPre a u s).scopes x := by simp [enterPre, hx]
      rw [this]; exact e4
    split
    · rw [((frame_deliver _ _).scopes x).cancelCalled]; exact h3
    · exact h3

theorem qr_enterScope {tb f c : Nat} {a b : State} {u s : Nat} (w : WF a) (hut : u ≠ tb)
    (he : enterScope a u s = some b) : QR tb f c a b := by
  obtain ⟨_, hent, cf⟩ := enterScope_spec he
  have oth := fun x (hx : x ≠ s) => enterScope_other he hx
  have hts : (b.scopes s).tasks = [u] := by
    rw [(cf.scopes s).tasks]; exact (enterPre_self w u s hent).2.2.2.2.1
  have hbl : (b.tasks tb).st = .blocked f → (a.tasks tb).st = .blocked f := by
    intro h
    have := (cf.tasks tb).st_blocked h
    rw [(enterPre_task a u s tb).1] at this; exact this
  have hcs : tb ∈ (b.scopes c).tasks → c ≠ s := by
    rintro h rfl
    rw [hts] at h
    exact hut (List.mem_singleton.mp h).symm
  refine ⟨hbl, fun _ h => (oth c (hcs h)).2.2.2.2 tb h, ?_⟩
  intro _ hm x hc ha hr
  have key : ∀ c', c' ≠ s → reachDown b x c' → x ≠ s ∧ reachDown a x c' := by
    intro c' hc' hr'
    induction hr' with
    | refl => exact ⟨hc', .refl⟩
    | @step c'' p hp hact hsh hcc _ ih =>
      obtain ⟨e1, e2, e3, e4, _⟩ := oth c'' hc'
      rw [e1] at hp; rw [e2] at hact; rw [e3] at hsh; rw [e4] at hcc
      have hps : p ≠ s := by
        rintro rfl
        have := w.parent_entered c'' p hp
        rw [hent] at this; cases this
      obtain ⟨h1, h2⟩ := ih hps
      exact ⟨h1, .step hp hact hsh hcc h2⟩
  obtain ⟨hxs, hra⟩ := key c (hcs hm) hr
  obtain ⟨_, e2, _, e4, _⟩ := oth x hxs
  exact ⟨by rw [← e4]; exact hc, by rw [← e2]; exact ha, hra⟩

/-! ### `__exit__` -/

theorem qr_exitCore {tb f c : Nat} {a : State} (w : WF a) {u : Nat} (hut : u ≠ tb) (s : Nat) :
    QR tb f c a (exitCore a u s) := by
  have hd := exitCore_desc a u s (w.parent_ne (s := s))
  have ht := exitCore_tasks_futs a u s
  refine QR.of_shrink (fun h => by rw [← ht.1]; exact h) ?_ ?_
  · intro _ x h
    rcases (hd x).2.2.2.2.2.2.2 tb h with h | ⟨h, _⟩
    · exact h
    · exact absurd h.symm hut
  · intro x h
    obtain ⟨e1, e2, e3, e4, _⟩ := hd x
    rw [e2] at h
    split at h
    · cases h
    · exact ⟨h, e1, fun h' => by rw [← e3]; exact h', e4⟩

theorem qr_exitTail {tb f c : Nat} (m : State) (u s : Nat) (ev : ExcVal) :
    QR tb f c m (exitTail m u s ev).1 := by
  have hU : QR tb f c m (taskUncancel m u (m.scopes s).pending) :=
    QR.of_frame (frame_taskUncancel _ _ _)
  unfold exitTail
  simp only []
  repeat' split
  all_goals (try simp only [])
  all_goals repeat qr0

theorem qr_exitScope {tb f c : Nat} {a b : State} {u s : Nat} {ev : ExcVal} {r : ExitResult}
    (w : WF a) (hut : u ≠ tb) (he : exitScope a u s ev = some (b, r)) : QR tb f c a b := by
  rw [exitScope_eq] at he
  split at he
  · contradiction
  · simp only [Option.some.injEq] at he
    have : b = (exitTail (restartInParent (exitCore a u s) s) u s ev).1 := by rw [he]
    rw [this]
    exact ((qr_exitCore w hut s).trans (QR.of_frame (frame_restartInParent _ s))).trans
      (qr_exitTail _ u s ev)

/-! ### suspension -/

theorem qr_doYield {tb f c : Nat} (a : State) (u : Nat) : QR tb f c a (doYield a u) := by
  unfold doYield
  refine QR.trans (b := (a.setTask u (fun x => { x with st := .yielded })).schedule (.step u)) ?_
    (QR.of_fields rfl rfl)
  repeat qr0

theorem qr_blockOn {tb f c : Nat} (a : State) {u : Nat} (hut : u ≠ tb) (g : Nat) :
    QR tb f c a (blockOn a u g) := by
  have h1 : QR tb f c a { a.setTask u (fun x => { x with st := .blocked g }) with
      futWaiter := upd a.futWaiter g (some u), running := none } := by
    refine QR.of_shrink ?_ (fun _ s h => h) (fun s h => ⟨h, rfl, fun h' => h', rfl⟩)
    intro h
    simpa [Ne.symm hut] using h
  unfold blockOn
  simp only []
  split
  · refine (h1.trans ?_).trans (QR.of_frame (frame_resolveFut _ _ _))
    repeat qr0
  · exact h1

theorem qr_foldl_resolveFut {tb f c : Nat} (a : State) (l : List Nat) (v : FutSt) :
    QR tb f c a (l.foldl (fun st x => resolveFut st x v) a) := by
  induction l generalizing a with
  | nil => exact QR.refl _ _ _ _
  | cons x l ih => exact (QR.of_frame (frame_resolveFut a x v)).trans (ih _)

/-! ### `_spawn` -/

theorem qr_spawnCore {tb f c : Nat} (a : State) (g gs hs : Nat) (sf : Option Nat) :
    QR tb f c a (spawnCore a g gs hs sf) := by
  have hnew : ((spawnCore a g gs hs sf).tasks a.nTasks).st = .created := by simp [spawnCore]
  have htk : ∀ v, v ≠ a.nTasks → (spawnCore a g gs hs sf).tasks v = a.tasks v := by
    intro v hv; simp [spawnCore, hv]
  have hne : ((spawnCore a g gs hs sf).tasks tb).st = .blocked f → tb ≠ a.nTasks := by
    rintro h rfl
    rw [hnew] at h; cases h
  refine QR.of_shrink (fun h => by rw [← htk tb (hne h)]; exact h) ?_ ?_
  · intro hb x h
    by_cases hx : x = gs
    · subst hx
      simp only [spawnCore, setGroup_scopes, setScope_scopes, upd_same, List.mem_cons] at h
      rcases h with h | h
      · exact absurd h (hne hb)
      · exact h
    · simpa [spawnCore, hx] using h
  · intro x h
    by_cases hx : x = gs
    · subst hx
      simp only [spawnCore, setGroup_scopes, setScope_scopes, upd_same] at h ⊢
      exact ⟨h, rfl, fun h' => h', rfl⟩
    · have e : (spawnCore a g gs hs sf).scopes x = a.scopes x := by simp [spawnCore, hx]
      rw [e] at h ⊢
      exact ⟨h, rfl, fun h' => h', rfl⟩

theorem qr_spawn {tb f c : Nat} (a : State) (g : Nat) (sf : Option Nat) :
    QR tb f c a (spawn a g sf).1 := by
  rw [spawn_eq]
  simp only []
  exact ((qr_newScope a false none).trans (qr_spawnCore _ _ _ _ _)).trans
    (QR.of_frame (frame_spawnTail _ _))

end AnyioModel.Kernel
