/-
Delivery of cancellation, part 16: every transition preserves `XI`; `xi_reach`; and what it gives:
in a reachable state every scope on the chain of a scope that holds a task is active
(`chain_active`), hence an effectively cancelled scope that holds a task is reached by the delivery
of an active cancelled scope (`origin_of_effCancelled`).
-/
import AnyioModel.Kernel.DeliverInv15

namespace AnyioModel.Kernel

theorem not_isHandleScope {st : State} (w : WF st) {s : Nat} (h : isHandleScope st s = false) :
    ∀ u, (st.tasks u).hscope ≠ some s := by
  intro u hu
  by_cases hlt : u < st.nTasks
  · have : isHandleScope st s = true := by
      simp only [isHandleScope, List.any_eq_true, List.mem_range, decide_eq_true_eq]
      exact ⟨u, hlt, hu⟩
    rw [h] at this; cases this
  · have := (w.task_dflt u (by omega)).2.2.2.1
    rw [this] at hu; cases hu

theorem not_isGroupScope {st : State} {s : Nat} (h : isGroupScope st s = false) : NotGS st s := by
  intro g hg he
  have : isGroupScope st s = true := by
    simp only [isGroupScope, List.any_eq_true, List.mem_range, decide_eq_true_eq]
    exact ⟨g, hg, he⟩
  rw [h] at this; cases this

theorem xi_step {st st' : State} {e : Ev} {o : Out} (w : WF st) (h : XI st)
    (hs : step st e = some (st', o)) : XI st' := by
  cases e with
  | beginCycle now =>
    simp only [step] at hs
    split at hs
    · contradiction
    · simp only [Option.some.injEq, Prod.mk.injEq] at hs
      obtain ⟨rfl, _⟩ := hs
      exact h.of_fields rfl rfl rfl rfl (Nat.le_refl _)
  | run x => exact xi_runHandle w h hs
  | mkScope sh d =>
    simp only [step, Option.some.injEq, Prod.mk.injEq] at hs
    obtain ⟨rfl, _⟩ := hs
    exact xi_newScope w h sh d
  | enter s =>
    simp only [step] at hs
    split at hs
    · contradiction
    · rename_i t hr
      split at hs
      · contradiction
      · rename_i hg
        have hhs : isHandleScope st s = false := by
          cases hx : isHandleScope st s <;> simp_all
        split at hs
        · simp only [Option.some.injEq, Prod.mk.injEq] at hs
          obtain ⟨rfl, _⟩ := hs; exact h
        · rename_i st1 hen
          simp only [Option.some.injEq, Prod.mk.injEq] at hs
          obtain ⟨rfl, _⟩ := hs
          exact xi_enterScope_plain ⟨w, hr⟩ h (not_isHandleScope w hhs) hen
  | exit s ev =>
    simp only [step] at hs
    split at hs
    · contradiction
    · rename_i t hr
      split at hs
      · contradiction
      · rename_i hg
        have hgs : isGroupScope st s = false := by
          cases hx : isGroupScope st s <;> simp_all
        split at hs
        · simp only [Option.some.injEq, Prod.mk.injEq] at hs
          obtain ⟨rfl, _⟩ := hs; exact h
        · rename_i st1 r hex
          simp only [Option.some.injEq, Prod.mk.injEq] at hs
          obtain ⟨rfl, _⟩ := hs
          exact xi_exitScope ⟨w, hr⟩ h (not_isGroupScope hgs).noGuests hex
  | cancel s =>
    simp only [step] at hs
    split at hs
    · contradiction
    · simp only [Option.some.injEq, Prod.mk.injEq] at hs
      obtain ⟨rfl, _⟩ := hs
      exact h.of_cframe (cframe_cancelScope _ _ _)
  | setShield s b =>
    simp only [step] at hs
    split at hs
    · contradiction
    · simp only [Option.some.injEq, Prod.mk.injEq] at hs
      obtain ⟨rfl, _⟩ := hs
      exact (xi_setScope_inert h s (fun x => { x with shield := b })
        ⟨rfl, rfl, rfl, rfl, rfl⟩).of_frame (frame_setShield _ _ _)
  | setDeadline s d =>
    simp only [step] at hs
    split at hs
    · contradiction
    · simp only [Option.some.injEq, Prod.mk.injEq] at hs
      obtain ⟨rfl, _⟩ := hs
      exact (xi_setScope_inert h s (fun x => { x with deadline := d })
        ⟨rfl, rfl, rfl, rfl, rfl⟩).of_cframe (cframe_setDeadline _ _ _)
  | yield =>
    simp only [step] at hs
    split at hs
    · contradiction
    · split at hs
      · contradiction
      · simp only [Option.some.injEq, Prod.mk.injEq] at hs
        obtain ⟨rfl, _⟩ := hs
        exact xi_doYield h _
  | mkFut =>
    simp only [step, Option.some.injEq, Prod.mk.injEq] at hs
    obtain ⟨rfl, _⟩ := hs
    exact (xi_newFut h).of_fields rfl rfl rfl rfl (Nat.le_refl _)
  | setFut f =>
    simp only [step] at hs
    split at hs
    · contradiction
    · simp only [Option.some.injEq, Prod.mk.injEq] at hs
      obtain ⟨rfl, _⟩ := hs
      exact h.of_frame (frame_resolveFut _ _ _)
  | awaitFut f =>
    simp only [step] at hs
    split at hs
    · contradiction
    · split at hs
      · contradiction
      · split at hs
        · split at hs
          · contradiction
          · simp only [Option.some.injEq, Prod.mk.injEq] at hs
            obtain ⟨rfl, _⟩ := hs
            exact xi_blockOn h _ _
        all_goals
          simp only [Option.some.injEq, Prod.mk.injEq] at hs
          obtain ⟨rfl, _⟩ := hs; exact h
  | sleep d =>
    simp only [step] at hs
    split at hs
    · contradiction
    · rename_i t hr
      split at hs
      · contradiction
      · simp only [Option.some.injEq, Prod.mk.injEq] at hs
        obtain ⟨rfl, _⟩ := hs
        have h1 : XI { (newFut st).1 with timers := (newFut st).1.timers ++
            [((newFut st).1.now + d, Handle.sleepDone (newFut st).2)] } :=
          (xi_newFut h).of_fields rfl rfl rfl rfl (Nat.le_refl _)
        refine xi_blockOn (xi_setTask h1 t _ ⟨rfl, fun h => h⟩ ?_ ?_) _ _
        · intro s hs'; simp [libScopes] at hs'
        · intro g hg; simp [libGroup] at hg
  | chkIfCancelled =>
    simp only [step] at hs
    split at hs
    · contradiction
    · rename_i t hr
      split at hs
      · contradiction
      · split at hs
        · split at hs
          · simp only [Option.some.injEq, Prod.mk.injEq] at hs
            obtain ⟨rfl, _⟩ := hs
            refine xi_doYield (xi_setTask h t _ ⟨rfl, fun h => h⟩ ?_ ?_) t
            · intro s hs'; simp [libScopes] at hs'
            · intro g hg; simp [libGroup] at hg
          · simp only [Option.some.injEq, Prod.mk.injEq] at hs
            obtain ⟨rfl, _⟩ := hs; exact h
        · simp only [Option.some.injEq, Prod.mk.injEq] at hs
          obtain ⟨rfl, _⟩ := hs; exact h
  | shieldedChk =>
    simp only [step] at hs
    split at hs
    · contradiction
    · rename_i t hr
      split at hs
      · contradiction
      · split at hs
        · contradiction
        · rename_i st1 hen
          simp only [Option.some.injEq, Prod.mk.injEq] at hs
          obtain ⟨rfl, _⟩ := hs
          obtain ⟨h3, h4, h5⟩ := xi_newScope_enter ⟨w, hr⟩ h hen
          refine xi_doYield (xi_setTask h3 t _ ⟨rfl, fun h => h⟩ ?_ ?_) t
          · intro s hs'
            simp only [libScopes, List.mem_singleton] at hs'
            subst hs'; exact ⟨h4, h5⟩
          · intro g hg; simp [libGroup] at hg
  | nativeCancel u =>
    simp only [step] at hs
    split at hs
    · contradiction
    · simp only [Option.some.injEq, Prod.mk.injEq] at hs
      obtain ⟨rfl, _⟩ := hs
      exact h.of_frame (frame_taskCancel _ _ _)
  | uncancel =>
    simp only [step] at hs
    split at hs
    · contradiction
    · rename_i t hr
      split at hs
      · contradiction
      · simp only [Option.some.injEq, Prod.mk.injEq] at hs
        obtain ⟨rfl, _⟩ := hs
        exact xi_setTask_inert (h.of_frame (frame_taskUncancel st t 1)) t _ ⟨rfl, fun h => h, rfl⟩
  | mkGroup =>
    simp only [step, Option.some.injEq, Prod.mk.injEq] at hs
    obtain ⟨rfl, _⟩ := hs
    exact xi_mkGroup w h
  | groupEnter g =>
    simp only [step] at hs
    split at hs
    · contradiction
    · rename_i t hr
      split at hs
      · contradiction
      · rename_i hg
        split at hs
        · simp only [Option.some.injEq, Prod.mk.injEq] at hs
          obtain ⟨rfl, _⟩ := hs; exact h
        · split at hs
          · contradiction
          · rename_i st1 hen
            simp only [Option.some.injEq, Prod.mk.injEq] at hs
            obtain ⟨rfl, _⟩ := hs
            have hgl : g < st.nGroups := by omega
            refine xi_setGroup_inert (xi_enterScope_plain ⟨w, hr⟩ h ?_ hen) g _ ⟨rfl, rfl⟩
            intro u hu
            exact h.2.l2 u _ hu g hgl rfl
  | spawn g =>
    simp only [step] at hs
    split at hs
    · contradiction
    · rename_i hg
      split at hs
      · simp only [Option.some.injEq, Prod.mk.injEq] at hs
        obtain ⟨rfl, _⟩ := hs; exact h
      · rename_i hg2
        simp only [Option.some.injEq, Prod.mk.injEq] at hs
        obtain ⟨rfl, _⟩ := hs
        refine xi_spawn none w h (by omega) ?_
        cases ha : (st.scopes (st.groups g).scope).active <;> simp_all
  | aexit g ev => exact xi_aexit w h hs
  | start g =>
    simp only [step] at hs
    split at hs
    · contradiction
    · rename_i t hr
      split at hs
      · contradiction
      · rename_i hg
        split at hs
        · simp only [Option.some.injEq, Prod.mk.injEq] at hs
          obtain ⟨rfl, _⟩ := hs; exact h
        · rename_i hg2
          simp only [Option.some.injEq, Prod.mk.injEq] at hs
          obtain ⟨rfl, _⟩ := hs
          have w0 := wf_newFut w
          have h0 := xi_newFut h
          have hg' : g < (newFut st).1.nGroups := by simp [newFut]; omega
          have ha : ((newFut st).1.scopes ((newFut st).1.groups g).scope).active = true := by
            cases ha : (st.scopes (st.groups g).scope).active <;> simp_all [newFut]
          have h2 := xi_spawn (some (newFut st).2) w0 h0 hg' ha
          refine xi_blockOn (xi_setTask h2 t _ ⟨rfl, fun h => h⟩ ?_ ?_) _ _
          · intro s hs'; simp [libScopes] at hs'
          · intro x hx; simp [libGroup] at hx
  | started =>
    simp only [step] at hs
    split at hs
    · contradiction
    · split at hs
      · contradiction
      · split at hs
        · simp only [Option.some.injEq, Prod.mk.injEq] at hs
          obtain ⟨rfl, _⟩ := hs
          exact h.of_frame (frame_resolveFut _ _ _)
        all_goals
          simp only [Option.some.injEq, Prod.mk.injEq] at hs
          obtain ⟨rfl, _⟩ := hs; exact h
  | handleCancel u =>
    simp only [step] at hs
    split at hs
    · contradiction
    · simp only [Option.some.injEq, Prod.mk.injEq] at hs
      obtain ⟨rfl, _⟩ := hs
      split
      · exact h
      · exact h.of_cframe (cframe_cancelScope _ _ _)
  | handleWait u =>
    simp only [step] at hs
    split at hs
    · contradiction
    · split at hs
      · contradiction
      · split at hs
        · simp only [Option.some.injEq, Prod.mk.injEq] at hs
          obtain ⟨rfl, _⟩ := hs
          exact xi_doYield h _
        · simp only [Option.some.injEq, Prod.mk.injEq] at hs
          obtain ⟨rfl, _⟩ := hs
          exact xi_blockOn (xi_setTask_inert (xi_newFut h) u _ ⟨rfl, fun h => h, rfl⟩) _ _
  | finish o' =>
    simp only [step] at hs
    split at hs
    · contradiction
    · rename_i t hr
      split at hs
      · contradiction
      · split at hs
        · contradiction
        · rename_i hsc
          split at hs
          · contradiction
          · rename_i st1 hf
            simp only [Option.some.injEq, Prod.mk.injEq] at hs
            obtain ⟨rfl, _⟩ := hs
            refine xi_finishTask ⟨w, hr⟩ h ?_ hf
            apply Classical.byContradiction; intro hx; exact hsc hx

theorem xi_init : XI init := by
  constructor
  · constructor <;> simp [init]
  · constructor
    · intro t s hs
      by_cases h : t = 0 <;> simp [init, h, libScopes] at hs
    · intro t s hs
      by_cases h : t = 0 <;> simp [init, h] at hs
    · intro t g hs
      by_cases h : t = 0 <;> simp [init, h, libGroup] at hs
    · intro u u' s hs
      by_cases h : u = 0 <;> simp [init, h] at hs
    · intro g g' hg; simp [init] at hg

/-- the activity and identifier invariants hold in every reachable state -/
theorem xi_reach {st : State} (hr : Reach st) : XI st := by
  induction hr with
  | start h => subst h; exact xi_init
  | next hr hs ih => exact xi_step (wf_reach hr) ih hs

/-! ### consequences -/

/-- every scope on the chain of an active scope is active -/
theorem chain_active {st : State} (w : WF st) (h : AI st) :
    ∀ (n c : Nat), (st.scopes c).chain.length = n → (st.scopes c).active = true →
      ∀ x ∈ (st.scopes c).chain, (st.scopes x).active = true := by
  intro n
  induction n using Nat.strongRecOn with
  | _ n ih =>
    intro c hn ha x hx
    have hch := w.chain_spec c (w.active_entered c ha)
    rw [hch] at hx
    rcases List.mem_cons.mp hx with rfl | hx
    · exact ha
    · cases hp : (st.scopes c).parent with
      | none => rw [hp] at hx; simp at hx
      | some p =>
        rw [hp] at hx hch
        simp only [] at hx hch
        exact ih (st.scopes p).chain.length (by rw [← hn, hch]; simp) p rfl (h.a1 c p ha hp) x hx

/-- the walk of `_effectively_cancelled` along a chain of active scopes finds an origin whose
delivery reaches the scope the walk started from -/
theorem origin_of_effCancelled {st : State} (w : WF st) (h : AI st) :
    ∀ (n c : Nat), (st.scopes c).chain.length = n → (st.scopes c).active = true →
      effCancelled st c = true →
      ∃ o, (st.scopes o).active = true ∧ (st.scopes o).cancelCalled = true ∧ reachDown st o c := by
  intro n
  induction n using Nat.strongRecOn with
  | _ n ih =>
    intro c hn ha he
    have hent := w.active_entered c ha
    have hch := w.chain_spec c hent
    by_cases hcc : (st.scopes c).cancelCalled = true
    · exact ⟨c, ha, hcc, .refl⟩
    · have hcc' : (st.scopes c).cancelCalled = false := by
        cases hx : (st.scopes c).cancelCalled
        · rfl
        · exact absurd hx hcc
      unfold effCancelled at he
      rw [hch] at he
      simp only [List.cons_ne_nil, if_false, effCancelledList, hcc', Bool.false_eq_true] at he
      by_cases hsh : (st.scopes c).shield = true
      · simp [hsh] at he
      · have hsh' : (st.scopes c).shield = false := by
          cases hx : (st.scopes c).shield
          · rfl
          · exact absurd hx hsh
        simp only [hsh', Bool.false_eq_true, if_false] at he
        cases hp : (st.scopes c).parent with
        | none => rw [hp] at he; simp [effCancelledList] at he
        | some p =>
          rw [hp] at he hch
          simp only [] at he hch
          have hpa := h.a1 c p ha hp
          have hpe := w.active_entered p hpa
          have hpc := w.chain_spec p hpe
          have hep : effCancelled st p = true := by
            unfold effCancelled
            rw [hpc]
            simp only [List.cons_ne_nil, if_false]
            rw [← hpc]; exact he
          obtain ⟨o, h1, h2, h3⟩ :=
            ih (st.scopes p).chain.length (by rw [← hn, hch]; simp) p rfl hpa hep
          exact ⟨o, h1, h2, .step hp ha hsh' hcc' h3⟩

end AnyioModel.Kernel
