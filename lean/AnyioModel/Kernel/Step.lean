/-
Kernel model, part 3: the event loop's cycle structure, task resumption, the checkpoint
helpers, `TaskGroup` (`__aexit__`, `_spawn`, `task_done`, `start`), `TaskHandle`, and the
transition function `step`.
-/
import AnyioModel.Kernel.Scope

namespace AnyioModel.Kernel

/-- what is sent (`.none`) or thrown into a resumed coroutine -/
abbrev Resume := ExcVal

inductive Out where
  | none
  | id (n : Nat)                 -- id of the object created by the event
  | resumed (r : Resume)         -- a task was resumed into user code with `r`
  | susp                         -- the running task suspended
  | done (ev : ExcVal)           -- a library operation completed (`.none` = returned normally)
  | exit (r : ExitResult)
  | rterr                        -- RuntimeError for API misuse, nothing changed
  deriving DecidableEq, Repr, Inhabited

inductive Ev where
  | beginCycle (now : Nat)
  | run (h : Handle)
  | mkScope (shield : Bool) (deadline : Option Nat)
  | enter (s : Nat)
  | exit (s : Nat) (ev : ExcVal)
  | cancel (s : Nat)
  | setShield (s : Nat) (b : Bool)
  | setDeadline (s : Nat) (d : Option Nat)
  | yield
  | mkFut
  | setFut (f : Nat)
  | awaitFut (f : Nat)
  | sleep (d : Nat)
  | chkIfCancelled
  | shieldedChk
  | nativeCancel (u : Nat)
  | uncancel
  | mkGroup
  | groupEnter (g : Nat)
  | spawn (g : Nat)
  | aexit (g : Nat) (ev : ExcVal)
  | start (g : Nat)
  | started
  | handleCancel (u : Nat)
  | handleWait (u : Nat)
  | finish (o : Outcome)
  deriving DecidableEq, Repr, Inhabited

/-! ### helpers -/

def newScope (st : State) (shield : Bool) (deadline : Option Nat) : State × Nat :=
  let s := st.nScopes
  ({ st.setScope s (fun _ => { exists_ := true, shield := shield, deadline := deadline }) with
     nScopes := s + 1 }, s)

def newFut (st : State) : State × Nat :=
  let f := st.nFuts
  ({ st.setFut f .pending with nFuts := f + 1 }, f)

/-- the running task `t` does a bare `yield` -/
def doYield (st : State) (t : Nat) : State :=
  { (st.setTask t (fun x => { x with st := .yielded })).schedule (.step t) with running := none }

/-- the running task `t` awaits the pending future `f`: `_fut_waiter = f`, and the late
`_must_cancel` check at the end of `Task.__step` -/
def blockOn (st : State) (t f : Nat) : State :=
  let st := { st.setTask t (fun x => { x with st := .blocked f }) with
              futWaiter := upd st.futWaiter f (some t), running := none }
  if (st.tasks t).mustCancel then
    let anyio := (st.tasks t).mcAnyio
    let st := st.setTask t (fun x => { x with mustCancel := false })
    resolveFut st f (.cancelled anyio)
  else st

def exitToOut (incoming : ExcVal) : ExitResult → ExcVal
  | .swallowed => .none
  | .passed => incoming
  | .raised es => .group es

/-! ### TaskGroup -/

/-- end of `TaskGroup.__aexit__` once no child is left: raise the collected exceptions (or
the body's exception) through the group scope's `__exit__` -/
def aexitFinish (st : State) (t g : Nat) (ev : ExcVal) : Option (State × Out) :=
  let grp := st.groups g
  let final := if grp.exceptions ≠ [] then ExcVal.group grp.exceptions else ev
  match exitScope st t grp.scope final with
  | none => none
  | some (st, r) =>
    let st := st.setGroup g (fun x => { x with exited := true, exceptions := [] })
    let st := st.setTask t (fun x => { x with lib := .none })
    some (st, .done (exitToOut final r))

/-- the `while self._tasks:` loop of `__aexit__`, entered with the wait scope `ws` active -/
def aexitLoop (st : State) (t g ws : Nat) (ev : ExcVal) : Option (State × Out) :=
  if (st.groups g).tasks ≠ [] then
    let (st, f) := newFut st
    let st := st.setGroup g (fun x => { x with onCompleted := some f })
    let st := st.setTask t (fun x => { x with lib := .aexitWait g ws ev })
    some (blockOn st t f, .susp)
  else
    match exitScope st t ws .none with
    | none => none
    | some (st, _) => aexitFinish st t g ev

/-- after the (possibly skipped) empty-group checkpoint -/
def aexitAfterChk (st : State) (t g : Nat) (ev : ExcVal) : Option (State × Out) :=
  if (st.groups g).tasks ≠ [] then
    let (st, ws) := newScope st false none
    match enterScope st t ws with
    | none => none
    | some st => aexitLoop st t g ws ev
  else aexitFinish st t g ev

/-- `TaskGroup._spawn` -/
def spawn (st : State) (g : Nat) (startFut : Option Nat) : State × Nat :=
  let gs := (st.groups g).scope
  let (st, hs) := newScope st false none
  let u := st.nTasks
  let st := { st.setTask u (fun _ =>
      { st := .created, hasState := true, scope := some gs, group := some g,
        startFut := startFut, hscope := some hs }) with nTasks := u + 1 }
  let st := st.schedule (.step u)
  let st := st.setScope gs (fun x => { x with tasks := u :: x.tasks })
  let st := st.setGroup g (fun x => { x with tasks := u :: x.tasks, spawned := u :: x.spawned })
  let st :=
    if (st.scopes gs).cancelCalled then
      if (st.scopes gs).deliver then st else deliver st gs
    else if (st.scopes gs).shield then st
    else restartInParent st gs
  (st, u)

/-- the `task_done` callback of an AnyIO child task -/
def runTaskDone (st : State) (u : Nat) : Option State :=
  let tk := st.tasks u
  match tk.group, tk.scope, tk.outcome with
  | some g, some sc, some o =>
    let st := st.setScope sc (fun x => { x with tasks := x.tasks.erase u })
    let st := st.setGroup g (fun x => { x with tasks := x.tasks.erase u })
    let st := st.setTask u (fun x => { x with hasState := false, scope := none, doneCbRun := true })
    let st :=
      match (st.groups g).onCompleted with
      | some f => if (st.groups g).tasks = [] then resolveFut st f .result else st
      | none => st
    let gs := (st.groups g).scope
    match o with
    | .none =>
      match tk.startFut with
      | some sf =>
        if (st.futs sf).done then some st
        else some (resolveFut st sf (.failed (.one .runtimeError)))
      | none => some st
    | e =>
      match tk.startFut with
      | some sf =>
        if (st.futs sf) matches .cancelled _ ∧ e.isCancelledError then some st
        else if (st.futs sf).done then
          let st := if e.isCancelledError then st else
            st.setGroup g (fun x =>
              { x with exceptions := x.exceptions ++ e.leaves, routed := u :: x.routed })
          some (if effCancelled st gs then st else cancelScope st gs false)
        else some (resolveFut st sf (.failed e))
      | none =>
        let st := if e.isCancelledError then st else
          st.setGroup g (fun x =>
            { x with exceptions := x.exceptions ++ e.leaves, routed := u :: x.routed })
        some (if effCancelled st gs then st else cancelScope st gs false)
  | _, _, _ => none

/-! ### resuming a task -/

/-- continue the library coroutine task `t` (now running) is inside of, with resume value `r` -/
def continueLib (st : State) (t : Nat) (r : Resume) : Option (State × Out) :=
  match (st.tasks t).lib with
  | .none => some (st, .resumed r)
  | .chkIf =>
    match r with
    | .none => some (doYield st t, .susp)
    | e => some (st.setTask t (fun x => { x with lib := .none }), .done e)
  | .shChk s =>
    match exitScope st t s (r) with
    | none => none
    | some (st, x) =>
      some (st.setTask t (fun x => { x with lib := .none }), .done (exitToOut (r) x))
  | .sleeping f =>
    let st := st.unschedule (.sleepDone f)
    some (st.setTask t (fun x => { x with lib := .none }), .done (r))
  | .aexitChk g s ev =>
    match exitScope st t s (r) with
    | none => none
    | some (st, _) =>
      match r with
      | .none => aexitAfterChk st t g ev
      | e =>
        -- only a native cancellation can break through the shielded checkpoint; it is handled
        -- like one arriving in the wait loop: cancel the group, remember it, go on to wait
        if e.isCancelledError then
          let st := cancelScope st (st.groups g).scope false
          let ev' := if ev = .none ∨ (ev.isCancelledError ∧ e ≠ .one .cancelAnyio) then e else ev
          aexitAfterChk st t g ev'
        else none
  | .aexitWait g ws ev =>
    let st := st.setGroup g (fun x => { x with onCompleted := none })
    match r with
    | .none => aexitLoop st t g ws ev
    | e =>
      if e.isCancelledError then
        let st := setShield st ws true
        let st := cancelScope st (st.groups g).scope false
        let ev' := if ev = .none ∨ (ev.isCancelledError ∧ e ≠ .one .cancelAnyio) then e else ev
        aexitLoop st t g ws ev'
      else none
  | .startWait _ u _ =>
    match r with
    | .none => some (st.setTask t (fun x => { x with lib := .none }), .done .none)
    | e =>
      let child := st.tasks u
      match child.hscope with
      | none => none
      | some hs =>
        if !child.finished ∧ !(st.scopes hs).cancelCalled then
          let st := cancelScope st hs false
          let (st, s) := newScope st true none
          match enterScope st t s with
          | none => none
          | some st =>
            let g := (child.group).getD 0
            let st := st.setTask t (fun x => { x with lib := .startJoin g u s e })
            if (st.tasks u).finished then some (doYield st t, .susp)
            else
              let (st, f) := newFut st
              let st := st.setTask u (fun x => { x with hwaiters := x.hwaiters ++ [f] })
              some (blockOn st t f, .susp)
        else some (st.setTask t (fun x => { x with lib := .none }), .done e)
  | .startJoin _ _ s e =>
    match exitScope st t s (r) with
    | none => none
    | some (st, _) =>
      let st := st.setTask t (fun x => { x with lib := .none })
      match r with
      | .none => some (st, .done e)
      | e2 => some (st, .done e2)

/-- `Task.__step` / `__wakeup`: compute what is sent or thrown into the coroutine -/
def resumeValue (st : State) (t : Nat) : Resume :=
  let tk := st.tasks t
  match tk.st with
  | .woken f =>
    match st.futs f with
    | .cancelled a => .one (if a then .cancelAnyio else .cancelNative)
    | .failed e =>
      -- `__step`: `if self._must_cancel: if not isinstance(exc, CancelledError): exc = <new CancelledError>`:
      -- a CancelledError stored in the awaited future (a child's cancellation relayed by a start future)
      -- is thrown as it is, also when a cancellation request is pending
      if tk.mustCancel && !e.isCancelledError then
        .one (if tk.mcAnyio then .cancelAnyio else .cancelNative)
      else e
    | _ => if tk.mustCancel then .one (if tk.mcAnyio then .cancelAnyio else .cancelNative) else .none
  | _ => if tk.mustCancel then .one (if tk.mcAnyio then .cancelAnyio else .cancelNative) else .none

/-- the coroutine of task `t` ends with outcome `o` -/
def finishTask (st : State) (t : Nat) (o : Outcome) : Option State :=
  let tk := st.tasks t
  match tk.hscope with
  | some hs =>
    -- TaskHandle._run_coro: record the exception, set the finished event, leave the scope
    let st := st.setTask t (fun x =>
      { x with hexc := o, finished := true })
    let st := tk.hwaiters.foldl (fun st f => resolveFut st f .result) st
    let st := st.setTask t (fun x => { x with hwaiters := [] })
    match exitScope st t hs o with
    | none => none
    | some (st, r) =>
      let o' := exitToOut o r
      let st := { st.setTask t (fun x => { x with st := .done, outcome := some o', lib := .none })
                  with running := none }
      some (st.schedule (.taskDone t))
  | none =>
    some { st.setTask t (fun x => { x with st := .done, outcome := some o, lib := .none })
           with running := none }

def runTask (st : State) (t : Nat) : Option (State × Out) :=
  let tk := st.tasks t
  let r := resumeValue st t
  let st := { st.setTask t (fun x => { x with st := .running, mustCancel := false }) with
              running := some t }
  match tk.st, tk.hscope with
  | .created, some hs =>
    match r with
    | .none =>
      match enterScope st t hs with
      | none => none
      | some st => some (st, .resumed .none)
    | e =>
      -- cancelled before its first step: the coroutine body (TaskHandle._run_coro) never runs
      let st := { st.setTask t (fun x => { x with st := .done, outcome := some e })
                  with running := none }
      some (st.schedule (.taskDone t), .done e)
  | _, _ => continueLib st t r

/-- API discipline: the scope of a task group or of a task handle is entered and left only by
`TaskGroup.__aenter__/__aexit__` and by `TaskHandle._run_coro`, never by user code -/
def isGroupScope (st : State) (s : Nat) : Bool :=
  (List.range st.nGroups).any (fun g => (st.groups g).scope = s)

def isHandleScope (st : State) (s : Nat) : Bool :=
  (List.range st.nTasks).any (fun t => (st.tasks t).hscope = some s)

def dueTimers (st : State) : List Handle :=
  (st.timers.filter (fun p => p.1 ≤ st.now)).map (·.2)

/-! ### the transition function -/

def step (st : State) : Ev → Option (State × Out)
  | .beginCycle now =>
    if st.running.isSome ∨ st.cur ≠ [] ∨ now < st.now then none else
    let st := { st with now := now, cycle := st.cycle + 1 }
    let due := dueTimers st
    some ({ st with cur := st.ready ++ due, ready := [],
                    timers := st.timers.filter (fun p => ¬ p.1 ≤ st.now) }, .none)
  | .run h =>
    if st.running.isSome ∨ h ∉ st.cur then none else
    let st := { st with cur := st.cur.erase h }
    match h with
    | .step t =>
      if (st.tasks t).st = .created ∨ (st.tasks t).st = .yielded then runTask st t else none
    | .wakeup t =>
      match (st.tasks t).st with
      | .woken _ => runTask st t
      | _ => none
    | .deliver s => some (deliver st s, .none)
    | .timeout s =>
      let st := st.setScope s (fun x => { x with timer := false })
      some (armTimeout st s, .none)
    | .sleepDone f => some (resolveFut st f .result, .none)
    | .taskDone u =>
      match runTaskDone st u with
      | some st => some (st, .none)
      | none => none
  | .mkScope shield deadline =>
    let (st, s) := newScope st shield deadline
    some (st, .id s)
  | .enter s =>
    match st.running with
    | none => none
    | some t =>
      if !(st.scopes s).exists_ ∨ isGroupScope st s ∨ isHandleScope st s
          ∨ (st.tasks t).lib ≠ .none then none else
      match enterScope st t s with
      | none => some (st, .rterr)
      | some st => some (st, .none)
  | .exit s ev =>
    match st.running with
    | none => none
    | some t =>
      if (st.tasks t).lib ≠ .none ∨ isGroupScope st s ∨ isHandleScope st s then none else
      match exitScope st t s ev with
      | none => some (st, .rterr)
      | some (st, r) => some (st, .exit r)
  | .cancel s =>
    if !(st.scopes s).exists_ then none else some (cancelScope st s false, .none)
  | .setShield s b =>
    if !(st.scopes s).exists_ then none else some (setShield st s b, .none)
  | .setDeadline s d =>
    if !(st.scopes s).exists_ then none else some (setDeadline st s d, .none)
  | .yield =>
    match st.running with
    | none => none
    | some t => if (st.tasks t).lib ≠ .none then none else some (doYield st t, .susp)
  | .mkFut =>
    let (st, f) := newFut st
    some ({ st with userFut := upd st.userFut f true }, .id f)
  | .setFut f =>
    if f ≥ st.nFuts ∨ !st.userFut f then none else some (resolveFut st f .result, .none)
  | .awaitFut f =>
    match st.running with
    | none => none
    | some t =>
      if (st.tasks t).lib ≠ .none ∨ f ≥ st.nFuts ∨ !st.userFut f then none else
      match st.futs f with
      | .pending => if (st.futWaiter f).isSome then none else some (blockOn st t f, .susp)
      | .result => some (st, .resumed .none)
      | .cancelled a => some (st, .resumed (.one (if a then .cancelAnyio else .cancelNative)))
      | .failed e => some (st, .resumed e)
  | .sleep d =>
    match st.running with
    | none => none
    | some t =>
      if (st.tasks t).lib ≠ .none ∨ d = 0 then none else
      let (st, f) := newFut st
      let st := { st with timers := st.timers ++ [(st.now + d, Handle.sleepDone f)] }
      let st := st.setTask t (fun x => { x with lib := .sleeping f })
      some (blockOn st t f, .susp)
  | .chkIfCancelled =>
    match st.running with
    | none => none
    | some t =>
      if (st.tasks t).lib ≠ .none then none else
      match (st.tasks t).scope with
      | some s =>
        if effCancelled st s then
          some (doYield (st.setTask t (fun x => { x with lib := .chkIf })) t, .susp)
        else some (st, .done .none)
      | none => some (st, .done .none)
  | .shieldedChk =>
    match st.running with
    | none => none
    | some t =>
      if (st.tasks t).lib ≠ .none then none else
      let (st, s) := newScope st true none
      match enterScope st t s with
      | none => none
      | some st => some (doYield (st.setTask t (fun x => { x with lib := .shChk s })) t, .susp)
  | .nativeCancel u =>
    if u ≥ st.nTasks ∨ (st.tasks u).st = .created then none
    else some (taskCancel st u false, .none)
  | .uncancel =>
    match st.running with
    | none => none
    | some t =>
      -- API discipline: `uncancel()` is called by the party that called `cancel()`, i.e. user code
      -- only takes back native requests
      if (st.tasks t).nUserUncancel ≥ (st.tasks t).nNative then none else
      some ((taskUncancel st t 1).setTask t
        (fun x => { x with nUserUncancel := x.nUserUncancel + 1 }), .none)
  | .mkGroup =>
    let (st, s) := newScope st false none
    let g := st.nGroups
    some ({ st.setGroup g (fun _ => { scope := s }) with nGroups := g + 1 }, .id g)
  | .groupEnter g =>
    match st.running with
    | none => none
    | some t =>
      if g ≥ st.nGroups then none else
      if (st.groups g).entered then some (st, .rterr) else
      match enterScope st t (st.groups g).scope with
      | none => none
      | some st => some (st.setGroup g (fun x => { x with entered := true }), .none)
  | .spawn g =>
    if g ≥ st.nGroups then none else
    if !(st.groups g).entered ∨ !(st.scopes (st.groups g).scope).active then some (st, .rterr)
    else
      let (st, u) := spawn st g none
      some (st, .id u)
  | .aexit g ev =>
    match st.running with
    | none => none
    | some t =>
      -- API discipline: `async with` leaves the group in the task that entered it, innermost first
      if g ≥ st.nGroups ∨ (st.tasks t).lib ≠ .none ∨ !(st.groups g).entered ∨ (st.groups g).exited
          ∨ (st.tasks t).scope ≠ some (st.groups g).scope
      then none else
      let gs := (st.groups g).scope
      let st :=
        if ev ≠ .none then
          let st := cancelScope st gs false
          if ev.isCancelledError then st
          else st.setGroup g (fun x =>
            { x with exceptions := x.exceptions ++ ev.leaves, bodyErrs := ev.leaves })
        else st
      if (st.groups g).tasks = [] then
        let (st, s) := newScope st true none
        match enterScope st t s with
        | none => none
        | some st =>
          some (doYield (st.setTask t (fun x => { x with lib := .aexitChk g s ev })) t, .susp)
      else aexitAfterChk st t g ev
  | .start g =>
    match st.running with
    | none => none
    | some t =>
      if g ≥ st.nGroups ∨ (st.tasks t).lib ≠ .none then none else
      if !(st.groups g).entered ∨ !(st.scopes (st.groups g).scope).active then some (st, .rterr)
      else
        let (st, f) := newFut st
        let (st, u) := spawn st g (some f)
        let st := st.setTask t (fun x => { x with lib := .startWait g u f })
        some (blockOn st t f, .id u)
  | .started =>
    match st.running with
    | none => none
    | some t =>
      match (st.tasks t).startFut with
      | none => none
      | some sf =>
        match st.futs sf with
        | .pending => some (resolveFut st sf .result, .none)
        | .cancelled _ => some (st, .none)
        | _ => some (st, .rterr)
  | .handleCancel u =>
    match (st.tasks u).hscope with
    | none => none
    | some hs => some (if (st.tasks u).finished then st else cancelScope st hs false, .none)
  | .handleWait u =>
    match st.running with
    | none => none
    | some t =>
      if (st.tasks t).lib ≠ .none ∨ (st.tasks u).hscope.isNone then none else
      if (st.tasks u).finished then some (doYield st t, .susp)
      else
        let (st, f) := newFut st
        let st := st.setTask u (fun x => { x with hwaiters := x.hwaiters ++ [f] })
        some (blockOn st t f, .susp)
  | .finish o =>
    match st.running with
    | none => none
    | some t =>
      if (st.tasks t).lib ≠ .none then none else
      if (st.tasks t).scope ≠ (st.tasks t).hscope then none else
      match finishTask st t o with
      | none => none
      | some st => some (st, .none)

abbrev Reach (s : State) : Prop :=
  Reachable (fun s0 => s0 = init) step s

end AnyioModel.Kernel
