/-
Host invariants, part 2: preservation of `HInv` by the elementary updates that are not inert:
the structural parts of `__enter__` / `__exit__`, a task starting / ending, `lib` changes,
the group bookkeeping of `__aexit__`, `_spawn`, `task_done`.
-/
import AnyioModel.Kernel.HostInv

namespace AnyioModel.Kernel

variable {K : Nat → Prop} {ext ext' exg exg' : Option Nat}

/-! ### inert pure updates -/

theorem hsame_setTask (x : State) (t : Nat) (F : Task → Task)
    (h : (F (x.tasks t)).scope = (x.tasks t).scope ∧ (F (x.tasks t)).hscope = (x.tasks t).hscope ∧
      (F (x.tasks t)).lib = (x.tasks t).lib ∧
      ((F (x.tasks t)).st = .done ↔ (x.tasks t).st = .done) ∧
      ((F (x.tasks t)).st = .created ↔ (x.tasks t).st = .created)) :
    HSame x (x.setTask t F) := by
  obtain ⟨h1, h2, h3, h4, h5⟩ := h
  constructor
  all_goals first
    | (intro u; by_cases hu : u = t
       · subst hu; simp [*]
       · simp [hu])
    | (intros; rfl)
    | rfl

theorem hsame_setScope (x : State) (s : Nat) (F : Scope → Scope)
    (h : (F (x.scopes s)).host = (x.scopes s).host ∧ (F (x.scopes s)).parent = (x.scopes s).parent ∧
      (F (x.scopes s)).active = (x.scopes s).active ∧
      (F (x.scopes s)).entered = (x.scopes s).entered) : HSame x (x.setScope s F) := by
  obtain ⟨h1, h2, h3, h4⟩ := h
  constructor
  all_goals first
    | (intro u; by_cases hu : u = s
       · subst hu; simp [*]
       · simp [hu])
    | (intros; rfl)
    | rfl

theorem hsame_setGroup (x : State) (g : Nat) (F : Group → Group)
    (h : (F (x.groups g)).scope = (x.groups g).scope ∧ (F (x.groups g)).exited = (x.groups g).exited ∧
      (F (x.groups g)).bodyErrs = (x.groups g).bodyErrs) : HSame x (x.setGroup g F) := by
  obtain ⟨h1, h2, h3⟩ := h
  constructor
  all_goals first
    | (intro u; by_cases hu : u = g
       · subst hu; simp [*]
       · simp [hu])
    | (intros; rfl)
    | rfl

theorem hsame_loop {a b : State} (ht : b.tasks = a.tasks) (hs : b.scopes = a.scopes)
    (hg : b.groups = a.groups) (h1 : b.nTasks = a.nTasks) (h2 : b.nGroups = a.nGroups) :
    HSame a b := by
  constructor <;> intros <;> simp [*]

theorem hsame_newScope {x : State} (w : WF x) (sh : Bool) (d : Option Nat) :
    HSame x (newScope x sh d).1 := by
  have dfl := w.scope_dflt (Nat.le_refl x.nScopes)
  unfold newScope
  constructor
  all_goals first
    | (intro u; by_cases hu : u = x.nScopes
       · subst hu; simp [dfl]
       · simp [hu])
    | (intros; rfl)
    | rfl

theorem hsame_newFut (x : State) : HSame x (newFut x).1 :=
  hsame_loop rfl rfl rfl rfl rfl

/-! ### `__enter__` -/

theorem hinv_enterPre {x : State} {t s : Nat} (h : HInv K ext exg x)
    (hs0 : (x.scopes s).host = none) (hsp : (x.scopes s).parent = none)
    (hse : (x.scopes s).entered = false)
    (hts : ∀ u s', (x.tasks u).scope = some s' → (x.scopes s').entered = true)
    (hext : ∀ u, u ≠ t → some u ≠ ext' → some u ≠ ext)
    (hcase : (x.tasks t).hscope = some s ∨
      (some t ≠ ext ∧ (x.tasks t).st ≠ .done ∧ (x.tasks t).st ≠ .created)) :
    HInv K ext' exg (enterPre x t s) := by
  have hv := enterPre_hscopes x t s
  have ht := enterPre_task' x t s
  have hgr : (enterPre x t s).groups = x.groups := (enterPre_frame x t s).2.2.2.2.1
  have hnt : (enterPre x t s).nTasks = x.nTasks := (enterPre_frame x t s).1
  have hng : (enterPre x t s).nGroups = x.nGroups := (enterPre_frame x t s).2.2.2.1
  have hlib : ∀ u, ((enterPre x t s).tasks u).lib = (x.tasks u).lib := by
    intro u; rw [ht]; split <;> simp_all
  have hia : ∀ g u, InAexit (enterPre x t s) g u ↔ InAexit x g u := by
    intro g u; unfold InAexit; rw [hlib]
  obtain ⟨a1, a2, a3, a4, a5⟩ := h
  constructor
  · intro u sc he hsc hd hc
    rw [(hv sc).1]
    rw [ht] at hsc hd hc
    by_cases hu : u = t
    · subst hu
      simp only [if_true] at hsc
      cases hsc
      simp
    · simp only [hu, if_false] at hsc hd hc
      have hh := a1 u sc (hext u hu he) hsc hd hc
      have hne : sc ≠ s := by
        rintro rfl; rw [hs0] at hh; cases hh
      simp [hne, hh]
  · intro sc u p hh hp hn
    rw [(hv sc).1] at hh
    rw [(hv sc).2.2.2] at hp
    rw [(hv p).1]
    have hhs : ((enterPre x t s).tasks u).hscope = (x.tasks u).hscope := by
      rw [ht]; split <;> simp_all
    rw [hhs] at hn
    by_cases hsc : sc = s
    · subst hsc
      simp only [if_true, Option.some.injEq] at hh hp
      subst hh
      rcases hcase with hc | ⟨hc1, hc2, hc3⟩
      · exact absurd hc hn
      · split at hp
        · have hne : p ≠ sc := by
            rintro rfl
            have := hts t p hp; rw [hse] at this; cases this
          simp [hne, a1 t p hc1 hp hc2 hc3]
        · rw [hsp] at hp; cases hp
    · simp only [hsc, if_false] at hh hp
      have := a2 sc u p hh hp hn
      have hne : p ≠ s := by
        rintro rfl; rw [hs0] at this; cases this
      simp [hne, this]
  · intro u g hi
    rw [hia] at hi
    obtain ⟨b1, b2, b3⟩ := a3 u g hi
    rw [hng, hgr]
    have hne : (x.groups g).scope ≠ s := by
      intro e; rw [e, hse] at b2; cases b2
    rw [(hv _).1, (hv _).2.1, (hv _).2.2.1]
    simp [hne, b1, b2, b3]
  · intro g he hb
    rw [hgr] at hb ⊢
    rcases a4 g he hb with h1 | ⟨u, hu⟩
    · exact .inl h1
    · exact .inr ⟨u, (hia g u).mpr hu⟩
  · intro u hu
    rw [hnt] at hu; rw [hlib]; exact a5 u hu

/-! ### `__exit__` -/

theorem hinv_exitPre {x : State} {t s : Nat} (h : HInv K ext exg x)
    (hh : (x.scopes s).host = some t) (hsc : (x.tasks t).scope = some s)
    (hpn : (x.scopes s).parent ≠ some s)
    (hfor : ∀ c, (x.scopes c).host = some t → (x.scopes c).parent = some s → False)
    (hext : ∀ u, u ≠ t → some u ≠ ext' → some u ≠ ext)
    (hcase : ext' = some t ∨ (x.tasks t).hscope ≠ some s) :
    HInv K ext' exg (exitPre x t s) := by
  have hv := exitPre_hscopes x t s
  have ht := exitPre_task x t s
  have hgr : (exitPre x t s).groups = x.groups := (exitPre_frame x t s).2.2.2.2.1
  have hnt : (exitPre x t s).nTasks = x.nTasks := (exitPre_frame x t s).1
  have hng : (exitPre x t s).nGroups = x.nGroups := (exitPre_frame x t s).2.2.2.1
  have hlib : ∀ u, ((exitPre x t s).tasks u).lib = (x.tasks u).lib := by
    intro u; rw [ht]; split <;> simp_all
  have hia : ∀ g u, InAexit (exitPre x t s) g u ↔ InAexit x g u := by
    intro g u; unfold InAexit; rw [hlib]
  obtain ⟨a1, a2, a3, a4, a5⟩ := h
  constructor
  · intro u sc he hs hd hc
    rw [(hv sc).1]
    rw [ht] at hs hd hc
    by_cases hu : u = t
    · subst hu
      simp only [if_true] at hs
      rcases hcase with hc' | hc'
      · exact absurd hc'.symm he
      · have := a2 s u sc hh hs hc'
        have hne : sc ≠ s := by rintro rfl; exact hpn hs
        simp [hne, this]
    · simp only [hu, if_false] at hs hd hc
      have h1 := a1 u sc (hext u hu he) hs hd hc
      have hne : sc ≠ s := by
        rintro rfl; rw [hh] at h1; cases h1; exact hu rfl
      simp [hne, h1]
  · intro sc u p hh' hp hn
    rw [(hv sc).1] at hh'
    rw [(hv sc).2.2.2] at hp
    rw [(hv p).1]
    have hhs : ((exitPre x t s).tasks u).hscope = (x.tasks u).hscope := by
      rw [ht]; split <;> simp_all
    rw [hhs] at hn
    by_cases hs' : sc = s
    · subst hs'; simp at hh'
    · simp only [hs', if_false] at hh'
      have := a2 sc u p hh' hp hn
      have hne : p ≠ s := by
        rintro rfl
        rw [hh] at this; cases this
        exact hfor sc hh' hp
      simp [hne, this]
  · intro u g hi
    rw [hia] at hi
    obtain ⟨b1, b2, b3⟩ := a3 u g hi
    rw [hng, hgr, (hv _).1, (hv _).2.1, (hv _).2.2.1]
    refine ⟨b1, b2, ?_⟩
    by_cases hg : (x.groups g).scope = s
    · simp [hg]
    · simp [hg, b3]
  · intro g he hb
    rw [hgr] at hb ⊢
    rcases a4 g he hb with h1 | ⟨u, hu⟩
    · exact .inl h1
    · exact .inr ⟨u, (hia g u).mpr hu⟩
  · intro u hu
    rw [hnt] at hu; rw [hlib]; exact a5 u hu

/-! ### a task starts / ends, `lib` changes -/

def LibAexit (l : Lib) (g : Nat) : Prop :=
  ∃ s ev, l = .aexitChk g s ev ∨ l = .aexitWait g s ev

theorem inAexit_setTask_ne {x : State} {t u g : Nat} {F : Task → Task} (hu : u ≠ t) :
    InAexit (x.setTask t F) g u ↔ InAexit x g u := by
  unfold InAexit; simp [hu]

/-- a task record changes, keeping `scope` and `hscope`; `st` and `lib` change as described -/
theorem hinv_setTask {x : State} (h : HInv K ext exg x) (t : Nat) (F : Task → Task)
    (h1 : (F (x.tasks t)).scope = (x.tasks t).scope)
    (h2 : (F (x.tasks t)).hscope = (x.tasks t).hscope)
    (hst : ext' = some t ∨ (F (x.tasks t)).st = .done ∨
      (some t ≠ ext ∧ (x.tasks t).st ≠ .done ∧ (x.tasks t).st ≠ .created))
    (hext : ∀ u, u ≠ t → some u ≠ ext' → some u ≠ ext)
    (ha : ∀ g, LibAexit (F (x.tasks t)).lib g → g < x.nGroups ∧
      (x.scopes (x.groups g).scope).entered = true ∧
      ((x.scopes (x.groups g).scope).host = some t ∨
        (x.scopes (x.groups g).scope).active = false))
    (hb : ∀ g, InAexit x g t → LibAexit (F (x.tasks t)).lib g ∨ (x.groups g).exited = true ∨
      some g = exg)
    (hexg : ∀ g, some g ≠ exg' → some g ≠ exg ∨ LibAexit (F (x.tasks t)).lib g)
    (hl : t < x.nTasks ∨ (F (x.tasks t)).lib = .none) :
    HInv K ext' exg' (x.setTask t F) := by
  obtain ⟨a1, a2, a3, a4, a5⟩ := h
  constructor
  · intro u sc he hsc hd hc
    by_cases hu : u = t
    · subst hu
      simp only [setTask_tasks, upd_same] at hsc hd hc
      rw [h1] at hsc
      rcases hst with e | e | ⟨e1, e2, e3⟩
      · exact absurd e.symm he
      · exact absurd e hd
      · exact a1 u sc e1 hsc e2 e3
    · simp only [setTask_tasks, upd_other _ _ _ _ hu] at hsc hd hc
      exact a1 u sc (hext u hu he) hsc hd hc
  · intro sc u p hh hp hn
    refine a2 sc u p hh hp ?_
    by_cases hu : u = t
    · subst hu; simpa [h2] using hn
    · simpa [hu] using hn
  · intro u g hi
    by_cases hu : u = t
    · subst hu
      have : LibAexit (F (x.tasks u)).lib g := by
        obtain ⟨s, ev, hi⟩ := hi
        exact ⟨s, ev, by simpa using hi⟩
      exact ha g this
    · rw [inAexit_setTask_ne hu] at hi
      exact a3 u g hi
  · intro g he hbg
    have mk : LibAexit (F (x.tasks t)).lib g → ∃ u, InAexit (x.setTask t F) g u := by
      rintro ⟨s, ev, hl⟩
      exact ⟨t, s, ev, by simpa using hl⟩
    rcases hexg g he with he' | he'
    · rcases a4 g he' hbg with h | ⟨u, hu⟩
      · exact .inl h
      · by_cases hut : u = t
        · subst hut
          rcases hb g hu with h | h | h
          · exact .inr (mk h)
          · exact .inl h
          · exact absurd h he'
        · exact .inr ⟨u, (inAexit_setTask_ne hut).mpr hu⟩
    · exact .inr (mk he')
  · intro u hu
    by_cases hut : u = t
    · subst hut
      rcases hl with h | h
      · simp only [setTask_nTasks] at hu; omega
      · simpa using h
    · simp only [setTask_nTasks] at hu
      simpa [hut] using a5 u hu

/-! ### group bookkeeping -/

theorem inAexit_setGroup {x : State} {g g' u : Nat} {F : Group → Group} :
    InAexit (x.setGroup g F) g' u ↔ InAexit x g' u := by
  unfold InAexit; rfl

theorem hinv_setGroup {x : State} (h : HInv K ext exg x) (g : Nat) (F : Group → Group)
    (h1 : (F (x.groups g)).scope = (x.groups g).scope)
    (h2 : (x.groups g).exited = true → (F (x.groups g)).exited = true)
    (h3 : exg' = some g ∨ (F (x.groups g)).exited = true ∨
      ((F (x.groups g)).bodyErrs = (x.groups g).bodyErrs ∧ exg' = exg))
    (hexg : ∀ g', g' ≠ g → some g' ≠ exg' → some g' ≠ exg) :
    HInv K ext exg' (x.setGroup g F) := by
  obtain ⟨a1, a2, a3, a4, a5⟩ := h
  have hsc : ∀ g', ((x.setGroup g F).groups g').scope = (x.groups g').scope := by
    intro g'
    by_cases hg : g' = g
    · subst hg; simp [h1]
    · simp [hg]
  constructor
  · exact a1
  · exact a2
  · intro u g' hi
    rw [inAexit_setGroup] at hi
    simp only [setGroup_scopes, setGroup_nGroups]
    rw [hsc]
    exact a3 u g' hi
  · intro g' he hb
    by_cases hg : g' = g
    · subst hg
      simp only [setGroup_groups, upd_same] at hb ⊢
      rcases h3 with e | e | ⟨e1, e2⟩
      · exact absurd e.symm he
      · exact .inl e
      · rw [e1] at hb
        rcases a4 g' (e2 ▸ he) hb with h | h
        · exact .inl (h2 h)
        · exact .inr h
    · simp only [setGroup_groups, upd_other _ _ _ _ hg] at hb ⊢
      exact a4 g' (hexg g' hg he) hb
  · exact a5

/-! ### `_spawn`, `task_done` -/

theorem hinv_newTask {x : State} (h : HInv K ext exg x) (g gs hs : Nat) (sf : Option Nat)
    (hhost : ∀ s, (x.scopes s).host ≠ some x.nTasks) :
    HInv K ext exg (newTaskSt x g gs hs sf) := by
  obtain ⟨a1, a2, a3, a4, a5⟩ := h
  have hl0 := a5 x.nTasks (Nat.le_refl _)
  have hia : ∀ g' u, InAexit (newTaskSt x g gs hs sf) g' u ↔ InAexit x g' u := by
    intro g' u
    unfold InAexit newTaskSt
    by_cases hu : u = x.nTasks
    · subst hu; simp [hl0]
    · simp [hu]
  constructor
  · intro u sc he hsc hd hc
    by_cases hu : u = x.nTasks
    · subst hu; simp [newTaskSt] at hc
    · simp only [newTaskSt, setTask_tasks, upd_other _ _ _ _ hu] at hsc hd hc
      exact a1 u sc he hsc hd hc
  · intro sc u p hh hp hn
    have hu : u ≠ x.nTasks := by rintro rfl; exact hhost sc hh
    refine a2 sc u p hh hp ?_
    simpa [newTaskSt, hu] using hn
  · intro u g' hi
    rw [hia] at hi
    exact a3 u g' hi
  · intro g' he hb
    rcases a4 g' he hb with h | ⟨u, hu⟩
    · exact .inl h
    · exact .inr ⟨u, (hia g' u).mpr hu⟩
  · intro u hu
    have h1 : x.nTasks + 1 ≤ u := hu
    have hne : u ≠ x.nTasks := by omega
    simpa [newTaskSt, hne] using a5 u (by omega)

/-- `task_done` removes the task from `_task_states` -/
theorem hinv_clearScope {x : State} (h : HInv K ext exg x) (u : Nat) :
    HInv K ext exg (x.setTask u
      (fun y => { y with hasState := false, scope := none, doneCbRun := true })) := by
  obtain ⟨a1, a2, a3, a4, a5⟩ := h
  have hia : ∀ g' v, InAexit (x.setTask u
      (fun y => { y with hasState := false, scope := none, doneCbRun := true })) g' v ↔
      InAexit x g' v := by
    intro g' v
    unfold InAexit
    by_cases hv : v = u
    · subst hv; simp
    · simp [hv]
  constructor
  · intro v sc he hsc hd hc
    by_cases hv : v = u
    · subst hv; simp at hsc
    · simp only [setTask_tasks, upd_other _ _ _ _ hv] at hsc hd hc
      exact a1 v sc he hsc hd hc
  · intro sc v p hh hp hn
    refine a2 sc v p hh hp ?_
    by_cases hv : v = u
    · subst hv; simpa using hn
    · simpa [hv] using hn
  · intro v g' hi
    rw [hia] at hi; exact a3 v g' hi
  · intro g' he hb
    rcases a4 g' he hb with h | ⟨v, hv⟩
    · exact .inl h
    · exact .inr ⟨v, (hia g' v).mpr hv⟩
  · intro v hv
    by_cases hvu : v = u
    · subst hvu; simpa using a5 v hv
    · simpa [hvu] using a5 v hv

/-- `create_task_group()` after the allocation of the group scope -/
theorem hinv_mkGroup {x : State} (h : HInv K ext exg x) (s : Nat)
    (hK : ∀ g, K g → g < x.nGroups) (hexg : ∀ g, exg = some g → g < x.nGroups) :
    HInv K ext exg
      { x.setGroup x.nGroups (fun _ => { scope := s }) with nGroups := x.nGroups + 1 } := by
  obtain ⟨a1, a2, a3, a4, a5⟩ := h
  constructor
  · exact a1
  · exact a2
  · intro u g hi
    have hi' : InAexit x g u := hi
    obtain ⟨b1, b2, b3⟩ := a3 u g hi'
    have hne : g ≠ x.nGroups := by omega
    refine ⟨by simp only []; omega, ?_⟩
    simpa [hne] using ⟨b2, b3⟩
  · intro g he hb
    by_cases hg : g = x.nGroups
    · subst hg
      simp only [setGroup_groups, upd_same] at hb
      rcases hb with hb | hb
      · simp at hb
      · have := hK _ hb; omega
    · simp only [setGroup_groups, upd_other _ _ _ _ hg] at hb ⊢
      exact a4 g he hb
  · exact a5

/-! ### what the invariant is for -/

/-- `__aexit__` of a group that is marked (an exception of the body has been recorded, or `K g`)
cannot be started (again): the task inside `__aexit__` hosts the group scope, so no other task has
it as its current scope, and that task itself is inside a library coroutine. -/
theorem hinv_aexit_disabled {x : State} (h : HInv K none none x) (w : WF x) (g : Nat) (ev : ExcVal)
    (hk : (x.groups g).bodyErrs ≠ [] ∨ K g) : step x (.aexit g ev) = none := by
  rw [step_aexit]
  split
  · rfl
  · rename_i t hr
    split
    · rfl
    · rename_i hg
      exfalso
      simp only [not_or] at hg
      obtain ⟨_, hlib, _, hex, hsc⟩ := hg
      have hlib : (x.tasks t).lib = .none := by simpa using hlib
      have hex : (x.groups g).exited = false := by simpa using hex
      have hsc : (x.tasks t).scope = some (x.groups g).scope := by simpa using hsc
      have hrun := (w.running_spec t).mp hr
      have hh := h.h1 t _ (by simp) hsc (by rw [hrun]; simp) (by rw [hrun]; simp)
      rcases h.b1 g (by simp) hk with he | ⟨t0, hi⟩
      · rw [hex] at he; cases he
      · obtain ⟨_, _, h3⟩ := h.a1 t0 g hi
        have hact : (x.scopes (x.groups g).scope).active = true := by
          rw [← w.host_active, hh]; rfl
        rcases h3 with h3 | h3
        · rw [hh] at h3
          cases h3
          obtain ⟨s, ev', hi⟩ := hi
          rw [hlib] at hi
          rcases hi with hi | hi <;> cases hi
        · rw [hact] at h3; cases h3

end AnyioModel.Kernel
