/-
Host invariants, part 2: preservation of `HInv` by the elementary updates that are not inert:
the structural parts of `__enter__` / `__exit__`, a task starting / ending, `lib` changes,
the group bookkeeping of `__aexit__`, `_spawn`, `task_done`.
-/
import AnyioModel.Kernel.HostInv

namespace AnyioModel.Kernel

variable {K : Nat → Prop} {ext ext' : Option Nat} {pa pa' : Option (Nat × Nat)}

/-! ### inert pure updates -/

theorem hsame_setTask (x : State) (t : Nat) (F : Task → Task)
    (h : (F (x.tasks t)).scope = (x.tasks t).scope ∧ (F (x.tasks t)).hscope = (x.tasks t).hscope ∧
      (F (x.tasks t)).lib = (x.tasks t).lib ∧
      ((F (x.tasks t)).st = .done ↔ (x.tasks t).st = .done) ∧
      ((F (x.tasks t)).st = .created ↔ (x.tasks t).st = .created) ∧
      ((F (x.tasks t)).st = .yielded ↔ (x.tasks t).st = .yielded)) :
    HSame x (x.setTask t F) := by
  obtain ⟨h1, h2, h3, h4, h5, h6⟩ := h
  constructor
  all_goals first
    | (intro u; by_cases hu : u = t
       · subst hu; simp [*]
       · simp [hu])
    | (intros; rfl)
    | rfl

theorem hsame_setScope (x : State) (s : Nat) (F : Scope → Scope)
    (h : (F (x.scopes s)).host = (x.scopes s).host ∧ (F (x.scopes s)).parent = (x.scopes s).parent ∧
      (F (x.scopes s)).active = (x.scopes s).active ∧
      (F (x.scopes s)).entered = (x.scopes s).entered) : HSame x (x.setScope s F) := by
  obtain ⟨h1, h2, h3, h4⟩ := h
  constructor
  all_goals first
    | (intro u; by_cases hu : u = s
       · subst hu; simp [*]
       · simp [hu])
    | (intros; rfl)
    | rfl

theorem hsame_setGroup (x : State) (g : Nat) (F : Group → Group)
    (h : (F (x.groups g)).scope = (x.groups g).scope ∧ (F (x.groups g)).exited = (x.groups g).exited ∧
      (F (x.groups g)).bodyErrs = (x.groups g).bodyErrs) : HSame x (x.setGroup g F) := by
  obtain ⟨h1, h2, h3⟩ := h
  constructor
  all_goals first
    | (intro u; by_cases hu : u = g
       · subst hu; simp [*]
       · simp [hu])
    | (intros; rfl)
    | rfl

theorem hsame_loop {a b : State} (ht : b.tasks = a.tasks) (hs : b.scopes = a.scopes)
    (hg : b.groups = a.groups) (h1 : b.nTasks = a.nTasks) (h2 : b.nGroups = a.nGroups) :
    HSame a b := by
  constructor <;> intros <;> simp [*]

theorem hsame_newScope {x : State} (w : WF x) (sh : Bool) (d : Option Nat) :
    HSame x (newScope x sh d).1 := by
  have dfl := w.scope_dflt (Nat.le_refl x.nScopes)
  unfold newScope
  constructor
  all_goals first
    | (intro u; by_cases hu : u = x.nScopes
       · subst hu; simp [dfl]
       · simp [hu])
    | (intros; rfl)
    | rfl

theorem hsame_newFut (x : State) : HSame x (newFut x).1 :=
  hsame_loop rfl rfl rfl rfl rfl

/-! ### updates that keep `lib`, `hscope`, `st` of every task and all groups -/

theorem hinv_scopes {x y : State} (h : HInv K ext pa x)
    (hl : ∀ u, (y.tasks u).lib = (x.tasks u).lib)
    (hh : ∀ u, (y.tasks u).hscope = (x.tasks u).hscope)
    (hy : ∀ u, (y.tasks u).st = .yielded → (x.tasks u).st = .yielded)
    (hc : ∀ u, (y.tasks u).st = .created → (x.tasks u).st = .created)
    (hg : y.groups = x.groups) (hnT : y.nTasks = x.nTasks) (hnG : y.nGroups = x.nGroups)
    (f1 : ∀ t s, some t ≠ ext' → (y.tasks t).scope = some s → (y.tasks t).st ≠ .done →
      (y.tasks t).st ≠ .created → (y.scopes s).host = some t)
    (f2 : ∀ s t p, (y.scopes s).host = some t → (y.scopes s).parent = some p →
      (x.tasks t).hscope ≠ some s → (y.scopes p).host = some t)
    (f3 : ∀ t g, InAexitP x pa g t → g < x.nGroups →
      (x.scopes (x.groups g).scope).entered = true →
      ((x.scopes (x.groups g).scope).host = some t ∨
        (x.scopes (x.groups g).scope).active = false) →
      (y.scopes (x.groups g).scope).entered = true ∧
      ((y.scopes (x.groups g).scope).host = some t ∨
        (y.scopes (x.groups g).scope).active = false)) :
    HInv K ext' pa y := by
  have hia : ∀ g u, InAexit y g u ↔ InAexit x g u := by
    intro g u; unfold InAexit; rw [hl]
  have hip : ∀ g u, InAexitP y pa g u ↔ InAexitP x pa g u := by
    intro g u; unfold InAexitP; rw [hia]
  obtain ⟨a1, a2, a3, a4, a5, a6, a7, a8, a9, a10, a11, a12⟩ := h
  constructor
  · exact f1
  · intro s t p hh' hp hn
    rw [hh] at hn; exact f2 s t p hh' hp hn
  · intro t g hi
    rw [hip] at hi
    obtain ⟨b1, b2, b3⟩ := a3 t g hi
    rw [hnG, hg]
    exact ⟨b1, f3 t g hi b1 b2 b3⟩
  · intro g hb
    rw [hg] at hb ⊢
    rcases a4 g hb with h1 | ⟨u, hu⟩
    · exact .inl h1
    · exact .inr ⟨u, (hip g u).mpr hu⟩
  · intro u hu
    rw [hnT] at hu; rw [hl]; exact a5 u hu
  · intro g u hlt
    rw [hnG] at hlt; rw [hh, hg]; exact a6 g u hlt
  · intro t s hs
    rw [hl] at hs; rw [hh]; exact a7 t s hs
  · intro t g s ev hp hs
    rw [hl] at hs; rw [hg]; exact a8 t g s ev hp hs
  · intro g t0 hp u hu
    exact a9 g t0 hp u ((hia g u).mp hu)
  · intro g hk; rw [hnG]; exact a10 g hk
  · intro t g u f hs hyy
    rw [hl] at hs
    exact a11 t g u f hs (hy t hyy)
  · intro t hcc hlt
    rw [hnT] at hlt; rw [hh]; exact a12 t (hc t hcc) hlt

/-! ### `__enter__` -/

theorem hinv_enterPre {x : State} {t s : Nat} (h : HInv K ext pa x)
    (hs0 : (x.scopes s).host = none) (hsp : (x.scopes s).parent = none)
    (hse : (x.scopes s).entered = false)
    (hts : ∀ u s', (x.tasks u).scope = some s' → (x.scopes s').entered = true)
    (hext : ∀ u, u ≠ t → some u ≠ ext' → some u ≠ ext)
    (hcase : (x.tasks t).hscope = some s ∨
      (some t ≠ ext ∧ (x.tasks t).st ≠ .done ∧ (x.tasks t).st ≠ .created)) :
    HInv K ext' pa (enterPre x t s) := by
  have hv := enterPre_hscopes x t s
  have ht := enterPre_task' x t s
  have hfr := enterPre_frame x t s
  have htk := enterPre_task x t s
  refine hinv_scopes h (fun u => (htk u).2.2.2.2.2.1) (fun u => (htk u).2.1)
    (fun u hy => by rw [← (htk u).1]; exact hy) (fun u hy => by rw [← (htk u).1]; exact hy)
    hfr.2.2.2.2.1 hfr.1 hfr.2.2.2.1 ?_ ?_ ?_
  · intro u sc he hsc hd hc
    rw [(hv sc).1]
    rw [ht] at hsc hd hc
    by_cases hu : u = t
    · subst hu
      simp only [if_true] at hsc
      cases hsc
      simp
    · simp only [hu, if_false] at hsc hd hc
      have hh := h.h1 u sc (hext u hu he) hsc hd hc
      have hne : sc ≠ s := by
        rintro rfl; rw [hs0] at hh; cases hh
      simp [hne, hh]
  · intro sc u p hh hp hn
    rw [(hv sc).1] at hh
    rw [(hv sc).2.2.2] at hp
    rw [(hv p).1]
    by_cases hsc : sc = s
    · subst hsc
      simp only [if_true, Option.some.injEq] at hh hp
      subst hh
      rcases hcase with hc | ⟨hc1, hc2, hc3⟩
      · exact absurd hc hn
      · split at hp
        · have hne : p ≠ sc := by
            rintro rfl
            have := hts t p hp; rw [hse] at this; cases this
          simp [hne, h.h1 t p hc1 hp hc2 hc3]
        · rw [hsp] at hp; cases hp
    · simp only [hsc, if_false] at hh hp
      have := h.p1 sc u p hh hp hn
      have hne : p ≠ s := by
        rintro rfl; rw [hs0] at this; cases this
      simp [hne, this]
  · intro u g _ _ b2 b3
    have hne : (x.groups g).scope ≠ s := by
      intro e; rw [e, hse] at b2; cases b2
    rw [(hv _).1, (hv _).2.1, (hv _).2.2.1]
    simp [hne, b2, b3]

/-! ### `__exit__` -/

theorem hinv_exitPre {x : State} {t s : Nat} (h : HInv K ext pa x)
    (hh : (x.scopes s).host = some t) (hsc : (x.tasks t).scope = some s)
    (hpn : (x.scopes s).parent ≠ some s)
    (hfor : ∀ c, (x.scopes c).host = some t → (x.scopes c).parent = some s → False)
    (hext : ∀ u, u ≠ t → some u ≠ ext' → some u ≠ ext)
    (hcase : ext' = some t ∨ (x.tasks t).hscope ≠ some s) :
    HInv K ext' pa (exitPre x t s) := by
  have hv := exitPre_hscopes x t s
  have ht := exitPre_task x t s
  have hfr := exitPre_frame x t s
  have hlib : ∀ u, ((exitPre x t s).tasks u).lib = (x.tasks u).lib := by
    intro u; rw [ht]; split <;> simp_all
  have hhs : ∀ u, ((exitPre x t s).tasks u).hscope = (x.tasks u).hscope := by
    intro u; rw [ht]; split <;> simp_all
  have hst : ∀ u, ((exitPre x t s).tasks u).st = (x.tasks u).st := by
    intro u; rw [ht]; split <;> simp_all
  refine hinv_scopes h hlib hhs (fun u hy => by rw [← hst u]; exact hy)
    (fun u hy => by rw [← hst u]; exact hy) hfr.2.2.2.2.1 hfr.1 hfr.2.2.2.1 ?_ ?_ ?_
  · intro u sc he hs hd hc
    rw [(hv sc).1]
    rw [ht] at hs hd hc
    by_cases hu : u = t
    · subst hu
      simp only [if_true] at hs
      rcases hcase with hc' | hc'
      · exact absurd hc'.symm he
      · have := h.p1 s u sc hh hs hc'
        have hne : sc ≠ s := by rintro rfl; exact hpn hs
        simp [hne, this]
    · simp only [hu, if_false] at hs hd hc
      have h1 := h.h1 u sc (hext u hu he) hs hd hc
      have hne : sc ≠ s := by
        rintro rfl; rw [hh] at h1; cases h1; exact hu rfl
      simp [hne, h1]
  · intro sc u p hh' hp hn
    rw [(hv sc).1] at hh'
    rw [(hv sc).2.2.2] at hp
    rw [(hv p).1]
    by_cases hs' : sc = s
    · subst hs'; simp at hh'
    · simp only [hs', if_false] at hh'
      have := h.p1 sc u p hh' hp hn
      have hne : p ≠ s := by
        rintro rfl
        rw [hh] at this; cases this
        exact hfor sc hh' hp
      simp [hne, this]
  · intro u g _ _ b2 b3
    rw [(hv _).1, (hv _).2.1, (hv _).2.2.1]
    refine ⟨b2, ?_⟩
    by_cases hg : (x.groups g).scope = s
    · simp [hg]
    · simp [hg, b3]

/-! ### a task starts / ends, `lib` changes -/

def LibAexit (l : Lib) (g : Nat) : Prop :=
  ∃ s ev, l = .aexitChk g s ev ∨ l = .aexitWait g s ev

theorem inAexit_setTask_ne {x : State} {t u g : Nat} {F : Task → Task} (hu : u ≠ t) :
    InAexit (x.setTask t F) g u ↔ InAexit x g u := by
  unfold InAexit; simp [hu]

theorem inAexit_setTask_self {x : State} {t g : Nat} {F : Task → Task} :
    InAexit (x.setTask t F) g t ↔ LibAexit (F (x.tasks t)).lib g := by
  unfold InAexit LibAexit; simp

/-- a task record changes, keeping `scope` and `hscope`; `st` and `lib` change as described;
the pending `__aexit__` (if any) is kept or completed -/
theorem hinv_setTask {x : State} (h : HInv K ext pa x) (t : Nat) (F : Task → Task)
    (h1 : (F (x.tasks t)).scope = (x.tasks t).scope)
    (h2 : (F (x.tasks t)).hscope = (x.tasks t).hscope)
    (hst : ext' = some t ∨ (F (x.tasks t)).st = .done ∨
      (some t ≠ ext ∧ (x.tasks t).st ≠ .done ∧ (x.tasks t).st ≠ .created))
    (hext : ∀ u, u ≠ t → some u ≠ ext' → some u ≠ ext)
    (hpa : pa' = pa ∨ (pa' = none ∧ ∀ g t0, pa = some (g, t0) →
      t0 = t ∧ LibAexit (F (x.tasks t)).lib g))
    (ha : ∀ g, LibAexit (F (x.tasks t)).lib g → InAexitP x pa g t)
    (hb : ∀ g, InAexit x g t → LibAexit (F (x.tasks t)).lib g ∨ (x.groups g).exited = true)
    (hl : t < x.nTasks ∨ (F (x.tasks t)).lib = .none)
    (hd : ∀ s, libScope (F (x.tasks t)).lib = some s → (x.tasks t).hscope ≠ some s)
    (he : ∀ g s ev, (∀ t0, pa' ≠ some (g, t0)) →
      ((F (x.tasks t)).lib = .aexitChk g s ev ∨ (F (x.tasks t)).lib = .aexitWait g s ev) →
      nc ev.leaves = nc (x.groups g).bodyErrs)
    (hx : ∀ g t0, pa' = some (g, t0) → ¬ LibAexit (F (x.tasks t)).lib g)
    (hy : ∀ g u f, (F (x.tasks t)).lib = .startWait g u f → (F (x.tasks t)).st ≠ .yielded)
    (hc : (F (x.tasks t)).st = .created → (x.tasks t).st = .created) :
    HInv K ext' pa' (x.setTask t F) := by
  obtain ⟨a1, a2, a3, a4, a5, a6, a7, a8, a9, a10, a11, a12⟩ := h
  -- being inside (or about to be inside) `__aexit__`, new state versus old state
  have hip : ∀ g u, InAexitP (x.setTask t F) pa' g u → InAexitP x pa g u := by
    intro g u hi
    rcases hi with hi | hi
    · by_cases hu : u = t
      · subst hu; exact ha g (inAexit_setTask_self.mp hi)
      · exact .inl ((inAexit_setTask_ne hu).mp hi)
    · rcases hpa with e | ⟨e, _⟩
      · exact .inr (e ▸ hi)
      · rw [e] at hi; cases hi
  have hpi : ∀ g u, InAexitP x pa g u → (x.groups g).exited = true ∨
      InAexitP (x.setTask t F) pa' g u := by
    intro g u hi
    rcases hi with hi | hi
    · by_cases hu : u = t
      · subst hu
        rcases hb g hi with h | h
        · exact .inr (.inl (inAexit_setTask_self.mpr h))
        · exact .inl h
      · exact .inr (.inl ((inAexit_setTask_ne hu).mpr hi))
    · rcases hpa with e | ⟨_, e⟩
      · exact .inr (.inr (e ▸ hi))
      · obtain ⟨rfl, hl'⟩ := e g u hi
        exact .inr (.inl (inAexit_setTask_self.mpr hl'))
  constructor
  · intro u sc he' hsc hd' hc
    by_cases hu : u = t
    · subst hu
      simp only [setTask_tasks, upd_same] at hsc hd' hc
      rw [h1] at hsc
      rcases hst with e | e | ⟨e1, e2, e3⟩
      · exact absurd e.symm he'
      · exact absurd e hd'
      · exact a1 u sc e1 hsc e2 e3
    · simp only [setTask_tasks, upd_other _ _ _ _ hu] at hsc hd' hc
      exact a1 u sc (hext u hu he') hsc hd' hc
  · intro sc u p hh hp hn
    refine a2 sc u p hh hp ?_
    by_cases hu : u = t
    · subst hu; simpa [h2] using hn
    · simpa [hu] using hn
  · intro u g hi
    exact a3 u g (hip g u hi)
  · intro g hbg
    rcases a4 g hbg with h | ⟨u, hu⟩
    · exact .inl h
    · rcases hpi g u hu with h | h
      · exact .inl h
      · exact .inr ⟨u, h⟩
  · intro u hu
    by_cases hut : u = t
    · subst hut
      rcases hl with h | h
      · simp only [setTask_nTasks] at hu; omega
      · simpa using h
    · simp only [setTask_nTasks] at hu
      simpa [hut] using a5 u hu
  · intro g u hg
    by_cases hu : u = t
    · subst hu; simpa [h2] using a6 g u hg
    · simpa [hu] using a6 g u hg
  · intro u s hs
    by_cases hu : u = t
    · subst hu
      simp only [setTask_tasks, upd_same] at hs ⊢
      rw [h2]; exact hd s hs
    · simp only [setTask_tasks, upd_other _ _ _ _ hu] at hs ⊢
      exact a7 u s hs
  · intro u g s ev hp hs
    by_cases hu : u = t
    · subst hu
      simp only [setTask_tasks, upd_same] at hs
      exact he g s ev hp hs
    · simp only [setTask_tasks, upd_other _ _ _ _ hu] at hs
      simp only [setTask_groups]
      rcases hpa with e | ⟨_, e⟩
      · exact a8 u g s ev (e ▸ hp) hs
      · refine a8 u g s ev ?_ hs
        intro t0 hp0
        exact a9 g t0 hp0 u ⟨s, ev, hs⟩
  · intro g t0 hp u hu
    by_cases hut : u = t
    · subst hut
      exact hx g t0 hp (inAexit_setTask_self.mp hu)
    · rcases hpa with e | ⟨e, _⟩
      · exact a9 g t0 (e ▸ hp) u ((inAexit_setTask_ne hut).mp hu)
      · rw [e] at hp; cases hp
  · exact a10
  · intro u g v f hs hyy
    by_cases hu : u = t
    · subst hu
      simp only [setTask_tasks, upd_same] at hs hyy
      exact hy g v f hs hyy
    · simp only [setTask_tasks, upd_other _ _ _ _ hu] at hs hyy
      exact a11 u g v f hs hyy
  · intro u hcc hlt
    by_cases hu : u = t
    · subst hu
      simp only [setTask_tasks, upd_same] at hcc ⊢
      rw [h2]; exact a12 u (hc hcc) hlt
    · simp only [setTask_tasks, upd_other _ _ _ _ hu] at hcc ⊢
      exact a12 u hcc hlt

/-- ... the special case in which `lib` does not change -/
theorem hinv_setTask_st {x : State} (h : HInv K ext pa x) (t : Nat) (F : Task → Task)
    (h1 : (F (x.tasks t)).scope = (x.tasks t).scope)
    (h2 : (F (x.tasks t)).hscope = (x.tasks t).hscope)
    (h3 : (F (x.tasks t)).lib = (x.tasks t).lib)
    (hst : ext' = some t ∨ (F (x.tasks t)).st = .done ∨
      (some t ≠ ext ∧ (x.tasks t).st ≠ .done ∧ (x.tasks t).st ≠ .created))
    (hext : ∀ u, u ≠ t → some u ≠ ext' → some u ≠ ext)
    (hy : (F (x.tasks t)).st = .yielded → ∀ g u f, (x.tasks t).lib ≠ .startWait g u f)
    (hc : (F (x.tasks t)).st = .created → (x.tasks t).st = .created) :
    HInv K ext' pa (x.setTask t F) := by
  have hla : ∀ g, LibAexit (F (x.tasks t)).lib g ↔ InAexit x g t := by
    intro g; unfold LibAexit InAexit; rw [h3]
  refine hinv_setTask h t F h1 h2 hst hext (.inl rfl) ?_ ?_ ?_ ?_ ?_ ?_ ?_ hc
  · intro g hl; exact .inl ((hla g).mp hl)
  · intro g hi; exact .inl ((hla g).mpr hi)
  · by_cases hlt : t < x.nTasks
    · exact .inl hlt
    · right; rw [h3]; exact h.l0 t (by omega)
  · intro s hs; rw [h3] at hs; exact h.d2 t s hs
  · intro g s ev hp hs; rw [h3] at hs; exact h.e1 t g s ev hp hs
  · intro g t0 hp hl; exact h.x1 g t0 hp t ((hla g).mp hl)
  · intro g u f hs hyy; rw [h3] at hs; exact hy hyy g u f hs

/-! ### group bookkeeping -/

theorem inAexit_setGroup {x : State} {g g' u : Nat} {F : Group → Group} :
    InAexit (x.setGroup g F) g' u ↔ InAexit x g' u := by
  unfold InAexit; rfl

/-- a group record changes: `scope` is kept, `exited` is not reset, `bodyErrs` changes only for
the group of the pending `__aexit__` or when the block ends -/
theorem hinv_setGroup {x : State} (h : HInv K ext pa x) (g : Nat) (F : Group → Group)
    (h1 : (F (x.groups g)).scope = (x.groups g).scope)
    (h2 : (x.groups g).exited = true → (F (x.groups g)).exited = true)
    (h3 : (∃ t0, pa = some (g, t0)) ∨
      (F (x.groups g)).bodyErrs = (x.groups g).bodyErrs) :
    HInv K ext pa (x.setGroup g F) := by
  obtain ⟨a1, a2, a3, a4, a5, a6, a7, a8, a9, a10, a11, a12⟩ := h
  have hsc : ∀ g', ((x.setGroup g F).groups g').scope = (x.groups g').scope := by
    intro g'
    by_cases hg : g' = g
    · subst hg; simp [h1]
    · simp [hg]
  constructor
  · exact a1
  · exact a2
  · intro u g' hi
    have hi' : InAexitP x pa g' u := hi
    simp only [setGroup_scopes, setGroup_nGroups]
    rw [hsc]
    exact a3 u g' hi'
  · intro g' hb
    by_cases hg : g' = g
    · subst hg
      simp only [setGroup_groups, upd_same] at hb ⊢
      rcases h3 with ⟨t0, e⟩ | e
      · exact .inr ⟨t0, .inr e⟩
      · rw [e] at hb
        rcases a4 g' hb with h | h
        · exact .inl (h2 h)
        · exact .inr h
    · simp only [setGroup_groups, upd_other _ _ _ _ hg] at hb ⊢
      exact a4 g' hb
  · exact a5
  · intro g' u hg'
    simp only [setGroup_tasks]; rw [hsc]; exact a6 g' u hg'
  · exact a7
  · intro u g' s ev hp hs
    have hs' : (x.tasks u).lib = .aexitChk g' s ev ∨ (x.tasks u).lib = .aexitWait g' s ev := hs
    by_cases hg : g' = g
    · subst hg
      simp only [setGroup_groups, upd_same]
      rcases h3 with ⟨t0, e⟩ | e
      · exact absurd e (hp t0)
      · rw [e]; exact a8 u g' s ev hp hs'
    · simp only [setGroup_groups, upd_other _ _ _ _ hg]
      exact a8 u g' s ev hp hs'
  · exact a9
  · exact a10
  · exact a11
  · exact a12

/-! ### `_spawn`, `task_done` -/

theorem hinv_newTask {x : State} (h : HInv K ext pa x) (g gs hs : Nat) (sf : Option Nat)
    (hhost : ∀ s, (x.scopes s).host ≠ some x.nTasks)
    (hhs : ∀ g', g' < x.nGroups → (x.groups g').scope ≠ hs) :
    HInv K ext pa (newTaskSt x g gs hs sf) := by
  obtain ⟨a1, a2, a3, a4, a5, a6, a7, a8, a9, a10, a11, a12⟩ := h
  have hl0 := a5 x.nTasks (Nat.le_refl _)
  have hlib : ∀ u, ((newTaskSt x g gs hs sf).tasks u).lib = (x.tasks u).lib := by
    intro u
    by_cases hu : u = x.nTasks
    · subst hu; simp [newTaskSt, hl0]
    · simp [newTaskSt, hu]
  have hia : ∀ g' u, InAexit (newTaskSt x g gs hs sf) g' u ↔ InAexit x g' u := by
    intro g' u; unfold InAexit; rw [hlib]
  have hip : ∀ g' u, InAexitP (newTaskSt x g gs hs sf) pa g' u ↔ InAexitP x pa g' u := by
    intro g' u; unfold InAexitP; rw [hia]
  constructor
  · intro u sc he hsc hd hc
    by_cases hu : u = x.nTasks
    · subst hu; simp [newTaskSt] at hc
    · simp only [newTaskSt, setTask_tasks, upd_other _ _ _ _ hu] at hsc hd hc
      exact a1 u sc he hsc hd hc
  · intro sc u p hh hp hn
    have hu : u ≠ x.nTasks := by rintro rfl; exact hhost sc hh
    refine a2 sc u p hh hp ?_
    simpa [newTaskSt, hu] using hn
  · intro u g' hi
    rw [hip] at hi
    exact a3 u g' hi
  · intro g' hb
    rcases a4 g' hb with h | ⟨u, hu⟩
    · exact .inl h
    · exact .inr ⟨u, (hip g' u).mpr hu⟩
  · intro u hu
    have h1 : x.nTasks + 1 ≤ u := hu
    rw [hlib]; exact a5 u (by omega)
  · intro g' u hg'
    have hg'' : g' < x.nGroups := hg'
    by_cases hu : u = x.nTasks
    · subst hu
      have : ((newTaskSt x g gs hs sf).groups g').scope = (x.groups g').scope := rfl
      rw [this]
      simp only [newTaskSt, setTask_tasks, upd_same, ne_eq, Option.some.injEq]
      exact fun e => hhs g' hg'' e.symm
    · have := a6 g' u hg''
      simpa [newTaskSt, hu] using this
  · intro u s hs'
    rw [hlib] at hs'
    by_cases hu : u = x.nTasks
    · subst hu; rw [hl0] at hs'; cases hs'
    · have := a7 u s hs'
      simpa [newTaskSt, hu] using this
  · intro u g' s ev hp hs'
    rw [hlib] at hs'
    exact a8 u g' s ev hp hs'
  · intro g' t0 hp u hu
    exact a9 g' t0 hp u ((hia g' u).mp hu)
  · exact a10
  · intro u g' v f hs' hy
    rw [hlib] at hs'
    by_cases hu : u = x.nTasks
    · subst hu; rw [hl0] at hs'; cases hs'
    · refine a11 u g' v f hs' ?_
      simpa [newTaskSt, hu] using hy
  · intro u hc hlt
    by_cases hu : u = x.nTasks
    · subst hu; simp [newTaskSt]
    · have hlt' : u < x.nTasks + 1 := hlt
      have := a12 u (by simpa [newTaskSt, hu] using hc) (by omega)
      simpa [newTaskSt, hu] using this

/-- `task_done` removes the task from `_task_states` -/
theorem hinv_clearScope {x : State} (h : HInv K ext pa x) (u : Nat) :
    HInv K ext pa (x.setTask u
      (fun y => { y with hasState := false, scope := none, doneCbRun := true })) := by
  refine hinv_scopes h ?_ ?_ ?_ ?_ rfl rfl rfl ?_ ?_ ?_
  · intro v; by_cases hv : v = u
    · subst hv; simp
    · simp [hv]
  · intro v; by_cases hv : v = u
    · subst hv; simp
    · simp [hv]
  · intro v; by_cases hv : v = u
    · subst hv; simp
    · simp [hv]
  · intro v; by_cases hv : v = u
    · subst hv; simp
    · simp [hv]
  · intro v sc he hsc hd hc
    by_cases hv : v = u
    · subst hv; simp at hsc
    · simp only [setTask_tasks, upd_other _ _ _ _ hv] at hsc hd hc
      exact h.h1 v sc he hsc hd hc
  · intro sc v p hh hp hn
    exact h.p1 sc v p hh hp hn
  · intro v g _ _ b2 b3
    exact ⟨b2, b3⟩

/-- `create_task_group()` after the allocation of the group scope -/
theorem hinv_mkGroup {x : State} (h : HInv K ext pa x) (s : Nat)
    (hs : ∀ u, (x.tasks u).hscope ≠ some s) :
    HInv K ext pa
      { x.setGroup x.nGroups (fun _ => { scope := s }) with nGroups := x.nGroups + 1 } := by
  obtain ⟨a1, a2, a3, a4, a5, a6, a7, a8, a9, a10, a11, a12⟩ := h
  constructor
  · exact a1
  · exact a2
  · intro u g hi
    have hi' : InAexitP x pa g u := hi
    obtain ⟨b1, b2, b3⟩ := a3 u g hi'
    have hne : g ≠ x.nGroups := by omega
    refine ⟨by simp only []; omega, ?_⟩
    simpa [hne] using ⟨b2, b3⟩
  · intro g hb
    by_cases hg : g = x.nGroups
    · subst hg
      simp only [setGroup_groups, upd_same] at hb
      rcases hb with hb | hb
      · simp at hb
      · have := a10 _ hb; omega
    · simp only [setGroup_groups, upd_other _ _ _ _ hg] at hb ⊢
      exact a4 g hb
  · exact a5
  · intro g u hg
    by_cases hgn : g = x.nGroups
    · subst hgn
      simpa using hs u
    · have hlt : g < x.nGroups := by
        have : g < x.nGroups + 1 := hg
        omega
      simpa [hgn] using a6 g u hlt
  · exact a7
  · intro u g sc ev hp hl
    have hl' : (x.tasks u).lib = .aexitChk g sc ev ∨ (x.tasks u).lib = .aexitWait g sc ev := hl
    have hlt := (a3 u g (.inl ⟨sc, ev, hl'⟩)).1
    have hne : g ≠ x.nGroups := by omega
    simpa [hne] using a8 u g sc ev hp hl'
  · exact a9
  · intro g hk
    have := a10 g hk
    show g < x.nGroups + 1
    omega
  · exact a11
  · exact a12

/-! ### the guard of `__aexit__` -/

/-- the facts `HInv` yields when the guard of `__aexit__` of `g` holds for the running task `t`:
nothing of the body has been recorded, the group is not marked, nobody is inside `__aexit__` of
`g`, and the group scope is hosted by `t` -/
theorem hinv_guard {x : State} (h : HInv K none none x) (w : WF x) {t g : Nat}
    (hr : x.running = some t) (hlib : (x.tasks t).lib = .none)
    (hex : (x.groups g).exited = false)
    (hsc : (x.tasks t).scope = some (x.groups g).scope) :
    (x.groups g).bodyErrs = [] ∧ ¬ K g ∧ (∀ u, ¬ InAexit x g u) ∧
      (x.scopes (x.groups g).scope).host = some t := by
  have hrun := (w.running_spec t).mp hr
  have hh := h.h1 t _ (by simp) hsc (by rw [hrun]; simp) (by rw [hrun]; simp)
  have hact : (x.scopes (x.groups g).scope).active = true := by
    rw [← w.host_active, hh]; rfl
  have hno : ∀ u, ¬ InAexit x g u := by
    intro u hi
    obtain ⟨_, _, h3⟩ := h.a1 u g (.inl hi)
    rcases h3 with h3 | h3
    · rw [hh] at h3
      cases h3
      obtain ⟨s, ev', hi⟩ := hi
      rw [hlib] at hi
      rcases hi with hi | hi <;> cases hi
    · rw [hact] at h3; cases h3
  have hnb : ¬ ((x.groups g).bodyErrs ≠ [] ∨ K g) := by
    intro hk
    rcases h.b1 g hk with he | ⟨t0, hi | hi⟩
    · rw [hex] at he; cases he
    · exact hno t0 hi
    · cases hi
  refine ⟨?_, fun hk => hnb (.inr hk), hno, hh⟩
  apply Classical.byContradiction
  intro hb; exact hnb (.inl hb)

/-- `__aexit__` of a group that is marked (an exception of the body has been recorded, a task is
inside `__aexit__`, or `K g`) cannot be started (again) -/
theorem hinv_aexit_disabled {x : State} (h : HInv K none none x) (w : WF x) (g : Nat) (ev : ExcVal)
    (hk : (x.groups g).bodyErrs ≠ [] ∨ K g ∨ ∃ u, InAexit x g u) :
    step x (.aexit g ev) = none := by
  rw [step_aexit]
  split
  · rfl
  · rename_i t hr
    split
    · rfl
    · rename_i hg
      exfalso
      simp only [not_or] at hg
      obtain ⟨_, hlib, _, hex, hsc⟩ := hg
      have hlib : (x.tasks t).lib = .none := by simpa using hlib
      have hex : (x.groups g).exited = false := by simpa using hex
      have hsc : (x.tasks t).scope = some (x.groups g).scope := by simpa using hsc
      obtain ⟨g1, g2, g3, _⟩ := hinv_guard h w hr hlib hex hsc
      rcases hk with hk | hk | ⟨u, hk⟩
      · exact hk g1
      · exact g2 hk
      · exact g3 u hk

/-- the running task has passed the guard of `__aexit__` of `g` -/
theorem hinv_pend {x : State} (h : HInv K none none x) (w : WF x) {t g : Nat}
    (hr : x.running = some t) (hlib : (x.tasks t).lib = .none) (hg : g < x.nGroups)
    (hex : (x.groups g).exited = false)
    (hsc : (x.tasks t).scope = some (x.groups g).scope) :
    HInv K none (some (g, t)) x := by
  obtain ⟨_, _, g3, g4⟩ := hinv_guard h w hr hlib hex hsc
  obtain ⟨a1, a2, a3, a4, a5, a6, a7, a8, a9, a10, a11, a12⟩ := h
  constructor
  · exact a1
  · exact a2
  · intro u g' hi
    rcases hi with hi | hi
    · exact a3 u g' (.inl hi)
    · cases hi
      exact ⟨hg, w.entered_of_task_scope hsc, .inl g4⟩
  · intro g' hb
    rcases a4 g' hb with h | ⟨u, hi | hi⟩
    · exact .inl h
    · exact .inr ⟨u, .inl hi⟩
    · cases hi
  · exact a5
  · exact a6
  · exact a7
  · intro u g' s ev _ hl
    exact a8 u g' s ev (fun t0 => by simp) hl
  · intro g' t0 hp u hu
    cases hp
    exact g3 u hu
  · exact a10
  · exact a11
  · exact a12

end AnyioModel.Kernel
