/-
Host invariants, part 2: preservation of `HInv` by the elementary updates that are not inert:
the structural parts of `__enter__` / `__exit__`, a task starting / ending, `lib` changes,
the group bookkeeping of `__aexit__`, `_spawn`, `task_done`.
-/
import AnyioModel.Kernel.HostInv

namespace AnyioModel.Kernel

variable {K : Nat → Prop} {ext ext' exg exg' : Option Nat}

/-! ### inert pure updates -/

theorem hsame_setTask (x : State) (t : Nat) (F : Task → Task)
    (h : (F (x.tasks t)).scope = (x.tasks t).scope ∧ (F (x.tasks t)).hscope = (x.tasks t).hscope ∧
      (F (x.tasks t)).lib = (x.tasks t).lib ∧
      ((F (x.tasks t)).st = .done ↔ (x.tasks t).st = .done) ∧
      ((F (x.tasks t)).st = .created ↔ (x.tasks t).st = .created)) :
    HSame x (x.setTask t F) := by
  obtain ⟨h1, h2, h3, h4, h5⟩ := h
  constructor
  all_goals first
    | (intro u; by_cases hu : u = t
       · subst hu; simp [*]
       · simp [hu])
    | (intros; rfl)
    | rfl

theorem hsame_setScope (x : State) (s : Nat) (F : Scope → Scope)
    (h : (F (x.scopes s)).host = (x.scopes s).host ∧ (F (x.scopes s)).parent = (x.scopes s).parent ∧
      (F (x.scopes s)).active = (x.scopes s).active ∧
      (F (x.scopes s)).entered = (x.scopes s).entered) : HSame x (x.setScope s F) := by
  obtain ⟨h1, h2, h3, h4⟩ := h
  constructor
  all_goals first
    | (intro u; by_cases hu : u = s
       · subst hu; simp [*]
       · simp [hu])
    | (intros; rfl)
    | rfl

theorem hsame_setGroup (x : State) (g : Nat) (F : Group → Group)
    (h : (F (x.groups g)).scope = (x.groups g).scope ∧ (F (x.groups g)).exited = (x.groups g).exited ∧
      (F (x.groups g)).bodyErrs = (x.groups g).bodyErrs) : HSame x (x.setGroup g F) := by
  obtain ⟨h1, h2, h3⟩ := h
  constructor
  all_goals first
    | (intro u; by_cases hu : u = g
       · subst hu; simp [*]
       · simp [hu])
    | (intros; rfl)
    | rfl

theorem hsame_loop {a b : State} (ht : b.tasks = a.tasks) (hs : b.scopes = a.scopes)
    (hg : b.groups = a.groups) (h1 : b.nTasks = a.nTasks) (h2 : b.nGroups = a.nGroups) :
    HSame a b := by
  constructor <;> intros <;> simp [*]

theorem hsame_newScope {x : State} (w : WF x) (sh : Bool) (d : Option Nat) :
    HSame x (newScope x sh d).1 := by
  have dfl := w.scope_dflt (Nat.le_refl x.nScopes)
  unfold newScope
  constructor
  all_goals first
    | (intro u; by_cases hu : u = x.nScopes
       · subst hu; simp [dfl]
       · simp [hu])
    | (intros; rfl)
    | rfl

theorem hsame_newFut (x : State) : HSame x (newFut x).1 :=
  hsame_loop rfl rfl rfl rfl rfl

/-! ### `__enter__` -/

theorem hinv_enterPre {x : State} {t s : Nat} (h : HInv K ext exg x)
    (hs0 : (x.scopes s).host = none) (hsp : (x.scopes s).parent = none)
    (hse : (x.scopes s).entered = false)
    (hts : ∀ u s', (x.tasks u).scope = some s' → (x.scopes s').entered = true)
    (hext : ∀ u, u ≠ t → some u ≠ ext' → some u ≠ ext)
    (hcase : (x.tasks t).hscope = some s ∨
      (some t ≠ ext ∧ (x.tasks t).st ≠ .done ∧ (x.tasks t).st ≠ .created)) :
    HInv K ext' exg (enterPre x t s) := by
  have hv := enterPre_hscopes x t s
  have ht := enterPre_task' x t s
  have hgr : (enterPre x t s).groups = x.groups := (enterPre_frame x t s).2.2.2.2.1
  have hnt : (enterPre x t s).nTasks = x.nTasks := (enterPre_frame x t s).1
  have hng : (enterPre x t s).nGroups = x.nGroups := (enterPre_frame x t s).2.2.2.1
  have hlib : ∀ u, ((enterPre x t s).tasks u).lib = (x.tasks u).lib := by
    intro u; rw [ht]; split <;> simp_all
  have hia : ∀ g u, InAexit (enterPre x t s) g u ↔ InAexit x g u := by
    intro g u; unfold InAexit; rw [hlib]
  obtain ⟨a1, a2, a3, a4, a5⟩ := h
  constructor
  · intro u sc he hsc hd hc
    rw [(hv sc).1]
    rw [ht] at hsc hd hc
    by_cases hu : u = t
    · subst hu
      simp only [if_true] at hsc
      cases hsc
      simp
    · simp only [hu, if_false] at hsc hd hc
      have hh := a1 u sc (hext u hu he) hsc hd hc
      have hne : sc ≠ s := by
        rintro rfl; rw [hs0] at hh; cases hh
      simp [hne, hh]
  · intro sc u p hh hp hn
    rw [(hv sc).1] at hh
    rw [(hv sc).2.2.2] at hp
    rw [(hv p).1]
    have hhs : ((enterPre x t s).tasks u).hscope = (x.tasks u).hscope := by
      rw [ht]; split <;> simp_all
    rw [hhs] at hn
    by_cases hsc : sc = s
    · subst hsc
      simp only [if_true, Option.some.injEq] at hh hp
      subst hh
      rcases hcase with hc | ⟨hc1, hc2, hc3⟩
      · exact absurd hc hn
      · split at hp
        · have hne : p ≠ sc := by
            rintro rfl
            have := hts t p hp; rw [hse] at this; cases this
          simp [hne, a1 t p hc1 hp hc2 hc3]
        · rw [hsp] at hp; cases hp
    · simp only [hsc, if_false] at hh hp
      have := a2 sc u p hh hp hn
      have hne : p ≠ s := by
        rintro rfl; rw [hs0] at this; cases this
      simp [hne, this]
  · intro u g hi
    rw [hia] at hi
    obtain ⟨b1, b2, b3⟩ := a3 u g hi
    rw [hng, hgr]
    have hne : (x.groups g).scope ≠ s := by
      intro e; rw [e, hse] at b2; cases b2
    rw [(hv _).1, (hv _).2.1, (hv _).2.2.1]
    simp [hne, b1, b2, b3]
  · intro g he hb
    rw [hgr] at hb ⊢
    rcases a4 g he hb with h1 | ⟨u, hu⟩
    · exact .inl h1
    · exact .inr ⟨u, (hia g u).mpr hu⟩
  · intro u hu
    rw [hnt] at hu; rw [hlib]; exact a5 u hu

/-! ### `__exit__` -/

theorem hinv_exitPre {x : State} {t s : Nat} (h : HInv K ext exg x)
    (hh : (x.scopes s).host = some t) (hsc : (x.tasks t).scope = some s)
    (hpn : (x.scopes s).parent ≠ some s)
    (hfor : ∀ c, (x.scopes c).host = some t → (x.scopes c).parent = some s → False)
    (hext : ∀ u, u ≠ t → some u ≠ ext' → some u ≠ ext)
    (hcase : ext' = some t ∨ (x.tasks t).hscope ≠ some s) :
    HInv K ext' exg (exitPre x t s) := by
  have hv := exitPre_hscopes x t s
  have ht := exitPre_task x t s
  have hgr : (exitPre x t s).groups = x.groups := (exitPre_frame x t s).2.2.2.2.1
  have hnt : (exitPre x t s).nTasks = x.nTasks := (exitPre_frame x t s).1
  have hng : (exitPre x t s).nGroups = x.nGroups := (exitPre_frame x t s).2.2.2.1
  have hlib : ∀ u, ((exitPre x t s).tasks u).lib = (x.tasks u).lib := by
    intro u; rw [ht]; split <;> simp_all
  have hia : ∀ g u, InAexit (exitPre x t s) g u ↔ InAexit x g u := by
    intro g u; unfold InAexit; rw [hlib]
  obtain ⟨a1, a2, a3, a4, a5⟩ := h
  constructor
  · intro u sc he hs hd hc
    rw [(hv sc).1]
    rw [ht] at hs hd hc
    by_cases hu : u = t
    · subst hu
      simp only [if_true] at hs
      rcases hcase with hc' | hc'
      · exact absurd hc'.symm he
      · have := a2 s u sc hh hs hc'
        have hne : sc ≠ s := by rintro rfl; exact hpn hs
        simp [hne, this]
    · simp only [hu, if_false] at hs hd hc
      have h1 := a1 u sc (hext u hu he) hs hd hc
      have hne : sc ≠ s := by
        rintro rfl; rw [hh] at h1; cases h1; exact hu rfl
      simp [hne, h1]
  · intro sc u p hh' hp hn
    rw [(hv sc).1] at hh'
    rw [(hv sc).2.2.2] at hp
    rw [(hv p).1]
    have hhs : ((exitPre x t s).tasks u).hscope = (x.tasks u).hscope := by
      rw [ht]; split <;> simp_all
    rw [hhs] at hn
    by_cases hs' : sc = s
    · subst hs'; simp at hh'
    · simp only [hs', if_false] at hh'
      have := a2 sc u p hh' hp hn
      have hne : p ≠ s := by
        rintro rfl
        rw [hh] at this; cases this
        exact hfor sc hh' hp
      simp [hne, this]
  · intro u g hi
    rw [hia] at hi
    obtain ⟨b1, b2, b3⟩ := a3 u g hi
    rw [hng, hgr, (hv _).1, (hv _).2.1, (hv _).2.2.1]
    refine ⟨b1, b2, ?_⟩
    by_cases hg : (x.groups g).scope = s
    · simp [hg]
    · simp [hg, b3]
  · intro g he hb
    rw [hgr] at hb ⊢
    rcases a4 g he hb with h1 | ⟨u, hu⟩
    · exact .inl h1
    · exact .inr ⟨u, (hia g u).mpr hu⟩
  · intro u hu
    rw [hnt] at hu; rw [hlib]; exact a5 u hu

end AnyioModel.Kernel
