/-
Delivery of cancellation (`_deliver_cancellation`), part 1: the top-down walk of `deliverGo`
against a declarative bottom-up reading.

* `reachDown st o c`: scope `c` is `o`, or walking up from `c` every scope strictly below `o` is
  active, not shielded and not cancelled, and the walk meets `o`.
* `visitP st n s`: the (scope, task) pairs `deliverGo n st _ s` visits, in order.
* `deliverGo_eq`: `deliverGo` is the fold of the loop body `hit1` over `visitP`, and its flag is
  "some visited task is not done".
* `mem_visitP_iff`: under the forest facts of `WF`, with fuel `nScopes + 1`, the visited pairs are
  exactly the tasks of the scopes `c` with `reachDown st o c`.
-/
import AnyioModel.Kernel.FrameGhost
import AnyioModel.Kernel.WF10

namespace AnyioModel.Kernel

/-! ### the declarative relation -/

/-- `c = o`, or `c` is an active scope, neither shielded nor cancelled, whose parent is
`reachDown` from `o`: the walk up from `c` meets `o` before any shield or cancelled scope -/
inductive reachDown (st : State) (o : Nat) : Nat → Prop
  | refl : reachDown st o o
  | step {c p : Nat} : (st.scopes c).parent = some p → (st.scopes c).active = true →
      (st.scopes c).shield = false → (st.scopes c).cancelCalled = false →
      reachDown st o p → reachDown st o c

/-- some task that is not done sits in a scope that a delivery from `o` reaches -/
def needs (st : State) (o : Nat) : Prop :=
  ∃ c t, reachDown st o c ∧ t ∈ (st.scopes c).tasks ∧ (st.tasks t).st ≠ .done

/-- the tasks on which a delivery from `o` calls `Task.cancel()` -/
def hitSet (st : State) (o t : Nat) : Prop :=
  ∃ c, reachDown st o c ∧ t ∈ (st.scopes c).tasks ∧ hitCancels st c t = true

def notDone (st : State) (t : Nat) : Bool := !decide ((st.tasks t).st = .done)

/-- what `reachDown` reads -/
theorem reachDown_congr {a b : State} {o c : Nat}
    (h : ∀ s, (b.scopes s).parent = (a.scopes s).parent ∧ (b.scopes s).active = (a.scopes s).active ∧
      (b.scopes s).shield = (a.scopes s).shield ∧
      (b.scopes s).cancelCalled = (a.scopes s).cancelCalled)
    (r : reachDown a o c) : reachDown b o c := by
  induction r with
  | refl => exact .refl
  | step h1 h2 h3 h4 _ ih =>
    exact .step (by rw [(h _).1]; exact h1) (by rw [(h _).2.1]; exact h2)
      (by rw [(h _).2.2.1]; exact h3) (by rw [(h _).2.2.2]; exact h4) ih

theorem reachDown_trans {st : State} {o p c : Nat} (h1 : reachDown st o p)
    (h2 : reachDown st p c) : reachDown st o c := by
  induction h2 with
  | refl => exact h1
  | step a b c d _ ih => exact .step a b c d ih

/-! ### the loop body as a state transformer -/

/-- a child scope the walk descends into -/
def okChild (st : State) (c : Nat) : Bool :=
  !(st.scopes c).shield && !(st.scopes c).cancelCalled

/-- the (scope, task) pairs visited by `deliverGo n st _ s`, in order -/
def visitP (st : State) : Nat → Nat → List (Nat × Nat)
  | 0, _ => []
  | n + 1, s => (st.scopes s).tasks.map (fun t => (s, t)) ++
      (st.scopes s).children.flatMap (fun c => if okChild st c then visitP st n c else [])

/-- the state part of the loop body `hitTask` -/
def hit1 (o : Nat) (x : State) (p : Nat × Nat) : State :=
  if hitCancels x p.1 p.2 = true then hitDo (taskCancel x p.2 true) o p.2 else x

theorem hitTask_fst (o s : Nat) (acc : State × Bool) (t : Nat) :
    (hitTask o s acc t).1 = hit1 o acc.1 (s, t) := by
  unfold hit1
  cases h : hitCancels acc.1 s t
  · simp [hitTask_skip o s acc t h]
  · simp [hitTask_hit o s acc t h]

theorem hitTask_snd (o s : Nat) (acc : State × Bool) (t : Nat) :
    (hitTask o s acc t).2 = (acc.2 || notDone acc.1 t) := by
  unfold hitTask notDone
  simp only []
  split
  · rename_i h; simp [h]
  · rename_i h
    split
    · simp [h]
    · split
      · split <;> simp [h]
      · simp [h]

theorem hitTask_eq (o s : Nat) (acc : State × Bool) (t : Nat) :
    hitTask o s acc t = (hit1 o acc.1 (s, t), acc.2 || notDone acc.1 t) := by
  rw [← hitTask_fst, ← hitTask_snd]

theorem frame_hit1 (o : Nat) (x : State) (p : Nat × Nat) : Frame x (hit1 o x p) := by
  have := frame_hitTask o p.1 (x, false) p.2
  rw [hitTask_fst] at this
  exact this

theorem frame_foldl_hit1 (o : Nat) (l : List (Nat × Nat)) (x : State) :
    Frame x (l.foldl (hit1 o) x) := by
  induction l generalizing x with
  | nil => exact Frame.refl _
  | cons p l ih => exact (frame_hit1 o x p).trans (ih _)

theorem Frame.notDone {a b : State} (f : Frame a b) (t : Nat) : notDone b t = notDone a t := by
  unfold AnyioModel.Kernel.notDone
  have := (f.tasks t).st_done
  by_cases h : (a.tasks t).st = .done <;> simp_all

theorem Frame.okChild {a b : State} (f : Frame a b) (c : Nat) : okChild b c = okChild a c := by
  unfold AnyioModel.Kernel.okChild
  rw [(f.scopes c).shield, (f.scopes c).cancelCalled]

theorem Frame.visitP {a b : State} (f : Frame a b) (n s : Nat) : visitP b n s = visitP a n s := by
  induction n generalizing s with
  | zero => rfl
  | succ n ih =>
    simp only [AnyioModel.Kernel.visitP, (f.scopes s).tasks, (f.scopes s).children, f.okChild, ih]

/-- the `for task in self._tasks` loop -/
theorem foldl_hitTask (o s : Nat) (l : List Nat) (acc : State × Bool) :
    l.foldl (hitTask o s) acc =
      ((l.map (fun t => (s, t))).foldl (hit1 o) acc.1, acc.2 || l.any (notDone acc.1)) := by
  induction l generalizing acc with
  | nil => simp
  | cons t l ih =>
    simp only [List.foldl_cons, List.map_cons, List.any_cons]
    rw [ih, hitTask_eq]
    simp only [Bool.or_assoc]
    have : notDone (hit1 o acc.1 (s, t)) = notDone acc.1 :=
      funext (fun u => (frame_hit1 o acc.1 (s, t)).notDone u)
    rw [this]

/-- `deliverGo` = fold of the loop body over the visited pairs; flag = some visited task not done -/
theorem deliverGo_eq (n : Nat) (a : State) (o s : Nat) :
    deliverGo n a o s =
      ((visitP a n s).foldl (hit1 o) a, (visitP a n s).any (fun p => notDone a p.2)) := by
  induction n generalizing a s with
  | zero => simp [deliverGo, visitP]
  | succ n ih =>
    -- the loop over the child scopes, from any state that is a `Frame` away from `a`
    have key : ∀ (l : List Nat) (acc : State × Bool), Frame a acc.1 →
        l.foldl (fun acc c =>
          if !(acc.1.scopes c).shield && !(acc.1.scopes c).cancelCalled then
            let r := deliverGo n acc.1 o c
            (r.1, acc.2 || r.2)
          else acc) acc =
        ((l.flatMap (fun c => if okChild a c then visitP a n c else [])).foldl (hit1 o) acc.1,
          acc.2 || (l.flatMap (fun c => if okChild a c then visitP a n c else [])).any
            (fun p => notDone a p.2)) := by
      intro l
      induction l with
      | nil => intro acc _; simp
      | cons c l ihl =>
        intro acc hf
        simp only [List.foldl_cons, List.flatMap_cons, List.foldl_append, List.any_append]
        have hok : (!(acc.1.scopes c).shield && !(acc.1.scopes c).cancelCalled) = okChild a c := by
          rw [← hf.okChild]; rfl
        rw [hok]
        cases hc : okChild a c
        · simp only [Bool.false_eq_true, if_false, List.foldl_nil, List.any_nil, Bool.false_or]
          exact ihl acc hf
        · simp only [if_true]
          rw [ihl _ (by
            rw [ih]; exact hf.trans (frame_foldl_hit1 _ _ _))]
          rw [ih]
          have : (fun p : Nat × Nat => notDone acc.1 p.2) = (fun p => notDone a p.2) :=
            funext (fun p => hf.notDone p.2)
          simp only [hf.visitP, Bool.or_assoc, this]
    unfold deliverGo
    simp only []
    rw [foldl_hitTask, key _ _ (frame_foldl_hit1 _ _ _)]
    simp only [visitP, List.foldl_append, List.any_append, List.any_map, Bool.false_or]
    rfl

/-! ### the visited pairs, declaratively -/

/-- the forest facts of `WF` that relate `children` (walked top-down by the code) to `parent` /
`chain` (the declarative reading); `host` is not involved, so they also hold in the middle of
`__exit__` -/
structure Tree (st : State) : Prop where
  child_spec : ∀ p c, c ∈ (st.scopes p).children →
    (st.scopes c).active = true ∧ (st.scopes c).parent = some p
  child_conv : ∀ p c, (st.scopes c).active = true → (st.scopes c).parent = some p →
    c ∈ (st.scopes p).children
  chain_spec : ∀ s, (st.scopes s).entered = true → (st.scopes s).chain =
    s :: (match (st.scopes s).parent with | none => [] | some p => (st.scopes p).chain)
  active_entered : ∀ s, (st.scopes s).active = true → (st.scopes s).entered = true
  chain_len : ∀ s, (st.scopes s).chain.length ≤ st.nScopes

theorem WF.tree {st : State} (h : WF st) : Tree st :=
  ⟨h.child_spec, h.child_conv, h.chain_spec, h.active_entered, chain_length_le h⟩

theorem Tree.congr {a b : State} (h : Tree a) (hn : b.nScopes = a.nScopes)
    (hs : ∀ s, (b.scopes s).children = (a.scopes s).children ∧
      (b.scopes s).active = (a.scopes s).active ∧ (b.scopes s).parent = (a.scopes s).parent ∧
      (b.scopes s).entered = (a.scopes s).entered ∧ (b.scopes s).chain = (a.scopes s).chain) :
    Tree b := by
  constructor
  · intro p c; rw [(hs p).1, (hs c).2.1, (hs c).2.2.1]; exact h.child_spec p c
  · intro p c; rw [(hs p).1, (hs c).2.1, (hs c).2.2.1]; exact h.child_conv p c
  · intro s; rw [(hs s).2.2.2.1, (hs s).2.2.2.2, (hs s).2.2.1]
    intro he; rw [h.chain_spec s he]
    cases (a.scopes s).parent with
    | none => rfl
    | some p => simp only [(hs p).2.2.2.2]
  · intro s; rw [(hs s).2.1, (hs s).2.2.2.1]; exact h.active_entered s
  · intro s; rw [(hs s).2.2.2.2, hn]; exact h.chain_len s

theorem Tree.frame {a b : State} (h : Tree a) (f : Frame a b) : Tree b :=
  h.congr f.nScopes (fun s => ⟨(f.scopes s).children, (f.scopes s).active, (f.scopes s).parent,
    (f.scopes s).entered, (f.scopes s).chain⟩)

theorem mem_visitP_succ {st : State} {n s c t : Nat} :
    (c, t) ∈ visitP st (n + 1) s ↔
      (c = s ∧ t ∈ (st.scopes s).tasks) ∨
      ∃ d, d ∈ (st.scopes s).children ∧ okChild st d = true ∧ (c, t) ∈ visitP st n d := by
  simp only [visitP, List.mem_append, List.mem_map, List.mem_flatMap, Prod.mk.injEq]
  constructor
  · rintro (⟨u, hu, rfl, rfl⟩ | ⟨d, hd, hm⟩)
    · exact .inl ⟨rfl, hu⟩
    · right
      refine ⟨d, hd, ?_⟩
      split at hm
      · rename_i hk; exact ⟨hk, hm⟩
      · simp at hm
  · rintro (⟨rfl, hu⟩ | ⟨d, hd, hk, hm⟩)
    · exact .inl ⟨t, hu, rfl, rfl⟩
    · exact .inr ⟨d, hd, by simpa [hk] using hm⟩

/-- the scopes visited with fuel `n` from `s` -/
def visitS (st : State) : Nat → Nat → List Nat
  | 0, _ => []
  | n + 1, s => s :: (st.scopes s).children.flatMap
      (fun c => if okChild st c then visitS st n c else [])

theorem mem_visitS_succ {st : State} {n s c : Nat} :
    c ∈ visitS st (n + 1) s ↔
      c = s ∨ ∃ d, d ∈ (st.scopes s).children ∧ okChild st d = true ∧ c ∈ visitS st n d := by
  simp only [visitS, List.mem_cons, List.mem_flatMap]
  constructor
  · rintro (rfl | ⟨d, hd, hm⟩)
    · exact .inl rfl
    · right
      refine ⟨d, hd, ?_⟩
      split at hm
      · rename_i hk; exact ⟨hk, hm⟩
      · simp at hm
  · rintro (rfl | ⟨d, hd, hk, hm⟩)
    · exact .inl rfl
    · exact .inr ⟨d, hd, by simpa [hk] using hm⟩

theorem mem_visitP_visitS {st : State} {n s c t : Nat} :
    (c, t) ∈ visitP st n s ↔ c ∈ visitS st n s ∧ t ∈ (st.scopes c).tasks := by
  induction n generalizing s with
  | zero => simp [visitP, visitS]
  | succ n ih =>
    rw [mem_visitP_succ, mem_visitS_succ]
    constructor
    · rintro (⟨rfl, hu⟩ | ⟨d, hd, hk, hm⟩)
      · exact ⟨.inl rfl, hu⟩
      · exact ⟨.inr ⟨d, hd, hk, (ih.mp hm).1⟩, (ih.mp hm).2⟩
    · rintro ⟨(rfl | ⟨d, hd, hk, hm⟩), hu⟩
      · exact .inl ⟨rfl, hu⟩
      · exact .inr ⟨d, hd, hk, ih.mpr ⟨hm, hu⟩⟩

theorem visitS_mono {st : State} {n s c : Nat} (h : c ∈ visitS st n s) :
    c ∈ visitS st (n + 1) s := by
  induction n generalizing s with
  | zero => simp [visitS] at h
  | succ n ih =>
    rw [mem_visitS_succ] at h ⊢
    rcases h with rfl | ⟨d, hd, hk, hm⟩
    · exact .inl rfl
    · exact .inr ⟨d, hd, hk, ih hm⟩

theorem visitS_mono_le {st : State} {n m s c : Nat} (hnm : n ≤ m) (h : c ∈ visitS st n s) :
    c ∈ visitS st m s := by
  induction hnm with
  | refl => exact h
  | step _ ih => exact visitS_mono ih

/-- a visited scope's eligible children are visited with one more unit of fuel -/
theorem visitS_extend {st : State} {n s p c : Nat} (h : p ∈ visitS st n s)
    (hc : c ∈ (st.scopes p).children) (hk : okChild st c = true) : c ∈ visitS st (n + 1) s := by
  induction n generalizing s with
  | zero => simp [visitS] at h
  | succ n ih =>
    rw [mem_visitS_succ] at h
    rw [mem_visitS_succ]
    rcases h with rfl | ⟨d, hd, hkd, hm⟩
    · right
      refine ⟨c, hc, hk, ?_⟩
      rw [mem_visitS_succ]; exact .inl rfl
    · exact .inr ⟨d, hd, hkd, ih hm⟩

/-- top-down implies bottom-up -/
theorem reachDown_of_visitS {st : State} (w : Tree st) {n s c : Nat} (h : c ∈ visitS st n s) :
    reachDown st s c := by
  induction n generalizing s with
  | zero => simp [visitS] at h
  | succ n ih =>
    rw [mem_visitS_succ] at h
    rcases h with rfl | ⟨d, hd, hk, hm⟩
    · exact .refl
    · have ⟨ha, hp⟩ := w.child_spec s d hd
      simp only [okChild, Bool.and_eq_true, Bool.not_eq_eq_eq_not, Bool.not_true] at hk
      exact reachDown_trans (.step hp ha hk.1 hk.2 .refl) (ih hm)

/-- bottom-up implies top-down, with the depth read off the chains -/
theorem visitS_of_reachDown {st : State} (w : Tree st) {s c : Nat} (h : reachDown st s c) :
    ∃ k, c ∈ visitS st (k + 1) s ∧
      (k = 0 ∨ (st.scopes c).chain.length = (st.scopes s).chain.length + k) := by
  induction h with
  | refl => exact ⟨0, by rw [mem_visitS_succ]; exact .inl rfl, .inl rfl⟩
  | @step c p hp ha hs hc _ ih =>
    obtain ⟨k, hk, hl⟩ := ih
    refine ⟨k + 1, visitS_extend hk (w.child_conv p c ha hp) (by simp [okChild, hs, hc]), .inr ?_⟩
    have e := w.chain_spec c (w.active_entered c ha)
    rw [hp] at e
    simp only [] at e
    rw [e, List.length_cons]
    rcases hl with rfl | hl
    · have : c ∈ visitS st 1 s → True := fun _ => trivial
      rw [mem_visitS_succ] at hk
      rcases hk with rfl | ⟨d, _, _, hm⟩
      · omega
      · simp [visitS] at hm
    · omega

/-- with fuel `nScopes + 1` the walk visits exactly the tasks of the scopes `reachDown` from `s` -/
theorem mem_visitP_iff {st : State} (w : Tree st) {s c t : Nat} :
    (c, t) ∈ visitP st (st.nScopes + 1) s ↔ reachDown st s c ∧ t ∈ (st.scopes c).tasks := by
  rw [mem_visitP_visitS]
  constructor
  · rintro ⟨h, hu⟩; exact ⟨reachDown_of_visitS w h, hu⟩
  · rintro ⟨h, hu⟩
    refine ⟨?_, hu⟩
    obtain ⟨k, hk, hl⟩ := visitS_of_reachDown w h
    refine visitS_mono_le ?_ hk
    rcases hl with rfl | hl
    · omega
    · have := w.chain_len c; omega

/-- the flag returned by `_deliver_cancellation`: some task that is not done sits in a scope the
walk reaches -/
theorem deliverGo_flag {st : State} (w : Tree st) (o : Nat) :
    (deliverGo (st.nScopes + 1) st o o).2 = true ↔ needs st o := by
  rw [deliverGo_eq]
  simp only [List.any_eq_true, Prod.exists]
  constructor
  · rintro ⟨c, t, hm, hd⟩
    have := (mem_visitP_iff w).mp hm
    exact ⟨c, t, this.1, this.2, by simpa [notDone] using hd⟩
  · rintro ⟨c, t, hr, ht, hd⟩
    exact ⟨c, t, (mem_visitP_iff w).mpr ⟨hr, ht⟩, by simpa [notDone] using hd⟩

end AnyioModel.Kernel
