/-
The cancellation-count invariant `CI`, part 5: the sum in list form (`pendSum`), and step-local
facts about `__exit__` (what the absorbing branch does to `Task.cancelling()`) and about a
`_deliver_cancellation` run that finds nothing to do.
-/
import AnyioModel.Kernel.CountInv4
import AnyioModel.Kernel.WF10
import AnyioModel.Kernel.PureProofs

namespace AnyioModel.Kernel

/-- `Σ {pending s | s < nScopes, host s = some t, s active}` -/
def pendSum (st : State) (t : Nat) : Nat :=
  (((List.range st.nScopes).filter
      (fun s => decide ((st.scopes s).host = some t ∧ (st.scopes s).active = true))).map
    (fun s => (st.scopes s).pending)).sum

theorem pendSum_eq_pendH_aux (sc : Nat → Scope) (t : Nat)
    (hw : ∀ s, (sc s).host.isSome = (sc s).active) (n : Nat) :
    (((List.range n).filter
      (fun s => decide ((sc s).host = some t ∧ (sc s).active = true))).map
      (fun s => (sc s).pending)).sum = pendH n sc t := by
  induction n with
  | zero => rfl
  | succ n ih =>
    rw [List.range_succ, List.filter_append, List.map_append, List.sum_append, ih]
    simp only [pendH, contrib]
    congr 1
    by_cases hh : (sc n).host = some t
    · have : (sc n).active = true := by rw [← hw n, hh]; rfl
      simp [hh, this]
    · simp [hh]

/-- in a well-formed state "hosted by `t`" and "hosted by `t` and active" are the same -/
theorem pendSum_eq_pendH {st : State} (w : WF st) (t : Nat) :
    pendSum st t = pendH st.nScopes st.scopes t :=
  pendSum_eq_pendH_aux st.scopes t w.host_active st.nScopes

/-! ### the delivery machinery never touches the running task, nor `pending` of other origins -/

theorem foldl_pred {α β : Type} (P : State → Prop) (f : State × β → α → State × β)
    (hf : ∀ acc x, P acc.1 → P (f acc x).1) (l : List α) (acc : State × β) (h : P acc.1) :
    P (l.foldl f acc).1 := by
  induction l generalizing acc with
  | nil => exact h
  | cons x l ih => exact ih _ (hf acc x h)

theorem hitTask_running (origin s : Nat) (acc : State × Bool) (u : Nat) {t : Nat}
    (hr : acc.1.running = some t) : GhostEq (acc.1.tasks t) ((hitTask origin s acc u).1.tasks t) := by
  by_cases hu : t = u
  · subst hu
    rw [hitTask_skip origin s acc t (by simp [hitCancels, hr])]
    exact GhostEq.refl _
  · exact hitTask_ghost_other origin s acc u hu

theorem deliverGo_running (fuel : Nat) (st : State) (origin s : Nat) {t : Nat}
    (hr : st.running = some t) :
    GhostEq (st.tasks t) ((deliverGo fuel st origin s).1.tasks t) := by
  suffices h : ∀ fuel (a : State) (s : Nat), (a.running = some t ∧ GhostEq (st.tasks t) (a.tasks t)) →
      ((deliverGo fuel a origin s).1.running = some t ∧
        GhostEq (st.tasks t) ((deliverGo fuel a origin s).1.tasks t)) from
    (h fuel st s ⟨hr, GhostEq.refl _⟩).2
  intro fuel
  induction fuel with
  | zero => intro a s h; exact h
  | succ n ih =>
    intro a s h
    unfold deliverGo
    simp only []
    apply foldl_pred (fun x => x.running = some t ∧ GhostEq (st.tasks t) (x.tasks t))
    · intro acc c hacc
      split
      · exact ih _ _ hacc
      · exact hacc
    · apply foldl_pred (fun x => x.running = some t ∧ GhostEq (st.tasks t) (x.tasks t))
      · intro acc u hacc
        exact ⟨by rw [(frame_hitTask origin s acc u).running]; exact hacc.1,
          hacc.2.trans (hitTask_running origin s acc u hacc.1)⟩
      · exact h

theorem deliver_running (st : State) (origin : Nat) {t : Nat} (hr : st.running = some t) :
    GhostEq (st.tasks t) ((deliver st origin).tasks t) := by
  unfold deliver
  simp only []
  split
  · exact deliverGo_running _ st origin origin hr
  · exact deliverGo_running _ st origin origin hr

theorem restartList_running (st : State) (l : List Nat) {t : Nat} (hr : st.running = some t) :
    GhostEq (st.tasks t) ((restartList st l).tasks t) := by
  induction l with
  | nil => exact GhostEq.refl _
  | cons s rest ih =>
    unfold restartList
    split
    · split
      · exact GhostEq.refl _
      · exact deliver_running st s hr
    · split
      · exact GhostEq.refl _
      · exact ih

theorem deliverGo_scope_other (fuel : Nat) (st : State) (origin s : Nat) {x : Nat}
    (hx : x ≠ origin) : (deliverGo fuel st origin s).1.scopes x = st.scopes x := by
  suffices h : ∀ fuel (a : State) (s : Nat), a.scopes x = st.scopes x →
      (deliverGo fuel a origin s).1.scopes x = st.scopes x from h fuel st s rfl
  intro fuel
  induction fuel with
  | zero => intro a s h; exact h
  | succ n ih =>
    intro a s h
    unfold deliverGo
    simp only []
    apply foldl_pred (fun y => y.scopes x = st.scopes x)
    · intro acc c hacc
      split
      · exact ih _ _ hacc
      · exact hacc
    · apply foldl_pred (fun y => y.scopes x = st.scopes x)
      · intro acc u hacc
        show (hitTask origin s acc u).1.scopes x = st.scopes x
        rw [hitTask_pending_other origin s acc u hx]; exact hacc
      · exact h

theorem deliver_scope_other (st : State) (origin : Nat) {x : Nat} (hx : x ≠ origin) :
    (deliver st origin).scopes x = st.scopes x := by
  unfold deliver
  simp only []
  split
  · simp [hx, deliverGo_scope_other _ st origin origin hx]
  · simp [hx, deliverGo_scope_other _ st origin origin hx]

theorem restartList_scope_other (st : State) (l : List Nat) {x : Nat} (hx : x ∉ l) :
    (restartList st l).scopes x = st.scopes x := by
  induction l with
  | nil => rfl
  | cons s rest ih =>
    have h1 : x ≠ s := fun e => hx (by simp [e])
    have h2 : x ∉ rest := fun e => hx (by simp [e])
    unfold restartList
    split
    · split
      · rfl
      · exact deliver_scope_other st s h1
    · split
      · rfl
      · exact ih h2

/-! ### `__exit__`, absorbing branch -/

theorem exitCore_scope_self (st : State) (t s : Nat) (hp : (st.scopes s).parent ≠ some s) :
    ((exitCore st t s).scopes s).chain = (st.scopes s).chain ∧
    ((exitCore st t s).scopes s).cancelCalled = (st.scopes s).cancelCalled ∧
    ((exitCore st t s).scopes s).pending = (st.scopes s).pending ∧
    (exitCore st t s).running = st.running := by
  cases hB : (st.scopes s).parent <;> cases hT : (st.scopes s).timer <;>
    simp only [exitCore, hB, hT, setScope_scopes, setTask_scopes, unschedule_scopes,
      setScope_running, setTask_running, unschedule_running,
      Bool.false_eq_true, if_false, if_true] <;>
    grind

/-- in the absorbing branch the tail of `__exit__` uncancels exactly `pending` times -/
theorem exitTail_absorb (m : State) (t s : Nat) (ev : ExcVal)
    (hc : (m.scopes s).cancelCalled = true) (hv : parentVisible m s = false) :
    ((exitTail m t s ev).1.tasks t).ncancel = (m.tasks t).ncancel - (m.scopes s).pending ∧
    ((exitTail m t s ev).1.scopes s).pending = 0 := by
  unfold exitTail
  simp only [hc, hv, Bool.not_false, and_self, if_true]
  split
  · split
    · simp [taskUncancel]
    · split <;> simp [taskUncancel]
  · simp [taskUncancel]
  · simp [taskUncancel]

/-- every branch of the tail of `__exit__` leaves the scope owing nothing -/
theorem exitTail_pending (m : State) (t s : Nat) (ev : ExcVal)
    (hpar : (m.scopes s).parent ≠ some s) :
    ((exitTail m t s ev).1.scopes s).pending = 0 := by
  unfold exitTail
  simp only []
  split
  · split
    · split
      · simp
      · split <;> simp
    · simp
    · simp
  · split
    · split
      · rename_i p hp
        have : s ≠ p := fun e => hpar (by rw [hp, e])
        split <;> simp [this]
      · simp
    · rename_i hz
      have : (m.scopes s).pending = 0 := by omega
      simp [this]

/-! ### a delivery run that finds nothing to do -/

theorem hitTask_done (origin s : Nat) (acc : State × Bool) (u : Nat)
    (hd : (acc.1.tasks u).st = .done) : hitTask origin s acc u = acc := by
  simp [hitTask, hd]

theorem deliverGo_idle (fuel : Nat) (st : State) (origin s : Nat)
    (ht : ∀ u ∈ (st.scopes s).tasks, (st.tasks u).st = .done)
    (hc : ∀ c ∈ (st.scopes s).children,
      (st.scopes c).shield = true ∨ (st.scopes c).cancelCalled = true) :
    deliverGo (fuel + 1) st origin s = (st, false) := by
  unfold deliverGo
  simp only []
  have h1 : ∀ (l : List Nat), (∀ u ∈ l, (st.tasks u).st = .done) →
      l.foldl (hitTask origin s) (st, false) = (st, false) := by
    intro l
    induction l with
    | nil => intro _; rfl
    | cons u l ih =>
      intro hl
      rw [List.foldl_cons, hitTask_done origin s (st, false) u (hl u (by simp))]
      exact ih (fun v hv => hl v (by simp [hv]))
  rw [h1 _ ht]
  generalize (st.scopes s).children = l at hc
  induction l with
  | nil => rfl
  | cons c l ih =>
    rw [List.foldl_cons]
    have := hc c (by simp)
    have hskip : (!(st.scopes c).shield && !(st.scopes c).cancelCalled) = false := by
      rcases this with h | h <;> simp [h]
    simp only [hskip, Bool.false_eq_true, if_false]
    exact ih (fun v hv => hc v (by simp [hv]))

theorem deliver_idle (st : State) (s : Nat)
    (ht : ∀ u ∈ (st.scopes s).tasks, (st.tasks u).st = .done)
    (hc : ∀ c ∈ (st.scopes s).children,
      (st.scopes c).shield = true ∨ (st.scopes c).cancelCalled = true) :
    deliver st s = st.setScope s (fun x => { x with deliver := false }) := by
  unfold deliver
  simp only [deliverGo_idle st.nScopes st s s ht hc, Bool.false_eq_true, if_false]

/-! ### reachable states -/

theorem ci_reach {st : State} (hr : Reach st) : CI st := ci_reach_of_wf (fun _ h => wf_reach h) hr

end AnyioModel.Kernel
