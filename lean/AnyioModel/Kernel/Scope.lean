/-
Kernel model, part 2: futures, `Task.cancel()`, and `CancelScope`
(`src/anyio/_backends/_asyncio.py:384-698`), transcribed method by method.
-/
import AnyioModel.Kernel.Types

namespace AnyioModel.Kernel

/-- `Future.set_result / set_exception / cancel` on a pending future: record the state and
schedule the wake-up of the task awaiting it (`call_soon(task.__wakeup, fut)`) -/
def resolveFut (st : State) (f : Nat) (v : FutSt) : State :=
  if (st.futs f).done then st else
  let st := st.setFut f v
  match st.futWaiter f with
  | some t =>
    if (st.tasks t).st = .blocked f then
      (st.setTask t (fun x => { x with st := .woken f })).schedule (.wakeup t)
    else st
  | none => st

/-- `asyncio.Task.cancel(msg)`; `anyio` records whether `msg` is a cancel-scope message -/
def taskCancel (st : State) (t : Nat) (anyio : Bool) : State :=
  let tk := st.tasks t
  if tk.st = .done then st else
  let st := st.setTask t (fun x =>
    { x with ncancel := x.ncancel + 1,
             nNative := if anyio then x.nNative else x.nNative + 1,
             nAnyio := if anyio then x.nAnyio + 1 else x.nAnyio })
  match tk.st with
  | .blocked f => resolveFut st f (.cancelled anyio)
  | _ => st.setTask t (fun x => { x with mustCancel := true, mcAnyio := anyio })

/-- `Task.uncancel()` called `n` times -/
def taskUncancel (st : State) (t : Nat) (n : Nat) : State :=
  st.setTask t (fun x =>
    { x with ncancel := x.ncancel - n, nUncancel := x.nUncancel + min n x.ncancel })

/-! ### `_effectively_cancelled`, `_parent_cancellation_is_visible_to_us` -/

/-- the walk of `_effectively_cancelled` along a chain of scopes (nearest first) -/
def effCancelledList (st : State) : List Nat → Bool
  | [] => false
  | s :: rest =>
    if (st.scopes s).cancelCalled then true
    else if (st.scopes s).shield then false
    else effCancelledList st rest

/-- `scope._effectively_cancelled`.  A scope that was never entered has no parent. -/
def effCancelled (st : State) (s : Nat) : Bool :=
  effCancelledList st (if (st.scopes s).chain = [] then [s] else (st.scopes s).chain)

def parentVisible (st : State) (s : Nat) : Bool :=
  match (st.scopes s).parent with
  | none => false
  | some p => !(st.scopes s).shield && effCancelled st p

/-! ### `_deliver_cancellation` -/

/-- body of the `for task in self._tasks` loop for one task of scope `s` -/
def hitTask (origin s : Nat) (acc : State × Bool) (t : Nat) : State × Bool :=
  let st := acc.1
  let tk := st.tasks t
  if tk.st = .done then acc
  else if tk.mustCancel then (st, true)
  else if st.running ≠ some t ∧ ((st.scopes s).host = some t ∨ tk.st ≠ .created) then
    match tk.st with
    | .woken _ => (st, true)  -- waiter future already done: leave the task alone
    | _ =>
      let st := taskCancel st t true
      let st :=
        if (st.scopes origin).host = some t then
          (st.setScope origin (fun x => { x with pending := x.pending + 1 })).setTask t
            (fun x => { x with nOwn := x.nOwn + 1 })
        else st.setTask t (fun x => { x with nForeign := x.nForeign + 1 })
      (st, true)
  else (st, true)

/-- the recursive walk: own tasks, then child scopes that are neither shielded nor cancelled -/
def deliverGo : Nat → State → Nat → Nat → State × Bool
  | 0, st, _, _ => (st, false)
  | fuel + 1, st, origin, s =>
    let acc := (st.scopes s).tasks.foldl (hitTask origin s) (st, false)
    (st.scopes s).children.foldl
      (fun acc c =>
        if !(acc.1.scopes c).shield && !(acc.1.scopes c).cancelCalled then
          let r := deliverGo fuel acc.1 origin c
          (r.1, acc.2 || r.2)
        else acc)
      acc

/-- `origin._deliver_cancellation(origin)` including the rescheduling at its end -/
def deliver (st : State) (origin : Nat) : State :=
  let r := deliverGo (st.nScopes + 1) st origin origin
  if r.2 then
    (r.1.setScope origin (fun x => { x with deliver := true })).schedule (.deliver origin)
  else r.1.setScope origin (fun x => { x with deliver := false })

/-- `_restart_cancellation_in_parent`: walk up the ancestors -/
def restartList (st : State) : List Nat → State
  | [] => st
  | s :: rest =>
    if (st.scopes s).cancelCalled then
      if (st.scopes s).deliver then st else deliver st s
    else if (st.scopes s).shield then st
    else restartList st rest

def restartInParent (st : State) (s : Nat) : State :=
  restartList st (st.scopes s).chain.tail

/-- `CancelScope.cancel()` -/
def cancelScope (st : State) (s : Nat) (byDeadline : Bool) : State :=
  if (st.scopes s).cancelCalled then st else
  let st :=
    if (st.scopes s).timer then
      (st.unschedule (.timeout s)).setScope s (fun x => { x with timer := false })
    else st
  let st := st.setScope s (fun x =>
    { x with cancelCalled := true, byDeadline := byDeadline, cancelTime := st.now })
  if (st.scopes s).host.isSome then deliver st s else st

/-- `CancelScope._timeout()` -/
def armTimeout (st : State) (s : Nat) : State :=
  match (st.scopes s).deadline with
  | none => st
  | some d =>
    if st.now ≥ d then cancelScope st s true
    else
      { st.setScope s (fun x => { x with timer := true }) with
        timers := st.timers ++ [(d, .timeout s)] }

/-- `CancelScope.__enter__` by task `t`; `none` = RuntimeError (scope already used) -/
def enterScope (st : State) (t s : Nat) : Option State :=
  if (st.scopes s).active ∨ (st.scopes s).entered then none else
  let tk := st.tasks t
  let st := st.setScope s (fun x => { x with host := some t, tasks := t :: x.tasks })
  let st :=
    if !tk.hasState then
      (st.setTask t (fun x => { x with hasState := true, scope := some s })).setScope s
        (fun x => { x with chain := [s] })
    else
      let pchain : List Nat := match tk.scope with
        | some p => (st.scopes p).chain
        | none => []
      let st := st.setScope s (fun x => { x with parent := tk.scope, chain := s :: pchain })
      let st := st.setTask t (fun x => { x with scope := some s })
      match tk.scope with
      | some p =>
        st.setScope p (fun x => { x with children := s :: x.children, tasks := x.tasks.erase t })
      | none => st
  let st := armTimeout st s
  let st := st.setScope s (fun x => { x with active := true, entered := true })
  some (if (st.scopes s).cancelCalled then deliver st s else st)

inductive ExitResult where
  | swallowed                 -- `__exit__` returned True
  | passed                    -- returned False: the incoming exception (if any) continues
  | raised (es : List Exc)    -- `raise remaining`: a new group with the non-cancellation leaves
  deriving DecidableEq, Repr

/-- `CancelScope.__exit__(exc)` by task `t`; `none` = one of its RuntimeErrors -/
def exitScope (st : State) (t s : Nat) (ev : ExcVal) : Option (State × ExitResult) :=
  let sc := st.scopes s
  let tk := st.tasks t
  if !sc.active ∨ sc.host ≠ some t ∨ !tk.hasState ∨ tk.scope ≠ some s then none else
  let st := st.setScope s (fun x => { x with active := false })
  let st :=
    if sc.timer then (st.unschedule (.timeout s)).setScope s (fun x => { x with timer := false })
    else st
  let st := st.setScope s (fun x => { x with tasks := x.tasks.erase t })
  let st :=
    match sc.parent with
    | some p =>
      st.setScope p (fun x => { x with children := x.children.erase s, tasks := t :: x.tasks })
    | none => st
  let st := st.setTask t (fun x => { x with scope := sc.parent })
  let st := restartInParent st s
  let sc := st.scopes s
  let fin := fun (st : State) => st.setScope s (fun x => { x with host := none })
  if sc.cancelCalled ∧ !parentVisible st s then
    let st := taskUncancel st t sc.pending
    let st := st.setScope s (fun x => { x with pending := 0 })
    match ev with
    | .group es =>
      let cancels := es.filter (· = .cancelAnyio)
      let rest := es.filter (· ≠ .cancelAnyio)
      if cancels = [] then some (fin st, .passed)
      else
        let st := st.setScope s (fun x => { x with caught := true })
        if rest = [] then some (fin st, .swallowed) else some (fin st, .raised rest)
    | .one .cancelAnyio =>
      some (fin (st.setScope s (fun x => { x with caught := true })), .swallowed)
    | _ => some (fin st, .passed)
  else
    let st :=
      if sc.pending > 0 then
        let drop := fun (st : State) =>
          st.setTask t (fun x => { x with nDropped := x.nDropped + sc.pending })
        let st :=
          match sc.parent with
          | some p =>
            if (st.scopes p).host = some t then
              st.setScope p (fun x => { x with pending := x.pending + sc.pending })
            else drop st
          | none => drop st
        st.setScope s (fun x => { x with pending := 0 })
      else st
    some (fin st, .passed)

/-- `CancelScope.shield = b` -/
def setShield (st : State) (s : Nat) (b : Bool) : State :=
  if (st.scopes s).shield = b then st else
  let st := st.setScope s (fun x => { x with shield := b })
  if b then st else restartInParent st s

/-- `CancelScope.deadline = d` -/
def setDeadline (st : State) (s : Nat) (d : Option Nat) : State :=
  let st := st.setScope s (fun x => { x with deadline := d })
  let st :=
    if (st.scopes s).timer then
      (st.unschedule (.timeout s)).setScope s (fun x => { x with timer := false })
    else st
  if (st.scopes s).active ∧ !(st.scopes s).cancelCalled then armTimeout st s else st

/-- a point on the extended clock -/
inductive EDeadline where
  | negInf
  | at (d : Nat)
  | inf
  deriving DecidableEq, Repr

def minOpt : Option Nat → Option Nat → Option Nat
  | none, d => d
  | some a, none => some a
  | some a, some d => some (min a d)

/-- `current_effective_deadline()` along the chain of the current scope; `acc = none` is +inf -/
def effDeadlineList (st : State) : List Nat → Option Nat → EDeadline
  | [], acc => (match acc with | none => .inf | some d => .at d)
  | s :: rest, acc =>
    let sc := st.scopes s
    let acc := minOpt acc sc.deadline
    if sc.cancelCalled then .negInf
    else if sc.shield then (match acc with | none => .inf | some d => .at d)
    else effDeadlineList st rest acc

def effDeadline (st : State) (t : Nat) : EDeadline :=
  match (st.tasks t).scope with
  | none => .inf
  | some s => effDeadlineList st (st.scopes s).chain none

end AnyioModel.Kernel
