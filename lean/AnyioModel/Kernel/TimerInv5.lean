/-
Timer invariant, part 5: every transition preserves it; it holds in every reachable state.
-/
import AnyioModel.Kernel.TimerInv4
namespace AnyioModel.Kernel

theorem tevo_step_run {st st' : State} {h : Handle} {o : Out}
    (hs : step st (.run h) = some (st', o)) : TEvo st st' := by
  cases h with
  | timeout s =>
    rw [step_run_timeout] at hs
    split at hs
    · cases hs
    · rename_i hg
      simp only [Option.some.injEq, Prod.mk.injEq] at hs
      obtain ⟨rfl, _⟩ := hs
      exact tevo_runTimeout (by
        apply Classical.byContradiction; intro hc; exact hg (.inr hc))
  | step t =>
    simp only [step] at hs
    split at hs
    · cases hs
    · split at hs
      · exact (TEvo.of_teq (teq_pop st _ (by simp))).trans (tevo_runTask hs)
      · cases hs
  | wakeup t =>
    simp only [step] at hs
    split at hs
    · cases hs
    · split at hs
      · exact (TEvo.of_teq (teq_pop st _ (by simp))).trans (tevo_runTask hs)
      · cases hs
  | deliver s =>
    simp only [step] at hs
    split at hs
    · cases hs
    · simp only [Option.some.injEq, Prod.mk.injEq] at hs
      obtain ⟨rfl, _⟩ := hs
      exact TEvo.of_teq ((teq_pop st _ (by simp)).trans (TEq.deliver _ _))
  | sleepDone f =>
    simp only [step] at hs
    split at hs
    · cases hs
    · simp only [Option.some.injEq, Prod.mk.injEq] at hs
      obtain ⟨rfl, _⟩ := hs
      exact TEvo.of_teq ((teq_pop st _ (by simp)).trans (TEq.resolveFut _ _ _))
  | taskDone u =>
    simp only [step] at hs
    split at hs
    · cases hs
    · split at hs
      · rename_i st1 htd
        simp only [Option.some.injEq, Prod.mk.injEq] at hs
        obtain ⟨rfl, _⟩ := hs
        exact (TEvo.of_teq (teq_pop st _ (by simp))).trans (tevo_runTaskDone htd)
      · cases hs

/-- every step other than the start of a cycle, `deadline = ...` and `CancelScope(...)` -/
theorem tevo_step {st st' : State} {e : Ev} {o : Out} (hs : step st e = some (st', o))
    (h1 : ∀ n, e ≠ .beginCycle n) (h2 : ∀ s d, e ≠ .setDeadline s d)
    (h3 : ∀ sh d, e ≠ .mkScope sh d) : TEvo st st' := by
  cases e with
  | beginCycle n => exact absurd rfl (h1 n)
  | setDeadline s d => exact absurd rfl (h2 s d)
  | mkScope sh d => exact absurd rfl (h3 sh d)
  | run h => exact tevo_step_run hs
  | enter s =>
    simp only [step] at hs
    split at hs
    · cases hs
    · split at hs
      · cases hs
      · split at hs
        · simp only [Option.some.injEq, Prod.mk.injEq] at hs
          obtain ⟨rfl, _⟩ := hs
          exact TEvo.refl _
        · rename_i st1 hen
          simp only [Option.some.injEq, Prod.mk.injEq] at hs
          obtain ⟨rfl, _⟩ := hs
          exact tevo_enterScope hen
  | exit s ev =>
    simp only [step] at hs
    split at hs
    · cases hs
    · split at hs
      · cases hs
      · split at hs
        · simp only [Option.some.injEq, Prod.mk.injEq] at hs
          obtain ⟨rfl, _⟩ := hs
          exact TEvo.refl _
        · rename_i st1 r hex
          simp only [Option.some.injEq, Prod.mk.injEq] at hs
          obtain ⟨rfl, _⟩ := hs
          exact tevo_exitScope hex
  | cancel s =>
    simp only [step] at hs
    split at hs
    · cases hs
    · simp only [Option.some.injEq, Prod.mk.injEq] at hs
      obtain ⟨rfl, _⟩ := hs
      exact tevo_cancel _ _
  | setShield s b =>
    simp only [step] at hs
    split at hs
    · cases hs
    · simp only [Option.some.injEq, Prod.mk.injEq] at hs
      obtain ⟨rfl, _⟩ := hs
      exact TEvo.of_teq (teq_setShield _ _ _)
  | yield =>
    simp only [step] at hs
    split at hs
    · cases hs
    · split at hs
      · cases hs
      · simp only [Option.some.injEq, Prod.mk.injEq] at hs
        obtain ⟨rfl, _⟩ := hs
        exact TEvo.of_teq (teq_doYield _ _)
  | mkFut =>
    simp only [step] at hs
    simp only [Option.some.injEq, Prod.mk.injEq] at hs
    obtain ⟨rfl, _⟩ := hs
    exact TEvo.of_teq (TEq.of_fields rfl rfl rfl rfl rfl rfl)
  | setFut f =>
    simp only [step] at hs
    split at hs
    · cases hs
    · simp only [Option.some.injEq, Prod.mk.injEq] at hs
      obtain ⟨rfl, _⟩ := hs
      exact TEvo.of_teq (TEq.resolveFut _ _ _)
  | awaitFut f =>
    simp only [step] at hs
    split at hs
    · cases hs
    · split at hs
      · cases hs
      · split at hs
        · split at hs
          · cases hs
          · simp only [Option.some.injEq, Prod.mk.injEq] at hs
            obtain ⟨rfl, _⟩ := hs
            exact TEvo.of_teq (teq_blockOn _ _ _)
        all_goals
          simp only [Option.some.injEq, Prod.mk.injEq] at hs
          obtain ⟨rfl, _⟩ := hs
          exact TEvo.refl _
  | sleep d =>
    simp only [step] at hs
    split at hs
    · cases hs
    · split at hs
      · cases hs
      · simp only [Option.some.injEq, Prod.mk.injEq] at hs
        obtain ⟨rfl, _⟩ := hs
        exact TEvo.of_teq ((((teq_newFut st).trans (teq_addSleep _ _ _)).trans (TEq.setTask _ _ _)).trans
          (teq_blockOn _ _ _))
  | chkIfCancelled =>
    simp only [step] at hs
    split at hs
    · cases hs
    · split at hs
      · cases hs
      · split at hs
        · split at hs
          all_goals
            simp only [Option.some.injEq, Prod.mk.injEq] at hs
            obtain ⟨rfl, _⟩ := hs
          · exact TEvo.of_teq ((TEq.setTask _ _ _).trans (teq_doYield _ _))
          · exact TEvo.refl _
        · simp only [Option.some.injEq, Prod.mk.injEq] at hs
          obtain ⟨rfl, _⟩ := hs
          exact TEvo.refl _
  | shieldedChk =>
    simp only [step] at hs
    split at hs
    · cases hs
    · split at hs
      · cases hs
      · split at hs
        · cases hs
        · rename_i st1 hen
          simp only [Option.some.injEq, Prod.mk.injEq] at hs
          obtain ⟨rfl, _⟩ := hs
          exact ((tevo_newScope st true).trans (tevo_enterScope hen)).trans
            (TEvo.of_teq ((TEq.setTask _ _ _).trans (teq_doYield _ _)))
  | nativeCancel u =>
    simp only [step] at hs
    split at hs
    · cases hs
    · simp only [Option.some.injEq, Prod.mk.injEq] at hs
      obtain ⟨rfl, _⟩ := hs
      exact TEvo.of_teq (TEq.taskCancel _ _ _)
  | uncancel =>
    simp only [step] at hs
    split at hs
    · cases hs
    · split at hs
      · cases hs
      · simp only [Option.some.injEq, Prod.mk.injEq] at hs
        obtain ⟨rfl, _⟩ := hs
        exact TEvo.of_teq ((TEq.taskUncancel _ _ _).trans (TEq.setTask _ _ _))
  | mkGroup =>
    simp only [step] at hs
    simp only [Option.some.injEq, Prod.mk.injEq] at hs
    obtain ⟨rfl, _⟩ := hs
    exact (tevo_newScope st false).trans (TEvo.of_teq (TEq.of_fields rfl rfl rfl rfl rfl rfl))
  | groupEnter g =>
    simp only [step] at hs
    split at hs
    · cases hs
    · split at hs
      · cases hs
      · split at hs
        · simp only [Option.some.injEq, Prod.mk.injEq] at hs
          obtain ⟨rfl, _⟩ := hs
          exact TEvo.refl _
        · split at hs
          · cases hs
          · rename_i st1 hen
            simp only [Option.some.injEq, Prod.mk.injEq] at hs
            obtain ⟨rfl, _⟩ := hs
            exact (tevo_enterScope hen).trans (TEvo.of_teq (TEq.setGroup _ _ _))
  | spawn g =>
    simp only [step] at hs
    split at hs
    · cases hs
    · split at hs
      all_goals
        simp only [Option.some.injEq, Prod.mk.injEq] at hs
        obtain ⟨rfl, _⟩ := hs
      · exact TEvo.refl _
      · exact tevo_spawn _ _ _
  | aexit g ev =>
    simp only [step] at hs
    split at hs
    · cases hs
    · split at hs
      · cases hs
      · rename_i t _ _
        have hp : TEvo st (if ev ≠ ExcVal.none then
            (if ev.isCancelledError = true then cancelScope st (st.groups g).scope false
             else (cancelScope st (st.groups g).scope false).setGroup g (fun x =>
              { x with exceptions := x.exceptions ++ ev.leaves, bodyErrs := ev.leaves }))
            else st) := by
          split
          · split
            · exact tevo_cancel _ _
            · exact (tevo_cancel _ _).trans (TEvo.of_teq (TEq.setGroup _ _ _))
          · exact TEvo.refl _
        generalize (if ev ≠ ExcVal.none then
            (if ev.isCancelledError = true then cancelScope st (st.groups g).scope false
             else (cancelScope st (st.groups g).scope false).setGroup g (fun x =>
              { x with exceptions := x.exceptions ++ ev.leaves, bodyErrs := ev.leaves }))
            else st) = st1 at hs hp
        split at hs
        · split at hs
          · cases hs
          · rename_i st2 hen
            simp only [Option.some.injEq, Prod.mk.injEq] at hs
            obtain ⟨rfl, _⟩ := hs
            exact ((hp.trans (tevo_newScope _ true)).trans (tevo_enterScope hen)).trans
              (TEvo.of_teq ((TEq.setTask _ _ _).trans (teq_doYield _ _)))
        · exact hp.trans (tevo_aexitAfterChk hs)
  | start g =>
    simp only [step] at hs
    split at hs
    · cases hs
    · split at hs
      · cases hs
      · split at hs
        · simp only [Option.some.injEq, Prod.mk.injEq] at hs
          obtain ⟨rfl, _⟩ := hs
          exact TEvo.refl _
        · simp only [Option.some.injEq, Prod.mk.injEq] at hs
          obtain ⟨rfl, _⟩ := hs
          exact ((TEvo.of_teq (teq_newFut st)).trans (tevo_spawn _ _ _)).trans
            (TEvo.of_teq ((TEq.setTask _ _ _).trans (teq_blockOn _ _ _)))
  | started =>
    simp only [step] at hs
    split at hs
    · cases hs
    · split at hs
      · cases hs
      · split at hs
        all_goals
          simp only [Option.some.injEq, Prod.mk.injEq] at hs
          obtain ⟨rfl, _⟩ := hs
        · exact TEvo.of_teq (TEq.resolveFut _ _ _)
        · exact TEvo.refl _
        · exact TEvo.refl _
  | handleCancel u =>
    simp only [step] at hs
    split at hs
    · cases hs
    · simp only [Option.some.injEq, Prod.mk.injEq] at hs
      obtain ⟨rfl, _⟩ := hs
      split
      · exact TEvo.refl _
      · exact tevo_cancel _ _
  | handleWait u =>
    simp only [step] at hs
    split at hs
    · cases hs
    · split at hs
      · cases hs
      · split at hs
        all_goals
          simp only [Option.some.injEq, Prod.mk.injEq] at hs
          obtain ⟨rfl, _⟩ := hs
        · exact TEvo.of_teq (teq_doYield _ _)
        · exact TEvo.of_teq (((teq_newFut st).trans (TEq.setTask _ _ _)).trans (teq_blockOn _ _ _))
  | finish o' =>
    simp only [step] at hs
    split at hs
    · cases hs
    · split at hs
      · cases hs
      · split at hs
        · cases hs
        · split at hs
          · cases hs
          · rename_i st1 hf
            simp only [Option.some.injEq, Prod.mk.injEq] at hs
            obtain ⟨rfl, _⟩ := hs
            exact tevo_finishTask hf

/-! ### the invariant holds in every reachable state -/

theorem tinv_init : TInv init := by
  intro s
  show SInv 0 0 s [] 0 0 {}
  apply SInv.idle <;> simp

theorem tinv_step {st st' : State} {e : Ev} {o : Out} (hi : TInv st)
    (hs : step st e = some (st', o)) : TInv st' := by
  cases e with
  | beginCycle n => exact tinv_beginCycle hi hs
  | setDeadline s d =>
    simp only [step] at hs
    split at hs
    · cases hs
    · rename_i hx
      simp only [Option.some.injEq, Prod.mk.injEq] at hs
      obtain ⟨rfl, _⟩ := hs
      exact (tinv_setDeadline hi s d (by simpa using hx)).1
  | mkScope sh d =>
    simp only [step] at hs
    simp only [Option.some.injEq, Prod.mk.injEq] at hs
    obtain ⟨rfl, _⟩ := hs
    exact tinv_newScope hi sh d
  | _ =>
    exact (tevo_step hs (by intro n; simp) (by intro s d; simp) (by intro sh d; simp) hi).1

theorem tinv_reach {st : State} (h : Reach st) : TInv st :=
  Reachable.invariant TInv (fun s hs => by subst hs; exact tinv_init)
    (fun _ _ _ _ hi hs => tinv_step hi hs) st h

/-! ### a step that records "cancelled by deadline" -/

/-- step-local: if `byDeadline s` goes from false to true in a step from a state satisfying the
timer invariant, the clock did not move in that step and the scope's record changed as
`BDFresh` says -/
theorem bd_step {st st' : State} {e : Ev} {o : Out} (hi : TInv st)
    (hs : step st e = some (st', o)) (s : Nat)
    (h0 : (st.scopes s).byDeadline = false) (h1 : (st'.scopes s).byDeadline = true) :
    st'.now = st.now ∧ (st.scopes s).cancelCalled = false ∧ (st'.scopes s).cancelCalled = true ∧
      (st'.scopes s).cancelTime = st.now ∧ (st'.scopes s).entered = true ∧
      ((st.scopes s).entered = true → (st.scopes s).active = true) ∧
      ∃ d, (st'.scopes s).deadline = some d ∧ d ≤ st.now := by
  cases e with
  | beginCycle n =>
    simp only [step] at hs
    split at hs
    · cases hs
    · simp only [Option.some.injEq, Prod.mk.injEq] at hs
      obtain ⟨rfl, _⟩ := hs
      cases (h0.symm.trans h1)
  | setDeadline s0 d =>
    simp only [step] at hs
    split at hs
    · cases hs
    · rename_i hx
      simp only [Option.some.injEq, Prod.mk.injEq] at hs
      obtain ⟨rfl, _⟩ := hs
      obtain ⟨_, hn, hb⟩ := tinv_setDeadline hi s0 d (by simpa using hx)
      exact ⟨hn, (SEvo.bdFresh (.inl (hb s))) h0 h1⟩
  | mkScope sh d =>
    simp only [step] at hs
    simp only [Option.some.injEq, Prod.mk.injEq] at hs
    obtain ⟨rfl, _⟩ := hs
    exfalso
    have h1' : (upd st.scopes st.nScopes { exists_ := true, shield := sh, deadline := d } s).byDeadline
        = true := h1
    by_cases hn : s = st.nScopes
    · subst hn; rw [upd_same] at h1'; cases h1'
    · rw [upd_other _ _ _ _ hn] at h1'; cases (h0.symm.trans h1')
  | _ =>
    obtain ⟨_, hn, _, hb, _⟩ :=
      tevo_step hs (by intro n; simp) (by intro s d; simp) (by intro sh d; simp) hi
    exact ⟨hn, (hb s).bdFresh h0 h1⟩

/-- the clock only moves when a loop cycle begins -/
theorem step_now {st st' : State} {e : Ev} {o : Out} (hi : TInv st)
    (hs : step st e = some (st', o)) (hb : ∀ n, e ≠ .beginCycle n) : st'.now = st.now := by
  cases e with
  | beginCycle n => exact absurd rfl (hb n)
  | setDeadline s0 d =>
    simp only [step] at hs
    split at hs
    · cases hs
    · rename_i hx
      simp only [Option.some.injEq, Prod.mk.injEq] at hs
      obtain ⟨rfl, _⟩ := hs
      exact (tinv_setDeadline hi s0 d (by simpa using hx)).2.1
  | mkScope sh d =>
    simp only [step] at hs
    simp only [Option.some.injEq, Prod.mk.injEq] at hs
    obtain ⟨rfl, _⟩ := hs
    rfl
  | _ =>
    exact (tevo_step hs (by intro n; simp) (by intro s d; simp) (by intro sh d; simp) hi).2.1

/-- step-local: apart from an assignment of `deadline`, the record of a scope that existed before
the step evolves as `SNorm` allows -/
theorem snorm_step {st st' : State} {e : Ev} {o : Out} (hi : TInv st)
    (hs : step st e = some (st', o)) (s : Nat) (hlt : s < st.nScopes) :
    SNorm st'.now { st.scopes s with deadline := (st'.scopes s).deadline } (st'.scopes s) := by
  cases e with
  | beginCycle n =>
    simp only [step] at hs
    split at hs
    · cases hs
    · simp only [Option.some.injEq, Prod.mk.injEq] at hs
      obtain ⟨rfl, _⟩ := hs
      exact SNorm.of_seq (SEq.refl _)
  | setDeadline s0 d =>
    simp only [step] at hs
    split at hs
    · cases hs
    · rename_i hx
      simp only [Option.some.injEq, Prod.mk.injEq] at hs
      obtain ⟨rfl, _⟩ := hs
      obtain ⟨_, hn, hb⟩ := tinv_setDeadline hi s0 d (by simpa using hx)
      rw [hn]; exact hb s
  | mkScope sh d =>
    simp only [step] at hs
    simp only [Option.some.injEq, Prod.mk.injEq] at hs
    obtain ⟨rfl, _⟩ := hs
    have : (newScope st sh d).1.scopes s = st.scopes s := by
      show upd st.scopes st.nScopes _ s = _
      rw [upd_other _ _ _ _ (by omega)]
    rw [this]
    exact SNorm.of_seq (SEq.refl _)
  | _ =>
    obtain ⟨_, hn, _, _, hb⟩ :=
      tevo_step hs (by intro n; simp) (by intro s d; simp) (by intro sh d; simp) hi
    have := hb s hlt
    rw [hn, this.deadline]
    exact this

end AnyioModel.Kernel
