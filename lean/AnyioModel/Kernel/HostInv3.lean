/-
Host invariants, part 3: the bundle `HW` (`HInv`, `WF`, and `t` is the running task) and its
preservation by the operations the running task performs: scope entry/exit, `lib` changes,
allocation, suspension; then the helpers of `TaskGroup.__aexit__`.
-/
import AnyioModel.Kernel.HostInv2

namespace AnyioModel.Kernel

variable {K : Nat → Prop} {ext ext' : Option Nat} {pa pa' : Option (Nat × Nat)}

/-! ### what `__enter__` / `__exit__` keep -/

theorem enterScope_keeps {st st' : State} {t s : Nat} (he : enterScope st t s = some st') :
    (∀ u, (st'.tasks u).lib = (st.tasks u).lib ∧ (st'.tasks u).hscope = (st.tasks u).hscope) ∧
      st'.groups = st.groups := by
  obtain ⟨_, _, cf⟩ := enterScope_spec he
  refine ⟨fun u => ?_, ?_⟩
  · have := enterPre_task st t s u
    exact ⟨by rw [(cf.tasks u).lib]; exact this.2.2.2.2.2.1,
      by rw [(cf.tasks u).hscope]; exact this.2.1⟩
  · rw [cf.groups]; exact (enterPre_frame st t s).2.2.2.2.1

theorem exitScope_keeps {st st' : State} {t s : Nat} {ev : ExcVal} {r : ExitResult}
    (he : exitScope st t s ev = some (st', r)) :
    (∀ u, (st'.tasks u).lib = (st.tasks u).lib ∧ (st'.tasks u).hscope = (st.tasks u).hscope) ∧
      st'.groups = st.groups := by
  obtain ⟨_, _, _, _, cf⟩ := exitScope_spec he
  refine ⟨fun u => ?_, ?_⟩
  · have ht := exitPre_task st t s u
    refine ⟨?_, ?_⟩
    · rw [(cf.tasks u).lib, ht]; split <;> simp_all
    · rw [(cf.tasks u).hscope, ht]; split <;> simp_all
  · rw [cf.groups]; exact (exitPre_frame st t s).2.2.2.2.1

/-- no scope hosted by `t` hangs below the current scope of `t` -/
theorem wf_no_hosted_child {st : State} (w : WF st) {t s c : Nat}
    (hsc : (st.tasks t).scope = some s) (hnd : (st.tasks t).st ≠ .done)
    (hh : (st.scopes c).host = some t) (hp : (st.scopes c).parent = some s) : False := by
  rcases w.host_scope c t hh with ⟨_, s0, hs0, hm⟩ | hd
  · rw [hsc] at hs0; cases hs0
    have hact : (st.scopes c).active = true := by
      rw [← w.host_active, hh]; rfl
    have hc := w.chain_spec c (w.active_entered c hact)
    rw [hp] at hc
    simp only [] at hc
    have hn := w.chain_nodup c
    rw [hc] at hn
    exact (List.nodup_cons.mp hn).1 hm
  · exact hnd hd

/-! ### the bundle -/

structure HW (K : Nat → Prop) (ext : Option Nat) (pa : Option (Nat × Nat)) (st : State) (t : Nat) :
    Prop where
  h : HInv K ext pa st
  w : WFR st t

namespace HW
variable {st : State} {t : Nat}

theorem st_running (h : HW K ext pa st t) : (st.tasks t).st = .running := h.w.st_running

theorem hsame {b : State} (h : HW K ext pa st t) (s : HSame st b) (w : WFR b t) :
    HW K ext pa b t := ⟨hinv_hsame h.h s, w⟩

theorem cframe {b : State} (h : HW K ext pa st t) (c : CFrame st b) : HW K ext pa b t :=
  ⟨hinv_hsame h.h (HSame.of_cframe c), h.w.cframe c⟩

theorem cancelScope (h : HW K ext pa st t) (s : Nat) (b : Bool) :
    HW K ext pa (cancelScope st s b) t := h.cframe (cframe_cancelScope st s b)

theorem setShieldTrue (h : HW K ext pa st t) (s : Nat) :
    HW K ext pa (setShield st s true) t := by
  have h1 : HW K ext pa (st.setScope s (fun x => { x with shield := true })) t :=
    ⟨hinv_hsame h.h (hsame_setScope _ _ _ (by simp)),
      wf_setScope_inert h.w.1 s _ (by simp; exact fun h => .inl h), h.w.2⟩
  unfold setShield
  split
  · exact h
  · simpa using h1

theorem mkScope (h : HW K ext pa st t) (sh : Bool) (d : Option Nat) :
    HW K ext pa (newScope st sh d).1 t ∧
      ((newScope st sh d).1.scopes (newScope st sh d).2).exists_ = true :=
  ⟨⟨hinv_hsame h.h (hsame_newScope h.w.1 sh d), (h.w.mkScope sh d).1⟩, (h.w.mkScope sh d).2⟩

theorem mkFut (h : HW K ext pa st t) :
    HW K ext pa (newFut st).1 t ∧ (newFut st).2 < (newFut st).1.nFuts :=
  ⟨⟨hinv_hsame h.h (hsame_newFut st), h.w.mkFut.1⟩, h.w.mkFut.2⟩

theorem setGroupInert (h : HW K ext pa st t) (g : Nat) (F : Group → Group)
    (hw : ∀ x, (F x).scope = x.scope ∧ (∀ t ∈ (F x).tasks, t ∈ x.tasks) ∧
      (∀ t ∈ (F x).spawned, t ∈ x.spawned))
    (hs : (F (st.groups g)).exited = (st.groups g).exited ∧
      (F (st.groups g)).bodyErrs = (st.groups g).bodyErrs) : HW K ext pa (st.setGroup g F) t :=
  ⟨hinv_hsame h.h (hsame_setGroup _ _ _ ⟨(hw _).1, hs.1, hs.2⟩), h.w.setGroup_inert g F hw⟩

/-- `__enter__` by the running task: either it is not exempt, or this is the first step of a
child, which enters its handle scope -/
theorem enterScope {st' : State} {s : Nat} (h : HW K ext pa st t)
    (hx : (st.scopes s).exists_ = true) (he : enterScope st t s = some st')
    (hext : ∀ u, u ≠ t → some u ≠ ext' → some u ≠ ext)
    (hcase : (st.tasks t).hscope = some s ∨ some t ≠ ext) : HW K ext' pa st' t := by
  obtain ⟨_, hent, cf⟩ := enterScope_spec he
  have ne := h.w.1.not_entered s hent
  have hr := h.st_running
  refine ⟨hinv_hsame (hinv_enterPre h.h ne.2.1 ne.2.2.2.2.1 hent
    (fun u s' hs => h.w.1.entered_of_task_scope hs) hext ?_) (HSame.of_cframe cf),
    h.w.enterScope hx he⟩
  rcases hcase with hc | hc
  · exact .inl hc
  · exact .inr ⟨hc, by rw [hr]; simp, by rw [hr]; simp⟩

theorem exitScope {st' : State} {s : Nat} {ev : ExcVal} {r : ExitResult} (h : HW K ext pa st t)
    (he : exitScope st t s ev = some (st', r))
    (hext : ∀ u, u ≠ t → some u ≠ ext' → some u ≠ ext)
    (hcase : ext' = some t ∨ (st.tasks t).hscope ≠ some s) : HW K ext' pa st' t := by
  obtain ⟨_, hh, _, hsc, cf⟩ := exitScope_spec he
  have hr := h.st_running
  refine ⟨hinv_hsame (hinv_exitPre h.h hh hsc h.w.1.parent_ne ?_ hext hcase)
    (HSame.of_cframe cf), h.w.exitScope he⟩
  intro c hc hp
  exact wf_no_hosted_child h.w.1 hsc (by rw [hr]; simp) hc hp

/-- the running task changes its `lib` field -/
theorem setLib (h : HW K none pa st t) (l : Lib)
    (hpa : pa' = pa ∨ (pa' = none ∧ ∀ g t0, pa = some (g, t0) → t0 = t ∧ LibAexit l g))
    (ha : ∀ g, LibAexit l g → InAexitP st pa g t)
    (hb : ∀ g, InAexit st g t → LibAexit l g ∨ (st.groups g).exited = true)
    (hd : ∀ s, libScope l = some s → (st.tasks t).hscope ≠ some s)
    (he : ∀ g s ev, (∀ t0, pa' ≠ some (g, t0)) → (l = .aexitChk g s ev ∨ l = .aexitWait g s ev) →
      nc ev.leaves = nc (st.groups g).bodyErrs)
    (hx : ∀ g t0, pa' = some (g, t0) → ¬ LibAexit l g) :
    HW K none pa' (st.setTask t (fun x => { x with lib := l })) t := by
  have hr := h.st_running
  refine ⟨hinv_setTask h.h t _ rfl rfl (.inr (.inr ⟨by simp, by rw [hr]; simp, by rw [hr]; simp⟩))
    (fun u _ hu => hu) hpa ha hb (.inl (h.w.1.running_lt h.w.2)) hd he hx ?_ ?_,
    h.w.setTask_inert t _ (fun x => by simp)⟩
  · intro g u f _ hy
    simp only [] at hy
    rw [hr] at hy; cases hy
  · intro hc
    simp only [] at hc
    rw [hr] at hc; cases hc

/-- ... to a value that is not inside `__aexit__` and carries no scope -/
theorem setLibPlain (h : HW K none none st t) (l : Lib)
    (hl : ∀ g, ¬ LibAexit l g) (hs : libScope l = none)
    (hb : ∀ g, InAexit st g t → (st.groups g).exited = true) :
    HW K none none (st.setTask t (fun x => { x with lib := l })) t := by
  refine h.setLib l (.inl rfl) (fun g hg => absurd hg (hl g)) (fun g hg => .inr (hb g hg))
    (fun s hs' => by rw [hs] at hs'; cases hs') ?_ (fun g t0 hp => by cases hp)
  intro g s ev _ hh
  exact absurd ⟨s, ev, hh⟩ (hl g)

theorem doYield (h : HW K none none st t) (hl : ∀ g u f, (st.tasks t).lib ≠ .startWait g u f) :
    HInv K none none (doYield st t) := by
  have hr := h.st_running
  unfold AnyioModel.Kernel.doYield
  refine hinv_hsame (hinv_setTask_st h.h t (fun x => { x with st := .yielded }) rfl rfl rfl
    (.inr (.inr ⟨by simp, by rw [hr]; simp, by rw [hr]; simp⟩)) (fun u _ hu => hu)
    (fun _ => hl) (fun hc => by cases hc)) (hsame_loop rfl rfl rfl rfl rfl)

theorem blockOn (h : HW K none none st t) (f : Nat) : HInv K none none (blockOn st t f) := by
  have hr := h.st_running
  have h1 : HInv K none none { st.setTask t (fun x => { x with st := .blocked f }) with
      futWaiter := upd st.futWaiter f (some t), running := none } :=
    hinv_hsame (hinv_setTask_st h.h t (fun x => { x with st := .blocked f }) rfl rfl rfl
      (.inr (.inr ⟨by simp, by rw [hr]; simp, by rw [hr]; simp⟩)) (fun u _ hu => hu)
      (fun hc => by cases hc) (fun hc => by cases hc)) (hsame_loop rfl rfl rfl rfl rfl)
  unfold AnyioModel.Kernel.blockOn
  simp only []
  split
  · refine hinv_hsame (hinv_hsame h1 (hsame_setTask _ t _ (by simp)))
      (HSame.of_cframe (frame_resolveFut _ _ _).cframe)
  · exact h1

end HW

/-! ### `__aexit__` -/

theorem libAexit_inj {l : Lib} {g g' : Nat} (h : LibAexit l g) (h' : LibAexit l g') : g' = g := by
  obtain ⟨s, ev, h⟩ := h
  obtain ⟨s', ev', h'⟩ := h'
  rcases h with h | h <;> rcases h' with h' | h' <;> rw [h] at h' <;> cases h' <;> rfl

theorem inAexit_inj {st : State} {t g g' : Nat} (h : InAexit st g t) (h' : InAexit st g' t) :
    g' = g := libAexit_inj h h'

theorem hw_aexitFinish {st st' : State} {t g : Nat} {ev : ExcVal} {o : Out}
    (h : HW K none none st t) (hin : InAexit st g t)
    (he : aexitFinish st t g ev = some (st', o)) : HInv K none none st' := by
  unfold aexitFinish at he
  simp only [] at he
  split at he
  · contradiction
  · rename_i st1 r hex
    simp only [Option.some.injEq, Prod.mk.injEq] at he
    obtain ⟨rfl, _⟩ := he
    have hg := (h.h.a1 t g (.inl hin)).1
    have h1 : HW K none none st1 t :=
      h.exitScope hex (fun u _ hu => hu) (.inr (h.h.d1 g t hg))
    have k := exitScope_keeps hex
    have hin1 : InAexit st1 g t := by unfold InAexit; rw [(k.1 t).1]; exact hin
    have h2 : HW K none none (st1.setGroup g (fun x => { x with exited := true, exceptions := [] }))
        t :=
      ⟨hinv_setGroup h1.h g _ rfl (fun _ => rfl) (.inr rfl),
        h1.w.setGroup_inert g _ (fun x => by simp)⟩
    refine (h2.setLibPlain .none (fun g' ⟨s, ev', hh⟩ => by rcases hh with hh | hh <;> cases hh) rfl
      ?_).h
    intro g' hi'
    have hi'' : InAexit st1 g' t := hi'
    have := inAexit_inj hin1 hi''
    subst this
    simp

/-- how `__aexit__` got to the point where it deals with the children: it is recorded in the
task's `lib`, or the guard has just been passed (then there are children left) -/
def AexitCtx (st : State) (pa : Option (Nat × Nat)) (g t : Nat) : Prop :=
  (pa = none ∧ InAexit st g t) ∨
    (pa = some (g, t) ∧ (st.tasks t).lib = .none ∧ (st.groups g).tasks ≠ [])

theorem AexitCtx.transfer {a b : State} {g t : Nat} (h : AexitCtx a pa g t)
    (hl : (b.tasks t).lib = (a.tasks t).lib) (hg : (b.groups g).tasks = (a.groups g).tasks) :
    AexitCtx b pa g t := by
  rcases h with ⟨h1, h2⟩ | ⟨h1, h2, h3⟩
  · left; refine ⟨h1, ?_⟩
    unfold InAexit at h2 ⊢; rw [hl]; exact h2
  · right; exact ⟨h1, by rw [hl]; exact h2, by rw [hg]; exact h3⟩

theorem hw_aexitLoop {st st' : State} {t g ws : Nat} {ev : ExcVal} {o : Out}
    (h : HW K none pa st t) (hc : AexitCtx st pa g t)
    (hws : (st.tasks t).hscope ≠ some ws)
    (hev : nc ev.leaves = nc (st.groups g).bodyErrs)
    (he : aexitLoop st t g ws ev = some (st', o)) : HInv K none none st' := by
  unfold aexitLoop at he
  split at he
  · simp only [Option.some.injEq, Prod.mk.injEq] at he
    obtain ⟨rfl, _⟩ := he
    have h1 := h.mkFut.1
    have h2 := h1.setGroupInert g (fun x => { x with onCompleted := some st.nFuts })
      (fun x => by simp) (by simp)
    have h3 : HW K none none (((newFut st).1.setGroup g
        (fun x => { x with onCompleted := some st.nFuts })).setTask t
        (fun x => { x with lib := .aexitWait g ws ev })) t := by
      refine h2.setLib (.aexitWait g ws ev) ?_ ?_ ?_ ?_ ?_ ?_
      · rcases hc with ⟨hp, _⟩ | ⟨hp, _, _⟩
        · exact .inl hp.symm
        · right; refine ⟨rfl, ?_⟩
          intro g' t0 hp'
          rw [hp] at hp'; cases hp'
          exact ⟨rfl, ws, ev, .inr rfl⟩
      · intro g' hl
        have : g' = g := libAexit_inj (l := .aexitWait g ws ev) ⟨ws, ev, .inr rfl⟩ hl
        subst this
        rcases hc with ⟨_, hi⟩ | ⟨hp, _, _⟩
        · exact .inl hi
        · exact .inr hp
      · intro g' hi
        have hi' : InAexit st g' t := hi
        rcases hc with ⟨_, hi0⟩ | ⟨_, hl, _⟩
        · have := inAexit_inj hi0 hi'
          subst this
          exact .inl ⟨ws, ev, .inr rfl⟩
        · obtain ⟨s, ev', hh⟩ := hi'
          rw [hl] at hh; rcases hh with hh | hh <;> cases hh
      · intro s hs
        simp only [libScope, Option.some.injEq] at hs
        subst hs
        exact hws
      · intro g' s ev' _ hh
        rcases hh with hh | hh
        · cases hh
        · cases hh
          simpa [newFut] using hev
      · intro g' t0 hp; cases hp
    exact h3.blockOn _
  · rename_i hte
    have hte' : (st.groups g).tasks = [] := by simpa using hte
    split at he
    · contradiction
    · rename_i st1 r hex
      rcases hc with ⟨hp, hi⟩ | ⟨_, _, hne⟩
      · subst hp
        have h1 : HW K none none st1 t := h.exitScope hex (fun u _ hu => hu) (.inr hws)
        have k := exitScope_keeps hex
        have hin1 : InAexit st1 g t := by unfold InAexit; rw [(k.1 t).1]; exact hi
        exact hw_aexitFinish h1 hin1 he
      · exact absurd hte' hne

theorem hw_aexitAfterChk {st st' : State} {t g : Nat} {ev : ExcVal} {o : Out}
    (h : HW K none pa st t) (hc : AexitCtx st pa g t)
    (hev : nc ev.leaves = nc (st.groups g).bodyErrs)
    (he : aexitAfterChk st t g ev = some (st', o)) : HInv K none none st' := by
  unfold aexitAfterChk at he
  split at he
  · simp only [] at he
    split at he
    · contradiction
    · rename_i st1 hen
      have h1 := h.mkScope false none
      have h2 : HW K none pa st1 t :=
        h1.1.enterScope h1.2 hen (fun u _ hu => hu) (.inr (by simp))
      have k := enterScope_keeps hen
      refine hw_aexitLoop h2 (hc.transfer ?_ ?_) ?_ ?_ he
      · rw [(k.1 t).1]; rfl
      · rw [k.2]; rfl
      · rw [(k.1 t).2]
        intro hh
        have hh' : (st.tasks t).hscope = some st.nScopes := hh
        have := h.w.1.hscope_lt t _ hh'
        omega
      · rw [k.2]; exact hev
  · rename_i hte
    have hte' : (st.groups g).tasks = [] := by simpa using hte
    rcases hc with ⟨hp, hi⟩ | ⟨_, _, hne⟩
    · subst hp
      exact hw_aexitFinish h hi he
    · exact absurd hte' hne

end AnyioModel.Kernel
