/-
Fresh-allocation invariant for futures, part 4: the composite helpers of `step`
(`__aexit__`, `_spawn`, `task_done`, the end of a coroutine).

`FW st t`: `FInv st`, and `t` is the task that is running (`st = .running`, `t < nTasks`).
-/
import AnyioModel.Kernel.FutInv3

namespace AnyioModel.Kernel

structure FW (st : State) (t : Nat) : Prop where
  inv : FInv st
  run : (st.tasks t).st = .running
  lt : t < st.nTasks

namespace FW
variable {st : State} {t : Nat}

theorem fsame {b : State} (h : FW st t) (s : FSame st b) : FW b t := by
  refine ⟨finv_fsame h.inv s, ?_, by rw [s.nTasks]; exact h.lt⟩
  rcases (s.tasks t).st with e | ⟨f, _, hb, _⟩
  · rw [e]; exact h.run
  · rw [h.run] at hb; cases hb

theorem xc {b : State} (h : FW st t) (x : XC st b) : FW b t := h.fsame (FSame.of_xc x)

theorem cancelScope (h : FW st t) (s : Nat) (b : Bool) : FW (cancelScope st s b) t :=
  h.xc (xc_cancelScope st s b)

theorem mkScope (h : FW st t) (sh : Bool) (d : Option Nat) : FW (newScope st sh d).1 t :=
  h.fsame (fsame_newScope st sh d)

theorem enterScope {st' : State} {s : Nat} (h : FW st t) (he : enterScope st t s = some st') :
    FW st' t := h.fsame (fsame_enterScope he)

theorem exitScope {st' : State} {s : Nat} {ev : ExcVal} {r : ExitResult} (h : FW st t)
    (he : exitScope st t s ev = some (st', r)) : FW st' t := h.fsame (fsame_exitScope he)

theorem setGroup (h : FW st t) (g : Nat) (F : Group → Group)
    (hF : (F (st.groups g)).onCompleted = (st.groups g).onCompleted ∨
      (F (st.groups g)).onCompleted = none) : FW (st.setGroup g F) t :=
  h.fsame (fsame_setGroup st g F hF)

theorem setLib (h : FW st t) (l : Lib) (hs : ∀ f, l = .sleeping f → HasRole st f .sleep)
    (hw : ∀ g u f, l = .startWait g u f → (st.tasks u).startFut = some f) :
    FW (st.setTask t (fun x => { x with lib := l })) t :=
  ⟨finv_setLib h.inv t l h.run hs hw, by simpa using h.run, h.lt⟩

theorem setLibNone (h : FW st t) : FW (st.setTask t (fun x => { x with lib := .none })) t :=
  h.setLib .none (fun f hf => by cases hf) (fun g u f hf => by cases hf)

theorem newFut (h : FW st t) : FW (newFut st).1 t ∧ FFresh (newFut st).1 st.nFuts :=
  ⟨⟨(finv_newFut h.inv).1, h.run, h.lt⟩, (finv_newFut h.inv).2⟩

end FW

/-- a future that has a role other than "start future" is not a start future -/
theorem not_start_of_role {x : State} (h : FInv x) {f : Nat} {R : Role} (hr : HasRole x f R)
    (hR : ∀ u, R ≠ .start u) (u : Nat) : (x.tasks u).startFut ≠ some f := by
  intro hs
  exact hR u (h.role_uniq f R (.start u) hr hs)

/-! ### `__aexit__` -/

theorem fi_aexitFinish {st st' : State} {t g : Nat} {ev : ExcVal} {o : Out} (h : FW st t)
    (he : aexitFinish st t g ev = some (st', o)) : FInv st' := by
  unfold aexitFinish at he
  simp only [] at he
  split at he
  · contradiction
  · rename_i st1 r hex
    simp only [Option.some.injEq, Prod.mk.injEq] at he
    obtain ⟨rfl, _⟩ := he
    exact (((h.exitScope hex).setGroup g _ (.inl rfl)).setLibNone).inv

theorem fi_aexitLoop {st st' : State} {t g ws : Nat} {ev : ExcVal} {o : Out} (h : FW st t)
    (he : aexitLoop st t g ws ev = some (st', o)) : FInv st' := by
  unfold aexitLoop at he
  split at he
  · simp only [Option.some.injEq, Prod.mk.injEq] at he
    obtain ⟨rfl, _⟩ := he
    obtain ⟨h1, hf⟩ := h.newFut
    have i2 := finv_oncSet h1.inv g st.nFuts hf
    have h2 : FW ((AnyioModel.Kernel.newFut st).1.setGroup g
        (fun x => { x with onCompleted := some st.nFuts })) t := ⟨i2, h1.run, h1.lt⟩
    have h3 := h2.setLib (.aexitWait g ws ev) (fun f hf => by cases hf) (fun g u f hf => by cases hf)
    have hrole : HasRole (((AnyioModel.Kernel.newFut st).1.setGroup g
        (fun x => { x with onCompleted := some st.nFuts })).setTask t
        (fun x => { x with lib := .aexitWait g ws ev })) st.nFuts (.onC g) := by
      simp [HasRole]
    refine finv_blockOn h3.inv t st.nFuts (by simpa using hf.lt) ?_ ?_ ?_
    · intro g' u f' hl; simp at hl
    · intro u hs
      exact absurd hs (not_start_of_role h3.inv hrole (fun u => by simp) u)
    · intro g' u s e hl; simp at hl
  · split at he
    · contradiction
    · rename_i st1 r hex
      exact fi_aexitFinish (h.exitScope hex) he

theorem fi_aexitAfterChk {st st' : State} {t g : Nat} {ev : ExcVal} {o : Out} (h : FW st t)
    (he : aexitAfterChk st t g ev = some (st', o)) : FInv st' := by
  unfold aexitAfterChk at he
  split at he
  · simp only [] at he
    split at he
    · contradiction
    · rename_i st1 hen
      exact fi_aexitLoop ((h.mkScope false none).enterScope hen) he
  · exact fi_aexitFinish h he

/-! ### `_spawn` -/

theorem spawnCore_task_ne (st : State) (g gs hs : Nat) (sf : Option Nat) {u : Nat}
    (hu : u ≠ st.nTasks) : (spawnCore st g gs hs sf).tasks u = st.tasks u := by
  simp [spawnCore, hu]

theorem fi_spawn {st : State} (h : FInv st) (g : Nat) (sf : Option Nat)
    (hsf : ∀ f, sf = some f → FFresh st f) :
    FInv (spawn st g sf).1 ∧ ((spawn st g sf).1.tasks st.nTasks).startFut = sf ∧
      (spawn st g sf).1.nFuts = st.nFuts ∧ st.nTasks < (spawn st g sf).1.nTasks ∧
      ∀ t, t < st.nTasks →
        (((spawn st g sf).1.tasks t).st = .running ↔ (st.tasks t).st = .running) := by
  rw [spawn_eq]
  simp only []
  have i1 := finv_fsame h (fsame_newScope st false none)
  have hsf1 : ∀ f, sf = some f → FFresh (newScope st false none).1 f :=
    fun f hf => fresh_fsame (hsf f hf) (fsame_newScope st false none)
  have i2 := finv_spawnCore i1 g (st.groups g).scope (newScope st false none).2 sf hsf1
  have x3 := xc_spawnTail (spawnCore (newScope st false none).1 g (st.groups g).scope
      (newScope st false none).2 sf) (st.groups g).scope
  refine ⟨finv_fsame i2 (FSame.of_xc x3), ?_, ?_, ?_, ?_⟩
  · rw [(x3.c.tasks _).startFut]; simp [spawnCore, newScope]
  · rw [x3.c.nFuts]; simp [spawnCore, newScope]
  · rw [x3.c.nTasks]; simp [spawnCore, newScope]
  · intro t ht
    have hne : t ≠ (newScope st false none).1.nTasks := by simp [newScope]; omega
    rw [(x3.c.tasks t).st_running, spawnCore_task_ne _ _ _ _ _ hne]
    simp [newScope]

theorem fw_spawn {st : State} {t : Nat} (h : FW st t) (g : Nat) (sf : Option Nat)
    (hsf : ∀ f, sf = some f → FFresh st f) :
    FW (spawn st g sf).1 t ∧ ((spawn st g sf).1.tasks st.nTasks).startFut = sf ∧
      (spawn st g sf).1.nFuts = st.nFuts := by
  obtain ⟨a, b, c, d, e⟩ := fi_spawn h.inv g sf hsf
  exact ⟨⟨a, (e t h.lt).mpr h.run, Nat.lt_trans h.lt d⟩, b, c⟩

/-! ### `task_done` -/

theorem fi_runTaskDone {st st' : State} {u : Nat} (h : FInv st)
    (he : runTaskDone st u = some st') : FInv st' := by
  obtain ⟨g, sc, o, hg, hsc, ho, ht⟩ := runTaskDone_shape he
  have i1 : FInv (taskDoneCore st u g sc) := by
    unfold taskDoneCore
    exact finv_fsame h (((fsame_setScope _ _ _).trans (fsame_setGroup _ _ _ (.inl rfl))).trans
      (fsame_setTask _ _ _ (by simp)))
  have i2 : FInv (taskDoneMid (taskDoneCore st u g sc) g) := by
    unfold taskDoneMid
    split
    · rename_i f hf
      split
      · refine finv_resolveFut i1 f .result rfl (i1.role_lt f (.onC g) hf) (by simp) ?_
        intro _ t g' u' s e hlib hb
        rcases i1.sj_blk t g' u' s e f hlib hb with hm | hm
        · have := i1.role_uniq f (.hw u') (.onC g) hm hf
          cases this
        · exact hm
      · exact i1
    · exact i1
  have hsflt : ∀ sf, (st.tasks u).startFut = some sf → sf < (taskDoneMid (taskDoneCore st u g sc) g).nFuts := by
    intro sf hsf
    have e1 : (taskDoneMid (taskDoneCore st u g sc) g).nFuts = st.nFuts := by
      unfold taskDoneMid
      split
      · split
        · rw [(frame_resolveFut _ _ _).nFuts]; rfl
        · rfl
      · rfl
    rw [e1]; exact h.role_lt sf (.start u) hsf
  generalize taskDoneMid (taskDoneCore st u g sc) g = M at ht i2 hsflt
  generalize hsfo : (st.tasks u).startFut = sfo at ht hsflt
  unfold taskDoneTail at ht
  simp only [] at ht
  repeat' (split at ht)
  all_goals
    simp only [Option.some.injEq] at ht
    subst ht
    first
    | exact i2
    | exact finv_resolveFut i2 _ _ rfl (hsflt _ rfl)
        (by intro hc; injection hc with hc; simp_all) (fun hc => by cases hc)
    | exact finv_fsame i2 (FSame.of_xc (xc_cancelScope _ _ _))
    | exact finv_fsame i2 (fsame_setGroup _ _ _ (.inl rfl))
    | exact finv_fsame i2 ((fsame_setGroup _ _ _ (.inl rfl)).trans
        (FSame.of_xc (xc_cancelScope _ _ _)))

/-! ### the end of a coroutine -/

theorem frame_foldl_resolveFut (st : State) (l : List Nat) (v : FutSt) :
    Frame st (l.foldl (fun st f => resolveFut st f v) st) := by
  induction l generalizing st with
  | nil => exact Frame.refl _
  | cons f l ih => exact (frame_resolveFut st f v).trans (ih _)

theorem fi_finishTask {st st' : State} {t : Nat} {o : Outcome} (h : FW st t)
    (he : finishTask st t o = some st') : FInv st' := by
  unfold finishTask at he
  simp only [] at he
  split at he
  · rename_i hs hhs
    split at he
    · contradiction
    · rename_i st1 r hex
      simp only [Option.some.injEq] at he
      subst he
      have i1 := finv_setFinished h.inv t o h.lt
      have i2 := finv_foldl_resolveFut i1 (st.tasks t).hwaiters t (by simp)
        (fun f hf => by simpa using hf)
      have fr := frame_foldl_resolveFut (st.setTask t (fun x => { x with hexc := o, finished := true }))
        (st.tasks t).hwaiters .result
      have hfin := (fr.tasks t).finished
      have hrun := ((fr.tasks t).st_running).mpr (by simpa using h.run)
      have i3 := finv_hwClear i2 t (by rw [hfin]; simp)
      have h3 : FW ((List.foldl (fun st f => resolveFut st f FutSt.result)
          (st.setTask t (fun x => { x with hexc := o, finished := true }))
          (st.tasks t).hwaiters).setTask t (fun x => { x with hwaiters := [] })) t :=
        ⟨i3, by simpa using hrun, by simp [fr.nTasks]; exact h.lt⟩
      have h4 := h3.exitScope hex
      have i5 := finv_setTask_st h4.inv t
        (fun x => { x with st := .done, outcome := some (exitToOut o r), lib := .none })
        (.inr rfl) (.inr rfl) rfl rfl rfl
      refine finv_fsame ?_ (fsame_schedule _ _ (fun f => by simp))
      exact finv_fsame i5 (fsame_loop rfl rfl rfl rfl rfl rfl (fun f hf => hf))
  · simp only [Option.some.injEq] at he
    subst he
    have i5 := finv_setTask_st h.inv t
      (fun x => { x with st := .done, outcome := some o, lib := .none })
      (.inr rfl) (.inr rfl) rfl rfl rfl
    exact finv_fsame i5 (fsame_loop rfl rfl rfl rfl rfl rfl (fun f hf => hf))

end AnyioModel.Kernel
