/-
Task-group invariants of the kernel model, part 3: `GInv` is preserved by the composite helpers
(`__aexit__`, `_spawn`, `task_done`, end of a coroutine, task resumption).
-/
import AnyioModel.Kernel.GroupInv2
import AnyioModel.Kernel.WF10

namespace AnyioModel.Kernel

/-- `GInv` and `WF`, and `t` is the running task -/
structure GW (st : State) (t : Nat) : Prop where
  g : GInv st
  w : WFR st t

namespace GW
variable {st : State} {t : Nat}

theorem st_running (h : GW st t) : (st.tasks t).st = .running := h.w.st_running

theorem mcframe {b : State} (h : GW st t) (f : MCFrame st b) : GW b t :=
  ⟨ginv_gle h.g (GLe.of_mcframe f), h.w.cframe f.c⟩

theorem cancelScope (h : GW st t) (s : Nat) (b : Bool) : GW (cancelScope st s b) t :=
  h.mcframe (mcframe_cancelScope st s b)

theorem setTask (h : GW st t) (u : Nat) (f : Task → Task)
    (hw : ∀ x, (f x).st = x.st ∧ (f x).hasState = x.hasState ∧ (f x).scope = x.scope ∧
      (f x).hscope = x.hscope ∧ (f x).group = x.group ∧ (f x).startFut = x.startFut ∧
      (f x).outcome = x.outcome)
    (hg : TaskInert (st.tasks u) (f (st.tasks u))) : GW (st.setTask u f) t :=
  ⟨ginv_gle h.g (gle_setTask st u f hg), h.w.setTask_inert u f hw⟩

theorem setLib (h : GW st t) (u : Nat) (l : Lib) :
    GW (st.setTask u (fun x => { x with lib := l })) t :=
  h.setTask u _ (fun x => by simp) (by constructor <;> simp)

theorem setGroup (h : GW st t) (g : Nat) (f : Group → Group)
    (hw : ∀ x, (f x).scope = x.scope ∧ (∀ t ∈ (f x).tasks, t ∈ x.tasks) ∧
      (∀ t ∈ (f x).spawned, t ∈ x.spawned))
    (hg : GGroup (st.groups g) (f (st.groups g))) : GW (st.setGroup g f) t :=
  ⟨ginv_gle h.g (gle_setGroup st g f hg), h.w.setGroup_inert g f hw⟩

theorem mkScope (h : GW st t) (sh : Bool) (d : Option Nat) :
    GW (newScope st sh d).1 t ∧
      ((newScope st sh d).1.scopes (newScope st sh d).2).exists_ = true :=
  ⟨⟨ginv_gle h.g (gle_newScope st sh d (h.w.1.scope_dflt (Nat.le_refl _)).2.1),
    (h.w.mkScope sh d).1⟩, (h.w.mkScope sh d).2⟩

theorem mkFut (h : GW st t) : GW (newFut st).1 t ∧ (newFut st).2 < (newFut st).1.nFuts :=
  ⟨⟨ginv_gle h.g (gle_newFut st), h.w.mkFut.1⟩, h.w.mkFut.2⟩

theorem enterScope {st' : State} {s : Nat} (h : GW st t)
    (hx : (st.scopes s).exists_ = true) (he : enterScope st t s = some st') : GW st' t :=
  ⟨ginv_gle h.g (gle_enterScope he h.st_running), h.w.enterScope hx he⟩

theorem exitScope {st' : State} {s : Nat} {ev : ExcVal} {r : ExitResult} (h : GW st t)
    (he : exitScope st t s ev = some (st', r)) : GW st' t :=
  ⟨ginv_gle h.g (gle_exitScope he h.st_running), h.w.exitScope he⟩

theorem doYield (h : GW st t) : GInv (doYield st t) :=
  ginv_gle h.g (gle_doYield st t h.st_running)

theorem blockOn (h : GW st t) (f : Nat) : GInv (blockOn st t f) :=
  ginv_gle h.g (gle_blockOn st t f h.st_running)

end GW

/-! ### `__aexit__` -/

theorem exitScope_inactive {st st' : State} {t s : Nat} {ev : ExcVal} {r : ExitResult}
    (h : exitScope st t s ev = some (st', r)) : (st'.scopes s).active = false := by
  obtain ⟨_, _, _, _, h5⟩ := exitScope_spec h
  rw [(h5.scopes s).active]
  cases hB : (st.scopes s).parent with
  | none => cases hT : (st.scopes s).timer <;> simp [exitPre, exitCore, hB, hT]
  | some p =>
    by_cases hp : s = p
    · subst hp; cases hT : (st.scopes s).timer <;> simp [exitPre, exitCore, hB, hT]
    · cases hT : (st.scopes s).timer <;> simp [exitPre, exitCore, hB, hT, hp]

theorem ginv_aexitFinish {st st' : State} {t g : Nat} {ev : ExcVal} {o : Out} (h : GW st t)
    (ht : (st.groups g).tasks = []) (he : aexitFinish st t g ev = some (st', o)) : GInv st' := by
  unfold aexitFinish at he
  simp only [] at he
  split at he
  · contradiction
  · rename_i st1 r hex
    simp only [Option.some.injEq, Prod.mk.injEq] at he
    obtain ⟨rfl, _⟩ := he
    have h1 := h.exitScope hex
    have l := gle_exitScope hex h.st_running
    have hact := (exitScope_spec hex).1
    have hent := (l.scopes _).entered (h.g.g8 _ hact)
    have hin := exitScope_inactive hex
    rw [← (l.groups g).scope] at hent hin
    have h2 := ginv_setExited h1.g g (by rw [(l.groups g).tasks]; exact ht) hin hent
    exact ginv_gle h2 (gle_setTask _ t (fun x => { x with lib := .none })
      (by constructor <;> simp))

theorem ginv_aexitLoop {st st' : State} {t g ws : Nat} {ev : ExcVal} {o : Out} (h : GW st t)
    (he : aexitLoop st t g ws ev = some (st', o)) : GInv st' := by
  unfold aexitLoop at he
  split at he
  · simp only [Option.some.injEq, Prod.mk.injEq] at he
    obtain ⟨rfl, _⟩ := he
    exact (((h.mkFut.1.setGroup g _ (fun x => by simp) (by constructor <;> simp)).setLib t _)).blockOn _
  · rename_i hte
    split at he
    · contradiction
    · rename_i st1 r hex
      have l := gle_exitScope hex h.st_running
      exact ginv_aexitFinish (h.exitScope hex)
        (by rw [(l.groups g).tasks]; simpa using hte) he

theorem ginv_aexitAfterChk {st st' : State} {t g : Nat} {ev : ExcVal} {o : Out} (h : GW st t)
    (he : aexitAfterChk st t g ev = some (st', o)) : GInv st' := by
  unfold aexitAfterChk at he
  split at he
  · have h1 := h.mkScope false none
    simp only [] at he
    split at he
    · contradiction
    · rename_i st1 hen
      exact ginv_aexitLoop (h1.1.enterScope h1.2 hen) he
  · rename_i hte
    exact ginv_aexitFinish h (by simpa using hte) he

theorem gw_aexitPrep {st : State} {t : Nat} (h : GW st t) (g : Nat) (ev : ExcVal) :
    GW (aexitPrep st g ev) t := by
  unfold aexitPrep
  split
  · simp only []
    split
    · exact h.cancelScope _ _
    · exact ⟨ginv_setGroup_inert (h.cancelScope _ _).g g _ (by simp),
        (h.cancelScope _ _).w.setGroup_inert g _ (fun x => by simp)⟩
  · exact h

/-! ### `_spawn` -/

theorem mframe_spawnTail (st : State) (gs : Nat) : MFrame st (spawnTail st gs) := by
  unfold spawnTail
  split
  · split
    · exact MFrame.refl _
    · exact mframe_deliver _ _
  · split
    · exact MFrame.refl _
    · exact mframe_restartInParent _ _

theorem ginv_spawn {st : State} {g : Nat} (sf : Option Nat) (h : GInv st) (w : WF st)
    (hg : g < st.nGroups) (ha : (st.scopes (st.groups g).scope).active = true) :
    GInv (spawn st g sf).1 := by
  rw [spawn_eq]
  have hex : (st.groups g).exited = false := by
    cases hx : (st.groups g).exited
    · rfl
    · have := (h.g3 g hx).2.1; rw [ha] at this; contradiction
  have h1 := ginv_gle h (gle_newScope st false none (w.scope_dflt (Nat.le_refl _)).2.1)
  have h2 := ginv_spawnCore h1 g (st.groups g).scope (newScope st false none).2 sf
    (by simpa [newScope] using hex) (by simpa [newScope] using hg)
    (by simpa [newScope] using (w.task_dflt st.nTasks (Nat.le_refl _)).1)
  exact ginv_gle h2 (GLe.of_mframe (mframe_spawnTail _ _))

/-! ### `task_done` -/

theorem ginv_taskDoneTail {st st' : State} {g u : Nat} {o : Outcome} {sfo : Option Nat}
    (h : GInv st) (he : taskDoneTail st g u o sfo = some st') : GInv st' := by
  have hsg : ∀ e : ExcVal, GInv (st.setGroup g (fun x =>
      { x with exceptions := x.exceptions ++ e.leaves, routed := u :: x.routed })) :=
    fun e => ginv_setGroup_inert h g _ (by simp)
  unfold taskDoneTail at he
  simp only [] at he
  repeat' (split at he)
  all_goals
    simp only [Option.some.injEq] at he
    subst he
    first
    | exact h
    | exact ginv_gle h (gle_resolveFut _ _ _)
    | exact hsg _
    | exact ginv_gle h (gle_cancelScope _ _ _)
    | exact ginv_gle (hsg _) (gle_cancelScope _ _ _)

theorem ginv_runTaskDone {st st' : State} {u : Nat} (h : GInv st) (w : WF st)
    (he : runTaskDone st u = some st') : GInv st' := by
  rw [runTaskDone_eq] at he
  split at he
  · rename_i g sc o hg hsc ho
    have hd := w.outcome_done u (by simp [ho])
    have h1 := ginv_taskDoneCore h u g sc hg hd
    refine ginv_taskDoneTail (st := taskDoneMid _ g) ?_ he
    unfold taskDoneMid
    split
    · split
      · exact ginv_gle h1 (gle_resolveFut _ _ _)
      · exact h1
    · exact h1
  · contradiction

/-! ### the end of a coroutine -/

theorem ginv_finishTask {st st' : State} {t : Nat} {o : Outcome} (h : GW st t)
    (he : finishTask st t o = some st') : GInv st' := by
  unfold finishTask at he
  simp only [] at he
  split at he
  · rename_i hs hhs
    split at he
    · contradiction
    · rename_i st1 r hex
      simp only [Option.some.injEq] at he
      subst he
      have h1 := h.setTask t (fun x => { x with hexc := o, finished := true }) (fun x => by simp)
        (by constructor <;> simp [h.st_running])
      have hf1 : ((st.setTask t (fun x => { x with hexc := o, finished := true })).tasks t).finished
          = true := by simp
      have l2 := gle_foldl_resolveFut (st.setTask t (fun x => { x with hexc := o, finished := true }))
        (st.tasks t).hwaiters .result
      have w2 := wf_foldl_resolveFut h1.w.1 (st.tasks t).hwaiters .result
      have h3 : GW _ t := ⟨ginv_gle h1.g l2, w2.1, by rw [w2.2]; exact h1.w.2⟩
      have hf3 := (l2.tasks t).finished hf1
      have h4 := h3.setTask t (fun x => { x with hwaiters := [] }) (fun x => by simp)
        (by constructor <;> simp)
      have h5 := h4.exitScope hex
      have l5 := gle_exitScope hex h4.st_running
      have hf5 : (st1.tasks t).finished = true := (l5.tasks t).finished (by simpa using hf3)
      have h6 := ginv_setDone h5.g t
        (fun x => { x with st := .done, outcome := some (exitToOut o r), lib := .none })
        (by simp) (fun _ => hf5)
      exact ginv_gle h6 (gle_loop rfl rfl rfl rfl rfl rfl rfl rfl rfl)
  · rename_i hhs
    simp only [Option.some.injEq] at he
    subst he
    have h6 := ginv_setDone h.g t (fun x => { x with st := .done, outcome := some o, lib := .none })
      (by simp) (fun hx => by simp [hhs] at hx)
    exact ginv_gle h6 (gle_loop rfl rfl rfl rfl rfl rfl rfl rfl rfl)


/-! ### task resumption -/

theorem ginv_continueLib {st st' : State} {t : Nat} {r : Resume} {o : Out} (h : GW st t)
    (he : continueLib st t r = some (st', o)) : GInv st' := by
  unfold continueLib at he
  split at he
  · simp only [Option.some.injEq, Prod.mk.injEq] at he
    obtain ⟨rfl, _⟩ := he; exact h.g
  · -- chkIf
    split at he
    · simp only [Option.some.injEq, Prod.mk.injEq] at he
      obtain ⟨rfl, _⟩ := he; exact h.doYield
    · simp only [Option.some.injEq, Prod.mk.injEq] at he
      obtain ⟨rfl, _⟩ := he
      exact (h.setLib t _).g
  · -- shChk
    split at he
    · contradiction
    · rename_i st1 x hex
      simp only [Option.some.injEq, Prod.mk.injEq] at he
      obtain ⟨rfl, _⟩ := he
      exact ((h.exitScope hex).setLib t _).g
  · -- sleeping
    simp only [Option.some.injEq, Prod.mk.injEq] at he
    obtain ⟨rfl, _⟩ := he
    exact ((h.mcframe (MCFrame.of_eq (CFrame.of_unschedule _ _) (fun _ => rfl))).setLib t _).g
  · -- aexitChk
    split at he
    · contradiction
    · rename_i st1 x hex
      have h1 := h.exitScope hex
      split at he
      · exact ginv_aexitAfterChk h1 he
      · split at he
        · exact ginv_aexitAfterChk (h1.cancelScope _ _) he
        · contradiction
  · -- aexitWait
    rename_i g ws ev hl
    have h1 := h.setGroup g (fun x => { x with onCompleted := none }) (fun x => by simp)
      (by constructor <;> simp)
    simp only [] at he
    split at he
    · exact ginv_aexitLoop h1 he
    · split at he
      · refine ginv_aexitLoop ?_ he
        have h2 : GW (setShield (st.setGroup g (fun x => { x with onCompleted := none })) ws true) t := by
          refine ⟨ginv_gle h1.g (gle_setShield _ _ _), ?_⟩
          refine WFR.frame ?_ (frame_setShield _ _ _)
          exact ⟨wf_setScope_inert h1.w.1 ws _ (by simp; exact fun h => .inl h), h1.w.2⟩
        exact h2.cancelScope _ _
      · contradiction
  · -- startWait
    split at he
    · simp only [Option.some.injEq, Prod.mk.injEq] at he
      obtain ⟨rfl, _⟩ := he
      exact (h.setLib t _).g
    · simp only [] at he
      split at he
      · contradiction
      · rename_i hs hhs
        split at he
        · have h1 := h.cancelScope hs false
          have h2 := h1.mkScope true none
          split at he
          · contradiction
          · rename_i st2 hen
            have h3 := h2.1.enterScope h2.2 hen
            split at he
            · simp only [Option.some.injEq, Prod.mk.injEq] at he
              obtain ⟨rfl, _⟩ := he
              exact (h3.setLib t _).doYield
            · simp only [Option.some.injEq, Prod.mk.injEq] at he
              obtain ⟨rfl, _⟩ := he
              exact (((h3.setLib t _).mkFut.1).setTask _ _ (fun x => by simp)
                (by constructor <;> simp)).blockOn _
        · simp only [Option.some.injEq, Prod.mk.injEq] at he
          obtain ⟨rfl, _⟩ := he
          exact (h.setLib t _).g
  · -- startJoin
    split at he
    · contradiction
    · rename_i st1 x hex
      have h1 := (h.exitScope hex).setLib t .none
      simp only [] at he
      split at he <;>
      · simp only [Option.some.injEq, Prod.mk.injEq] at he
        obtain ⟨rfl, _⟩ := he
        exact h1.g

/-- the state in which `Task.__step` runs the coroutine -/
theorem gw_runTask_pre {st : State} {t : Nat} (h : GInv st) (w : WF st) (hr : st.running = none)
    (hlt : t < st.nTasks) (hnd : (st.tasks t).st ≠ .done) :
    GW { st.setTask t (fun x => { x with st := .running, mustCancel := false }) with
      running := some t } t := by
  refine ⟨?_, ?_, rfl⟩
  · have l1 := gle_setTask st t (fun x => { x with st := .running, mustCancel := false })
      (by constructor <;> simp [hnd])
    exact ginv_gle h (l1.trans (gle_loop rfl rfl rfl rfl rfl rfl rfl rfl rfl))
  · apply wf_congr w
    case tk => intro u; by_cases hu : u = t <;> simp [hu]
    case tkst =>
      intro u; by_cases hu : u = t
      · subst hu; simp [hnd]; omega
      · simp [hu]
    case run =>
      intro u; by_cases hu : u = t
      · subst hu; simp
      · simp [hu]
        constructor
        · intro e; exact absurd e.symm hu
        · intro hu'
          have := (w.running_spec u).mpr hu'
          simp_all
    case scx => exact w.scope_exists
    case scd => exact w.deadline_exists
    case grs => intro g h1 h2; exact absurd h2 (by simp; exact h1)
    all_goals first | (exact fun _ h => Or.inl h) | (exact fun _ _ h => Or.inl h) | simp

theorem resumeValue_created {st : State} {t : Nat} (hc : (st.tasks t).st = .created)
    (hm : (st.tasks t).mustCancel = false) : resumeValue st t = .none := by
  unfold resumeValue
  simp [hc, hm]

theorem ginv_runTask {st st' : State} {t : Nat} {o : Out} (h : GInv st) (w : WF st)
    (hr : st.running = none) (hlt : t < st.nTasks) (hnd : (st.tasks t).st ≠ .done)
    (he : runTask st t = some (st', o)) : GInv st' := by
  have h1 := gw_runTask_pre h w hr hlt hnd
  unfold runTask at he
  simp only [] at he
  split at he
  · rename_i hs hst hhs
    rw [resumeValue_created hst (h.g5 t hst)] at he
    simp only [] at he
    split at he
    · contradiction
    · rename_i st1 hen
      simp only [Option.some.injEq, Prod.mk.injEq] at he
      obtain ⟨rfl, _⟩ := he
      have hx : hs < st.nScopes := w.hscope_lt t hs hhs
      exact (h1.enterScope (by simpa using (w.scope_exists hs).mpr hx) hen).g
  · exact ginv_continueLib h1 he

end AnyioModel.Kernel
