/-
Delivery of cancellation, part 23: the latency bound over runs, in terms of `_effectively_cancelled`
only.

`Stuck t f c st`: task `t` is blocked on `f` in scope `c`, and `c` is effectively cancelled.
`Origin st o c`: `o` is active, cancelled, and its delivery reaches `c`; it is unique
(`origin_unique`), and it does not change along a transition before and after which `t` is stuck
(`origin_stable`: by `qr_step` a scope that gets cancelled delivers at once).
`stuck_at_most_one_cycle`: along a run on which `Stuck t f c` holds throughout, at most one new
loop cycle begins.
-/
import AnyioModel.Kernel.DeliverInv22

namespace AnyioModel.Kernel

def Origin (st : State) (o c : Nat) : Prop :=
  (st.scopes o).active = true ∧ (st.scopes o).cancelCalled = true ∧ reachDown st o c

def Stuck (t f c : Nat) (st : State) : Prop :=
  (st.tasks t).st = .blocked f ∧ t ∈ (st.scopes c).tasks ∧ effCancelled st c = true

theorem origin_unique {st : State} {o o' c : Nat} (h : reachDown st o c) (h' : reachDown st o' c)
    (hc : (st.scopes o).cancelCalled = true) (hc' : (st.scopes o').cancelCalled = true) :
    o' = o := by
  induction h with
  | refl =>
    cases h' with
    | refl => rfl
    | step _ _ _ hcc _ => rw [hc] at hcc; cases hcc
  | @step c p hp _ _ hcc _ ih =>
    cases h' with
    | refl => rw [hc'] at hcc; cases hcc
    | @step _ p' hp' _ _ _ hr' =>
      rw [hp] at hp'
      cases hp'
      exact ih hr'

theorem Stuck.origin {t f c : Nat} {st : State} (hr : Reach st) (h : Stuck t f c st) :
    ∃ o, Origin st o c := by
  have ai := (xi_reach hr).1
  exact origin_of_effCancelled (wf_reach hr) ai _ c rfl (ai.a2 c t h.2.1) h.2.2

theorem Stuck.reached {t f c o : Nat} {st : State} (h : Stuck t f c st) (ho : Origin st o c) :
    Reached o c t f st :=
  ⟨h.1, h.2.1, ho.1, ho.2.1, ho.2.2⟩

/-- un-shielding can only extend what a delivery reaches -/
theorem reachDown_unshield_mono {a b : State} {o c : Nat}
    (h : ∀ s, (b.scopes s).parent = (a.scopes s).parent ∧ (b.scopes s).active = (a.scopes s).active ∧
      ((a.scopes s).shield = false → (b.scopes s).shield = false) ∧
      (b.scopes s).cancelCalled = (a.scopes s).cancelCalled)
    (r : reachDown a o c) : reachDown b o c := by
  induction r with
  | refl => exact .refl
  | step h1 h2 h3 h4 _ ih =>
    exact .step (by rw [(h _).1]; exact h1) (by rw [(h _).2.1]; exact h2) ((h _).2.2.1 h3)
      (by rw [(h _).2.2.2]; exact h4) ih

theorem origin_stable {t f c : Nat} {st st' : State} {e : Ev} {out : Out} (hr : Reach st)
    (hs : step st e = some (st', out)) (h : Stuck t f c st) (h' : Stuck t f c st') {o o' : Nat}
    (ho : Origin st o c) (ho' : Origin st' o' c) : o' = o := by
  by_cases hsh : ∃ s, e = .setShield s false
  · -- un-shielding: the old origin still reaches `c`
    obtain ⟨s, rfl⟩ := hsh
    simp only [step] at hs
    split at hs
    · contradiction
    · simp only [Option.some.injEq, Prod.mk.injEq] at hs
      obtain ⟨rfl, _⟩ := hs
      have fr := frame_setShield st s false
      have key : ∀ x, ((setShield st s false).scopes x).parent = (st.scopes x).parent ∧
          ((setShield st s false).scopes x).active = (st.scopes x).active ∧
          ((st.scopes x).shield = false → ((setShield st s false).scopes x).shield = false) ∧
          ((setShield st s false).scopes x).cancelCalled = (st.scopes x).cancelCalled := by
        intro x
        have e1 := fr.scopes x
        by_cases hx : x = s
        · subst hx
          refine ⟨by rw [e1.parent]; simp, by rw [e1.active]; simp, fun _ => by rw [e1.shield]; simp,
            by rw [e1.cancelCalled]; simp⟩
        · refine ⟨by rw [e1.parent]; simp [hx], by rw [e1.active]; simp [hx],
            fun h => by rw [e1.shield]; simpa [hx] using h, by rw [e1.cancelCalled]; simp [hx]⟩
      have r : reachDown (setShield st s false) o c := reachDown_unshield_mono key ho.2.2
      exact origin_unique r ho'.2.2 (by rw [(key o).2.2.2]; exact ho.2.1) ho'.2.1
  · have hne : ∀ s, e ≠ .setShield s false := fun s he => hsh ⟨s, he⟩
    have q := qr_step (c := c) hr h.1 hs hne
    obtain ⟨c1, a1, r1⟩ := q.sit h'.1 h'.2.1 o' ho'.2.1 ho'.1 ho'.2.2
    have hsc : (stepPre st e).scopes = st.scopes := by cases e <;> rfl
    have r2 : reachDown st o' c :=
      reachDown_congr (fun x => by rw [hsc]; exact ⟨rfl, rfl, rfl, rfl⟩) r1
    rw [hsc] at c1
    exact origin_unique ho.2.2 r2 ho.2.1 c1

/-- with the origin's `deliver` callback in the current batch, no new cycle begins while the task is
stuck -/
theorem stuck_no_cycle {t f c : Nat} :
    ∀ (es : List Ev) (st st' : State), Reach st → runFrom step st es = some st' →
      Along (Stuck t f c) st es → ∀ o, Origin st o c → Handle.deliver o ∈ st.cur →
        nCycles es = 0 := by
  intro es
  induction es with
  | nil => intros; rfl
  | cons e es ih =>
    intro st st' hr hrun ha o ho hc
    simp only [runFrom] at hrun
    split at hrun
    · contradiction
    · rename_i s1 o1 hs
      have ha1 := ha.2 s1 o1 hs
      have hr1 : Reach s1 := Reachable.next hr hs
      by_cases he : e = .run (.deliver o)
      · subst he
        have := (reached_deliver_wakes hr (ha.1.reached ho) hs).1
        rw [ha1.head.1] at this; cases this
      · have hk := step_keeps_deliver hr hs hc he
        obtain ⟨o', ho'⟩ := ha1.head.origin hr1
        have hoo := origin_stable hr hs ha.1 ha1.head ho ho'
        subst hoo
        cases e with
        | beginCycle now =>
          have := (show st.cur = [] from by
            simp only [step] at hs
            split at hs
            · contradiction
            · rename_i hg
              cases hx : st.cur with
              | nil => rfl
              | cons a l => exact absurd (.inr (.inl (by simp [hx]))) hg)
          rw [this] at hc; cases hc
        | _ => exact ih s1 st' hr1 hrun ha1 o' ho' hk

/-- while a task stays blocked in an effectively cancelled scope, at most one new cycle begins -/
theorem stuck_at_most_one_cycle {t f c : Nat} :
    ∀ (es : List Ev) (st st' : State), Reach st → runFrom step st es = some st' →
      Along (Stuck t f c) st es → nCycles es ≤ 1 := by
  intro es
  induction es with
  | nil => intros; exact Nat.zero_le _
  | cons e es ih =>
    intro st st' hr hrun ha
    simp only [runFrom] at hrun
    split at hrun
    · contradiction
    · rename_i s1 o1 hs
      have ha1 := ha.2 s1 o1 hs
      have hr1 : Reach s1 := Reachable.next hr hs
      cases e with
      | beginCycle now =>
        obtain ⟨o, ho⟩ := ha.1.origin hr
        obtain ⟨hb, ht, _⟩ := ha.1
        have hd : (st.tasks t).st ≠ .done := by rw [hb]; simp
        have hsched := (di_reach hr).sched o
          ((di_reach hr).live o ho.1 ho.2.1 ⟨c, t, ho.2.2, ht, hd⟩)
        obtain ⟨o', ho'⟩ := ha1.head.origin hr1
        have hoo := origin_stable hr hs ha.1 ha1.head ho ho'
        subst hoo
        have hcur : Handle.deliver o' ∈ s1.cur := by
          simp only [step] at hs
          split at hs
          · contradiction
          · rename_i hg
            have hc : st.cur = [] := by
              cases hx : st.cur with
              | nil => rfl
              | cons a l => exact absurd (.inr (.inl (by simp [hx]))) hg
            simp only [Option.some.injEq, Prod.mk.injEq] at hs
            obtain ⟨rfl, _⟩ := hs
            rw [hc, List.append_nil] at hsched
            exact List.mem_append_left _ hsched
        have := stuck_no_cycle es s1 st' hr1 hrun ha1 o' ho' hcur
        simp only [nCycles, this]; exact Nat.le_refl _
      | _ => exact ih s1 st' hr1 hrun ha1

end AnyioModel.Kernel
