/-
`Closed2`: the case analysis of `step` of `GroupInv5` once more, for state predicates whose
preservation by the first part of `__aexit__` needs to know that `__aexit__` runs at most once per
group: the closure field `aexitPrep` may assume `bodyErrs g = []`.  `closed2_step` takes that fact
about the source state as a hypothesis; `closed2_reach` discharges it with the host invariant
(`hinv_guard`).  The file is a copy of `GroupInv5.lean` up to these two changes.
-/
import AnyioModel.Kernel.HostInv5

namespace AnyioModel.Kernel

structure Closed2 (Q : State → Prop) : Prop where
  gle : ∀ {a b : State}, Q a → GInv a → GLe a b → Q b
  spawnCore : ∀ {st : State} (g gs hs : Nat) (sf : Option Nat), Q st → GInv st →
    gs = (st.groups g).scope → (st.groups g).exited = false → g < st.nGroups →
    (st.tasks st.nTasks).st = .created → (st.scopes gs).active = true →
    st.nScopes = hs + 1 → (∀ u, (st.tasks u).hscope ≠ some hs) →
    (∀ f, sf = some f → st.nFuts = f + 1) →
    Q (spawnCore st g gs hs sf)
  runTaskDone : ∀ {st st' : State} {u : Nat}, Q st → GInv st → WF st →
    runTaskDone st u = some st' → Q st'
  setDone : ∀ {st : State} (t : Nat) (o : Outcome), Q st → GInv st →
    (st.tasks t).st = .running → ((st.tasks t).hscope.isSome → (st.tasks t).finished = true) →
    Q (st.setTask t (fun x => { x with st := .done, outcome := some o, lib := .none }))
  aexitPrep : ∀ {st : State} (t g : Nat) (ev : ExcVal), Q st → GInv st → WFR st t →
    (st.tasks t).lib = .none → (st.groups g).entered = true → (st.groups g).exited = false →
    (st.tasks t).scope = some (st.groups g).scope → g < st.nGroups →
    (st.groups g).bodyErrs = [] → Q (aexitPrep st g ev)
  groupEntered : ∀ {st : State} (g : Nat), Q st → GInv st →
    (st.scopes (st.groups g).scope).entered = true → (st.groups g).entered = false →
    Q (st.setGroup g (fun x => { x with entered := true }))
  setExited : ∀ {st : State} (g : Nat), Q st → GInv st → (st.groups g).tasks = [] →
    (st.scopes (st.groups g).scope).active = false →
    Q (st.setGroup g (fun x => { x with exited := true, exceptions := [] }))
  mkGroup : ∀ {st B : State} (s : Nat), Q st → GInv st →
    B.groups = upd st.groups st.nGroups { scope := s } → B.tasks = st.tasks →
    B.scopes = st.scopes → B.futs = st.futs → B.userFut = st.userFut → B.nTasks = st.nTasks →
    B.nGroups = st.nGroups + 1 → B.nFuts = st.nFuts → B.nScopes = st.nScopes →
    st.nScopes = s + 1 → Q B

/-- `Q`, `GInv` and `WF`, and `t` is the running task -/
structure QW2 (Q : State → Prop) (st : State) (t : Nat) : Prop where
  q : Q st
  g : GW st t

namespace QW2
variable {Q : State → Prop} {st : State} {t : Nat}

theorem st_running (h : QW2 Q st t) : (st.tasks t).st = .running := h.g.st_running

theorem mcframe {b : State} (cl : Closed2 Q) (h : QW2 Q st t) (f : MCFrame st b) : QW2 Q b t :=
  ⟨cl.gle h.q h.g.g (GLe.of_mcframe f), h.g.mcframe f⟩

theorem cancelScope (cl : Closed2 Q) (h : QW2 Q st t) (s : Nat) (b : Bool) :
    QW2 Q (cancelScope st s b) t :=
  h.mcframe cl (mcframe_cancelScope st s b)

theorem setTask (cl : Closed2 Q) (h : QW2 Q st t) (u : Nat) (f : Task → Task)
    (hw : ∀ x, (f x).st = x.st ∧ (f x).hasState = x.hasState ∧ (f x).scope = x.scope ∧
      (f x).hscope = x.hscope ∧ (f x).group = x.group ∧ (f x).startFut = x.startFut ∧
      (f x).outcome = x.outcome)
    (hg : TaskInert (st.tasks u) (f (st.tasks u))) : QW2 Q (st.setTask u f) t :=
  ⟨cl.gle h.q h.g.g (gle_setTask st u f hg), h.g.setTask u f hw hg⟩

theorem setLib (cl : Closed2 Q) (h : QW2 Q st t) (u : Nat) (l : Lib) :
    QW2 Q (st.setTask u (fun x => { x with lib := l })) t :=
  h.setTask cl u _ (fun x => by simp) (by constructor <;> simp)

theorem setGroup (cl : Closed2 Q) (h : QW2 Q st t) (g : Nat) (f : Group → Group)
    (hw : ∀ x, (f x).scope = x.scope ∧ (∀ t ∈ (f x).tasks, t ∈ x.tasks) ∧
      (∀ t ∈ (f x).spawned, t ∈ x.spawned))
    (hg : GGroup (st.groups g) (f (st.groups g))) : QW2 Q (st.setGroup g f) t :=
  ⟨cl.gle h.q h.g.g (gle_setGroup st g f hg), h.g.setGroup g f hw hg⟩

theorem mkScope (cl : Closed2 Q) (h : QW2 Q st t) (sh : Bool) (d : Option Nat) :
    QW2 Q (newScope st sh d).1 t ∧
      ((newScope st sh d).1.scopes (newScope st sh d).2).exists_ = true :=
  ⟨⟨cl.gle h.q h.g.g (gle_newScope st sh d (h.g.w.1.scope_dflt (Nat.le_refl _)).2.1),
    (h.g.mkScope sh d).1⟩, (h.g.mkScope sh d).2⟩

theorem mkFut (cl : Closed2 Q) (h : QW2 Q st t) :
    QW2 Q (newFut st).1 t ∧ (newFut st).2 < (newFut st).1.nFuts :=
  ⟨⟨cl.gle h.q h.g.g (gle_newFut st), h.g.mkFut.1⟩, h.g.mkFut.2⟩

theorem enterScope {st' : State} {s : Nat} (cl : Closed2 Q) (h : QW2 Q st t)
    (hx : (st.scopes s).exists_ = true) (he : enterScope st t s = some st') : QW2 Q st' t :=
  ⟨cl.gle h.q h.g.g (gle_enterScope he h.st_running), h.g.enterScope hx he⟩

theorem exitScope {st' : State} {s : Nat} {ev : ExcVal} {r : ExitResult} (cl : Closed2 Q)
    (h : QW2 Q st t) (he : exitScope st t s ev = some (st', r)) : QW2 Q st' t :=
  ⟨cl.gle h.q h.g.g (gle_exitScope he h.st_running), h.g.exitScope he⟩

theorem doYield (cl : Closed2 Q) (h : QW2 Q st t) : Q (doYield st t) :=
  cl.gle h.q h.g.g (gle_doYield st t h.st_running)

theorem blockOn (cl : Closed2 Q) (h : QW2 Q st t) (f : Nat) : Q (blockOn st t f) :=
  cl.gle h.q h.g.g (gle_blockOn st t f h.st_running)

end QW2

section
variable {Q : State → Prop} (cl : Closed2 Q)
include cl

/-! ### `__aexit__` -/

theorem q2_aexitFinish {st st' : State} {t g : Nat} {ev : ExcVal} {o : Out} (h : QW2 Q st t)
    (ht : (st.groups g).tasks = []) (he : aexitFinish st t g ev = some (st', o)) : Q st' := by
  unfold aexitFinish at he
  simp only [] at he
  split at he
  · contradiction
  · rename_i st1 r hex
    simp only [Option.some.injEq, Prod.mk.injEq] at he
    obtain ⟨rfl, _⟩ := he
    have h1 := h.exitScope cl hex
    have l := gle_exitScope hex h.st_running
    have hin := exitScope_inactive hex
    rw [← (l.groups g).scope] at hin
    have ht1 : (st1.groups g).tasks = [] := by rw [(l.groups g).tasks]; exact ht
    have hact := (exitScope_spec hex).1
    have hent := (l.scopes _).entered (h.g.g.g8 _ hact)
    rw [← (l.groups g).scope] at hent
    have h2 := cl.setExited g h1.q h1.g.g ht1 hin
    have g2 := ginv_setExited h1.g.g g ht1 hin hent
    exact cl.gle h2 g2 (gle_setTask _ t (fun x => { x with lib := .none })
      (by constructor <;> simp))

theorem q2_aexitLoop {st st' : State} {t g ws : Nat} {ev : ExcVal} {o : Out} (h : QW2 Q st t)
    (he : aexitLoop st t g ws ev = some (st', o)) : Q st' := by
  unfold aexitLoop at he
  split at he
  · simp only [Option.some.injEq, Prod.mk.injEq] at he
    obtain ⟨rfl, _⟩ := he
    exact ((((h.mkFut cl).1.setGroup cl g _ (fun x => by simp) (by constructor <;> simp)).setLib
      cl t _)).blockOn cl _
  · rename_i hte
    split at he
    · contradiction
    · rename_i st1 r hex
      have l := gle_exitScope hex h.st_running
      exact q2_aexitFinish cl (h.exitScope cl hex)
        (by rw [(l.groups g).tasks]; simpa using hte) he

theorem q2_aexitAfterChk {st st' : State} {t g : Nat} {ev : ExcVal} {o : Out} (h : QW2 Q st t)
    (he : aexitAfterChk st t g ev = some (st', o)) : Q st' := by
  unfold aexitAfterChk at he
  split at he
  · have h1 := h.mkScope cl false none
    simp only [] at he
    split at he
    · contradiction
    · rename_i st1 hen
      exact q2_aexitLoop cl (h1.1.enterScope cl h1.2 hen) he
  · rename_i hte
    exact q2_aexitFinish cl h (by simpa using hte) he

/-! ### `_spawn` -/

theorem q2_spawn {st : State} {g : Nat} (sf : Option Nat) (q : Q st) (h : GInv st) (w : WF st)
    (hg : g < st.nGroups) (ha : (st.scopes (st.groups g).scope).active = true)
    (hsf : ∀ f, sf = some f → st.nFuts = f + 1) : Q (spawn st g sf).1 := by
  rw [spawn_eq]
  have hex : (st.groups g).exited = false := by
    cases hx : (st.groups g).exited
    · rfl
    · have := (h.g3 g hx).2.1; rw [ha] at this; contradiction
  have l1 := gle_newScope st false none (w.scope_dflt (Nat.le_refl _)).2.1
  have h1 := ginv_gle h l1
  have q1 := cl.gle q h l1
  have hgs : (st.groups g).scope ≠ st.nScopes := by
    have := w.group_scope_lt g hg; omega
  have q2 := cl.spawnCore g (st.groups g).scope (newScope st false none).2 sf q1 h1
    (by simp [newScope]) (by simpa [newScope] using hex) (by simpa [newScope] using hg)
    (by simpa [newScope] using (w.task_dflt st.nTasks (Nat.le_refl _)).1)
    (by simpa [newScope, hgs] using ha) (by simp [newScope])
    (by
      intro u hu
      have : (st.tasks u).hscope = some st.nScopes := by simpa [newScope] using hu
      have := w.hscope_lt u _ this; omega)
    (by simpa [newScope] using hsf)
  have h2 := ginv_spawnCore h1 g (st.groups g).scope (newScope st false none).2 sf
    (by simpa [newScope] using hex) (by simpa [newScope] using hg)
    (by simpa [newScope] using (w.task_dflt st.nTasks (Nat.le_refl _)).1)
  exact cl.gle q2 h2 (GLe.of_mframe (mframe_spawnTail _ _))

/-! ### the end of a coroutine -/

theorem q2_finishTask {st st' : State} {t : Nat} {o : Outcome} (h : QW2 Q st t)
    (he : finishTask st t o = some st') : Q st' := by
  unfold finishTask at he
  simp only [] at he
  split at he
  · rename_i hs hhs
    split at he
    · contradiction
    · rename_i st1 r hex
      simp only [Option.some.injEq] at he
      subst he
      have h1 := h.setTask cl t (fun x => { x with hexc := o, finished := true }) (fun x => by simp)
        (by constructor <;> simp [h.st_running])
      have hf1 : ((st.setTask t (fun x => { x with hexc := o, finished := true })).tasks t).finished
          = true := by simp
      have l2 := gle_foldl_resolveFut (st.setTask t (fun x => { x with hexc := o, finished := true }))
        (st.tasks t).hwaiters .result
      have w2 := wf_foldl_resolveFut h1.g.w.1 (st.tasks t).hwaiters .result
      have h3 : QW2 Q _ t := ⟨cl.gle h1.q h1.g.g l2, ginv_gle h1.g.g l2, w2.1,
        by rw [w2.2]; exact h1.g.w.2⟩
      have hf3 := (l2.tasks t).finished hf1
      have h4 := h3.setTask cl t (fun x => { x with hwaiters := [] }) (fun x => by simp)
        (by constructor <;> simp)
      have h5 := h4.exitScope cl hex
      have l5 := gle_exitScope hex h4.st_running
      have hf5 : (st1.tasks t).finished = true := (l5.tasks t).finished (by simpa using hf3)
      have q6 := cl.setDone t (exitToOut o r) h5.q h5.g.g h5.st_running (fun _ => hf5)
      have h6 := ginv_setDone h5.g.g t
        (fun x => { x with st := .done, outcome := some (exitToOut o r), lib := .none })
        (by simp) (fun _ => hf5)
      exact cl.gle q6 h6 (gle_loop rfl rfl rfl rfl rfl rfl rfl rfl rfl)
  · rename_i hhs
    simp only [Option.some.injEq] at he
    subst he
    have q6 := cl.setDone t o h.q h.g.g h.st_running (fun hx => by simp [hhs] at hx)
    have h6 := ginv_setDone h.g.g t (fun x => { x with st := .done, outcome := some o, lib := .none })
      (by simp) (fun hx => by simp [hhs] at hx)
    exact cl.gle q6 h6 (gle_loop rfl rfl rfl rfl rfl rfl rfl rfl rfl)

/-! ### task resumption -/

theorem q2_continueLib {st st' : State} {t : Nat} {r : Resume} {o : Out} (h : QW2 Q st t)
    (he : continueLib st t r = some (st', o)) : Q st' := by
  unfold continueLib at he
  split at he
  · simp only [Option.some.injEq, Prod.mk.injEq] at he
    obtain ⟨rfl, _⟩ := he; exact h.q
  · -- chkIf
    split at he
    · simp only [Option.some.injEq, Prod.mk.injEq] at he
      obtain ⟨rfl, _⟩ := he; exact h.doYield cl
    · simp only [Option.some.injEq, Prod.mk.injEq] at he
      obtain ⟨rfl, _⟩ := he
      exact (h.setLib cl t _).q
  · -- shChk
    split at he
    · contradiction
    · rename_i st1 x hex
      simp only [Option.some.injEq, Prod.mk.injEq] at he
      obtain ⟨rfl, _⟩ := he
      exact ((h.exitScope cl hex).setLib cl t _).q
  · -- sleeping
    simp only [Option.some.injEq, Prod.mk.injEq] at he
    obtain ⟨rfl, _⟩ := he
    exact ((h.mcframe cl (MCFrame.of_eq (CFrame.of_unschedule _ _) (fun _ => rfl))).setLib cl t _).q
  · -- aexitChk
    split at he
    · contradiction
    · rename_i st1 x hex
      have h1 := h.exitScope cl hex
      split at he
      · exact q2_aexitAfterChk cl h1 he
      · split at he
        · exact q2_aexitAfterChk cl (h1.cancelScope cl _ _) he
        · contradiction
  · -- aexitWait
    rename_i g ws ev hl
    have h1 := h.setGroup cl g (fun x => { x with onCompleted := none }) (fun x => by simp)
      (by constructor <;> simp)
    simp only [] at he
    split at he
    · exact q2_aexitLoop cl h1 he
    · split at he
      · refine q2_aexitLoop cl ?_ he
        have l2 := gle_setShield (st.setGroup g (fun x => { x with onCompleted := none })) ws true
        have h2 : QW2 Q (setShield (st.setGroup g (fun x => { x with onCompleted := none })) ws true)
            t := by
          refine ⟨cl.gle h1.q h1.g.g l2, ginv_gle h1.g.g l2, ?_⟩
          refine WFR.frame ?_ (frame_setShield _ _ _)
          exact ⟨wf_setScope_inert h1.g.w.1 ws _ (by simp; exact fun h => .inl h), h1.g.w.2⟩
        exact h2.cancelScope cl _ _
      · contradiction
  · -- startWait
    split at he
    · simp only [Option.some.injEq, Prod.mk.injEq] at he
      obtain ⟨rfl, _⟩ := he
      exact (h.setLib cl t _).q
    · simp only [] at he
      split at he
      · contradiction
      · rename_i hs hhs
        split at he
        · have h1 := h.cancelScope cl hs false
          have h2 := h1.mkScope cl true none
          split at he
          · contradiction
          · rename_i st2 hen
            have h3 := h2.1.enterScope cl h2.2 hen
            split at he
            · simp only [Option.some.injEq, Prod.mk.injEq] at he
              obtain ⟨rfl, _⟩ := he
              exact (h3.setLib cl t _).doYield cl
            · simp only [Option.some.injEq, Prod.mk.injEq] at he
              obtain ⟨rfl, _⟩ := he
              exact ((((h3.setLib cl t _).mkFut cl).1).setTask cl _ _ (fun x => by simp)
                (by constructor <;> simp)).blockOn cl _
        · simp only [Option.some.injEq, Prod.mk.injEq] at he
          obtain ⟨rfl, _⟩ := he
          exact (h.setLib cl t _).q
  · -- startJoin
    split at he
    · contradiction
    · rename_i st1 x hex
      have h1 := (h.exitScope cl hex).setLib cl t .none
      simp only [] at he
      split at he <;>
      · simp only [Option.some.injEq, Prod.mk.injEq] at he
        obtain ⟨rfl, _⟩ := he
        exact h1.q

theorem q2_runTask {st st' : State} {t : Nat} {o : Out} (q : Q st) (h : GInv st) (w : WF st)
    (hr : st.running = none) (hlt : t < st.nTasks) (hnd : (st.tasks t).st ≠ .done)
    (he : runTask st t = some (st', o)) : Q st' := by
  have g1 := gw_runTask_pre h w hr hlt hnd
  have l1 := gle_setTask st t (fun x => { x with st := .running, mustCancel := false })
    (by constructor <;> simp [hnd])
  have h1 : QW2 Q { st.setTask t (fun x => { x with st := .running, mustCancel := false }) with
      running := some t } t :=
    ⟨cl.gle q h (l1.trans (gle_loop rfl rfl rfl rfl rfl rfl rfl rfl rfl)), g1⟩
  unfold runTask at he
  simp only [] at he
  split at he
  · rename_i hs hst hhs
    rw [resumeValue_created hst (h.g5 t hst)] at he
    simp only [] at he
    split at he
    · contradiction
    · rename_i st1 hen
      simp only [Option.some.injEq, Prod.mk.injEq] at he
      obtain ⟨rfl, _⟩ := he
      have hx : hs < st.nScopes := w.hscope_lt t hs hhs
      exact (h1.enterScope cl (by simpa using (w.scope_exists hs).mpr hx) hen).q
  · exact q2_continueLib cl h1 he

theorem q2_runHandle {st st' : State} {x : Handle} {o : Out} (q : Q st) (h : GInv st) (w : WF st)
    (hs : step st (.run x) = some (st', o)) : Q st' := by
  simp only [step] at hs
  split at hs
  · contradiction
  · rename_i hg
    have hrun : st.running = none := by
      cases hr : st.running <;> simp_all
    have hxc : x ∈ st.cur := by
      apply Classical.byContradiction; intro hx; exact hg (.inr hx)
    have hok := w.cur_ok x hxc
    have w1 : WF { st with cur := st.cur.erase x } :=
      wf_setCur w _ (fun y hy => List.mem_of_mem_erase hy)
    have h1 : GInv { st with cur := st.cur.erase x } := ginv_gle h (gle_setCur st _)
    have q1 : Q { st with cur := st.cur.erase x } := cl.gle q h (gle_setCur st _)
    cases x with
    | step t =>
      simp only [] at hs
      split at hs
      · rename_i hst
        refine q2_runTask cl q1 h1 w1 hrun hok ?_ hs
        rcases hst with hst | hst <;> simp_all
      · contradiction
    | wakeup t =>
      simp only [] at hs
      split at hs
      · rename_i f hst
        refine q2_runTask cl q1 h1 w1 hrun hok ?_ hs
        simp_all
      · contradiction
    | deliver s =>
      simp only [Option.some.injEq, Prod.mk.injEq] at hs
      obtain ⟨rfl, _⟩ := hs
      exact cl.gle q1 h1 (gle_deliver _ _)
    | timeout s =>
      simp only [Option.some.injEq, Prod.mk.injEq] at hs
      obtain ⟨rfl, _⟩ := hs
      exact cl.gle q1 h1 ((gle_setScope _ s _ (by constructor <;> simp)).trans
        (GLe.of_mcframe (mcframe_armTimeout _ _)))
    | sleepDone f =>
      simp only [Option.some.injEq, Prod.mk.injEq] at hs
      obtain ⟨rfl, _⟩ := hs
      exact cl.gle q1 h1 (gle_resolveFut _ _ _)
    | taskDone u =>
      simp only [] at hs
      split at hs
      · rename_i st1 htd
        simp only [Option.some.injEq, Prod.mk.injEq] at hs
        obtain ⟨rfl, _⟩ := hs
        exact cl.runTaskDone q1 h1 w1 htd
      · contradiction

theorem closed2_step {st st' : State} {e : Ev} {o : Out} (q : Q st) (h : GInv st) (w : WF st)
    (hb : ∀ t g, st.running = some t → (st.tasks t).lib = .none → (st.groups g).exited = false →
      (st.tasks t).scope = some (st.groups g).scope → (st.groups g).bodyErrs = [])
    (hs : step st e = some (st', o)) : Q st' := by
  cases e with
  | beginCycle now =>
    simp only [step] at hs
    split at hs
    · contradiction
    · simp only [Option.some.injEq, Prod.mk.injEq] at hs
      obtain ⟨rfl, _⟩ := hs
      exact cl.gle q h (gle_loop rfl rfl rfl rfl rfl rfl rfl rfl rfl)
  | run x => exact q2_runHandle cl q h w hs
  | mkScope sh d =>
    simp only [step, Option.some.injEq, Prod.mk.injEq] at hs
    obtain ⟨rfl, _⟩ := hs
    exact cl.gle q h (gle_newScope st sh d (w.scope_dflt (Nat.le_refl _)).2.1)
  | enter s =>
    simp only [step] at hs
    split at hs
    · contradiction
    · rename_i t hr
      split at hs
      · contradiction
      · rename_i hg
        have hx : (st.scopes s).exists_ = true := by
          cases hx : (st.scopes s).exists_ <;> simp_all
        split at hs
        · simp only [Option.some.injEq, Prod.mk.injEq] at hs
          obtain ⟨rfl, _⟩ := hs; exact q
        · rename_i st1 hen
          simp only [Option.some.injEq, Prod.mk.injEq] at hs
          obtain ⟨rfl, _⟩ := hs
          exact (QW2.enterScope cl ⟨q, h, w, hr⟩ hx hen).q
  | exit s ev =>
    simp only [step] at hs
    split at hs
    · contradiction
    · rename_i t hr
      split at hs
      · contradiction
      · split at hs
        · simp only [Option.some.injEq, Prod.mk.injEq] at hs
          obtain ⟨rfl, _⟩ := hs; exact q
        · rename_i st1 r hex
          simp only [Option.some.injEq, Prod.mk.injEq] at hs
          obtain ⟨rfl, _⟩ := hs
          exact (QW2.exitScope cl ⟨q, h, w, hr⟩ hex).q
  | cancel s =>
    simp only [step] at hs
    split at hs
    · contradiction
    · simp only [Option.some.injEq, Prod.mk.injEq] at hs
      obtain ⟨rfl, _⟩ := hs
      exact cl.gle q h (gle_cancelScope _ _ _)
  | setShield s b =>
    simp only [step] at hs
    split at hs
    · contradiction
    · simp only [Option.some.injEq, Prod.mk.injEq] at hs
      obtain ⟨rfl, _⟩ := hs
      exact cl.gle q h (gle_setShield _ _ _)
  | setDeadline s d =>
    simp only [step] at hs
    split at hs
    · contradiction
    · simp only [Option.some.injEq, Prod.mk.injEq] at hs
      obtain ⟨rfl, _⟩ := hs
      exact cl.gle q h (gle_setDeadline _ _ _)
  | yield =>
    simp only [step] at hs
    split at hs
    · contradiction
    · rename_i t hr
      split at hs
      · contradiction
      · simp only [Option.some.injEq, Prod.mk.injEq] at hs
        obtain ⟨rfl, _⟩ := hs
        exact QW2.doYield cl ⟨q, h, w, hr⟩
  | mkFut =>
    simp only [step, Option.some.injEq, Prod.mk.injEq] at hs
    obtain ⟨rfl, _⟩ := hs
    refine cl.gle q h ?_
    unfold newFut
    constructor
    · exact fun g => GGroup.refl _
    · exact fun u => GTask.of_eq rfl
    · exact fun s => GScope.of_eq rfl
    · intro f hf _
      have : f ≠ st.nFuts := by omega
      simp [this]
    · intro f hf
      have : f ≠ st.nFuts := by omega
      simp [this]
    · simp
    · exact Nat.le_refl _
    · rfl
    · rfl
  | setFut f =>
    simp only [step] at hs
    split at hs
    · contradiction
    · simp only [Option.some.injEq, Prod.mk.injEq] at hs
      obtain ⟨rfl, _⟩ := hs
      exact cl.gle q h (gle_resolveFut _ _ _)
  | awaitFut f =>
    simp only [step] at hs
    split at hs
    · contradiction
    · rename_i t hr
      split at hs
      · contradiction
      · split at hs
        · split at hs
          · contradiction
          · simp only [Option.some.injEq, Prod.mk.injEq] at hs
            obtain ⟨rfl, _⟩ := hs
            exact QW2.blockOn cl ⟨q, h, w, hr⟩ f
        all_goals
          simp only [Option.some.injEq, Prod.mk.injEq] at hs
          obtain ⟨rfl, _⟩ := hs; exact q
  | sleep d =>
    simp only [step] at hs
    split at hs
    · contradiction
    · rename_i t hr
      split at hs
      · contradiction
      · simp only [Option.some.injEq, Prod.mk.injEq] at hs
        obtain ⟨rfl, _⟩ := hs
        have h1 := (QW2.mkFut cl ⟨q, h, w, hr⟩)
        have l2 : GLe (newFut st).1 { (newFut st).1 with timers := (newFut st).1.timers ++
            [((newFut st).1.now + d, Handle.sleepDone (newFut st).2)] } :=
          gle_loop rfl rfl rfl rfl rfl rfl rfl rfl rfl
        have h2 : QW2 Q { (newFut st).1 with timers := (newFut st).1.timers ++
            [((newFut st).1.now + d, Handle.sleepDone (newFut st).2)] } t :=
          ⟨cl.gle h1.1.q h1.1.g.g l2, ginv_gle h1.1.g.g l2,
            wf_addTimer h1.1.g.w.1 _ _ (by simpa [HandleOk] using h1.2), h1.1.g.w.2⟩
        exact (h2.setLib cl t _).blockOn cl _
  | chkIfCancelled =>
    simp only [step] at hs
    split at hs
    · contradiction
    · rename_i t hr
      split at hs
      · contradiction
      · split at hs
        · split at hs
          · simp only [Option.some.injEq, Prod.mk.injEq] at hs
            obtain ⟨rfl, _⟩ := hs
            exact (QW2.setLib cl ⟨q, h, w, hr⟩ t _).doYield cl
          · simp only [Option.some.injEq, Prod.mk.injEq] at hs
            obtain ⟨rfl, _⟩ := hs; exact q
        · simp only [Option.some.injEq, Prod.mk.injEq] at hs
          obtain ⟨rfl, _⟩ := hs; exact q
  | shieldedChk =>
    simp only [step] at hs
    split at hs
    · contradiction
    · rename_i t hr
      split at hs
      · contradiction
      · have h1 := QW2.mkScope cl ⟨q, h, w, hr⟩ true none
        split at hs
        · contradiction
        · rename_i st1 hen
          simp only [Option.some.injEq, Prod.mk.injEq] at hs
          obtain ⟨rfl, _⟩ := hs
          exact ((h1.1.enterScope cl h1.2 hen).setLib cl t _).doYield cl
  | nativeCancel u =>
    simp only [step] at hs
    split at hs
    · contradiction
    · rename_i hg
      simp only [Option.some.injEq, Prod.mk.injEq] at hs
      obtain ⟨rfl, _⟩ := hs
      exact cl.gle q h (GLe.of_mframe (mframe_taskCancel _ _ _
        (fun hc => absurd hc (by simp only [not_or] at hg; exact hg.2))))
  | uncancel =>
    simp only [step] at hs
    split at hs
    · contradiction
    · rename_i t hr
      split at hs
      · contradiction
      · simp only [Option.some.injEq, Prod.mk.injEq] at hs
        obtain ⟨rfl, _⟩ := hs
        exact cl.gle q h ((GLe.of_mframe (mframe_taskUncancel _ _ _)).trans
          (gle_setTask _ t _ (by constructor <;> simp)))
  | mkGroup =>
    simp only [step, Option.some.injEq, Prod.mk.injEq] at hs
    obtain ⟨rfl, _⟩ := hs
    have l1 := gle_newScope st false none (w.scope_dflt (Nat.le_refl _)).2.1
    exact cl.mkGroup _ (cl.gle q h l1) (ginv_gle h l1) rfl rfl rfl rfl rfl rfl rfl rfl rfl
      (by simp [newScope])
  | groupEnter g =>
    simp only [step] at hs
    split at hs
    · contradiction
    · rename_i t hr
      split at hs
      · contradiction
      · rename_i hg
        split at hs
        · simp only [Option.some.injEq, Prod.mk.injEq] at hs
          obtain ⟨rfl, _⟩ := hs; exact q
        · rename_i hent
          split at hs
          · contradiction
          · rename_i st1 hen
            simp only [Option.some.injEq, Prod.mk.injEq] at hs
            obtain ⟨rfl, _⟩ := hs
            have hx := (w.scope_exists _).mpr (w.group_scope_lt g (by omega))
            have h1 := QW2.enterScope cl ⟨q, h, w, hr⟩ hx hen
            have l := gle_enterScope hen (WFR.st_running ⟨w, hr⟩)
            have e1 : ((enterPre st t (st.groups g).scope).scopes (st.groups g).scope).entered
                = true := (enterPre_scope_self st t _).2.1
            have e2 : (st1.scopes (st.groups g).scope).entered = true := by
              rw [((enterScope_spec hen).2.2.scopes _).entered]; exact e1
            refine cl.groupEntered g h1.q h1.g.g ?_ ?_
            · rw [(l.groups g).scope]; exact e2
            · rw [(l.groups g).entered]; simpa using hent
  | spawn g =>
    simp only [step] at hs
    split at hs
    · contradiction
    · rename_i hg
      split at hs
      · simp only [Option.some.injEq, Prod.mk.injEq] at hs
        obtain ⟨rfl, _⟩ := hs; exact q
      · rename_i hg2
        simp only [Option.some.injEq, Prod.mk.injEq] at hs
        obtain ⟨rfl, _⟩ := hs
        refine q2_spawn cl none q h w (by omega) ?_ (by simp)
        cases ha : (st.scopes (st.groups g).scope).active <;> simp_all
  | aexit g ev =>
    rw [step_aexit] at hs
    split at hs
    · contradiction
    · rename_i t hr
      split at hs
      · contradiction
      · rename_i hgd
        simp only [not_or] at hgd
        have h0 : QW2 Q (aexitPrep st g ev) t :=
          ⟨cl.aexitPrep t g ev q h ⟨w, hr⟩ (by simpa using hgd.2.1) (by simpa using hgd.2.2.1)
            (by simpa using hgd.2.2.2.1) (by simpa using hgd.2.2.2.2) (by omega)
            (hb t g hr (by simpa using hgd.2.1) (by simpa using hgd.2.2.2.1)
              (by simpa using hgd.2.2.2.2)),
            gw_aexitPrep ⟨h, w, hr⟩ g ev⟩
        simp only [] at hs
        split at hs
        · have h2 := h0.mkScope cl true none
          split at hs
          · contradiction
          · rename_i st1 hen
            simp only [Option.some.injEq, Prod.mk.injEq] at hs
            obtain ⟨rfl, _⟩ := hs
            exact ((h2.1.enterScope cl h2.2 hen).setLib cl t _).doYield cl
        · exact q2_aexitAfterChk cl h0 hs
  | start g =>
    simp only [step] at hs
    split at hs
    · contradiction
    · rename_i t hr
      split at hs
      · contradiction
      · rename_i hg
        split at hs
        · simp only [Option.some.injEq, Prod.mk.injEq] at hs
          obtain ⟨rfl, _⟩ := hs; exact q
        · rename_i hg2
          simp only [Option.some.injEq, Prod.mk.injEq] at hs
          obtain ⟨rfl, _⟩ := hs
          have h1 := QW2.mkFut cl ⟨q, h, w, hr⟩
          have hg' : g < (newFut st).1.nGroups := by simp [newFut]; omega
          have ha : ((newFut st).1.scopes ((newFut st).1.groups g).scope).active = true := by
            cases ha : (st.scopes (st.groups g).scope).active <;> simp_all [newFut]
          have w2 := wf_spawn (some (newFut st).2) h1.1.g.w.1 hg' ha
          have h3 : QW2 Q (spawn (newFut st).1 g (some (newFut st).2)).1 t :=
            ⟨q2_spawn cl _ h1.1.q h1.1.g.g h1.1.g.w.1 hg' ha (by simp [newFut]),
              ginv_spawn _ h1.1.g.g h1.1.g.w.1 hg' ha, w2.1, by rw [w2.2.1]; exact h1.1.g.w.2⟩
          exact (h3.setLib cl t _).blockOn cl _
  | started =>
    simp only [step] at hs
    split at hs
    · contradiction
    · rename_i t hr
      split at hs
      · contradiction
      · split at hs
        · simp only [Option.some.injEq, Prod.mk.injEq] at hs
          obtain ⟨rfl, _⟩ := hs
          exact cl.gle q h (gle_resolveFut _ _ _)
        all_goals
          simp only [Option.some.injEq, Prod.mk.injEq] at hs
          obtain ⟨rfl, _⟩ := hs; exact q
  | handleCancel u =>
    simp only [step] at hs
    split at hs
    · contradiction
    · simp only [Option.some.injEq, Prod.mk.injEq] at hs
      obtain ⟨rfl, _⟩ := hs
      split
      · exact q
      · exact cl.gle q h (gle_cancelScope _ _ _)
  | handleWait u =>
    simp only [step] at hs
    split at hs
    · contradiction
    · rename_i t hr
      split at hs
      · contradiction
      · split at hs
        · simp only [Option.some.injEq, Prod.mk.injEq] at hs
          obtain ⟨rfl, _⟩ := hs
          exact QW2.doYield cl ⟨q, h, w, hr⟩
        · simp only [Option.some.injEq, Prod.mk.injEq] at hs
          obtain ⟨rfl, _⟩ := hs
          exact ((QW2.mkFut cl ⟨q, h, w, hr⟩).1.setTask cl u _ (fun x => by simp)
            (by constructor <;> simp)).blockOn cl _
  | finish o =>
    simp only [step] at hs
    split at hs
    · contradiction
    · rename_i t hr
      split at hs
      · contradiction
      · split at hs
        · contradiction
        · split at hs
          · contradiction
          · rename_i st1 hf
            simp only [Option.some.injEq, Prod.mk.injEq] at hs
            obtain ⟨rfl, _⟩ := hs
            exact q2_finishTask cl ⟨q, h, w, hr⟩ hf

end


/-- in a reachable state the guard of `__aexit__` of `g` implies that nothing of the body has been
recorded for `g` -/
theorem reach_guard {st : State} (h : Reach st) {t g : Nat} (hr : st.running = some t)
    (hl : (st.tasks t).lib = .none) (hx : (st.groups g).exited = false)
    (hsc : (st.tasks t).scope = some (st.groups g).scope) :
    (st.groups g).bodyErrs = [] ∧ (∀ u, ¬ InAexit st g u) := by
  have := hinv_guard (hinv_reach h) (wf_reach h) hr hl hx hsc
  exact ⟨this.1, this.2.2.1⟩

/-- a `Closed2` predicate that holds initially holds in every reachable state -/
theorem closed2_reach {Q : State → Prop} (cl : Closed2 Q) (h0 : Q init) {st : State}
    (h : Reach st) : Q st := by
  have : Reach st ∧ Q st := by
    refine Reachable.invariant (fun s => Reach s ∧ Q s) ?_ ?_ st h
    · rintro s rfl; exact ⟨Reachable.start rfl, h0⟩
    · intro s e s' o hi hs
      refine ⟨Reachable.next hi.1 hs, ?_⟩
      exact closed2_step cl hi.2 (ginv_reach hi.1) (wf_reach hi.1)
        (fun t g hr hl hx hsc => (reach_guard hi.1 hr hl hx hsc).1) hs
  exact this.2

end AnyioModel.Kernel
