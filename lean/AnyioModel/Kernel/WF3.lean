/-
`WF`, part 3: the forest part is preserved by the pure update of `__exit__`.
-/
import AnyioModel.Kernel.WF2

namespace AnyioModel.Kernel

theorem Forest.exit_none {sc : Nat → Scope} {tk : Nat → Task} (h : Forest sc tk) {t s : Nat}
    (ha : (sc s).active = true) (hh : (sc s).host = some t) (hs : (tk t).scope = some s)
    (hp : (sc s).parent = none) (S : Scope) (T : Task)
    (S1 : S.host = none) (S2 : S.tasks = (sc s).tasks.erase t) (S3 : S.parent = none)
    (S4 : S.chain = (sc s).chain)
    (S5 : S.active = false) (S6 : S.entered = true) (S7 : S.exists_ = true)
    (S8 : S.children = (sc s).children)
    (T1 : T.hasState = true) (T2 : T.scope = none) (T3 : T.st = (tk t).st) :
    Forest (upd sc s S) (upd tk t T) := by
  have hen := h.active_entered s ha
  have hex := h.entered_exists s hen
  have hch := h.chain_spec s hen
  rw [hp] at hch
  simp only at hch
  have hts := h.task_scope t s hs
  have e1 : ∀ q, ((upd sc s S) q).chain = (sc q).chain := by
    intro q; by_cases h2 : q = s <;> simp_all
  have e2 : ∀ q, ((upd sc s S) q).parent = (sc q).parent := by
    intro q; by_cases h2 : q = s <;> simp_all
  have e3 : ∀ q, ((upd sc s S) q).entered = (sc q).entered := by
    intro q; by_cases h2 : q = s <;> simp_all
  have e4 : ∀ q, ((upd sc s S) q).exists_ = (sc q).exists_ := by
    intro q; by_cases h2 : q = s <;> simp_all
  have e5 : ∀ q, ((upd sc s S) q).active = if q = s then false else (sc q).active := by
    intro q; by_cases h2 : q = s <;> simp_all
  have e6 : ∀ q, ((upd sc s S) q).host = if q = s then none else (sc q).host := by
    intro q; by_cases h2 : q = s <;> simp_all
  have e7 : ∀ q, ((upd sc s S) q).children =
      (sc q).children := by
    intro q; by_cases h2 : q = s <;> simp_all
  have e8 : ∀ q, ((upd sc s S) q).tasks =
      if q = s then (sc s).tasks.erase t else (sc q).tasks := by
    intro q; by_cases h2 : q = s <;> simp_all
  have f1 : ∀ u, ((upd tk t T) u).hasState = (tk u).hasState := by
    intro u; by_cases h1 : u = t <;> simp_all
  have f2 : ∀ u, ((upd tk t T) u).st = (tk u).st := by
    intro u; by_cases h1 : u = t <;> simp_all
  have f3 : ∀ u, ((upd tk t T) u).scope = if u = t then none else (tk u).scope := by
    intro u; by_cases h1 : u = t <;> simp_all
  generalize upd sc s S = sc' at *
  generalize upd tk t T = tk' at *
  clear S1 S2 S3 S4 S5 S6 S7 S8 T1 T2 T3
  obtain ⟨h1, h2, h3, h4, h5, h6, h7, h8, h9, h10, h11, h12, h13, h14, h15, h16⟩ := h
  constructor
  all_goals grind

theorem Forest.exit_some {sc : Nat → Scope} {tk : Nat → Task} (h : Forest sc tk) {t s p : Nat}
    (ha : (sc s).active = true) (hh : (sc s).host = some t) (hs : (tk t).scope = some s)
    (hp : (sc s).parent = some p) (S P : Scope) (T : Task)
    (S1 : S.host = none) (S2 : S.tasks = (sc s).tasks.erase t) (S3 : S.parent = some p)
    (S4 : S.chain = (sc s).chain)
    (S5 : S.active = false) (S6 : S.entered = true) (S7 : S.exists_ = true)
    (S8 : S.children = (sc s).children)
    (P1 : P.host = (sc p).host) (P2 : P.tasks = t :: (sc p).tasks) (P3 : P.parent = (sc p).parent)
    (P4 : P.chain = (sc p).chain) (P5 : P.active = (sc p).active) (P6 : P.entered = (sc p).entered)
    (P7 : P.exists_ = (sc p).exists_) (P8 : P.children = (sc p).children.erase s)
    (T1 : T.hasState = true) (T2 : T.scope = some p) (T3 : T.st = (tk t).st) :
    Forest (upd (upd sc s S) p P) (upd tk t T) := by
  have hen := h.active_entered s ha
  have hex := h.entered_exists s hen
  have hch := h.chain_spec s hen
  rw [hp] at hch
  simp only at hch
  have hps : p ≠ s := by rintro rfl; exact h.parent_ne hp
  have hpe := h.parent_entered s p hp
  have hts := h.task_scope t s hs
  have e1 : ∀ q, ((upd (upd sc s S) p P) q).chain = (sc q).chain := by
    intro q; by_cases h1 : q = p <;> by_cases h2 : q = s <;> simp_all
  have e2 : ∀ q, ((upd (upd sc s S) p P) q).parent = (sc q).parent := by
    intro q; by_cases h1 : q = p <;> by_cases h2 : q = s <;> simp_all
  have e3 : ∀ q, ((upd (upd sc s S) p P) q).entered = (sc q).entered := by
    intro q; by_cases h1 : q = p <;> by_cases h2 : q = s <;> simp_all
  have e4 : ∀ q, ((upd (upd sc s S) p P) q).exists_ = (sc q).exists_ := by
    intro q; by_cases h1 : q = p <;> by_cases h2 : q = s <;> simp_all
  have e5 : ∀ q, ((upd (upd sc s S) p P) q).active = if q = s then false else (sc q).active := by
    intro q; by_cases h1 : q = p <;> by_cases h2 : q = s <;> simp_all
  have e6 : ∀ q, ((upd (upd sc s S) p P) q).host = if q = s then none else (sc q).host := by
    intro q; by_cases h1 : q = p <;> by_cases h2 : q = s <;> simp_all
  have e7 : ∀ q, ((upd (upd sc s S) p P) q).children =
      if q = p then (sc p).children.erase s else (sc q).children := by
    intro q; by_cases h1 : q = p <;> by_cases h2 : q = s <;> simp_all
  have e8 : ∀ q, ((upd (upd sc s S) p P) q).tasks =
      if q = p then t :: (sc p).tasks else if q = s then (sc s).tasks.erase t else (sc q).tasks := by
    intro q; by_cases h1 : q = p <;> by_cases h2 : q = s <;> simp_all
  have f1 : ∀ u, ((upd tk t T) u).hasState = (tk u).hasState := by
    intro u; by_cases h1 : u = t <;> simp_all
  have f2 : ∀ u, ((upd tk t T) u).st = (tk u).st := by
    intro u; by_cases h1 : u = t <;> simp_all
  have f3 : ∀ u, ((upd tk t T) u).scope = if u = t then some p else (tk u).scope := by
    intro u; by_cases h1 : u = t <;> simp_all
  generalize upd (upd sc s S) p P = sc' at *
  generalize upd tk t T = tk' at *
  clear S1 S2 S3 S4 S5 S6 S7 S8 P1 P2 P3 P4 P5 P6 P7 P8 T1 T2 T3
  obtain ⟨h1, h2, h3, h4, h5, h6, h7, h8, h9, h10, h11, h12, h13, h14, h15, h16⟩ := h
  constructor
  all_goals grind

end AnyioModel.Kernel
