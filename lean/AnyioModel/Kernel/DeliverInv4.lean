/-
Delivery of cancellation, part 4: `DI` is preserved by `CancelScope.__enter__` and `__exit__`.
-/
import AnyioModel.Kernel.DeliverInv3

namespace AnyioModel.Kernel

/-! ### `__enter__` -/

/-- what `DI` reads of the scopes other than `s` after the structural part of `__enter__` -/
theorem enterPre_other (a : State) (t s : Nat) {x : Nat} (hx : x ≠ s) :
    ((enterPre a t s).scopes x).parent = (a.scopes x).parent ∧
    ((enterPre a t s).scopes x).active = (a.scopes x).active ∧
    ((enterPre a t s).scopes x).shield = (a.scopes x).shield ∧
    ((enterPre a t s).scopes x).cancelCalled = (a.scopes x).cancelCalled ∧
    ((enterPre a t s).scopes x).deliver = (a.scopes x).deliver ∧
    (∀ u, u ∈ ((enterPre a t s).scopes x).tasks → u ∈ (a.scopes x).tasks) := by
  cases hA : (a.tasks t).hasState <;> cases hB : (a.tasks t).scope <;>
    simp [enterPre, enterCore, hA, hB, hx]
  rename_i p
  by_cases hxp : x = p
  · subst hxp; simp [hx]; exact fun u hu => List.mem_of_mem_erase hu
  · simp [hxp, hx]

theorem enterPre_self {a : State} (w : WF a) (t s : Nat) (he : (a.scopes s).entered = false) :
    ((enterPre a t s).scopes s).active = true ∧
    ((enterPre a t s).scopes s).shield = (a.scopes s).shield ∧
    ((enterPre a t s).scopes s).cancelCalled = (a.scopes s).cancelCalled ∧
    ((enterPre a t s).scopes s).deliver = (a.scopes s).deliver ∧
    ((enterPre a t s).scopes s).tasks = [t] ∧
    (∀ p, ((enterPre a t s).scopes s).parent = some p →
      (a.tasks t).hasState = true ∧ (a.tasks t).scope = some p) := by
  have hne := w.not_entered s he
  have hsp : (a.tasks t).scope ≠ some s := by
    intro hs
    have := w.entered_of_task_scope hs
    rw [he] at this; cases this
  cases hA : (a.tasks t).hasState <;> cases hB : (a.tasks t).scope <;>
    simp [enterPre, enterCore, hA, hB, hne]
  rename_i p
  have hps : s ≠ p := fun e => hsp (by rw [hB, e])
  simp [hps, hne]

/-- what `o ≠ s` reaches after the structural part of `__enter__` -/
theorem reachDown_enterPre {a : State} (w : WF a) {t s o c : Nat}
    (he : (a.scopes s).entered = false) (hos : o ≠ s)
    (r : reachDown (enterPre a t s) o c) :
    (c ≠ s ∧ reachDown a o c) ∨
      (c = s ∧ ∃ p, (a.tasks t).hasState = true ∧ (a.tasks t).scope = some p ∧
        reachDown a o p) := by
  induction r with
  | refl => exact .inl ⟨hos, .refl⟩
  | @step c q hp ha hs hc _ ih =>
    rcases ih with ⟨hq, ih⟩ | ⟨hq, _⟩
    · by_cases hcs : c = s
      · subst hcs
        exact .inr ⟨rfl, q, ((enterPre_self w t c he).2.2.2.2.2 q hp).1,
          ((enterPre_self w t c he).2.2.2.2.2 q hp).2, ih⟩
      · obtain ⟨e1, e2, e3, e4, _, _⟩ := enterPre_other a t s hcs
        rw [e1] at hp; rw [e2] at ha; rw [e3] at hs; rw [e4] at hc
        exact .inl ⟨hcs, .step hp ha hs hc ih⟩
    · -- nobody's parent is the scope being entered
      subst hq
      exfalso
      by_cases hcs : c = q
      · subst hcs
        have := ((enterPre_self w t c he).2.2.2.2.2 c hp).2
        have := w.entered_of_task_scope this
        rw [he] at this; cases this
      · rw [(enterPre_other a t q hcs).1] at hp
        have := w.parent_entered c q hp
        rw [he] at this; cases this

theorem needs_enterPre {a : State} (w : WF a) {t s o : Nat}
    (he : (a.scopes s).entered = false) (hos : o ≠ s) (n : needs (enterPre a t s) o) :
    needs a o := by
  obtain ⟨c, u, hr, hu, hd⟩ := n
  have hst : ∀ v, ((enterPre a t s).tasks v).st = (a.tasks v).st :=
    fun v => (enterPre_task a t s v).1
  rw [hst] at hd
  rcases reachDown_enterPre w he hos hr with ⟨hcs, hr'⟩ | ⟨hcs, p, h1, h2, hr'⟩
  · exact ⟨c, u, hr', (enterPre_other a t s hcs).2.2.2.2.2 u hu, hd⟩
  · subst hcs
    rw [(enterPre_self w t c he).2.2.2.2.1] at hu
    have : u = t := by simpa using hu
    subst this
    exact ⟨p, u, hr', (w.tasks_mem p u).mpr ⟨h1, h2⟩, hd⟩

theorem di_enterScope {a st' : State} {t s : Nat} (w : WF a) (h : DI a)
    (hx : (a.scopes s).exists_ = true) (hr : (a.tasks t).st = .running)
    (hen : enterScope a t s = some st') : DI st' := by
  obtain ⟨_, he, _⟩ := enterScope_spec hen
  rw [enterScope_eq] at hen
  split at hen
  · contradiction
  · simp only [Option.some.injEq] at hen
    have we := wf_enterPre w he hx hr
    have fr := enterPre_frame a t s
    -- the state before the final delivery
    have c3 : CFrame (enterPre a t s) ((armTimeout (enterCore a t s) s).setScope s
        (fun x => { x with active := true, entered := true })) := by
      apply CFrame.congr_setScope (cframe_armTimeout _ _)
      · intro x y hxy; cases hxy; constructor <;> simp_all
      · intro x; simp
    have w3 := wf_cframe we c3
    have d3 : DW (enterPre a t s) ((armTimeout (enterCore a t s) s).setScope s
        (fun x => { x with active := true, entered := true })) s :=
      (dw_armTimeout (enterCore a t s) s).congr_activate s
    -- the invariant in `enterPre`, except for `s` itself
    have hl : ∀ o, o ≠ s → LiveAt (enterPre a t s) o := by
      intro o hos h1 h2 h3
      obtain ⟨_, e2, _, e4, e5, _⟩ := enterPre_other a t s hos
      rw [e5]
      exact h.live o (by rw [← e2]; exact h1) (by rw [← e4]; exact h2) (needs_enterPre w he hos h3)
    have hs : Sched (enterPre a t s) := by
      intro o ho
      rw [fr.2.2.2.2.2.2.2.1, fr.2.2.2.2.2.2.2.2.1]
      apply h.sched o
      by_cases hos : o = s
      · subst hos; rw [← (enterPre_self w t o he).2.2.2.1]; exact ho
      · rw [← (enterPre_other a t s hos).2.2.2.2.1]; exact ho
    have hb : BW (enterPre a t s) := by
      intro u f hu
      rw [(enterPre_task a t s u).1] at hu
      rw [fr.2.2.2.2.2.1, fr.2.2.2.2.2.2.2.2.2.2.1]
      exact h.bw u f hu
    subst hen
    split
    · exact di_of_dw hl hs hb (d3.trans (dw_deliver _ s)) (liveAt_deliver w3.tree s)
    · rename_i hcc
      exact di_of_dw hl hs hb d3 (fun _ h2 _ => absurd h2 hcc)

/-! ### `__exit__` -/

/-- nothing that `DI` reads changes (task states may change as long as "done" and "blocked" do not) -/
theorem DF.of_inert {a b : State}
    (hs : ∀ x, (b.scopes x).parent = (a.scopes x).parent ∧
      (b.scopes x).active = (a.scopes x).active ∧ (b.scopes x).shield = (a.scopes x).shield ∧
      (b.scopes x).cancelCalled = (a.scopes x).cancelCalled ∧
      (b.scopes x).tasks = (a.scopes x).tasks ∧ (b.scopes x).deliver = (a.scopes x).deliver)
    (ht : ∀ u, (b.tasks u).st = (a.tasks u).st) (h3 : b.futs = a.futs)
    (h4 : b.futWaiter = a.futWaiter)
    (hk : ∀ x, Handle.deliver x ∈ a.ready ++ a.cur → Handle.deliver x ∈ b.ready ++ b.cur) :
    DF a b := by
  refine ⟨?_, fun x => ⟨(hs x).2.2.2.2.2, fun _ h => by rw [← (hs x).2.2.2.1]; exact h⟩, hk, ?_⟩
  · constructor
    · intro x h; rw [← (hs x).2.1]; exact h
    · intro x _; exact (hs x).1
    · intro x _ h; rw [← (hs x).2.2.1]; exact h
    · intro x _ h; rw [← (hs x).2.2.2.1]; exact h
    · intro x t h; rw [← (hs x).2.2.2.2.1]; exact h
    · intro t h; rw [ht]; exact h
  · intro bw t f hb; rw [h3, h4]; rw [ht] at hb; exact bw t f hb

/-- what `DI` reads after the structural part of `__exit__` (before the restart) -/
theorem exitCore_desc (a : State) (t s : Nat) (hps : (a.scopes s).parent ≠ some s) (x : Nat) :
    ((exitCore a t s).scopes x).parent = (a.scopes x).parent ∧
    ((exitCore a t s).scopes x).active = (if x = s then false else (a.scopes x).active) ∧
    ((exitCore a t s).scopes x).shield = (a.scopes x).shield ∧
    ((exitCore a t s).scopes x).cancelCalled = (a.scopes x).cancelCalled ∧
    ((exitCore a t s).scopes x).deliver = (a.scopes x).deliver ∧
    ((exitCore a t s).scopes x).entered = (a.scopes x).entered ∧
    ((exitCore a t s).scopes x).chain = (a.scopes x).chain ∧
    (∀ u, u ∈ ((exitCore a t s).scopes x).tasks → u ∈ (a.scopes x).tasks ∨
      (u = t ∧ (a.scopes s).parent = some x)) := by
  cases hB : (a.scopes s).parent with
  | none =>
    cases hT : (a.scopes s).timer <;> by_cases hx : x = s
    all_goals
      simp [exitCore, hB, hT, hx]
    all_goals
      exact fun u hu => List.mem_of_mem_erase hu
  | some p =>
    have hp : s ≠ p := fun e => hps (by rw [hB, e])
    cases hT : (a.scopes s).timer <;> by_cases hx : x = s
    all_goals
      simp [exitCore, hB, hT, hx, hp]
    all_goals first
      | exact fun u hu => .inl (List.mem_of_mem_erase hu)
      | exact fun u hu => List.mem_of_mem_erase hu
      | (by_cases hxp : x = p
         · subst hxp; simp [hx]; exact fun u hu => .inl hu
         · simp [hxp, hx]; exact fun u hu => .inl hu)
theorem exitCore_tasks_futs (a : State) (t s : Nat) :
    (∀ u, ((exitCore a t s).tasks u).st = (a.tasks u).st) ∧ (exitCore a t s).futs = a.futs ∧
    (exitCore a t s).futWaiter = a.futWaiter ∧
    (∀ x, Handle.deliver x ∈ a.ready ++ a.cur →
      Handle.deliver x ∈ (exitCore a t s).ready ++ (exitCore a t s).cur) := by
  have hk := (DF.of_unschedule_timeout a s).hk
  have ht : ∀ u, ((exitCore a t s).tasks u).st = (a.tasks u).st := by
    intro u
    cases hB : (a.scopes s).parent <;> cases hT : (a.scopes s).timer <;>
      by_cases hu : u = t <;> simp [exitCore, hB, hT, hu]
  refine ⟨ht, ?_, ?_, ?_⟩
  · cases hB : (a.scopes s).parent <;> cases hT : (a.scopes s).timer <;> simp [exitCore, hB, hT]
  · cases hB : (a.scopes s).parent <;> cases hT : (a.scopes s).timer <;> simp [exitCore, hB, hT]
  · intro x hx
    cases hB : (a.scopes s).parent <;> cases hT : (a.scopes s).timer <;>
      simp only [exitCore, hB, hT, setScope_ready, setTask_ready, setScope_cur, setTask_cur,
        Bool.false_eq_true, if_false, if_true] <;>
      first | exact hx | exact hk x hx

/-- the part of `__exit__` after the restart touches nothing that `DI` reads -/
theorem exitTail_inert (m : State) (t s : Nat) (ev : ExcVal) :
    (∀ x, ((exitTail m t s ev).1.scopes x).parent = (m.scopes x).parent ∧
      ((exitTail m t s ev).1.scopes x).active = (m.scopes x).active ∧
      ((exitTail m t s ev).1.scopes x).shield = (m.scopes x).shield ∧
      ((exitTail m t s ev).1.scopes x).cancelCalled = (m.scopes x).cancelCalled ∧
      ((exitTail m t s ev).1.scopes x).tasks = (m.scopes x).tasks ∧
      ((exitTail m t s ev).1.scopes x).deliver = (m.scopes x).deliver) ∧
    (∀ u, ((exitTail m t s ev).1.tasks u).st = (m.tasks u).st) ∧
    (exitTail m t s ev).1.futs = m.futs ∧ (exitTail m t s ev).1.futWaiter = m.futWaiter ∧
    (exitTail m t s ev).1.ready = m.ready ∧ (exitTail m t s ev).1.cur = m.cur := by
  unfold exitTail
  simp only [taskUncancel]
  repeat' split
  all_goals
    refine ⟨fun x => ?_, fun u => ?_, rfl, rfl, rfl, rfl⟩
    · simp only [setScope_scopes, setTask_scopes, upd_apply]
      (repeat' split) <;> simp_all
    · simp only [setScope_tasks, setTask_tasks, upd_apply]
      try ((repeat' split) <;> simp_all)

theorem df_exitTail (m : State) (t s : Nat) (ev : ExcVal) : DF m (exitTail m t s ev).1 := by
  obtain ⟨h1, h2, h3, h4, h5, h6⟩ := exitTail_inert m t s ev
  exact DF.of_inert h1 h2 h3 h4 (by rw [h5, h6]; exact fun _ h => h)

theorem di_exitScope {a st' : State} {t s : Nat} {ev : ExcVal} {r : ExitResult} (w : WF a)
    (h : DI a) (hex : exitScope a t s ev = some (st', r)) : DI st' := by
  obtain ⟨hact, hhost, hhs, hsc, _⟩ := exitScope_spec hex
  rw [exitScope_eq] at hex
  split at hex
  · contradiction
  · simp only [Option.some.injEq] at hex
    have hst' : st' = (exitTail (restartInParent (exitCore a t s) s) t s ev).1 := by rw [hex]
    rw [hst']
    refine DI.df ?_ (df_exitTail _ t s ev)
    have wp := wf_exitPre w hact hhost hsc
    have hps := w.parent_ne (s := s)
    have hd := exitCore_desc a t s hps
    have ht := exitCore_tasks_futs a t s
    -- the forest facts hold before `host := none`
    have wt : Tree (exitCore a t s) := by
      refine wp.tree.congr ?_ ?_
      · simp [exitPre]
      · intro x
        by_cases hx : x = s
        · subst hx; simp [exitPre]
        · simp [exitPre, hx]
    unfold restartInParent
    rw [(hd s).2.2.2.2.2.2.1]
    apply di_restart_fix wt
    · intro o ho
      rw [(hd o).2.2.2.2.1] at ho
      exact ht.2.2.2 o (h.sched o ho)
    · intro u f hu
      rw [ht.1] at hu
      rw [ht.2.1, ht.2.2.1]
      exact h.bw u f hu
    · intro o
      -- what `o` reaches in `exitCore` it reached before
      have hrd : ∀ c, reachDown (exitCore a t s) o c → reachDown a o c := by
        intro c hr
        induction hr with
        | refl => exact .refl
        | @step c q hp ha hs hc _ ih =>
          rw [(hd c).1] at hp
          rw [(hd c).2.1] at ha
          rw [(hd c).2.2.1] at hs
          rw [(hd c).2.2.2.1] at hc
          refine .step hp ?_ hs hc ih
          split at ha
          · cases ha
          · exact ha
      by_cases hn : ((exitCore a t s).scopes o).active = true ∧
          ((exitCore a t s).scopes o).cancelCalled = true ∧ needs (exitCore a t s) o
      · obtain ⟨ha, hc, c, u, hr, hu, hdn⟩ := hn
        rw [ht.1] at hdn
        have ha' : (a.scopes o).active = true := by
          rw [(hd o).2.1] at ha
          split at ha
          · cases ha
          · exact ha
        rw [(hd o).2.2.2.1] at hc
        rcases (hd c).2.2.2.2.2.2.2 u hu with hu' | ⟨hut, hp⟩
        · left
          intro _ _ _
          rw [(hd o).2.2.2.2.1]
          exact h.live o ha' hc ⟨c, u, hrd c hr, hu', hdn⟩
        · right
          have e := w.chain_spec s (w.active_entered s hact)
          rw [hp] at e
          simp only [] at e
          rw [e, List.tail_cons, ← (hd c).2.2.2.2.2.2.1]
          exact restartTarget_of_reachDown wt hr (by rw [(hd o).2.2.2.1]; exact hc)
            (by rw [(hd o).2.2.2.2.2.1]; exact w.active_entered o ha')
      · left
        intro h1 h2 h3
        exact absurd ⟨h1, h2, h3⟩ hn

end AnyioModel.Kernel
