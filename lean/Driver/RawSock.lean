import Driver.Common
import AnyioModel.Stream.RawSock

/-!
Line protocol of `md_rawsock` (model `AnyioModel.Stream.RawSock`):

    new <fixed 0|1> <deferClose 0|1>     fresh stream                               -> ok
    call r|w <block 0|1> | resume r|w <block 0|1>
                                         -> blocked | ok | closed | broken | cancelled | DISABLED
    fire r|w | cb r|w | cancel r|w | aclose                                        -> env | DISABLED
    obs   -> closing=<0|1> closed=<0|1> fd=<0|1> r=<side> w=<side> bad=<n> late=<n>
             <side> = <pc>/<field>/<gen>/<fut>/<reg>/<cb>   pc: idle|waiting|woken|done:<outcome>
             field, reg: future number or -;  fut: none|pending|resolved|cancelled
-/
namespace Driver.RawSock
open AnyioModel.Stream.RawSock

def outcomeStr : Outcome → String
  | .ok => "ok"
  | .closed => "closed"
  | .broken => "broken"
  | .cancelled => "cancelled"

def outStr : Out → String
  | .env => "env"
  | .blocked => "blocked"
  | .fin o => outcomeStr o

def pcStr : Pc → String
  | .idle => "idle"
  | .waiting => "waiting"
  | .woken => "woken"
  | .done o => "done:" ++ outcomeStr o

def futStr : Fut → String
  | .none => "none"
  | .pending => "pending"
  | .resolved => "resolved"
  | .cancelled => "cancelled"

def sideStr (x : Side) : String :=
  s!"{pcStr x.pc}/{Driver.optNat x.field}/{x.gen}/{futStr x.fut}/{Driver.optNat x.reg}/{Driver.bool01 x.cb}"

def obs (s : State) : String :=
  s!"closing={Driver.bool01 s.closing} closed={Driver.bool01 s.closed} fd={Driver.bool01 s.fdOpen} " ++
    s!"r={sideStr s.rd} w={sideStr s.wr} bad={s.badRemove} late={s.lateRemove}"

def parseDir (s : String) : Option Dir :=
  if s = "r" then some .r else if s = "w" then some .w else none

def parseEv : List String → Option Ev
  | ["call", d, b] => do some (.call (← parseDir d) (← Driver.parseBool b))
  | ["resume", d, b] => do some (.resume (← parseDir d) (← Driver.parseBool b))
  | ["fire", d] => do some (.fire (← parseDir d))
  | ["cb", d] => do some (.runCallback (← parseDir d))
  | ["cancel", d] => do some (.cancel (← parseDir d))
  | ["aclose"] => some .aclose
  | _ => none

def handle (cs : Cfg × State) : List String → (Cfg × State) × String
  | ["new", f, dc] =>
    match Driver.parseBool f, Driver.parseBool dc with
    | some f, some dc => ((⟨f, dc⟩, init), "ok")
    | _, _ => (cs, "bad-op")
  | ["obs"] => (cs, obs cs.2)
  | ws =>
    match parseEv ws with
    | none => (cs, "bad-op")
    | some e =>
      match step cs.1 cs.2 e with
      | none => (cs, "DISABLED")
      | some (s', o) => ((cs.1, s'), outStr o)

end Driver.RawSock

def main : IO Unit :=
  Driver.serve ((⟨true, false⟩ : AnyioModel.Stream.RawSock.Cfg), AnyioModel.Stream.RawSock.init)
    Driver.RawSock.handle
