import Driver.Common
import Driver.Hex
import AnyioModel.Stream.Buffered

/-
md_buffered: one request line = one whole case

  case <b|o> <chunks> <env> <call> <call> ...

  <chunks>  `-` (none) or comma separated chunks, each a hex string (`.` = empty chunk)
  <env>     `-` or comma separated naturals: bytes returned by the successive wrapped
            `receive` calls of a byte stream (clamped to 1..max_bytes by the model)
  <call>    r:<n> | x:<n> | u:<hex delimiter>:<max_bytes> | f:<hex> | c

reply: for every call `<ok:HEX|err:NAME>/<buffer HEX>` separated by blanks, then
`rest=<HEX>` (what the wrapped stream has not delivered).  HEX of nothing is `.`.
-/
namespace Driver.Buffered
open AnyioModel.Stream.Buffered
open Driver.Hex

def parseCall (w : String) : Option Call :=
  match w.splitOn ":" with
  | ["r", n] => do some (.receive (← n.toNat?))
  | ["x", n] => do some (.exactly (← n.toNat?))
  | ["u", d, m] => do some (.until (← parseHex d) (← m.toNat?))
  | ["f", bs] => do some (.feed (← parseHex bs))
  | ["c"] => some .close
  | _ => none

def errStr : Err → String
  | .value => "value"
  | .closed => "closed"
  | .eos => "eos"
  | .incomplete => "incomplete"
  | .notFound => "notfound"
  | .diverge => "diverge"

def resStr : Res → String
  | .ok bs => "ok:" ++ toHex bs
  | .error e => "err:" ++ errStr e

def runCalls : State → List Call → List String → List String × State
  | s, [], acc => (acc.reverse, s)
  | s, c :: cs, acc =>
    let (r, s') := call s c
    runCalls s' cs ((resStr r ++ "/" ++ toHex s'.buf) :: acc)

def handle (_ : Unit) : List String → Unit × String
  | "case" :: k :: chunks :: env :: calls =>
    let parsed : Option (Kind × List (List UInt8) × List Nat × List Call) := do
      let kind ← (if k = "b" then some Kind.byte else if k = "o" then some Kind.obj else none)
      let ch ← parseList parseHex chunks
      let ev ← parseList String.toNat? env
      let cl ← calls.mapM parseCall
      some (kind, ch, ev, cl)
    match parsed with
    | none => ((), "bad-op")
    | some (kind, ch, ev, cl) =>
      let (outs, s) := runCalls (init kind ch ev) cl []
      ((), " ".intercalate (outs ++ ["rest=" ++ toHex s.rest]))
  | _ => ((), "bad-op")

end Driver.Buffered

def main : IO Unit := Driver.serve () Driver.Buffered.handle
