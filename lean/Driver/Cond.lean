import Driver.Common
import AnyioModel.Sync.Condition

namespace Driver.Cond
open AnyioModel.Sync.Condition
open AnyioModel.Sync

def outStr : Lock.Out → String
  | .susp => "susp"
  | .ret => "ret"
  | .wouldBlock => "wouldblock"
  | .runtimeError => "runtimeerror"
  | .cancelled => "cancelled"
  | .env => "env"

def parseEv : List String → Option Ev
  | ["acquire", t, pre] => do some (.acquire (← t.toNat?) (← Driver.parseBool pre))
  | ["acquire_nowait", t] => do some (.acquireNowait (← t.toNat?))
  | ["release", t] => do some (.release (← t.toNat?))
  | ["wait", t, pre] => do some (.wait (← t.toNat?) (← Driver.parseBool pre))
  | ["notify", t, n] => do some (.notify (← t.toNat?) (← n.toNat?))
  | ["notify_all", t] => do some (.notifyAll (← t.toNat?))
  | ["step", t] => do some (.step (← t.toNat?))
  | ["fc", t] => do some (.fc (← t.toNat?))
  | ["mc", t] => do some (.mc (← t.toNat?))
  | _ => none

/-- which branch of the model a transition took (for the coverage histogram) -/
def cpcTag : CPc → String
  | .none => "none"
  | .acq => "acq"
  | .waitPre => "waitPre"
  | .waitPreMC => "waitPreMC"
  | .evWait => "evWait"
  | .evFC => "evFC"
  | .evFCSet _ => "evFCSet"
  | .evSet _ => "evSet"
  | .evSetMC _ => "evSetMC"
  | .reacq false => "reacq"
  | .reacq true => "reacqExc"

def handle (s : State) : List String → State × String
  | ["new", f] =>
    match Driver.parseBool f with
    | some b => (init b, "ok")
    | none => (s, "bad-op")
  | ["obs"] =>
    (s, s!"locked={Driver.bool01 s.lock.owner.isSome} owner={Driver.optNat s.lock.owner} lockwaiters={s.lock.waiters.length} waiting={s.waiters.length}")
  | ["ghost"] =>
    (s, s!"issued={s.issued} direct={s.consumedDirect} passed={s.consumedPassed} dropped={s.dropped} pending={s.notified.length}")
  | ["tag", t] =>
    match t.toNat? with
    | some t => (s, cpcTag (s.cpc t))
    | none => (s, "bad-op")
  | ws =>
    match parseEv ws with
    | none => (s, "bad-op")
    | some e =>
      match step s e with
      | none => (s, "DISABLED")
      | some (s', o) => (s', outStr o)

end Driver.Cond

def main : IO Unit := Driver.serve (AnyioModel.Sync.Condition.init false) Driver.Cond.handle
