import Driver.Common
import AnyioModel.Iter.TeeCancel

/-!
Line protocol of `md_teecancel`:

    new <n> <sync 0|1> <x> ...   n consumers over the source sequence x ...           -> ok
    next <i> | step <i> | src_yield | src_end
                                 -> susp | ret <v> | stop | cancelled | runtimeerror | DISABLED
    cancel <i> | deliver <i>     -> ok | DISABLED
    pc <i>                       -> name of the suspension point consumer i is at (for branch statistics)
    obs                          -> pulled=<elements taken> ended=<0|1> locked=<0|1> waiting=<queue length>
                                    got=<i>:<v>,<v>;... fin=<0|1>... canc=<cancelled calls>,...
    obs_calls                    -> calls=<source __anext__ invocations> cancels=<... cancelled>
-/
namespace Driver.TeeCancel
open AnyioModel.Iter.TeeCancel

def outStr : Out Int → String
  | .susp => "susp"
  | .ret v => s!"ret {v}"
  | .stop => "stop"
  | .cancelled => "cancelled"
  | .runtimeError => "runtimeerror"
  | .env => "ok"

def pcStr : Pc Int → String
  | .idle => "idle"
  | .cicReplay => "cicReplay"
  | .cicAcquire => "cicAcquire"
  | .lockWait => "lockWait"
  | .lockCancelled => "lockCancelled"
  | .lockGranted => "lockGranted"
  | .srcCic => "srcCic"
  | .srcShield (some _) => "srcShieldVal"
  | .srcShield none => "srcShieldEnd"
  | .srcWait => "srcWait"
  | .srcCancelled => "srcCancelled"
  | .endck => "endck"
  | .yielding _ => "yielding"

def parseEv : List String → Option Ev
  | ["next", i] => do some (.next (← i.toNat?))
  | ["step", i] => do some (.step (← i.toNat?))
  | ["src_yield"] => some .srcYield
  | ["src_end"] => some .srcEnd
  | ["cancel", i] => do some (.cancel (← i.toNat?))
  | ["deliver", i] => do some (.deliver (← i.toNat?))
  | _ => none

def obs (s : State Int) : String :=
  let ids := List.range s.n
  let got := ";".intercalate (ids.map fun i => s!"{i}:" ++ ",".intercalate ((s.got i).map toString))
  let fin := "".intercalate (ids.map fun i => Driver.bool01 (s.finished i))
  let canc := ",".intercalate (ids.map fun i => toString (s.ncanc i))
  s!"pulled={s.consumed.length} ended={Driver.bool01 s.ended} locked={Driver.bool01 s.owner.isSome} " ++
    s!"waiting={s.waiters.length} got={got} fin={fin} canc={canc}"

def handle (s : State Int) : List String → State Int × String
  | "new" :: n :: sy :: xs =>
    match n.toNat?, Driver.parseBool sy, xs.mapM String.toInt? with
    | some n, some sy, some xs => (init n sy xs, "ok")
    | _, _, _ => (s, "bad-op")
  | ["obs"] => (s, obs s)
  | ["obs_calls"] => (s, s!"calls={s.srcCalls} cancels={s.srcCancels}")
  | ["pc", i] =>
    match i.toNat? with
    | some i => (s, pcStr (s.pc i) ++ (if s.canc i then "+c" else ""))
    | none => (s, "bad-op")
  | ws =>
    match parseEv ws with
    | none => (s, "bad-op")
    | some e =>
      match step s e with
      | none => (s, "DISABLED")
      | some (s', o) => (s', outStr o)

end Driver.TeeCancel

def main : IO Unit :=
  Driver.serve (AnyioModel.Iter.TeeCancel.init 0 true ([] : List Int)) Driver.TeeCancel.handle
