import Driver.Common
import AnyioModel.Cache.Lru

/-!
Line protocol of the `lru_cache` model (exe `md_lru`):

  new <maxsize|-> <ttl|-> <ac 0|1>     -> ok
  call c k pre | step c | wret c v | wraise c | fc c | mc c | sc c | tick n
      -> susp | ret v | raised | cancelled | internalerror | env | DISABLED
  obs -> hits=.. misses=.. currsize=.. retained=.. order=k1,k2,..   (completed keys, oldest first)
  obsx -> same plus all=k1,k2* (every key, `*` = placeholder), inflight=.. and the branch tag

An `Out.cont` (the model's split of `return await self(...)`) is followed by `step c` at once:
the reply is that of the whole real segment.
-/
namespace Driver.Lru
open AnyioModel.Cache.Lru

def outStr : Out → String
  | .susp => "susp"
  | .cont => "cont"
  | .ret v => s!"ret {v}"
  | .raised => "raised"
  | .cancelled => "cancelled"
  | .internalError => "internalerror"
  | .env => "env"

def optNat? (s : String) : Option (Option Nat) :=
  if s = "-" then some none else s.toNat?.map some

def parseEv : List String → Option Ev
  | ["call", c, k, pre] => do some (.call (← c.toNat?) (← k.toNat?) (← Driver.parseBool pre))
  | ["step", c] => do some (.step (← c.toNat?))
  | ["wret", c, v] => do some (.wrappedReturns (← c.toNat?) (← v.toNat?))
  | ["wraise", c] => do some (.wrappedRaises (← c.toNat?))
  | ["fc", c] => do some (.fc (← c.toNat?))
  | ["mc", c] => do some (.mc (← c.toNat?))
  | ["sc", c] => do some (.sc (← c.toNat?))
  | ["tick", n] => do some (.tick (← n.toNat?))
  | _ => none

def evTask : Ev → Option Nat
  | .call c _ _ | .step c | .wrappedReturns c _ | .wrappedRaises c => some c
  | _ => none

def completedKeys (d : Dict) : List Nat :=
  (d.filter (fun p => p.2.isValue)).map Prod.fst

def obsStr (s : State) : String :=
  let ks := completedKeys s.dict
  s!"hits={s.hits} misses={s.misses} currsize={s.currsize} retained={ks.length} " ++
  "order=" ++ (if ks.isEmpty then "-" else ",".intercalate (ks.map toString))

def allStr (s : State) : String :=
  if s.dict.isEmpty then "-" else
  ",".intercalate (s.dict.map (fun p => toString p.1 ++ (if p.2.isValue then "" else "*")))

/-- run `e`, then finish the segment while the model says `cont` (at most twice: a restarted
call either suspends, returns or fails) -/
def runSeg (s : State) (e : Ev) : Option (State × Out) :=
  match step s e with
  | none => none
  | some (s1, .cont) =>
    match evTask e with
    | none => some (s1, .cont)
    | some c =>
      match step s1 (.step c) with
      | none => some (s1, .cont)
      | some (s2, .cont) =>
        match step s2 (.step c) with
        | none => some (s2, .cont)
        | some r => some r
      | some r => some r
  | some r => some r

def handle (s : State) : List String → State × String
  | ["new", m, t, a] =>
    match optNat? m, optNat? t, Driver.parseBool a with
    | some m, some t, some a => (init { maxsize := m, ttl := t, ac := a }, "ok")
    | _, _, _ => (s, "bad-op")
  | ["obs"] => (s, obsStr s)
  | ["obsx"] => (s, obsStr s ++ " all=" ++ allStr s)
  | ws =>
    match parseEv ws with
    | none => (s, "bad-op")
    | some e =>
      match runSeg s e with
      | none => (s, "DISABLED")
      | some (s', o) => (s', outStr o)

end Driver.Lru

def main : IO Unit :=
  Driver.serve (AnyioModel.Cache.Lru.init { maxsize := none, ttl := none, ac := false })
    Driver.Lru.handle
