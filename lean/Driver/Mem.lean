import Driver.Common
import AnyioModel.Stream.Memory

namespace Driver.Mem
open AnyioModel.Stream.Memory

def outStr : Out → String
  | .susp => "susp"
  | .ret => "ret"
  | .item x => s!"item {x}"
  | .handle h => s!"handle {h}"
  | .wouldBlock => "wouldblock"
  | .closed => "closed"
  | .broken => "broken"
  | .eos => "eos"
  | .cancelled => "cancelled"
  | .env => "env"

/-- `-` = empty list, else comma-separated task numbers -/
def parseList (w : String) : Option (List Nat) :=
  if w = "-" then some [] else (w.splitOn ",").mapM (·.toNat?)

def parseEv : List String → Option Ev
  | ["send", t, h, x, pre] => do
    some (.send (← t.toNat?) (← h.toNat?) (← x.toNat?) (← Driver.parseBool pre))
  | ["send_nowait", t, h, x, p] => do
    some (.sendNowait (← t.toNat?) (← h.toNat?) (← x.toNat?) (← parseList p))
  | ["receive", t, h, pre] => do
    some (.receive (← t.toNat?) (← h.toNat?) (← Driver.parseBool pre))
  | ["receive_nowait", t, h] => do some (.receiveNowait (← t.toNat?) (← h.toNat?))
  | ["close_s", t, h] => do some (.closeS (← t.toNat?) (← h.toNat?))
  | ["close_r", t, h] => do some (.closeR (← t.toNat?) (← h.toNat?))
  | ["clone_s", t, h] => do some (.cloneS (← t.toNat?) (← h.toNat?))
  | ["clone_r", t, h] => do some (.cloneR (← t.toNat?) (← h.toNat?))
  | ["step", t, p] => do some (.step (← t.toNat?) (← parseList p))
  | ["fc", t] => do some (.fc (← t.toNat?))
  | ["mc", t] => do some (.mc (← t.toNat?))
  | _ => none

def maxStr : Option Nat → String
  | none => "inf"
  | some m => toString m

def handle (s : State) : List String → State × String
  | ["new", m] =>
    if m = "inf" then (init none, "ok")
    else match m.toNat? with
      | some k => (init (some k), "ok")
      | none => (s, "bad-op")
  | ["obs"] =>
    (s, s!"used={s.buffer.length} max={maxStr s.maxSize} os={s.openSend} or={s.openRecv} ws={s.waitingSenders.length} wr={s.waitingReceivers.length}")
  | ["ghost"] =>
    (s, s!"lost={s.lost.length} interrupted={s.interrupted.length} delivered={s.delivered.length} accepted={s.accepted.length} rejected={s.rejected.length}")
  | ws =>
    match parseEv ws with
    | none => (s, "bad-op")
    | some e =>
      match step s e with
      | none => (s, "DISABLED")
      | some (s', o) => (s', outStr o)

end Driver.Mem

def main : IO Unit := Driver.serve (AnyioModel.Stream.Memory.init none) Driver.Mem.handle
