import Driver.Common
import AnyioModel.Sync.Event

namespace Driver.Event
open AnyioModel.Sync.Event

def outStr : Out → String
  | .susp => "susp"
  | .ret => "ret"
  | .cancelled => "cancelled"
  | .env => "env"

def parseEv : List String → Option Ev
  | ["wait", t, pre] => do some (.wait (← t.toNat?) (← Driver.parseBool pre))
  | ["set"] => some .set
  | ["step", t] => do some (.step (← t.toNat?))
  | ["fc", t] => do some (.fc (← t.toNat?))
  | ["mc", t] => do some (.mc (← t.toNat?))
  | _ => none

def handle (s : State) : List String → State × String
  | ["new"] => (init, "ok")
  | ["obs"] => (s, s!"set={Driver.bool01 s.flag} waiting={s.waiters.length}")
  | ws =>
    match parseEv ws with
    | none => (s, "bad-op")
    | some e =>
      match step s e with
      | none => (s, "DISABLED")
      | some (s', o) => (s', outStr o)

end Driver.Event

def main : IO Unit := Driver.serve AnyioModel.Sync.Event.init Driver.Event.handle
