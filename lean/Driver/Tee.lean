import Driver.Common
import AnyioModel.Iter.Tee

/-!
Line protocol of `md_tee`:

    new <n> <x> ...      n consumers over the source sequence x ...     -> ok
    next <i> | step <i> | src_yield | src_end                           -> susp | ret <v> | stop | runtimeerror | DISABLED
    obs                                                                 -> calls=<source __anext__ invocations>
-/
namespace Driver.Tee
open AnyioModel.Iter.Tee

def outStr : Out Int → String
  | .susp => "susp"
  | .ret v => s!"ret {v}"
  | .stop => "stop"
  | .runtimeError => "runtimeerror"

def parseEv : List String → Option Ev
  | ["next", i] => do some (.next (← i.toNat?))
  | ["step", i] => do some (.step (← i.toNat?))
  | ["src_yield"] => some .srcYield
  | ["src_end"] => some .srcEnd
  | _ => none

def handle (s : State Int) : List String → State Int × String
  | "new" :: n :: xs =>
    match n.toNat?, xs.mapM String.toInt? with
    | some n, some xs => (init n xs, "ok")
    | _, _ => (s, "bad-op")
  | ["obs"] => (s, s!"calls={s.srcCalls}")
  | ws =>
    match parseEv ws with
    | none => (s, "bad-op")
    | some e =>
      match step s e with
      | none => (s, "DISABLED")
      | some (s', o) => (s', outStr o)

end Driver.Tee

def main : IO Unit := Driver.serve (AnyioModel.Iter.Tee.init 0 ([] : List Int)) Driver.Tee.handle
