import Driver.Common
import AnyioModel.Sync.Lock

namespace Driver.Lock
open AnyioModel.Sync.Lock

def outStr : Out → String
  | .susp => "susp"
  | .ret => "ret"
  | .wouldBlock => "wouldblock"
  | .runtimeError => "runtimeerror"
  | .cancelled => "cancelled"
  | .env => "env"

def parseEv : List String → Option Ev
  | ["acquire", t, pre] => do some (.acquire (← t.toNat?) (← Driver.parseBool pre))
  | ["acquire_nowait", t] => do some (.acquireNowait (← t.toNat?))
  | ["release", t] => do some (.release (← t.toNat?))
  | ["step", t] => do some (.step (← t.toNat?))
  | ["fc", t] => do some (.fc (← t.toNat?))
  | ["mc", t] => do some (.mc (← t.toNat?))
  | _ => none

def handle (s : State) : List String → State × String
  | ["new", f] =>
    match Driver.parseBool f with
    | some b => (init b, "ok")
    | none => (s, "bad-op")
  | ["obs"] =>
    (s, s!"locked={Driver.bool01 s.owner.isSome} owner={Driver.optNat s.owner} waiters={s.waiters.length}")
  | ws =>
    match parseEv ws with
    | none => (s, "bad-op")
    | some e =>
      match step s e with
      | none => (s, "DISABLED")
      | some (s', o) => (s', outStr o)

end Driver.Lock

def main : IO Unit := Driver.serve (AnyioModel.Sync.Lock.init false) Driver.Lock.handle
