import Driver.Common
import AnyioModel.Sync.LockHistory

namespace Driver.Lock
open AnyioModel.Sync.Lock

def outStr : Out → String
  | .susp => "susp"
  | .ret => "ret"
  | .wouldBlock => "wouldblock"
  | .runtimeError => "runtimeerror"
  | .cancelled => "cancelled"
  | .env => "env"

def parseEv : List String → Option Ev
  | ["acquire", t, pre] => do some (.acquire (← t.toNat?) (← Driver.parseBool pre))
  | ["acquire_nowait", t] => do some (.acquireNowait (← t.toNat?))
  | ["release", t] => do some (.release (← t.toNat?))
  | ["step", t] => do some (.step (← t.toNat?))
  | ["fc", t] => do some (.fc (← t.toNat?))
  | ["mc", t] => do some (.mc (← t.toNat?))
  | _ => none

def natList (l : List Nat) : String :=
  if l.isEmpty then "-" else ",".intercalate (l.map toString)

/-- the driver keeps the history ghosts of `Sync/LockHistory.lean` next to the state, so that the
harness can compare them with the same three lists derived from the real Lock's public statistics -/
def handle (sl : State × Log) : List String → (State × Log) × String
  | ["new", f] =>
    match Driver.parseBool f with
    | some b => ((init b, {}), "ok")
    | none => (sl, "bad-op")
  | ["obs"] =>
    let s := sl.1
    (sl, s!"locked={Driver.bool01 s.owner.isSome} owner={Driver.optNat s.owner} waiters={s.waiters.length}")
  | ["log"] =>
    let l := sl.2
    (sl, s!"enq={natList l.enq} granted={natList l.granted} cancelled={natList l.cancelled}")
  | ws =>
    match parseEv ws with
    | none => (sl, "bad-op")
    | some e =>
      match step sl.1 e with
      | none => (sl, "DISABLED")
      | some (s', o) => ((s', logStep sl.1 sl.2 e s'), outStr o)

end Driver.Lock

def main : IO Unit := Driver.serve (AnyioModel.Sync.Lock.init false, {}) Driver.Lock.handle
