import Driver.Common
import AnyioModel.Stream.Tls

/-!
Driver for the TLS endpoint model.  Two endpoint LTSs (client `a`, server `b`) are wired back
to back by a scheduler that only ever applies events of `AnyioModel.Stream.Tls.step`; the
request `session ...` plays one whole session (handshake, data both ways, receives, close or
truncation) and prints the outcomes an API user sees.
-/
namespace Driver.Tls
open AnyioModel.Stream.Tls

def parseNats (w : String) : Option (List Nat) :=
  if w = "-" then some [] else (w.splitOn ",").mapM String.toNat?

def outStr : Out → String
  | .susp => "blocked"
  | .ret => "ret"
  | .retData _ => "data"
  | .eos => "eos"
  | .broken => "broken"
  | .sslError => "sslerror"
  | .valueError => "valueerror"
  | .env => "env"

structure Sys where
  a : State
  b : State
  fwdAB : Nat := 0
  fwdBA : Nat := 0
  cutAB : Option Nat := none
  cutBA : Option Nat := none
  frags : List Nat := []
  lastA : Out := .env
  lastB : Out := .env
  bad : Bool := false   -- an event the scheduler expected to be enabled was not

def applyA (y : Sys) (ev : Ev) : Sys :=
  match step y.a ev with
  | some (s', o) => { y with a := s', lastA := if o = .env then y.lastA else o }
  | none => { y with bad := true }

def applyB (y : Sys) (ev : Ev) : Sys :=
  match step y.b ev with
  | some (s', o) => { y with b := s', lastB := if o = .env then y.lastB else o }
  | none => { y with bad := true }

def nextFrag (y : Sys) : Nat × Sys :=
  match y.frags with
  | [] => (1000000, y)
  | k :: ks => (k, { y with frags := ks })

/-- move what `src` flushed since last time onto the wire towards `dst`, up to the cut -/
def forwardAB (y : Sys) : Sys :=
  if y.b.inEnded then y else
  let fresh := y.a.wireOut.drop y.fwdAB
  let allowed := match y.cutAB with
    | none => fresh
    | some k => fresh.take (k - y.fwdAB)
  let y1 := if allowed = [] then y else
    applyB { y with fwdAB := y.fwdAB + allowed.length } (.peerFlush allowed)
  match y1.cutAB with
  | some k => if y1.fwdAB ≥ k then applyB y1 .endTransport else y1
  | none => y1

def forwardBA (y : Sys) : Sys :=
  if y.a.inEnded then y else
  let fresh := y.b.wireOut.drop y.fwdBA
  let allowed := match y.cutBA with
    | none => fresh
    | some k => fresh.take (k - y.fwdBA)
  let y1 := if allowed = [] then y else
    applyA { y with fwdBA := y.fwdBA + allowed.length } (.peerFlush allowed)
  match y1.cutBA with
  | some k => if y1.fwdBA ≥ k then applyA y1 .endTransport else y1
  | none => y1

def isBlocked (s : State) : Bool :=
  match s.pc with
  | .blocked _ => true
  | .idle => false

def settle : Nat → Sys → Sys
  | 0, y => y
  | fuel + 1, y =>
    let y := forwardBA (forwardAB y)
    if isBlocked y.b ∧ y.b.incoming ≠ [] then
      let (k, y) := nextFrag y
      settle fuel (applyB y (.deliver k))
    else if isBlocked y.a ∧ y.a.incoming ≠ [] then
      let (k, y) := nextFrag y
      settle fuel (applyA y (.deliver k))
    else if isBlocked y.b ∧ y.b.inEnded then settle fuel (applyB y .eofDeliver)
    else if isBlocked y.a ∧ y.a.inEnded then settle fuel (applyA y .eofDeliver)
    else y

def FUEL : Nat := 100000

def callA (y : Sys) (c : Call) : Sys := settle FUEL (applyA y (.call c))
def callB (y : Sys) (c : Call) : Sys := settle FUEL (applyB y (.call c))

/-- receive repeatedly at the server (`atB`) or client until `want` bytes were returned or the
call ends otherwise; returns the system and the last outcome -/
def readLoop (atB : Bool) : Nat → Sys → List Nat → List Nat → Nat → Sys × Out
  | 0, y, _, _, _ => (y, .susp)
  | fuel + 1, y, sizes, all, want =>
    let got := if atB then y.b.delivered.length else y.a.delivered.length
    if got ≥ want ∧ want > 0 ∨ (want = 0) then (y, .ret) else
    let (n, rest) := match sizes with
      | [] => (match all with | [] => 65536 | m :: _ => m, all.drop 1)
      | m :: ms => (m, ms)
    let y1 := if atB then callB y (.read n) else callA y (.read n)
    let o := if atB then y1.lastB else y1.lastA
    match o with
    | .retData _ => readLoop atB fuel y1 rest all want
    | _ => (y1, o)

def writes : List (List Nat × List Nat) → Bool → Sys → Sys
  | [], _, y => y
  | (item, sizes) :: more, atA, y =>
    let y1 := if atA then applyA y (.write item sizes) else applyB y (.write item sizes)
    writes more atA (settle FUEL y1)

/-- payload of message i in a direction: bytes numbered along the stream -/
def mkItems (sizes : List Nat) (recs : List Nat) (salt : Nat) : List (List Nat × List Nat) :=
  let rec go : List Nat → Nat → List Nat → List (List Nat × List Nat)
    | [], _, _ => []
    | k :: ks, off, rs =>
      ((List.range k).map (fun i => (off + i + salt) % 251), rs.take 3) :: go ks (off + k) (rs.drop 1)
  go sizes 0 recs

structure Spec where
  scC : Bool
  scS : Bool
  c2s : List Nat
  s2c : List Nat
  recs : List Nat
  frags : List Nat
  recvC : List Nat
  recvS : List Nat
  close : Bool

def play (p : Spec) (cutAB cutBA : Option Nat) : Sys × String :=
  let y0 : Sys := { a := init p.scC false, b := init p.scS true, cutAB, cutBA, frags := p.frags }
  -- handshake: both ends call do_handshake
  let y1 := applyB (applyA y0 (.call .handshake)) (.call .handshake)
  let y2 := settle FUEL y1
  let hsC := y2.lastA
  let hsS := y2.lastB
  if hsC ≠ .ret ∨ hsS ≠ .ret then
    (y2, s!"hsC={outStr hsC} hsS={outStr hsS} c2s=0/1 endS=- s2c=0/1 endC=- closeC=-")
  else
    let y3 := writes (mkItems p.c2s p.recs 0) true y2
    let y4 := writes (mkItems p.s2c (p.recs.drop 2) 100) false y3
    let totC2S := p.c2s.foldl (· + ·) 0
    let totS2C := p.s2c.foldl (· + ·) 0
    let (y5, rS) := readLoop true FUEL { y4 with lastB := .env } p.recvS p.recvS totC2S
    let (y6, rC) := readLoop false FUEL { y5 with lastA := .env } p.recvC p.recvC totS2C
    let okS := y6.b.delivered == y6.a.sentPlain.take y6.b.delivered.length
    let okC := y6.a.delivered == y6.b.sentPlain.take y6.a.delivered.length
    -- end of the session
    let dataDone := rS = .ret ∧ rC = .ret
    let (y9, endS, endC, closeC) :=
      if ¬ dataDone then (y6, rS, rC, Out.env)
      else if p.close then
        if p.scC then
          -- client: aclose() = unwrap (blocks until the server's close_notify) + transport close
          let y7 := callA { y6 with lastA := .env } .unwrap
          let y8 := callB { y7 with lastB := .env } (.read 100)
          let eS := y8.lastB
          let y8 := if p.scS then callB y8 .unwrap else applyA (settle FUEL y8) .endTransport
          let y9 := settle FUEL y8
          (y9, eS, Out.env, y9.lastA)
        else
          -- client closes the transport without a closing handshake
          let y7 := applyB (settle FUEL y6) .endTransport
          let y8 := callB { y7 with lastB := .env } (.read 100)
          (y8, y8.lastB, Out.env, Out.ret)
      else
        -- truncation after the data (cut = everything but no close): victim reads once more
        let y7 := callB { y6 with lastB := .env } (.read 100)
        let y8 := callA { y7 with lastA := .env } (.read 100)
        (y8, y8.lastB, y8.lastA, Out.env)
    let sh (o : Out) := if o = .env then "-" else outStr o
    (y9, s!"hsC=ret hsS=ret c2s={y9.b.delivered.length}/{Driver.bool01 okS} endS={sh endS} s2c={y9.a.delivered.length}/{Driver.bool01 okC} endC={sh endC} closeC={sh closeC}"
          ++ (if y9.bad then " SCHEDULER-DISABLED" else "")
          ++ (if y9.a.readsWithPending + y9.b.readsWithPending ≠ 0 then " UNFLUSHED-READ" else ""))

def session (p : Spec) (cutDir : String) (num den : Nat) : String :=
  if cutDir = "n" then (play p none none).2
  else
    -- length of the direction's byte stream in the uncut session, then the proportional cut
    let (y, _) := play p none none
    let total := if cutDir = "c2s" then y.a.wireOut.length else y.b.wireOut.length
    let k := if den = 0 then 0 else min (total - 1) (total * num / den)
    if cutDir = "c2s" then (play p (some k) none).2 else (play p none (some k)).2

def handle (s : Unit) : List String → Unit × String
  | ["session", scC, scS, c2s, s2c, recs, frags, recvC, recvS, cutDir, num, den, close] =>
    match Driver.parseBool scC, Driver.parseBool scS, parseNats c2s, parseNats s2c, parseNats recs,
          parseNats frags, parseNats recvC, parseNats recvS, num.toNat?, den.toNat?,
          Driver.parseBool close with
    | some scC, some scS, some c2s, some s2c, some recs, some frags, some recvC, some recvS,
      some num, some den, some close =>
      (s, session { scC, scS, c2s, s2c, recs, frags, recvC, recvS, close } cutDir num den)
    | _, _, _, _, _, _, _, _, _, _, _ => (s, "bad-op")
  | _ => (s, "bad-op")

end Driver.Tls

def main : IO Unit := Driver.serve () Driver.Tls.handle
