import Driver.Common
import AnyioModel.Sync.Semaphore

namespace Driver.Sem
open AnyioModel.Sync.Semaphore

def outStr : Out → String
  | .susp => "susp"
  | .ret => "ret"
  | .wouldBlock => "wouldblock"
  | .valueError => "valueerror"
  | .cancelled => "cancelled"
  | .env => "env"

def parseOptNat (s : String) : Option (Option Nat) :=
  if s = "-" then some none else (s.toNat?).map some

def parseEv : List String → Option Ev
  | ["acquire", t, pre] => do some (.acquire (← t.toNat?) (← Driver.parseBool pre))
  | ["acquire_nowait", t] => do some (.acquireNowait (← t.toNat?))
  | ["release", t] => do some (.release (← t.toNat?))
  | ["step", t] => do some (.step (← t.toNat?))
  | ["fc", t] => do some (.fc (← t.toNat?))
  | ["mc", t] => do some (.mc (← t.toNat?))
  | _ => none

/-- requests: `new <fast 0|1> <initial> <max|->`, `obs`, or an event -/
def handle (s : State) : List String → State × String
  | ["new", f, v, m] =>
    match Driver.parseBool f, v.toNat?, parseOptNat m with
    | some b, some v, some m => (init b v m, "ok")
    | _, _, _ => (s, "bad-op")
  | ["obs"] => (s, s!"value={s.value} waiters={s.waiters.length}")
  | ["skip"] => (s, "skipped")
  | ["ghost"] =>
    (s, s!"holders={s.holders.length} infl={s.infl.length} extra={s.extra} lost={s.lost}")
  | ws =>
    match parseEv ws with
    | none => (s, "bad-op")
    | some e =>
      match step s e with
      | none => (s, "DISABLED")
      | some (s', o) => (s', outStr o)

end Driver.Sem

def main : IO Unit := Driver.serve (AnyioModel.Sync.Semaphore.init false 0 none) Driver.Sem.handle
