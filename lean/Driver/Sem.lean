import Driver.Common
import AnyioModel.Sync.SemaphoreHistory

namespace Driver.Sem
open AnyioModel.Sync.Semaphore

def outStr : Out → String
  | .susp => "susp"
  | .ret => "ret"
  | .wouldBlock => "wouldblock"
  | .valueError => "valueerror"
  | .cancelled => "cancelled"
  | .env => "env"

def parseOptNat (s : String) : Option (Option Nat) :=
  if s = "-" then some none else (s.toNat?).map some

def parseEv : List String → Option Ev
  | ["acquire", t, pre] => do some (.acquire (← t.toNat?) (← Driver.parseBool pre))
  | ["acquire_nowait", t] => do some (.acquireNowait (← t.toNat?))
  | ["release", t] => do some (.release (← t.toNat?))
  | ["step", t] => do some (.step (← t.toNat?))
  | ["fc", t] => do some (.fc (← t.toNat?))
  | ["mc", t] => do some (.mc (← t.toNat?))
  | _ => none

def natList (l : List Nat) : String :=
  if l.isEmpty then "-" else ",".intercalate (l.map toString)

/-- requests: `new <fast 0|1> <initial> <max|->`, `obs`, `log` (the history ghosts of
`Sync/SemaphoreHistory.lean`, kept next to the state), or an event -/
def handle (sl : State × Log) : List String → (State × Log) × String
  | ["new", f, v, m] =>
    match Driver.parseBool f, v.toNat?, parseOptNat m with
    | some b, some v, some m => ((init b v m, {}), "ok")
    | _, _, _ => (sl, "bad-op")
  | ["obs"] => (sl, s!"value={sl.1.value} waiters={sl.1.waiters.length}")
  | ["skip"] => (sl, "skipped")
  | ["ghost"] =>
    let s := sl.1
    (sl, s!"holders={s.holders.length} infl={s.infl.length} extra={s.extra} lost={s.lost}")
  | ["log"] =>
    let l := sl.2
    (sl, s!"enq={natList l.enq} granted={natList l.granted} cancelled={natList l.cancelled}")
  | ws =>
    match parseEv ws with
    | none => (sl, "bad-op")
    | some e =>
      match step sl.1 e with
      | none => (sl, "DISABLED")
      | some (s', o) => ((s', logStep sl.1 sl.2 e s'), outStr o)

end Driver.Sem

def main : IO Unit := Driver.serve (AnyioModel.Sync.Semaphore.init false 0 none, {}) Driver.Sem.handle
