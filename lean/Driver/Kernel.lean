import Driver.Common
import AnyioModel.Kernel.Step

/-!
Line protocol for the kernel model.  The harness names objects by its own labels (scopes `L<n>`,
tasks `T<n>`, futures `F<n>`, groups `G<n>`, all given as bare numbers); the driver maps labels
to the ids the model allocates.  Every task-level request is prefixed by the label of the task
that issues it (`-` for a callback context); the driver checks it against `running`.
-/
namespace Driver.Kernel
open AnyioModel AnyioModel.Kernel

structure D where
  st : State := init
  scopes : List (Nat × Nat) := []
  tasks : List (Nat × Nat) := [(0, 0)]
  futs : List (Nat × Nat) := []
  groups : List (Nat × Nat) := []

def look (m : List (Nat × Nat)) (k : Nat) : Option Nat := (m.find? (·.1 = k)).map (·.2)
def rlook (m : List (Nat × Nat)) (v : Nat) : Option Nat := (m.find? (·.2 = v)).map (·.1)

def excStr : Exc → String
  | .cancelAnyio => "c"
  | .cancelNative => "n"
  | .err k => s!"e{k}"
  | .runtimeError => "r"

def parseExc (s : String) : Option Exc :=
  if s = "c" then some .cancelAnyio
  else if s = "n" then some .cancelNative
  else if s = "r" then some .runtimeError
  else if s.startsWith "e" then (s.drop 1).toString.toNat?.map .err
  else none

def evStr : ExcVal → String
  | .none => "-"
  | .one e => excStr e
  | .group es => "g:" ++ ",".intercalate (es.map excStr)

def parseEv (s : String) : Option ExcVal :=
  if s = "-" then some .none
  else if s.startsWith "g:" then
    let parts := ((s.drop 2).toString.splitOn ",").filter (· ≠ "")
    (parts.mapM parseExc).map .group
  else (parseExc s).map .one

def parseOptNat (s : String) : Option (Option Nat) :=
  if s = "-" then some none else s.toNat?.map some

def outStr : Out → String
  | .none => "ok"
  | .id _ => "ok"
  | .resumed r => s!"resumed {evStr r}"
  | .susp => "susp"
  | .done ev => s!"done {evStr ev}"
  | .exit .swallowed => "exit swallowed"
  | .exit .passed => "exit passed"
  | .exit (.raised es) => s!"exit raised {evStr (.group es)}"
  | .rterr => "rterr"

def apply (d : D) (e : Ev) : D × String :=
  match step d.st e with
  | none => (d, "DISABLED")
  | some (st, o) => ({ d with st := st }, outStr o)

/-- task-level request: check the issuing task -/
def asTask (d : D) (who : String) (k : D → D × String) : D × String :=
  if who = "-" then
    if d.st.running.isNone then k d else (d, "WRONGTASK")
  else
    match who.toNat? with
    | none => (d, "bad-op")
    | some l =>
      match look d.tasks l with
      | none => (d, "UNKNOWN")
      | some t => if d.st.running = some t then k d else (d, "WRONGTASK")

def handle (d : D) : List String → D × String
  | ["new"] => ({}, "ok")
  | ["cycle", n] =>
    match n.toNat? with
    | some n => apply d (.beginCycle n)
    | none => (d, "bad-op")
  | ["run", kind, l] =>
    match l.toNat? with
    | none => (d, "bad-op")
    | some l =>
      let h : Option Handle :=
        if kind = "step" then (look d.tasks l).map .step
        else if kind = "wakeup" then (look d.tasks l).map .wakeup
        else if kind = "taskdone" then (look d.tasks l).map .taskDone
        else if kind = "deliver" then (look d.scopes l).map .deliver
        else if kind = "timeout" then (look d.scopes l).map .timeout
        else if kind = "sleepdone" then
          (look d.tasks l).bind (fun t =>
            match (d.st.tasks t).lib with
            | .sleeping f => some (.sleepDone f)
            | _ => none)
        else none
      match h with
      | none => (d, "UNKNOWN")
      | some h => apply d (.run h)
  | [who, "mkscope", l, sh, dl] =>
    match l.toNat?, Driver.parseBool sh, parseOptNat dl with
    | some l, some sh, some dl =>
      ignoreTask d who (fun d =>
        match step d.st (.mkScope sh dl) with
        | some (st, .id s) => ({ d with st := st, scopes := (l, s) :: d.scopes }, "ok")
        | _ => (d, "DISABLED"))
    | _, _, _ => (d, "bad-op")
  | [who, "enter", l] => withScope d who l (fun s => .enter s)
  | [who, "exit", l, ev] =>
    match parseEv ev with
    | some ev => withScope d who l (fun s => .exit s ev)
    | none => (d, "bad-op")
  | [who, "cancel", l] => withScopeAny d who l (fun s => .cancel s)
  | [who, "shield", l, b] =>
    match Driver.parseBool b with
    | some b => withScopeAny d who l (fun s => .setShield s b)
    | none => (d, "bad-op")
  | [who, "deadline", l, dl] =>
    match parseOptNat dl with
    | some dl => withScopeAny d who l (fun s => .setDeadline s dl)
    | none => (d, "bad-op")
  | [who, "yield"] => asTask d who (fun d => apply d .yield)
  | [who, "mkfut", l] =>
    match l.toNat? with
    | some l =>
      ignoreTask d who (fun d =>
        match step d.st .mkFut with
        | some (st, .id f) => ({ d with st := st, futs := (l, f) :: d.futs }, "ok")
        | _ => (d, "DISABLED"))
    | none => (d, "bad-op")
  | [who, "setfut", l] =>
    match l.toNat?.bind (look d.futs) with
    | some f => ignoreTask d who (fun d => apply d (.setFut f))
    | none => (d, "UNKNOWN")
  | [who, "await", l] =>
    match l.toNat?.bind (look d.futs) with
    | some f => asTask d who (fun d => apply d (.awaitFut f))
    | none => (d, "UNKNOWN")
  | [who, "sleep", n] =>
    match n.toNat? with
    | some n => asTask d who (fun d => apply d (.sleep n))
    | none => (d, "bad-op")
  | [who, "chkif"] => asTask d who (fun d => apply d .chkIfCancelled)
  | [who, "shchk"] => asTask d who (fun d => apply d .shieldedChk)
  | [who, "ncancel", l] =>
    match l.toNat?.bind (look d.tasks) with
    | some u => ignoreTask d who (fun d => apply d (.nativeCancel u))
    | none => (d, "UNKNOWN")
  | [who, "uncancel"] => asTask d who (fun d => apply d .uncancel)
  | [who, "mkgroup", g, l] =>
    match g.toNat?, l.toNat? with
    | some g, some l =>
      ignoreTask d who (fun d =>
        match step d.st .mkGroup with
        | some (st, .id gi) =>
          ({ d with st := st, groups := (g, gi) :: d.groups,
                    scopes := (l, (st.groups gi).scope) :: d.scopes }, "ok")
        | _ => (d, "DISABLED"))
    | _, _ => (d, "bad-op")
  | [who, "genter", g] =>
    match g.toNat?.bind (look d.groups) with
    | some g => asTask d who (fun d => apply d (.groupEnter g))
    | none => (d, "UNKNOWN")
  | [who, "spawn", g, t, l] =>
    match g.toNat?.bind (look d.groups), t.toNat?, l.toNat? with
    | some g, some t, some l =>
      ignoreTask d who (fun d =>
        match step d.st (.spawn g) with
        | some (st, .id u) =>
          ({ d with st := st, tasks := (t, u) :: d.tasks,
                    scopes := (l, ((st.tasks u).hscope).getD 0) :: d.scopes }, "ok")
        | some (st, o) => ({ d with st := st }, outStr o)
        | none => (d, "DISABLED"))
    | _, _, _ => (d, "UNKNOWN")
  | [who, "aexit", g, ev] =>
    match g.toNat?.bind (look d.groups), parseEv ev with
    | some g, some ev => asTask d who (fun d => apply d (.aexit g ev))
    | _, _ => (d, "UNKNOWN")
  | [who, "start", g, t, l] =>
    match g.toNat?.bind (look d.groups), t.toNat?, l.toNat? with
    | some g, some t, some l =>
      asTask d who (fun d =>
        match step d.st (.start g) with
        | some (st, .id u) =>
          ({ d with st := st, tasks := (t, u) :: d.tasks,
                    scopes := (l, ((st.tasks u).hscope).getD 0) :: d.scopes }, "susp")
        | some (st, o) => ({ d with st := st }, outStr o)
        | none => (d, "DISABLED"))
    | _, _, _ => (d, "UNKNOWN")
  | [who, "started"] => asTask d who (fun d => apply d .started)
  | [who, "hcancel", t] =>
    match t.toNat?.bind (look d.tasks) with
    | some u => ignoreTask d who (fun d => apply d (.handleCancel u))
    | none => (d, "UNKNOWN")
  | [who, "hwait", t] =>
    match t.toNat?.bind (look d.tasks) with
    | some u => asTask d who (fun d => apply d (.handleWait u))
    | none => (d, "UNKNOWN")
  | [who, "finish", ev] =>
    match parseEv ev with
    | some ev => asTask d who (fun d => apply d (.finish ev))
    | none => (d, "bad-op")
  -- queries
  | ["q", "cancelling", t] =>
    match t.toNat?.bind (look d.tasks) with
    | some u => (d, toString (d.st.tasks u).ncancel)
    | none => (d, "UNKNOWN")
  | ["q", "scope", l] =>
    match l.toNat?.bind (look d.scopes) with
    | some s =>
      let sc := d.st.scopes s
      (d, s!"cc={Driver.bool01 sc.cancelCalled} caught={Driver.bool01 sc.caught} shield={Driver.bool01 sc.shield}")
    | none => (d, "UNKNOWN")
  | ["q", "status", t] =>
    match t.toNat?.bind (look d.tasks) with
    | some u =>
      let tk := d.st.tasks u
      let cc := match tk.hscope with
        | some hs => (d.st.scopes hs).cancelCalled
        | none => false
      let s :=
        if !tk.finished then (if cc then "cancelling" else "pending")
        else match tk.hexc with
          | .none => "finished"
          | e => if e.isCancelledError then "cancelled" else s!"failed {evStr e}"
      (d, s)
    | none => (d, "UNKNOWN")
  | ["q", "failat", l] =>
    -- fail_at's last line: raise TimeoutError iff cancelled_caught and current_time() >= deadline
    match l.toNat?.bind (look d.scopes) with
    | some s =>
      let sc := d.st.scopes s
      let due := match sc.deadline with
        | some dl => decide (dl ≤ d.st.now)
        | none => false
      (d, Driver.bool01 (sc.caught && due))
    | none => (d, "UNKNOWN")
  | ["q", "idle"] =>
    (d, s!"ready={d.st.ready.length + d.st.cur.length} timers={d.st.timers.length}")
  | ["q", "effdl", t] =>
    match t.toNat?.bind (look d.tasks) with
    | some u =>
      match effDeadline d.st u with
      | .negInf => (d, "-inf")
      | .inf => (d, "inf")
      | .at v => (d, toString v)
    | none => (d, "UNKNOWN")
  | _ => (d, "bad-op")
where
  /-- requests that may be issued by a task or from a callback: only check a named task -/
  ignoreTask (d : D) (who : String) (k : D → D × String) : D × String :=
    if who = "-" then k d else asTask d who k
  withScope (d : D) (who l : String) (mk : Nat → Ev) : D × String :=
    match l.toNat?.bind (look d.scopes) with
    | some s => asTask d who (fun d => apply d (mk s))
    | none => (d, "UNKNOWN")
  withScopeAny (d : D) (who l : String) (mk : Nat → Ev) : D × String :=
    match l.toNat?.bind (look d.scopes) with
    | some s => ignoreTask d who (fun d => apply d (mk s))
    | none => (d, "UNKNOWN")

end Driver.Kernel

def main : IO Unit := Driver.serve ({} : Driver.Kernel.D) Driver.Kernel.handle
