/-
Line-protocol plumbing shared by all model drivers: one request per line on stdin, one
reply per line on stdout.  A driver is a pure `σ → List String → σ × String`.
-/
namespace Driver

def words (line : String) : List String :=
  (line.splitOn " ").filter (· ≠ "")

partial def loop {σ : Type} (h : IO.FS.Stream) (out : IO.FS.Stream) (s : σ)
    (f : σ → List String → σ × String) : IO Unit := do
  let line ← h.getLine
  if line.isEmpty then
    out.flush
    return ()
  let ws := words (line.trimAscii.toString)
  if ws.isEmpty then
    loop h out s f
  else
    let (s', reply) := f s ws
    out.putStrLn reply
    loop h out s' f

def serve {σ : Type} (s0 : σ) (f : σ → List String → σ × String) : IO Unit := do
  let stdin ← IO.getStdin
  let stdout ← IO.getStdout
  loop stdin stdout s0 f

def bool01 (b : Bool) : String := if b then "1" else "0"

def parseBool (s : String) : Option Bool :=
  if s = "1" then some true else if s = "0" then some false else none

def optNat (o : Option Nat) : String :=
  match o with
  | some n => toString n
  | none => "-"

end Driver
