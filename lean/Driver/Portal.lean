import Driver.Common
import AnyioModel.Thread.Portal

/-!
Line-protocol driver for the BlockingPortal model (exe `md_portal`).

Harness-level requests:
  new
  issue C sync (v|e)        plain callable that returns / raises
  issue C coro              coroutine function (blocks on a gate)
  issue C task (s0|s1)      start_task; s1 = the callable calls task_status.started() at once
  finish C (v|e)            the gate of C is opened: the coroutine returns / raises
  cancelfut C | stop (0|1) | exitreq (0|1) | settle | obs | hits
`settle` plays the loop: `spawn`, `begin`/`beginSync`, `started`, `finish C cancelled` for
every running call whose own scope or the portal's group has been cancelled (the harness's
coroutines always let a cancellation propagate), and `exit` once requested.
`exitreq X` = leaving `start_blocking_portal()` (X = 1: with an exception in the body):
`stop X` if the portal is still running, then `exit` as soon as it is enabled.
-/
namespace Driver.Portal
open AnyioModel AnyioModel.Thread.Portal

/-- an entry of the loop's ready queue (FIFO): requests posted by foreign threads with
`call_soon_threadsafe` and first steps of tasks created by them -/
inductive Item where
  | spawnCall (c : Nat)
  | stepCall (c : Nat)
  | stopCall (cr : Bool)     -- `portal.call(portal.stop, cr)`: itself a portal call
  | stopStep (cr : Bool)
  | blocker                  -- a plain callback that parks the loop until `unblock`

structure DState where
  s       : State
  blocked : Bool
  ready   : List Item
  ncalls  : Nat
  syncOut : List (Nat × Outcome)
  wantStarted : List Nat
  exitReq : Bool
  outs    : List (Nat × String)    -- reply of issue/spawn per call (refusals)
  hits    : List (String × Nat)

def DState.init : DState :=
  { s := AnyioModel.Thread.Portal.init, blocked := false, ready := [], ncalls := 0, syncOut := [], wantStarted := [],
    exitReq := false, outs := [], hits := [] }

def bump (h : List (String × Nat)) (k : String) : List (String × Nat) :=
  match h.find? (·.1 = k) with
  | some _ => h.map (fun p => if p.1 = k then (p.1, p.2 + 1) else p)
  | none => h ++ [(k, 1)]

def outStr : Out → String
  | .ok => "ok"
  | .runtimeError => "runtimeerror"
  | .env => "env"

def pcStr : Pc → String
  | .none => "none" | .issued => "issued" | .refused => "refused" | .spawned => "spawned"
  | .running => "running" | .resolved => "resolved"

def resStr : Res → String
  | .result n => s!"r:v{n}"
  | .exception n => s!"r:e{n}"
  | .cancelled => "cancelled"

def futStr : Fut → String
  | .pending => "pending"
  | .done r => resStr r

def statusStr : Status → String
  | .pending => "pending"
  | .started n => s!"started{n}"
  | .failed r => "failed:" ++ resStr r
  | .noStarted => "nostarted"

def portalStr : PState → String
  | .running => "running" | .stopping => "stopping" | .stopped => "stopped"

def tagOf (s : State) (e : Ev) (o : Out) : String :=
  match e with
  | .issue _ _ => if o = .runtimeError then "issue-refused" else "issue"
  | .spawn _ => if o = .runtimeError then "spawn-refused" else "spawn"
  | .beginSync c _ => if s.fut c = .pending then "beginSync" else "beginSync-future-cancelled"
  | .begin c =>
    if s.fut c = .pending then (if s.portal = .running then "begin" else "begin-after-stop")
    else "begin-future-cancelled"
  | .started _ _ => "started"
  | .finish c .cancelled => if s.fut c = .pending then "finish-cancelled" else "finish-cancelled-fut-done"
  | .finish c _ => if s.fut c = .pending then "finish-outcome" else "finish-outcome-dropped"
  | .cancelFuture c =>
    match s.fut c with
    | .done _ => "cancelFuture-noop"
    | .pending => "cancelFuture@" ++ pcStr (s.pc c) ++ (if s.byStop c then "-bystop" else "")
  | .stop cr => if cr then "stop-cancel-remaining" else "stop"
  | .exit => "exit"

def fire (d : DState) (e : Ev) : Option (DState × Out) :=
  match step d.s e with
  | none => none
  | some (s', o) =>
    let d1 := { d with s := s', hits := bump d.hits (tagOf d.s e o) }
    let d2 := match e with
      | .issue c _ => { d1 with ncalls := max d1.ncalls (c + 1) }
      | _ => d1
    some (d2, o)

/-- loop-side events that are not tied to a queue entry -/
def internal (d : DState) : List Ev :=
  let cs := List.range d.ncalls
  let s := d.s
  (cs.filter (fun c => decide (s.pc c = .running) && (s.cancelReq c || s.groupCancel))).map
    (fun c => .finish c .cancelled) ++
  (if d.exitReq then [.exit] else [])

def fireFirst (d : DState) : List Ev → Option DState
  | [] => none
  | e :: es =>
    match fire d e with
    | some (d', _) => some d'
    | none => fireFirst d es

def fireD (d : DState) (e : Ev) : DState :=
  match fire d e with
  | some (d', _) => d'
  | none => d

/-- run the head of the ready queue -/
def runItem (d : DState) (it : Item) : DState :=
  match it with
  | .spawnCall c =>
    let d1 := fireD d (.spawn c)
    if d1.s.pc c = .spawned then { d1 with ready := d1.ready ++ [.stepCall c] } else d1
  | .stepCall c =>
    let d1 := match d.syncOut.find? (·.1 = c) with
      | some (_, o) => fireD d (.beginSync c o)
      | none => fireD d (.begin c)
    if d1.wantStarted.contains c then fireD d1 (.started c c) else d1
  | .stopCall cr => { d with ready := d.ready ++ [.stopStep cr] }
  | .stopStep cr => fireD d (.stop cr)
  | .blocker => { d with blocked := true }

def settle : Nat → DState → DState
  | 0, d => d
  | n + 1, d =>
    if d.blocked then d else
    match d.ready with
    | it :: rest => settle n (runItem { d with ready := rest } it)
    | [] =>
      match fireFirst d (internal d) with
      | none => d
      | some d' => settle n d'

def obs (d : DState) : String :=
  let s := d.s
  let cs := List.range d.ncalls
  let per := (cs.filter (fun c => decide (s.pc c ≠ .none))).map (fun c =>
    let f := if s.pc c = .refused then "refused" else futStr (s.fut c)
    let st := if s.kind c = .task ∧ s.pc c ≠ .refused then statusStr (s.status c) else "-"
    s!"{c}={f}/{s.execs c}/{st}")
  s!"exited={Driver.bool01 (decide (s.portal = .stopped))} live={s.live.length} | " ++
    " ".intercalate per

def handle (d : DState) : List String → DState × String
  | ["new"] => ({ DState.init with hits := d.hits }, "ok")
  | ["obs"] => (d, obs d)
  | ["settle"] => (settle 10000 d, "ok")
  | ["block"] =>
    if d.blocked then ({ d with ready := d.ready ++ [.blocker] }, "ok")
    else ({ d with blocked := true }, "ok")
  | ["unblock"] => ({ d with blocked := false }, "ok")
  | ["hits"] => (d, " ".intercalate (d.hits.map (fun p => s!"{p.1}={p.2}")))
  | ["state"] =>
    (d, s!"portal={portalStr d.s.portal} groupcancel={Driver.bool01 d.s.groupCancel}")
  | "issue" :: c :: rest =>
    match c.toNat? with
    | none => (d, "bad-op")
    | some c =>
      let plan : Option (Kind × DState) :=
        match rest with
        | ["sync", "v"] => some (.sync, { d with syncOut := (c, .val c) :: d.syncOut })
        | ["sync", "e"] => some (.sync, { d with syncOut := (c, .exc c) :: d.syncOut })
        | ["coro"] => some (.coro, d)
        | ["task", "s0"] => some (.task, d)
        | ["task", "s1"] => some (.task, { d with wantStarted := c :: d.wantStarted })
        | _ => none
      match plan with
      | none => (d, "bad-op")
      | some (k, d1) =>
        match fire d1 (.issue c k) with
        | none => (d, "DISABLED")
        | some (d2, o) =>
          if o = .runtimeError then (d2, outStr o)
          else ({ d2 with ready := d2.ready ++ [.spawnCall c] }, outStr o)
  | ["finish", c, k] =>
    match c.toNat? with
    | none => (d, "bad-op")
    | some c =>
      let o : Option Outcome := if k = "v" then some (.val c) else if k = "e" then some (.exc c) else none
      match o with
      | none => (d, "bad-op")
      | some o =>
        match fire d (.finish c o) with
        | none => (d, "DISABLED")
        | some (d', r) => (d', outStr r)
  | ["cancelfut", c] =>
    match c.toNat? with
    | none => (d, "bad-op")
    | some c =>
      match fire d (.cancelFuture c) with
      | none => (d, "DISABLED")
      | some (d', r) => (d', outStr r)
  | ["stop", cr] =>
    match Driver.parseBool cr with
    | none => (d, "bad-op")
    | some cr =>
      if d.s.portal = .running then ({ d with ready := d.ready ++ [.stopCall cr] }, "env")
      else (d, "DISABLED")
  | ["stopinloop", cr] =>
    -- `await portal.stop(cr)` executed by code that is already running in the loop (the only way to
    -- stop a second time, e.g. with cancel_remaining after a polite stop)
    match Driver.parseBool cr with
    | none => (d, "bad-op")
    | some cr =>
      match fire d (.stop cr) with
      | none => (d, "DISABLED")
      | some (d', r) => (d', outStr r)
  | ["exitreq", x] =>
    match Driver.parseBool x with
    | none => (d, "bad-op")
    | some x =>
      let d1 := { d with exitReq := true }
      if d.s.portal = .running then ({ d1 with ready := d1.ready ++ [.stopCall x] }, "ok")
      else (d1, "ok")
  | ["spawn", c] =>
    match c.toNat? with
    | none => (d, "bad-op")
    | some c =>
      match fire d (.spawn c) with
      | none => (d, "DISABLED")
      | some (d', r) => (d', outStr r)
  | ["begin", c] =>
    match c.toNat? with
    | none => (d, "bad-op")
    | some c =>
      match fire d (.begin c) with
      | none => (d, "DISABLED")
      | some (d', r) => (d', outStr r)
  | _ => (d, "bad-op")

end Driver.Portal

def main : IO Unit := Driver.serve Driver.Portal.DState.init Driver.Portal.handle
