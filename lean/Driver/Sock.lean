import Driver.Common
import AnyioModel.Stream.Socket

namespace Driver.Sock
open AnyioModel.Stream.Socket

/-- "1.2.3" -> [1,2,3]; "-" -> [] -/
def parseBytes (w : String) : Option Bytes :=
  if w = "-" then some [] else (w.splitOn ".").mapM String.toNat?

def showBytes (b : Bytes) : String :=
  if b.isEmpty then "-" else ".".intercalate (b.map toString)

def parseNats (w : String) : Option (List Nat) :=
  if w = "-" then some [] else (w.splitOn ",").mapM String.toNat?

def outStr : Out → String
  | .susp => "susp"
  | .ret => "ret"
  | .retData d => "ret " ++ showBytes d
  | .eos => "eos"
  | .closedErr => "closed"
  | .broken => "broken"
  | .busy => "busy"
  | .valueError => "valueerror"
  | .runtimeError => "runtimeerror"
  | .cancelled => "cancelled"
  | .env => "env"

def parseEv : List String → Option Ev
  | ["receive", t, n] => do some (.receive (← t.toNat?) (← n.toNat?))
  | ["send", t, p] => do some (.send (← t.toNat?) (← parseBytes p))
  | ["send_eof", t] => do some (.sendEof (← t.toNat?))
  | ["aclose", t] => do some (.aclose (← t.toNat?))
  | ["step", t] => do some (.step (← t.toNat?))
  | ["fc", t] => do some (.fc (← t.toNat?))
  | ["mc", t] => do some (.fc (← t.toNat?))
  | ["data", p] => do some (.dataReceived (← parseBytes p))
  | ["eof"] => some .eofReceived
  | ["lost", b] => do some (.connectionLost (← Driver.parseBool b))
  | ["pause"] => some .pauseWriting
  | ["resume"] => some .resumeWriting
  | _ => none

def recvOutStr : RecvOut → String
  | .data d => "ret:" ++ showBytes d
  | .eos => "eos"
  | .valueError => "valueerror"

/-- items of the given sizes, bytes numbered by position in the whole stream mod 239 -/
def usendAll : List Nat → List Nat → Bytes → Bytes
  | [], _, acc => acc
  | k :: ks, script, acc =>
    let item := (List.range k).map (fun i => (acc.length + i) % 239)
    let r := unixSend item script
    usendAll ks r.2 (acc ++ r.1)

def parseRecvScript (w : String) : Option (List (Option Bytes)) :=
  if w = "-" then some []
  else (w.splitOn ";").mapM (fun x => if x = "b" then some none else (parseBytes x).map some)

def handle (s : State) : List String → State × String
  | ["new", r] =>
    match Driver.parseBool r with
    | some b => ({ init with reading := b }, "ok")
    | none => (s, "bad-op")
  | ["nop"] => (s, "env")
  | ["obs"] =>
    (s, s!"reading={Driver.bool01 s.reading} closing={Driver.bool01 s.closing} weof={Driver.bool01 s.weof} wrote={s.written.length}:{s.written.foldl (· + ·) 0 % 65521}")
  | ["usend", sizes, script] =>
    match parseNats sizes, parseNats script with
    | some ks, some sc => (s, "sent " ++ showBytes (usendAll ks sc []))
    | _, _ => (s, "bad-op")
  | ["urecv", script, recvs] =>
    match parseRecvScript script, parseNats recvs with
    | some sc, some ns => (s, " ".intercalate ((unixRecv ns [] sc).map recvOutStr))
    | _, _ => (s, "bad-op")
  | ws =>
    match parseEv ws with
    | none => (s, "bad-op")
    | some e =>
      match step s e with
      | none => (s, "DISABLED")
      | some (s', o) => (s', outStr o)

end Driver.Sock

def main : IO Unit := Driver.serve AnyioModel.Stream.Socket.init Driver.Sock.handle
