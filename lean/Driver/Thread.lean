import Driver.Common
import AnyioModel.Thread.Worker

/-!
Line-protocol driver for the `to_thread.run_sync` model (exe `md_thread`).

Harness-level requests (what the harness itself does to the real code):
  new TOTAL | call C AB PRE | cancel C | finish C (v|e) N | settotal N | settle | obs
`settle` plays the loop and the OS scheduler: it fires the internal events (`resume`, `report`,
`deliver`, `tokenGranted`, `dispatch`, `threadStart`/`threadSkip`) through `step` until none is
enabled; `threadFinish` is never fired by `settle` (the harness's gates decide it).
Raw events are available too: granted/dispatch/tstart/tskip/report/deliver/resume/prune C.
-/
namespace Driver.Thread
open AnyioModel AnyioModel.Thread.Worker

structure DState where
  s      : State
  ncalls : Nat
  /-- call ↦ what `resume` reported, in order of resumption -/
  rets   : List (Nat × String)
  /-- worker ↦ last call dispatched to it -/
  lastJob : List (Nat × Nat)
  /-- call ↦ the call that used the same worker immediately before (or none) -/
  prev   : List (Nat × Option Nat)
  /-- branch-hit counters -/
  hits   : List (String × Nat)
  /-- calls in the order their tokens were granted: the woken tasks resume (and dispatch) in that
  order, as the event loop runs their wake-ups FIFO -/
  granted : List Nat := []

def DState.init (total : Nat) : DState :=
  { s := AnyioModel.Thread.Worker.init total, ncalls := 0, rets := [], lastJob := [], prev := [], hits := [] }

def bump (h : List (String × Nat)) (k : String) : List (String × Nat) :=
  match h.find? (·.1 = k) with
  | some _ => h.map (fun p => if p.1 = k then (p.1, p.2 + 1) else p)
  | none => h ++ [(k, 1)]

def outcomeStr : Outcome → String
  | .val n => s!"v{n}"
  | .exc n => s!"e{n}"

def outStr : Out → String
  | .susp => "susp"
  | .ret o p => s!"ret:{outcomeStr o}:p{Driver.bool01 p}"
  | .cancelled => "cancelled"
  | .env => "env"

def pcStr : Pc → String
  | .none => "none" | .early => "early" | .waitingToken => "waiting" | .wcancel => "wcancel"
  | .granted => "granted" | .awaiting => "awaiting" | .resolved => "resolved"
  | .abandoned => "abandoned" | .returned => "returned"

def thStr : Th → String
  | .idle => "idle" | .queued => "queued" | .running => "running" | .finished => "finished"
  | .over => "over"

def evTag : Ev → String
  | .call _ _ pre => if pre then "call-pre" else "call"
  | .tokenGranted _ => "tokenGranted"
  | .dispatch _ => "dispatch"
  | .threadStart _ => "threadStart"
  | .threadSkip _ => "threadSkip"
  | .threadFinish _ (.val _) => "threadFinish-val"
  | .threadFinish _ (.exc _) => "threadFinish-exc"
  | .report _ => "report"
  | .callerCancelled _ => "callerCancelled"
  | .deliver _ => "deliver"
  | .resume _ => "resume"
  | .setTotal _ => "setTotal"
  | .prune => "prune"

/-- fire one event through the model, keeping the driver's bookkeeping -/
def fire (d : DState) (e : Ev) : Option (DState × Out) :=
  match step d.s e with
  | none => none
  | some (s', o) =>
    let tag := match e, o with
      | .resume _, .ret _ true => "resume-ret-pendingcancel"
      | .resume _, .ret _ false => "resume-ret"
      | .resume _, .cancelled =>
        (match d.s.pc (match e with | .resume c => c | _ => 0) with
         | .early => "resume-early" | .wcancel => "resume-wcancel" | _ => "resume-abandoned")
      | .report c, _ => if d.s.fut c = .pending then "report-resolve" else "report-dropped"
      | .callerCancelled c, _ => "callerCancelled@" ++ pcStr (d.s.pc c)
      | .dispatch _, _ => if d.s.idle.isEmpty then "dispatch-new-worker" else "dispatch-reuse"
      | _, _ => evTag e
    let d1 := { d with s := s', hits := bump d.hits tag }
    let d2 := match e with
      | .call c _ _ => { d1 with ncalls := max d1.ncalls (c + 1) }
      | .dispatch c =>
        let w := s'.worker c
        let p := (d.lastJob.find? (·.1 = w)).map (·.2)
        { d1 with prev := d1.prev ++ [(c, p)],
                  lastJob := (w, c) :: d.lastJob.filter (·.1 ≠ w) }
      | .resume c => { d1 with rets := d1.rets ++ [(c, outStr o)] }
      | .tokenGranted c => { d1 with granted := d1.granted.filter (· ≠ c) ++ [c] }
      | _ => d1
    some (d2, o)

/-- candidates for the internal events, in the priority order `settle` tries them -/
def internal (d : DState) : List Ev :=
  let cs := List.range d.ncalls
  cs.map .resume ++ cs.map .report ++
  (cs.filter (fun c => d.s.cancelReq c &&
      (decide (d.s.pc c = .waitingToken) || (decide (d.s.pc c = .awaiting) && d.s.abandon c)))).map
    .deliver ++
  cs.map .tokenGranted ++
  -- dispatch in grant order first (calls never granted through the queue keep index order)
  d.granted.map .dispatch ++ (cs.filter (fun c => !d.granted.contains c)).map .dispatch ++
  cs.map .threadStart ++ cs.map .threadSkip

def fireFirst (d : DState) : List Ev → Option DState
  | [] => none
  | e :: es =>
    match fire d e with
    | some (d', _) => some d'
    | none => fireFirst d es

def settle : Nat → DState → DState
  | 0, d => d
  | n + 1, d =>
    match fireFirst d (internal d) with
    | none => d
    | some d' => settle n d'

def obs (d : DState) : String :=
  let s := d.s
  let cs := List.range d.ncalls
  let exec := (cs.filter (fun c => decide (s.th c = .running))).length
  let execLive := (cs.filter (fun c => decide (s.th c = .running) && decide (s.fut c = .pending))).length
  let per := cs.map (fun c =>
    let got := match (d.rets.find? (·.1 = c)) with
      | some (_, r) => r
      | none => "-"
    let pv := match (d.prev.find? (·.1 = c)) with
      | some (_, some p) => toString p
      | some (_, none) => "new"
      | none => "-"
    s!"{c}={pcStr (s.pc c)}/{thStr (s.th c)}/{got}/{pv}")
  s!"borrowed={s.borrowers.length} waiting={s.waitq.length} idle={s.idle.length} " ++
  s!"workers={s.nworkers} exec={exec} execlive={execLive} | " ++ " ".intercalate per

def parseOutcome (k n : String) : Option Outcome := do
  let m ← n.toNat?
  if k = "v" then some (.val m) else if k = "e" then some (.exc m) else none

def parseEv : List String → Option Ev
  | ["call", c, ab, pre] => do
    some (.call (← c.toNat?) (← Driver.parseBool ab) (← Driver.parseBool pre))
  | ["cancel", c] => do some (.callerCancelled (← c.toNat?))
  | ["finish", c, k, n] => do some (.threadFinish (← c.toNat?) (← parseOutcome k n))
  | ["settotal", n] => do some (.setTotal (← n.toNat?))
  | ["granted", c] => do some (.tokenGranted (← c.toNat?))
  | ["dispatch", c] => do some (.dispatch (← c.toNat?))
  | ["tstart", c] => do some (.threadStart (← c.toNat?))
  | ["tskip", c] => do some (.threadSkip (← c.toNat?))
  | ["report", c] => do some (.report (← c.toNat?))
  | ["deliver", c] => do some (.deliver (← c.toNat?))
  | ["resume", c] => do some (.resume (← c.toNat?))
  | ["prune"] => some .prune
  | _ => none

def handle (d : DState) : List String → DState × String
  | ["new", n] =>
    match n.toNat? with
    | some t => ({ DState.init t with hits := d.hits }, "ok")
    | none => (d, "bad-op")
  | ["obs"] => (d, obs d)
  | ["settle"] =>
    let d' := settle 10000 d
    (d', "ok")
  | ["hits"] => (d, " ".intercalate (d.hits.map (fun p => s!"{p.1}={p.2}")))
  | ws =>
    match parseEv ws with
    | none => (d, "bad-op")
    | some e =>
      match fire d e with
      | none => (d, "DISABLED")
      | some (d', o) => (d', outStr o)

end Driver.Thread

def main : IO Unit := Driver.serve (Driver.Thread.DState.init 1) Driver.Thread.handle
