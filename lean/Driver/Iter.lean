import Driver.Common
import AnyioModel.Iter.Itertools
import AnyioModel.Iter.Reduce

/-!
Line protocol of `md_iter` (stateless).  A request is

    <function> <arg> ... : <int> ... [; <int> ... ;]

arguments are integers, `N` (Python `None`) or callback names; functions over several
iterables terminate every iterable with `;`.  The reply evaluates BOTH definitions:

    impl=<result> spec=<result>      result = ok:[v,v,...] | ok:v | err:TypeError | err:ValueError

values are integers or tuples `(v,v,...)`.
-/
namespace Driver.Iter
open AnyioModel.Iter

inductive Val where
  | i (n : Int)
  | t (xs : List Val)

partial def Val.render : Val → String
  | .i n => toString n
  | .t xs => "(" ++ ",".intercalate (xs.map Val.render) ++ ")"

def errStr : ErrKind → String
  | .typeError => "err:TypeError"
  | .valueError => "err:ValueError"

def renderRes {β : Type} (f : β → Val) : Except ErrKind (List β) → String
  | .error e => errStr e
  | .ok xs => "ok:[" ++ ",".intercalate (xs.map fun x => (f x).render) ++ "]"

def renderOne : Except ErrKind Int → String
  | .error e => errStr e
  | .ok v => "ok:" ++ toString v

def vInt (n : Int) : Val := .i n
def vList (xs : List Int) : Val := .t (xs.map .i)
def vPair (p : Int × Int) : Val := .t [.i p.1, .i p.2]
def vGroup (p : Int × List Int) : Val := .t [.i p.1, vList p.2]

def both (a b : String) : String := s!"impl={a} spec={b}"

/-- `N` -> none, integer -> some; anything else fails -/
def optInt (s : String) : Option (Option Int) :=
  if s = "N" then some none else s.toInt?.map some

def ints (ws : List String) : Option (List Int) := ws.mapM String.toInt?

/-- `a b ; ; c ;` -> [[a,b],[],[c]] -/
def lists (ws : List String) : Option (List (List Int)) :=
  let rec go (cur : List Int) (acc : List (List Int)) : List String → Option (List (List Int))
    | [] => if cur.isEmpty then some acc.reverse else none
    | w :: rest =>
      if w = ";" then go [] (cur.reverse :: acc) rest
      else match w.toInt? with
        | none => none
        | some n => go (n :: cur) acc rest
  go [] [] ws

def binop : String → Option (Int → Int → Int)
  | "add" => some (· + ·)
  | "sub" => some (· - ·)
  | "mul" => some (· * ·)
  | "max" => some max
  | "lin" => some fun a b => 2 * a + b
  | _ => none

def pred : String → Option (Int → Bool)
  | "lt1" => some (· < 1)
  | "lt2" => some (· < 2)
  | "even" => some fun x => x % 2 = 0
  | "eq1" => some (· = 1)
  | "true" => some fun _ => true
  | "false" => some fun _ => false
  | _ => none

def keyf : String → Option (Int → Int)
  | "none" => some id          -- key=None
  | "id" => some id
  | "parity" => some (· % 2)
  | "const" => some fun _ => 0
  | _ => none

def starf : String → Option (List Int → Int)
  | "sum" => some List.sum
  | "len" => some fun a => a.length
  | "first" => some fun a => a.headD 0
  | _ => none

def splitColon (ws : List String) : List String × List String :=
  (ws.takeWhile (· ≠ ":"), (ws.dropWhile (· ≠ ":")).drop 1)

def handleReq (name : String) (args body : List String) : Option String :=
  match name, args with
  | "accumulate", [op, ini] => do
    let f ← binop op; let i ← optInt ini; let xs ← ints body
    some (both (renderRes vInt (impl_accumulate f i xs)) (renderRes vInt (spec_accumulate f i xs)))
  | "batched", [n, strict] => do
    let n ← optInt n; let st ← Driver.parseBool strict; let xs ← ints body
    some (both (renderRes vList (impl_batched n st xs)) (renderRes vList (spec_batched n st xs)))
  | "chain", [] => do
    let xss ← lists body
    some (both (renderRes vInt (impl_chain xss)) (renderRes vInt (spec_chain xss)))
  | "chain_from_iterable", [] => do
    let xss ← lists body
    some (both (renderRes vInt (impl_chain_from_iterable xss))
      (renderRes vInt (spec_chain_from_iterable xss)))
  | "combinations", [r] => do
    let r ← optInt r; let xs ← ints body
    some (both (renderRes vList (impl_combinations std_combinations r xs))
      (renderRes vList (spec_combinations std_combinations r xs)))
  | "combinations_with_replacement", [r] => do
    let r ← optInt r; let xs ← ints body
    some (both
      (renderRes vList (impl_combinations_with_replacement std_combinations_with_replacement r xs))
      (renderRes vList (spec_combinations_with_replacement std_combinations_with_replacement r xs)))
  | "permutations", [r] => do
    let r ← optInt r; let xs ← ints body
    some (both (renderRes vList (impl_permutations std_permutations r xs))
      (renderRes vList (spec_permutations std_permutations r xs)))
  | "product", [r] => do
    let r ← optInt r; let xss ← lists body
    some (both (renderRes vList (impl_product std_product r xss))
      (renderRes vList (spec_product std_product r xss)))
  | "compress", [] => do
    match ← lists body with
    | [ds, ss] =>
      let sb : List Bool := ss.map fun s => decide (s ≠ 0)
      some (both (renderRes vInt (impl_compress ds sb)) (renderRes vInt (spec_compress ds sb)))
    | _ => none
  | "count", [tk, start, step] => do
    let tk ← tk.toNat?; let a ← start.toInt?; let b ← step.toInt?
    some (both (renderRes vInt (impl_count tk a b)) (renderRes vInt (spec_count tk a b)))
  | "cycle", [tk] => do
    let tk ← tk.toNat?; let xs ← ints body
    some (both (renderRes vInt (impl_cycle tk xs)) (renderRes vInt (spec_cycle tk xs)))
  | "repeat", [tk, x, times] => do
    let tk ← tk.toNat?; let x ← x.toInt?; let t ← optInt times
    some (both (renderRes vInt (impl_repeat tk x t)) (renderRes vInt (spec_repeat tk x t)))
  | "dropwhile", [p] => do
    let p ← pred p; let xs ← ints body
    some (both (renderRes vInt (impl_dropwhile p xs)) (renderRes vInt (spec_dropwhile p xs)))
  | "filterfalse", [p] => do
    let p ← pred p; let xs ← ints body
    some (both (renderRes vInt (impl_filterfalse p xs)) (renderRes vInt (spec_filterfalse p xs)))
  | "takewhile", [p] => do
    let p ← pred p; let xs ← ints body
    some (both (renderRes vInt (impl_takewhile p xs)) (renderRes vInt (spec_takewhile p xs)))
  | "groupby", [k] => do
    let k ← keyf k; let xs ← ints body
    some (both (renderRes vGroup (impl_groupby k xs)) (renderRes vGroup (spec_groupby k xs)))
  | "islice", as => do
    let as ← as.mapM optInt; let xs ← ints body
    some (both (renderRes vInt (impl_islice as xs)) (renderRes vInt (spec_islice as xs)))
  | "pairwise", [] => do
    let xs ← ints body
    some (both (renderRes vPair (impl_pairwise xs)) (renderRes vPair (spec_pairwise xs)))
  | "starmap", [f] => do
    let f ← starf f; let xss ← lists body
    some (both (renderRes vInt (impl_starmap f xss)) (renderRes vInt (spec_starmap f xss)))
  | "zip_longest", [fill] => do
    let fill ← fill.toInt?; let xss ← lists body
    some (both (renderRes vList (impl_zip_longest fill xss))
      (renderRes vList (spec_zip_longest fill xss)))
  | "reduce", [op, ini, src] => do
    let f ← binop op; let i ← optInt ini; let xs ← ints body
    let s ← (if src = "sync" then some Src.sync else if src = "async" then some Src.async else none)
    some (both (renderOne (impl_reduce s f i xs)) (renderOne (spec_reduce f i xs)))
  | _, _ => none

def handle (s : Unit) (ws : List String) : Unit × String :=
  match ws with
  | [] => (s, "bad-op")
  | name :: rest =>
    let (args, body) := splitColon rest
    match handleReq name args body with
    | some r => (s, r)
    | none => (s, "bad-op")

end Driver.Iter

def main : IO Unit := Driver.serve () Driver.Iter.handle
