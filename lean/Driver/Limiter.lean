import Driver.Common
import AnyioModel.Sync.Limiter

namespace Driver.Limiter
open AnyioModel.Sync.Limiter

def outStr : Out → String
  | .susp => "susp"
  | .ret => "ret"
  | .wouldBlock => "wouldblock"
  | .runtimeError => "runtimeerror"
  | .cancelled => "cancelled"
  | .env => "env"

/-- `inf` = `math.inf` -/
def parseTotal (s : String) : Option (Option Nat) :=
  if s = "inf" then some none else (s.toNat?).map some

def parseEv : List String → Option Ev
  | ["acquire", t, pre] => do some (.acquire (← t.toNat?) (← Driver.parseBool pre))
  | ["acquire_nowait", t] => do some (.acquireNowait (← t.toNat?))
  | ["release", t] => do some (.release (← t.toNat?))
  | ["acquire_on_behalf_of", t, b, pre] =>
    do some (.acquireOnBehalf (← t.toNat?) (← b.toNat?) (← Driver.parseBool pre))
  | ["acquire_on_behalf_of_nowait", t, b] =>
    do some (.acquireOnBehalfNowait (← t.toNat?) (← b.toNat?))
  | ["release_on_behalf_of", t, b] => do some (.releaseOnBehalf (← t.toNat?) (← b.toNat?))
  | ["set_total", v] => do some (.setTotal (← parseTotal v))
  | ["step", t] => do some (.step (← t.toNat?))
  | ["fc", t] => do some (.fc (← t.toNat?))
  | ["mc", t] => do some (.mc (← t.toNat?))
  | _ => none

def insertSorted (x : Nat) : List Nat → List Nat
  | [] => [x]
  | y :: ys => if x ≤ y then x :: y :: ys else y :: insertSorted x ys

def sortNat (l : List Nat) : List Nat := l.foldr insertSorted []

def totalStr : Option Nat → String
  | none => "inf"
  | some n => toString n

def availStr (s : State) : String :=
  match s.total with
  | none => "inf"
  | some n => toString ((n : Int) - (s.borrowers.length : Int))

/-- requests: `new <total|inf>`, `obs`, `set_total_bad neg|type` (the setter's argument
validation, which precedes any state change), or an event.  The reply to an event carries
`!` when the event violates the `OneWaitPerBorrower`/`ReleaseAfterReturn` discipline. -/
def handle (s : State) : List String → State × String
  | ["new", v] =>
    match parseTotal v with
    | some v => (init v, "ok")
    | none => (s, "bad-op")
  | ["obs"] =>
    (s, s!"borrowed={s.borrowers.length} total={totalStr s.total} available={availStr s} " ++
        s!"waiting={s.queue.length} borrowers={",".intercalate ((sortNat s.borrowers).map toString)}")
  | ["skip"] => (s, "skipped")
  | ["ghost"] =>
    (s, s!"holders={",".intercalate ((sortNat s.holders).map toString)} resv={s.resv.length} " ++
        s!"grants={s.grants} rels={s.rels} lowered={Driver.bool01 s.lowered}")
  | ["set_total_bad", "neg"] => (s, "valueerror")
  | ["set_total_bad", "type"] => (s, "typeerror")
  | ws =>
    match parseEv ws with
    | none => (s, "bad-op")
    | some e =>
      match step s e with
      | none => (s, "DISABLED")
      | some (s', o) => (s', outStr o ++ (if okEv s e then "" else " !"))

end Driver.Limiter

def main : IO Unit := Driver.serve (AnyioModel.Sync.Limiter.init none) Driver.Limiter.handle
