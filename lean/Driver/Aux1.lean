import Driver.Common

/-- placeholder driver: replies `unimplemented` to every request -/
def main : IO Unit := Driver.serve () (fun s _ => (s, "unimplemented"))
