import Driver.Common
import Driver.Hex
import AnyioModel.Stream.TextCodecs

/-
md_text: one request line = one whole case

  recv <encoding> <chunks>     chunks as in md_buffered (`-` none, hex, `.` empty chunk)
      reply: the strings returned by successive `TextReceiveStream.receive()` calls until one
      raises, each as dot separated hex code points, then `!eos` or `!decode`
  send <encoding> <items>      `-` or comma separated items, each dot separated hex code
      points (`_` = empty string)
      reply: comma separated hex chunks put on the transport (`-` none), then `!ok` / `!encode`

encodings: utf-8 latin-1 utf-16 utf-16-le utf-16-be utf-32 utf-32-le utf-32-be
-/
namespace Driver.Text
open AnyioModel.Stream.Text
open Driver.Hex

def parseHexNat (s : String) : Option Nat :=
  if s.isEmpty then none
  else s.toList.foldlM (fun acc c => do some (16 * acc + (← hexDigit c))) 0

def hexNatAux : Nat → Nat → List Char → List Char
  | 0, _, acc => acc
  | f + 1, n, acc => if n < 16 then hexChar n :: acc else hexNatAux f (n / 16) (hexChar (n % 16) :: acc)

def hexNat (n : Nat) : String := String.ofList (hexNatAux 8 n [])

def parseItem (s : String) : Option (List Char) :=
  if s = "_" then some [] else (s.splitOn ".").mapM fun w => (parseHexNat w).map Char.ofNat

def strOut (s : List Char) : String := ".".intercalate (s.map fun c => hexNat c.toNat)

def errStr : Err → String
  | .eos => "eos"
  | .decode => "decode"
  | .encode => "encode"

def recvWith {σ : Type} (D : Decoder σ Char) (chunks : List (List UInt8)) : String :=
  let (outs, e) := receiveAll D chunks
  " ".intercalate (outs.map strOut ++ ["!" ++ errStr e])

def sendWith {τ : Type} (E : Encoder τ Char) (items : List (List Char)) : String :=
  let (wire, e) := sendAll E E.init items
  (if wire.isEmpty then "-" else ",".intercalate (wire.map toHex)) ++
    (match e with | none => " !ok" | some e => " !" ++ errStr e)

def handle (_ : Unit) : List String → Unit × String
  | ["recv", enc, chunks] =>
    match parseList parseHex chunks with
    | none => ((), "bad-op")
    | some ch =>
      ((), match enc with
        | "utf-8" => recvWith utf8Decoder ch
        | "latin-1" => recvWith latin1Decoder ch
        | "utf-16" => recvWith (utf16Decoder none) ch
        | "utf-16-le" => recvWith (utf16Decoder (some true)) ch
        | "utf-16-be" => recvWith (utf16Decoder (some false)) ch
        | "utf-32" => recvWith (utf32Decoder none) ch
        | "utf-32-le" => recvWith (utf32Decoder (some true)) ch
        | "utf-32-be" => recvWith (utf32Decoder (some false)) ch
        | _ => "bad-encoding")
  | ["send", enc, items] =>
    match parseList parseItem items with
    | none => ((), "bad-op")
    | some it =>
      ((), match enc with
        | "utf-8" => sendWith utf8Encoder it
        | "latin-1" => sendWith latin1Encoder it
        | "utf-16" => sendWith (utf16Encoder none) it
        | "utf-16-le" => sendWith (utf16Encoder (some true)) it
        | "utf-16-be" => sendWith (utf16Encoder (some false)) it
        | "utf-32" => sendWith (utf32Encoder none) it
        | "utf-32-le" => sendWith (utf32Encoder (some true)) it
        | "utf-32-be" => sendWith (utf32Encoder (some false)) it
        | _ => "bad-encoding")
  | _ => ((), "bad-op")

end Driver.Text

def main : IO Unit := Driver.serve () Driver.Text.handle
