/-
Hex / list parsing helpers shared by md_buffered and md_text.
-/
namespace Driver.Hex

def hexDigit (c : Char) : Option Nat :=
  if '0' ≤ c ∧ c ≤ '9' then some (c.toNat - '0'.toNat)
  else if 'a' ≤ c ∧ c ≤ 'f' then some (c.toNat - 'a'.toNat + 10)
  else none

def parseHexList : List Char → Option (List UInt8)
  | [] => some []
  | a :: b :: rest => do
    let x ← hexDigit a
    let y ← hexDigit b
    let tl ← parseHexList rest
    some (UInt8.ofNat (16 * x + y) :: tl)
  | _ => none

def parseHex (s : String) : Option (List UInt8) :=
  if s = "." then some [] else parseHexList s.toList

def hexChar (n : Nat) : Char :=
  if n < 10 then Char.ofNat ('0'.toNat + n) else Char.ofNat ('a'.toNat + n - 10)

def toHex (bs : List UInt8) : String :=
  if bs.isEmpty then "."
  else String.ofList (bs.flatMap fun b => [hexChar (b.toNat / 16), hexChar (b.toNat % 16)])

def parseList {α : Type} (f : String → Option α) (s : String) : Option (List α) :=
  if s = "-" then some [] else (s.splitOn ",").mapM f

end Driver.Hex
