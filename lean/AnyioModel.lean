import AnyioModel.Util.LTS
import AnyioModel.Sync.Lock
import AnyioModel.Sync.LockProofs
import AnyioModel.Props.C09
