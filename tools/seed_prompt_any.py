#!/usr/bin/env python3
"""Prompt for a 'break any property' seeding sub-agent restricted to an area of the source.
usage: seed_prompt_any.py <worktree dir> <area description>"""
import json, sys
wt, area = sys.argv[1], sys.argv[2]
props = [json.loads(l) for l in open("/verif/properties.jsonl")]
plist = "\n\n".join(f"{p['id']} {p['title']}\n  {p['statement']}" for p in props)
print(f"""You are a careful adversarial software engineer. You work ONLY inside the git worktree {wt} (a checkout of the Python library AnyIO, asyncio backend; run Python as `PYTHONPATH={wt}/src /venv/bin/python`, run tests as `cd {wt} && PYTHONPATH={wt}/src /venv/bin/python -m pytest -q -p no:cacheprovider <test files>`; there is no network; the trio backend is not installed, ignore it). Do not read or write anything under /verif or /repo, and do not look at other /tmp/seed* directories.

Here are 20 semantic properties that the library is supposed to satisfy:

{plist}

Your task: produce 4 DIFFERENT small, realistic source changes, each a separate patch against the clean worktree, each confined to this area of the source: {area}. For each change, with the change applied:
  (1) the library still imports and the existing test suite still passes - at least the test files that exercise the changed code (run them; say which you ran and the pass counts; tests that already fail on the clean worktree for environment reasons such as missing IPv6/DNS do not count);
  (2) AT LEAST ONE of the 20 properties above is BROKEN (say which), but only under specific circumstances - a particular interleaving, a cancellation or fault at a particular point, a multi-step sequence of operations, an unusual input, or two cooperating sites that each look fine alone - NOT something ordinary use would expose at once. Prefer changes in helper code, shared utilities, rarely used parameters, error paths and glue (argument handling, wrappers, adapters, statistics, context managers) over the single most obvious function;
  (3) you have a demonstration: a small standalone program `demo.py` that exits 0 on the clean worktree and exits 1 (printing what went wrong) with your change applied, deterministic (no reliance on wall-clock races; use events/checkpoints to order things).
Think like a plausible refactoring mistake or an "optimisation" a contributor might make.

Procedure per change k = 1..4: start from a clean tree (`git -C {wt} checkout -- . && git -C {wt} status --short` must be empty), edit, run the demo (must exit 1), run the relevant tests (must pass), save the patch with `git -C {wt} diff > {wt}/seeded/<k>/patch.diff`, copy the demo to `{wt}/seeded/<k>/demo.py`, write `{wt}/seeded/<k>/meta.json` with keys: "property" (the id of the main property broken, e.g. "C12"), "also" (list of other property ids you believe are broken too), "summary" (one sentence: what the change does), "needs" (what specific circumstance makes it manifest), "tests_run" (commands and pass counts), "demo_clean_exit", "demo_patched_exit". Then revert the source (`git -C {wt} checkout -- src`) and verify the demo exits 0 again. (`seeded/` is untracked.)

When finished leave the worktree's tracked files clean. Final answer: for each change, its directory, the property broken, the one-sentence summary, what it needs to manifest, and the test results. Budget: about 60-90 minutes; quality over quantity.""")
