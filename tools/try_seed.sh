#!/bin/bash
# tools/try_seed.sh <seed-dir> <prop> [more props...]: confirm a seeded change (demo fails with it, passes
# without) on a scratch copy of /repo and run the given checks against that copy.
set -u
d="$1"; shift
scratch=$(mktemp -d /tmp/seedtry.XXXX)
cp -r /repo/src "$scratch/src"
( cd "$scratch" && patch -p1 -s < "$d/patch.diff" ) || { echo "PATCH FAILED"; rm -rf "$scratch"; exit 2; }
PYTHONPATH=/repo/src timeout 120 /venv/bin/python "$d/demo.py" >/dev/null 2>&1; echo "demo clean exit=$?"
PYTHONPATH="$scratch/src" timeout 120 /venv/bin/python "$d/demo.py" >/dev/null 2>&1; echo "demo patched exit=$?"
for p in "$@"; do
  ( cd /verif && ANYIO_REPO="$scratch" VERIF_SEED=${VERIF_SEED:-0} ./check "$p" 2>&1 | grep -E "VIOLATION|tier=" | head -4 )
done
rm -rf "$scratch"
