#!/usr/bin/env python3
"""Run every quick check against each behaviour-preserving refactoring in /verif/refactorings/<id>/patch.diff
(applied to a scratch copy of /repo/src): NO check may report a violation.  Writes refactorings/RESULTS.md."""
import json, os, shutil, subprocess, sys, tempfile
from pathlib import Path

ROOT = Path(__file__).resolve().parent.parent
ALL = [f"C{i:02d}" for i in range(1, 21)]


def main():
    pref = [a for a in sys.argv[1:] if not a.startswith("--")]
    only = [a[2:] for a in sys.argv[1:] if a.startswith("--C")]
    rows = []
    for d in sorted((ROOT / "refactorings").iterdir()):
        if not (d / "patch.diff").exists() or (pref and not any(d.name.startswith(p) for p in pref)):
            continue
        scratch = Path(tempfile.mkdtemp(prefix="refactry."))
        try:
            shutil.copytree("/repo/src", scratch / "src")
            p = subprocess.run(["patch", "-p1", "-s", "-i", str(d / "patch.diff")], cwd=scratch, capture_output=True, text=True)
            if p.returncode != 0:
                rows.append((d.name, "patch failed", ""))
                continue
            alarms = {}
            for chk in (only or ALL):
                try:
                    r = subprocess.run(["./check", chk], cwd=ROOT, capture_output=True, text=True, timeout=1500,
                                       env=dict(os.environ, ANYIO_REPO=str(scratch), VERIF_SEED="0"))
                except subprocess.TimeoutExpired:
                    alarms[chk] = "TIMEOUT"
                    continue
                v = [l for l in r.stdout.splitlines() if l.startswith("VIOLATION")]
                if v or r.returncode != 0:
                    alarms[chk] = (v[0] if v else f"exit {r.returncode}")[:160]
            meta = json.loads((d / "meta.json").read_text())
            if not only:
                meta["alarms"] = alarms
                (d / "meta.json").write_text(json.dumps(meta, indent=1))
            rows.append((d.name, "no check fired" if not alarms else "; ".join(f"{k}: {v}" for k, v in alarms.items()),
                         meta.get("summary", "")[:120]))
            print(rows[-1][0], rows[-1][1], flush=True)
        finally:
            shutil.rmtree(scratch, ignore_errors=True)
    if only:
        return
    out = ["# Behaviour-preserving refactorings: no check may fire", "",
           "| refactoring | result of all 20 quick checks | change |", "|---|---|---|"]
    f = ROOT / "refactorings" / "RESULTS.md"
    old = {}
    if f.exists():
        for l in f.read_text().splitlines():
            if l.startswith("| R"):
                old[l.split("|")[1].strip()] = l
    for r in rows:
        old[r[0]] = f"| {r[0]} | {r[1]} | {r[2]} |"
    f.write_text("\n".join(out + [old[k] for k in sorted(old)]) + "\n")


if __name__ == "__main__":
    main()
