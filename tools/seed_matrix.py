#!/usr/bin/env python3
"""Run every kept seeded change (seeded/<id>/patch.diff) against the checks of the property it breaks
(and extra checks named in EXTRA), on a scratch copy of /repo/src; write seeded/RESULTS.md and record
the outcome in each meta.json.  Usage: tools/seed_matrix.py [id-prefix ...]"""
import json, os, re, shutil, subprocess, sys, tempfile
from pathlib import Path

ROOT = Path(__file__).resolve().parent.parent
EXTRA = {"C04_2": ["C14"], "C09_3": ["C08"], "C05_2": ["C06"], "C03_5": ["C06"], "C04_6": ["C03"]}


def run(cmd, **kw):
    return subprocess.run(cmd, capture_output=True, text=True, **kw)


def main():
    pref = sys.argv[1:]
    rows = []
    for d in sorted((ROOT / "seeded").iterdir()):
        if not (d / "patch.diff").exists() or (pref and not any(d.name.startswith(p) for p in pref)):
            continue
        prop = d.name.split("_")[0]
        meta0 = json.loads((d / "meta.json").read_text())
        ALL = [f"C{i:02d}" for i in range(1, 21)]
        if prop.startswith(("A", "B")):
            # "any property" seeds (round 3, by source area): every check is run; the ones the author
            # named come first
            named = [meta0.get("property")] + list(meta0.get("also") or [])
            named = [x for x in named if x in ALL]
            checks = named + [c for c in ALL if c not in named]
        else:
            checks = [prop] + EXTRA.get(d.name, [])
        scratch = Path(tempfile.mkdtemp(prefix="seedtry."))
        try:
            shutil.copytree("/repo/src", scratch / "src")
            p = run(["patch", "-p1", "-s", "-i", str(d / "patch.diff")], cwd=scratch)
            if p.returncode != 0:
                rows.append((d.name, "patch failed", "", ""))
                continue
            env0 = dict(os.environ, PYTHONPATH="/repo/src")
            env1 = dict(os.environ, PYTHONPATH=str(scratch / "src"))
            c0 = run(["/venv/bin/python", str(d / "demo.py")], env=env0, timeout=300).returncode
            c1 = run(["/venv/bin/python", str(d / "demo.py")], env=env1, timeout=300).returncode
            det = {}
            for chk in checks:
                try:
                    r = run(["./check", chk], cwd=ROOT, env=dict(os.environ, ANYIO_REPO=str(scratch),
                                     VERIF_SEED=os.environ.get("SEED_MATRIX_SEED", "0")),
                            timeout=1500)
                except subprocess.TimeoutExpired:
                    det[chk] = "TIMEOUT (no verdict)"
                    continue
                if r.returncode == 2 and not any(l.startswith("VIOLATION") for l in r.stdout.splitlines()):
                    det[chk] = "no verdict (exit 2)"
                    continue
                lines = [l for l in r.stdout.splitlines() if l.startswith("VIOLATION")]
                if lines:
                    kind = "correspondence only (no-failing-input-found)" if all(
                        "no-failing-input-found" in l for l in lines) else "oracle: failing input on the real code"
                    det[chk] = kind
                elif not prop.startswith(("A", "B")) or chk in named:
                    det[chk] = "MISSED"
            meta = json.loads((d / "meta.json").read_text())
            meta["confirmed"] = {"demo_clean_exit": c0, "demo_patched_exit": c1,
                                 "how": "tools/seed_matrix.py: scratch copy of /repo/src + patch; demo on both; "
                                        "./check <id> --tier quick, VERIF_SEED=0, ANYIO_REPO=scratch"}
            meta["detected_by"] = det
            if not os.environ.get("SEED_MATRIX_NOWRITE"):
                (d / "meta.json").write_text(json.dumps(meta, indent=1))
            rows.append((d.name, f"{c0}/{c1}", "; ".join(f"{k}: {v}" for k, v in det.items()),
                         meta.get("summary", "")[:110]))
        finally:
            shutil.rmtree(scratch, ignore_errors=True)
    out = ["# Seeded changes and which checks catch them", "",
           "Each change compiles, passes the existing tests that touch it, and breaks the named property under "
           "specific circumstances (see its meta.json). `demo` = exit code on clean/patched tree.", "",
           "| seed | demo clean/patched | detected by (quick tier, seed 0) | change |", "|---|---|---|---|"]
    old = {}
    f = ROOT / "seeded" / "RESULTS.md"
    if f.exists() and pref:
        for l in f.read_text().splitlines():
            m = re.match(r"\| ([ABC]\d+_\d+) \|", l)
            if m:
                old[m.group(1)] = l
    for r in rows:
        old[r[0]] = f"| {r[0]} | {r[1]} | {r[2]} | {r[3]} |"
    out += [old[k] for k in sorted(old)]
    if not os.environ.get("SEED_MATRIX_NOWRITE"):
        f.write_text("\n".join(out) + "\n")
    print("\n".join(old[r[0]] for r in rows))


if __name__ == "__main__":
    main()
