#!/usr/bin/env python3
"""baseline_cmp.py <junit.xml>: compare a run of the repository's own test suite (command in
/root/.vp/BASELINE.json) with the list of stable passing tests recorded there."""
import json, sys
import xml.etree.ElementTree as ET

base = json.load(open("/root/.vp/BASELINE.json"))
stable = set(base["stable_pass"])
passed = set()
for tc in ET.parse(sys.argv[1]).getroot().iter("testcase"):
    if not any(ch.tag in ("failure", "error", "skipped") for ch in tc):
        passed.add(f"{tc.get('classname')}::{tc.get('name')}")
missing = sorted(stable - passed)
print(f"stable_pass={len(stable)} passed_now={len(passed)} stable_not_passing={len(missing)}")
for m in missing[:40]:
    print("  NOT PASSING:", m)
sys.exit(1 if missing else 0)
