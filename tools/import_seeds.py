#!/usr/bin/env python3
"""import_seeds.py Cxx <worktree>: copy the sub-agent's seeded/<k>/ directories into /verif/seeded/Cxx_<n>,
skipping patches whose changed lines equal an existing seed's."""
import json, os, shutil, sys

prop, wt = sys.argv[1], sys.argv[2]
root = "/verif/seeded"

def sig(path):
    return [l for l in open(path).read().splitlines() if l[:1] in "+-" and not l.startswith(("+++", "---"))]

have = {d: sig(f"{root}/{d}/patch.diff") for d in os.listdir(root) if d.startswith(prop + "_")}
n = max([int(d.split("_")[1]) for d in have] + [0])
for k in sorted(os.listdir(f"{wt}/seeded")):
    src = f"{wt}/seeded/{k}"
    if not os.path.isfile(f"{src}/patch.diff"):
        continue
    s = sig(f"{src}/patch.diff")
    dup = [d for d, v in have.items() if v == s]
    if dup:
        print(f"{src}: duplicate of {dup[0]}, skipped")
        continue
    n += 1
    dst = f"{root}/{prop}_{n}"
    os.makedirs(dst)
    for f in ("patch.diff", "demo.py", "meta.json"):
        shutil.copy(f"{src}/{f}", dst)
    have[f"{prop}_{n}"] = s
    print(f"{src} -> {dst}")
