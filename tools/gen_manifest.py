#!/usr/bin/env python3
"""Regenerates MANIFEST.json from the table below (one entry per claimed property)."""
import json
from pathlib import Path

ROOT = Path(__file__).resolve().parent.parent

BASE_NOTE = (
    "Trusted: Lean 4.33 kernel with axioms propext/Classical.choice/Quot.sound only (audited each "
    "run by #print axioms; no sorry/native_decide); the hand-written Lean model of the anchored code; "
    "the correspondence check (trace validation of the real code against the model's executable "
    "definitions - sampling, seeded by VERIF_SEED) and the independent history oracle; CPython "
    "3.12 asyncio semantics as transcribed. Asyncio backend only (trio is not installed). "
)

CLAIMS = {
    "C09": dict(
        text="Lean theorems (mutual exclusion, owner accounting, no free lock with waiters, FIFO/no "
             "barging, cancel-safety under both pending-future and after-wake cancellation, error "
             "cases, quiescence) proved for every reachable state of the Lock LTS, i.e. for all "
             "numbers of tasks and all interleavings of the operation segments and cancellations; "
             "the model is tied to src/anyio/_backends/_asyncio.py:Lock by replaying every loop "
             "handle of randomly generated multi-task programs in the model and comparing outcomes "
             "and statistics(); an oracle written from the property checks the same histories.",
        design="5/C09",
        note=BASE_NOTE + "Modelled, not verified: asyncio.Future/Task cancellation mechanics "
             "(events fc/mc are observed on the real tasks).",
        technique="Lean 4 invariant proof over an LTS of the Lock + trace validation against the real code",
    ),
}

PENDING = {
}


def main() -> None:
    props = [json.loads(l)["id"] for l in (ROOT / "properties.jsonl").read_text().splitlines() if l.strip()]
    checks = []
    for pid in props:
        if pid not in CLAIMS:
            continue
        c = CLAIMS[pid]
        checks.append({
            "property_id": pid,
            "quick_cmd": f"./check {pid} --tier quick",
            "thorough_cmd": f"./check {pid} --tier thorough",
            "evidence_file": f"/verif/evidence/{pid}.json",
            "replay_cmd_template": f"./check {pid} --replay {{path}}",
            "engine": "lean4-model+correspondence",
            "level_claimed": {
                "category": c.get("category", "proof"),
                "text": c["text"],
                "design_ref": "DESIGN.md section " + c["design"],
            },
            "level_note": c["note"],
            "technique": c["technique"],
        })
    na = [{"property_id": pid,
           "reason": PENDING.get(pid, "not claimed in this commit: model, theorems and correspondence "
                                      "check for this property are still being built (DESIGN.md section 5)")}
          for pid in props if pid not in CLAIMS]
    manifest = {
        "version": 1,
        "setup_cmd": "cd lean && lake build",
        "hooks": {
            "guard": "ANYIO_VERIF",
            "enable": "no hooks were needed: every observation is made through AnyIO's public API or from "
                      "the harness's own event-loop subclass; ./check exports ANYIO_VERIF=1 for uniformity "
                      "and puts /repo/src first on PYTHONPATH so the current working tree is what runs",
            "baseline_off_cmd": "cd /repo && /venv/bin/python -m pytest -ra -q -p no:cacheprovider "
                                "--timeout=900 --continue-on-collection-errors",
            "source_commits": [],
            "add_only": True,
        },
        "engines": [{
            "name": "lean4-model+correspondence",
            "path": "lean/ (models, theorems, drivers) + harness/ (virtual-time loop, bench, oracles) + check",
            "serves_properties": [c["property_id"] for c in checks],
            "kind_free_text": "machine-checked Lean 4 proofs about executable models; the models are tied to "
                              "/repo on every run by differential trace validation",
        }],
        "checks": checks,
        "notes": "fix: commits in /repo (genuine defects F1-F7, see DESIGN.md section 4 and "
                 "known_findings.json): 4638e52 67841a0 5768bf9 6c88bdf 30b537a aa53644 4d3f7cb",
        "not_applicable": na,
    }
    (ROOT / "MANIFEST.json").write_text(json.dumps(manifest, indent=1) + "\n")
    print(f"{len(checks)} checks, {len(na)} not claimed")


if __name__ == "__main__":
    main()
