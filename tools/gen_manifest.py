#!/usr/bin/env python3
"""Regenerates MANIFEST.json from the table below (one entry per claimed property)."""
import json
from pathlib import Path

ROOT = Path(__file__).resolve().parent.parent

BASE_NOTE = (
    "Trusted: Lean 4.33 kernel with axioms propext/Classical.choice/Quot.sound only (audited each "
    "run by #print axioms; no sorry/native_decide); the hand-written Lean model of the anchored code; "
    "the correspondence check (trace validation of the real code against the model's executable "
    "definitions - sampling, seeded by VERIF_SEED) and the independent history oracle; CPython "
    "3.12 asyncio semantics as transcribed. Asyncio backend only (trio is not installed). "
)

CLAIMS = {
    "C09": dict(
        text="Lean theorems (mutual exclusion, owner accounting, no free lock with waiters, FIFO/no "
             "barging, cancel-safety under both pending-future and after-wake cancellation, error "
             "cases, quiescence) proved for every reachable state of the Lock LTS, i.e. for all "
             "numbers of tasks and all interleavings of the operation segments and cancellations; "
             "the model is tied to src/anyio/_backends/_asyncio.py:Lock by replaying every loop "
             "handle of randomly generated multi-task programs in the model and comparing outcomes "
             "and statistics(); an oracle written from the property checks the same histories. "
             "History level (Props/C09fifo.lean, 7 theorems): for every event list the hand-overs followed by "
             "the queue are a subsequence of the order in which tasks started waiting (C09_fifo_history), every "
             "start of waiting is accounted for exactly once as served / cancelled / still queued "
             "(C09_fifo_accounting), and without cancellations served ++ queued = started-waiting "
             "(C09_fifo_exact); the logs are read off what a step did (handedTo sound and complete); the model driver "
             "carries them and every trace compares them with the same lists derived from the real Lock's public "
             "statistics().",
        design="5/C09",
        note=BASE_NOTE + "Modelled, not verified: asyncio.Future/Task cancellation mechanics "
             "(events fc/mc are observed on the real tasks).",
        technique="Lean 4 invariant proof over an LTS of the Lock + trace validation against the real code",
    ),
}

KERNEL_NOTE = BASE_NOTE + (
    "Kernel model (lean/AnyioModel/Kernel): CPython 3.12 Task/Future/_run_once cycle structure, "
    "CancelScope, TaskGroup, TaskGroup.start, TaskHandle transcribed by hand; order of handles inside "
    "one loop cycle is abstracted (any order), native Task.cancel() landing inside AnyIO-internal "
    "shielded sections is outside the claim (DESIGN section 4). uvloop is exercised by C08 only; "
    "the handle-level trace validation runs on the stock loop (C tasks) and with the eager task factory.")

for _p, _t, _d in [
    ("C01", "every child spawned into a group (also by other children, after cancellation, during the exit "
            "checkpoint, via start()) has terminated and never runs again when the block ends; handle "
            "status/outcome match the coroutine's end", "5/C01"),
    ("C02", "leaves of the raised exception group = multiset of non-cancellation exceptions of body and "
            "children, exactly once; siblings cancelled; nothing raised when nothing failed", "5/C02"),
    ("C03", "no unshielded task stays blocked in an effectively cancelled scope: interrupted within a "
            "bounded number of loop cycles and without the clock advancing; again at later checkpoints", "5/C03"),
    ("C04", "cancellation is received only in effectively cancelled scopes; exit absorbs iff own cancel and "
            "no visible cancelled ancestor; cancelled_caught exact; other exceptions pass", "5/C04"),
    ("C05", "Task.cancelling() restored on scope exit, current-scope pointer restored, no timer or delivery "
            "callback left, loop idle after the program", "5/C05"),
    ("C06", "deadline fires exactly when due while active (on entry if past, re-armed on assignment), never "
            "early/late/after exit; current_effective_deadline equals the reference", "5/C06"),
    ("C07", "start() returns only after started(); early child exit raises from start(); cancelled caller: "
            "child terminated first and its error still surfaces; second started() is an error", "5/C07"),
]:
    CLAIMS[_p] = dict(
        category="translation_validation",
        text="Trace validation of the real code against the executable Lean kernel model: every API call "
             "and every event-loop handle of generated task/scope/group programs is replayed in the model "
             "and each outcome compared (ids, resumed values, raised exceptions, swallowed/passed exits, "
             "cancelling(), scope flags); an oracle written from the property statement (" + _t + ") judges "
             "the same histories with its own reference semantics. The Lean theorems over the kernel model "
             "for this property are still being proved; until they are in Props/" + _p + ".lean the claim is "
             "translation validation, not proof.",
        design=_d, note=KERNEL_NOTE,
        technique="trace validation against an executable Lean 4 model + reference-semantics oracle")

CLAIMS["C08"] = dict(
    category="exploration",
    text="Complete enumeration of the finite operation x state matrix (every potentially blocking primitive "
         "in every state class in which it can complete without waiting, 20 itertools functions x 4 input "
         "classes) on asyncio, asyncio+eager and asyncio+uvloop: in a cancelled scope the operation must "
         "raise and leave the object's observable state unchanged; otherwise a sentinel queued just before "
         "the call must have run before it returns. The Lock cells are additionally replayed in the Lean "
         "model; theorems over the primitive models are being added.",
    design="5/C08",
    note="Observations through public API only (statistics(), value, borrowed_tokens, locked(), status). "
         "functools.reduce: only the never-invoked-callback cases are claimed (DESIGN section 4).",
    technique="exhaustive probe matrix on the real code (Lean theorems on the primitive models pending)")

CLAIMS["C16"] = dict(
    text="Lean theorems for all byte lists, chunkings, environment choices (bytes returned per underlying "
         "receive) and call sequences: conservation (handed-out bytes + consumed delimiters + buffer = "
         "what entered, in order), receive returns 1..n bytes, receive_exactly exactly n or IncompleteRead "
         "at end of stream, receive_until = bytes before the first occurrence with the delimiter consumed, "
         "DelimiterNotFound/IncompleteRead conditions, failing calls consume nothing, the search offset is "
         "sound and tight; text: chunking transparency for any fold decoder, UTF-8 round trip via Lean "
         "core's encoder/decoder, and (Props/C16codecs.lean) round trips for the modelled latin-1, UTF-16 and "
         "UTF-32 incremental codecs - explicit little/big endian and BOM-writing/BOM-detecting variants, all "
         "Unicode scalar values including surrogate pairs, any chunking of the wire bytes, BOM written once and "
         "a leading U+FEFF of the text preserved. The models are compared with the real BufferedByteReceiveStream / "
         "TextReceiveStream / TextSendStream on exhaustively enumerated small inputs and random long ones.",
    design="5/C16",
    note=BASE_NOTE + "Trusted: the in-memory fake wrapped streams; bytearray.find = the model's naive "
         "search (proved to be first-occurrence in Lean, compared on every case); that CPython's utf-16/32/latin-1 "
         "incremental codecs equal the Lean step functions (compared by the harness on every run; the round "
         "trips are proved for the Lean functions).",
    technique="Lean 4 proofs over pure functional models + exhaustive/random differential testing")

CLAIMS["C20"] = dict(
    text="14 Lean theorems over every reachable state of an LTS of AsyncLRUCacheWrapper.__call__ (per-key "
         "locks, ordered dict with placeholders, counters, ttl clock; wrapped function, cancellations and "
         "time as environment events): single flight per key, the in-flight placeholder is never lost, "
         "retained results <= maxsize and currsize exact, calls for different keys never wait on each other, "
         "no dictionary lookup/lock operation of the code can fail (no internal error), returned values were "
         "produced for an equal key and hits serve the currently retained unexpired value, eviction removes "
         "the least recently used completed entry, callers see only their own execution's exception. Tied to "
         "the code by segment-level trace validation (all completion orders of gated wrapped calls, "
         "cancellations, ttl ticks) and a reference-LRU oracle.",
    design="5/C20",
    note=BASE_NOTE + "Modelled, not verified: asyncio Task/Future wake-up and cancellation (fc/mc/sc "
         "environment events), RunVar/WeakKeyDictionary plumbing, key construction (typed, kwargs), "
         "cache_clear, a wrapped function that never suspends. Single flight is claimed for maxsize != 0.",
    technique="Lean 4 invariant proof over an LTS + trace validation against the real code")

CLAIMS["C10"] = dict(
    text="40 Lean theorems over all event lists of LTS models of Semaphore and CapacityLimiter (any number of "
         "tasks and borrowers): permit conservation (value + holders + in-flight + lost = initial + extra "
         "releases), holders never exceed existing permits, value <= max_value, value > 0 implies an empty "
         "queue, no barging, FIFO hand-over to the first live waiter, cancel-safety (a cancelled waiter changes "
         "no count; a permit/token already granted is handed on), over-release and non-borrower release "
         "rejected with the state unchanged; limiter: every wake-up (release, cancelled waiter's give-back, "
         "total_tokens setter) starts from borrowed < total, borrowed <= total while total was never lowered "
         "below the number borrowed and never increases above it otherwise, no idle token while anyone is "
         "queued, statistics equal the ghost counts, one token per borrower, quiescence. Semaphore FIFO at history "
         "level (Props/C10fifo.lean + Props/C10limfifo.lean, 11 theorems, same construction as C09fifo; 5 of them for the CapacityLimiter over disciplined histories: entries notified by release / give-back / total_tokens setter, followed by the queue, are a subsequence of the order of entry, C10_lim_fifo_history): for every event list the hand-overs "
         "followed by the queue are a subsequence of the waiting order, every start of waiting is accounted for "
         "exactly once (served / cancelled / still queued), exact equality without cancellations; the sem driver carries "
         "these logs and every semaphore trace compares them with lists derived from the real object. Tied to the code by "
         "replaying every loop handle of generated programs in the models, plus a history oracle.",
    design="5/C10",
    note=BASE_NOTE + "Limiter theorems are conditional on two decidable history predicates "
         "(OneWaitPerBorrower, ReleaseAfterReturn; DESIGN section 4) which the generator satisfies and a misuse "
         "stream violates deliberately. Modelled, not verified: asyncio Future/Event/Task wake-up and "
         "cancellation (fc/mc events observed on the real tasks).",
    technique="Lean 4 invariant proofs over LTS models + trace validation against the real code")

CLAIMS["C11"] = dict(
    text="27 Lean theorems over all event lists of LTS models of Event and of Condition (the latter embeds the "
         "C09 Lock model): Event.wait returns only in a state with the flag set, set() resolves every "
         "waiter, the flag is monotone, released waiters can always be resumed; Condition: notify(n) sets "
         "exactly the events of the first min(n,|waiters|) waiters, a waiter's event is set only by a "
         "holder's notify/notify_all selecting it or by a cancelled notified waiter passing it on, wait "
         "returns normally only to a notified task that owns the lock again, notification accounting "
         "(issued = consumed directly + consumed after pass-on + dropped on an empty queue + pending), no "
         "ghost waiters, refusals (RuntimeError, state unchanged) exactly for non-holders. History level "
         "(Props/C11order.lean, 8 theorems): for every event list the events set so far (by notify, notify_all or a "
         "passed-on notification), followed by the events still queued, are a subsequence of the order in which the "
         "wait() calls queued them (C11_notify_order_history); one step signals a prefix of the queue; every queued wait "
         "is accounted for exactly once - event set, left the queue cancelled, or still queued (C11_wait_accounting), with exact order when nobody left the queue (C11_order_exact). Trace validation "
         "against the real code incl. both orders of notify/cancel inside one loop cycle, and a queue-automaton "
         "oracle.",
    design="5/C11",
    note=BASE_NOTE + "Scoped to cancel-scope and deadline cancellation: a native Task.cancel() landing in "
         "wait()'s shielded re-acquire is outside the claim (machine-checked witness "
         "C11_native_cancel_reacquire_witness; DESIGN section 4). Not covered: a Condition sharing an "
         "externally used Lock, wait_for.",
    technique="Lean 4 invariant proofs over LTS models + trace validation against the real code")
CLAIMS["C12"] = dict(
    text="20 Lean theorems over all event lists of the memory-object-stream LTS (any buffer size, clones, "
         "blocking and nowait calls, cancellations): every offered item is in exactly one of sender's slot, "
         "buffer, receiver's slot, delivered, rejected, lost; delivered items are distinct and were offered; "
         "an accepted send's item is inside the stream or delivered; FIFO (entered = handed ++ buffer), "
         "blocked senders/receivers served from the head skipping only receivers with a pending "
         "cancellation; |buffer| <= max_buffer_size; a cancelled receive changes only its own queue entry; "
         "under scope/deadline cancellation nothing is ever lost (C12_scope_cancel_never_loses) and an "
         "interrupted send is delivered at most once. Per-sender order (Props/C12order.lean, C12_order): for "
         "every task, the items it offered enter the stream, are handed to receivers and wait in the buffer "
         "in the order it offered them (a sublist of its offer sequence: rejected and cancelled sends never "
         "enter), each item enters at most once, and a sender's in-flight item is its latest offer; together "
         "with FIFO this is the full order clause (the earlier C12_order_partial is superseded). Which "
         "receiver obtained which item is not a model field; per-(sender, receiver) order is decided by the "
         "oracle on every run.",
    design="5/C12",
    note=BASE_NOTE + "The no-loss claim is proved over runs without a native Task.cancel() landing between "
         "hand-over and wake-up; C12_native_cancel_witness shows the restriction is necessary (DESIGN "
         "section 4). has_pending_cancellation's scope clause is an environment input observed on the real "
         "task.",
    technique="Lean 4 invariant proofs over an LTS + trace validation against the real code")
CLAIMS["C13"] = dict(
    text="10 Lean theorems over all reachable states of the same LTS: open_send/open_receive counters equal "
         "the number of open clones, EndOfStream only with no open send clone, empty buffer and no pending "
         "sender item, BrokenResourceError only with no open receive clone, ClosedResourceError exactly for "
         "operations on a closed handle, closing the last clone of one side sets the events of every task "
         "blocked on the other side (receivers after the remaining items were handed out in order), so no "
         "task waits on an un-set event once the peer side is fully closed and its wake-up segment ends the "
         "operation. Trace validation and an oracle tracking the true open/closed state.",
    design="5/C13",
    note=BASE_NOTE + "'Nobody left blocked' is a state invariant plus an always-enabled wake-up segment; the "
         "event loop is trusted to run the woken task (deadlock detection of the virtual-time loop checks it "
         "on every generated history).",
    technique="Lean 4 invariant proofs over an LTS + trace validation against the real code")

CLAIMS["C04"].update(
    category="proof",
    text="44 Lean theorems. 24 for ALL states of the kernel model (not only reachable ones): "
         "_effectively_cancelled equals its declarative reading (first cancelled scope on the chain before "
         "any shield), shields block, monotonicity; _parent_cancellation_is_visible characterised; "
         "CancelScope.__exit__ swallows / re-raises the remainder / passes exactly according to "
         "(cancel_called, parent visibility, AnyIO-cancellation leaves), cancelled_caught is set exactly by "
         "an absorbing exit, other exceptions and the non-cancellation leaves of groups always pass, the "
         "exit restores the task's scope pointer and removes the scope's timer. Plus 9 theorems "
         "(Props/C04reach.lean) about delivery, under the reachability invariant WF and over Reach "
         "(C04_deliver_step_sound: whenever a delivery handle runs in a reachable state, every task whose record "
         "changes sits in an effectively cancelled scope - no cancelCalled hypothesis): a delivery from a "
         "cancelled scope o changes only tasks sitting in a scope that is effectively cancelled, that lies "
         "in o's subtree with no shield and no other cancelled scope in between (C04_deliver_sound, "
         "_subtree, _shield_blocks_delivery); every other task's record is untouched by the whole "
         "callback (C04_deliver_contained, _contained_step over Reach). Who can cancel a scope (Props/C04causes.lean): over every "
         "reachable state, a step that turns cancel_called from false to true is one of eleven listed "
         "transitions (explicit cancel, the deadline timer / setter / entry with a due deadline, the body's "
         "exception at __aexit__, a child's failure or cancellation in the done-callback while the group scope "
         "is not effectively cancelled, the host cancelled in __aexit__'s wait, start()'s caller failing, "
         "TaskHandle.cancel) and cancel_called never goes back (C04_cancel_causes, _is_monotone); in particular "
         "a child's done-callback cancels nothing when the group scope is already effectively cancelled "
         "(C04_task_done_no_recancel - the clause seeded change C04_4 breaks). Trace validation of every delivery "
         "against the model and the oracle's reference semantics tie this to the code.",
    technique="Lean 4 proofs about the kernel model's CancelScope functions + trace validation + reference oracle")
CLAIMS["C06"].update(
    category="proof",
    text="21 Lean theorems for ALL states of the kernel model: current_effective_deadline equals the "
         "declarative spec (min of the deadlines up to and including the nearest shield, -inf iff the walk "
         "meets a cancelled scope first), _timeout arms a timer exactly at the deadline or cancels at once "
         "when it has passed (also on entry), the deadline setter re-arms without stale timers, a timer "
         "callback cancels iff now >= deadline (never early), exit removes the timer, fail_at raises "
         "TimeoutError iff the scope absorbed a cancellation and the deadline has passed and never replaces a "
         "propagating exception. The invariant that every live timer is recorded by the scope's flag "
         "(hypothesis hrec of three theorems) and 'never missed' over cycles are trace-validated (virtual "
         "clock, every timer handle replayed) and checked by the deadline oracle until the reachability "
         "proof lands.",
    technique="Lean 4 proofs about the kernel model's deadline functions + discrete-event trace validation")

CLAIMS["C05"].update(
    category="proof",
    text="15 Lean theorems over every reachable state of the kernel model (via the well-formedness invariant "
         "WF, itself proved for all event lists): for every task, cancelling() + user uncancel() calls = native "
         "cancel requests + deliveries from scopes hosted by other tasks + dropped own deliveries + the sum of "
         "pending uncancellations of the active scopes it hosts (C05_count), so a scope never owes more than "
         "the task's count; an absorbing exit lowers cancelling() by exactly the scope's pending count with no "
         "truncation, hands it to a same-host parent otherwise; leaving the outermost scope restores the "
         "native count; exit restores the current-scope pointer, deactivates the scope, clears host, timer and "
         "pending, removes its timer handle; a leftover delivery callback of an exited scope stops at its next "
         "run without rescheduling. Trace validation of every cancelling() value and a residue oracle (timers "
         "firing after exit, busy callbacks after the program ended).",
    technique="Lean 4 invariant proof over the kernel LTS + trace validation + residue oracle")
CLAIMS["C14"] = dict(
    text="23 Lean theorems over all event lists of an LTS of to_thread.run_sync (embedded limiter, caller and "
         "thread program counters, idle-worker stack): a running non-abandoned function holds a token, tokens "
         "<= total, token given back on every exit path, the caller receives exactly what the thread function "
         "produced, without abandon_on_cancel the caller resumes only after the function finished and a "
         "cancellation that arrived meanwhile stays pending, abandon only if abandonable, one job per worker, "
         "LIFO reuse, check_cancelled raises iff the host chain is effectively cancelled. PARTIAL: real "
         "threads, released by the harness through gates in all completion orders on asyncio and uvloop, are "
         "compared with the model at settle points and judged by an oracle.",
    design="5/C14",
    note=BASE_NOTE + "Modelled, not verified: OS thread scheduling and the GIL, queue.Queue hand-over, "
         "loop.call_soon_threadsafe, contextvars.copy_context (oracle only), worker pruning by idle time; the "
         "events threadSkip/deliver/prune are covered by theorems only (gated real threads cannot force them).",
    technique="Lean 4 invariant proof over an LTS + differential testing against real worker threads")
CLAIMS["C15"] = dict(
    text="24 Lean theorems over all event lists of a BlockingPortal LTS: each call executes its callable at "
         "most once and exactly once when begun, a refused call never runs, its Future is set at most once, "
         "carries the callable's outcome (or caller cancellation) and is never overwritten, start_task's "
         "status value is kept, cancelling a future affects only that call and reaches its scope, refusal "
         "after stop, the portal's state is monotone, exit happens only when no call is spawned or running "
         "and every resolved call has a done future. PARTIAL: real caller threads against a real portal "
         "thread, with parked loops to pile up requests, are compared with the model and judged by an oracle.",
    design="5/C15",
    note=BASE_NOTE + "Modelled, not verified: caller-thread scheduling, concurrent.futures.Future internals "
         "(the check-then-set in _call_func is taken as atomic), call_soon_threadsafe, thread.join; the join of "
         "the portal's task group is an instance of C01 and is the enabling condition of `exit`. A call "
         "accepted before stop() whose task begins after it cannot be cancelled through its future (modelled "
         "as byStop; notes/repro_portal_future_cancel_after_stop.py) - recorded as an observation.",
    technique="Lean 4 invariant proof over an LTS + differential testing against real threads")
CLAIMS["C17"] = dict(
    text="10 Lean theorems over all event lists of the TLS pump loop against an abstract record engine (any "
         "record sizes, fragmentation/coalescing, cut points, both standard_compatible values): no transport "
         "read starts with unflushed output, receive returns 1..max_bytes bytes, delivered + buffered "
         "plaintext = application data of the consumed records in order, the wire is the encoding of what send "
         "accepted, end-to-end prefix faithfulness by unique parsing, EndOfStream under standard_compatible "
         "only after close_notify, BrokenResourceError exactly for unexpected EOF with the flag set, truncation "
         "ends every waiting call at once. PARTIAL: real TLS 1.2/1.3 sessions over a re-chunking, truncating "
         "in-memory transport (every byte offset of short sessions in the thorough tier) are compared on "
         "outcomes and judged by an oracle.",
    design="5/C17",
    note=BASE_NOTE + "Modelled, not verified: OpenSSL (replaced by the abstract engine: complete-record "
         "reads, WantRead, close_notify, BIO EOF as unexpected EOF, a three-flight handshake), the ssl "
         "module's exception mapping, transport_stream.send as atomic.",
    technique="Lean 4 invariant proof over an LTS with an abstract record engine + differential testing on real TLS")
CLAIMS["C18"] = dict(
    text="40 Lean theorems over all event lists of the StreamProtocol + SocketStream LTS and all scripts of the "
         "UNIX raw-socket loops: returned chunks concatenate to a prefix of the received bytes and to all of "
         "them once the queue is empty, each chunk has 1..max_bytes bytes with the remainder pushed back to the "
         "front, EndOfStream only at the end, closed-stream semantics (send refused, receive drains without "
         "blocking), BusyResourceError without side effects, send returns only with the write gate open, "
         "item-wise in-order writes, reader-side back-pressure (the transport reads only while a receive is "
         "waiting), no lost wake-up. Raw-socket streams (Props/C18rawsock.lean, 8 theorems over an LTS of "
         "_RawSocketMixin: reader/writer registrations, the wait futures and their deferred done-callbacks, "
         "aclose(), cancellation, for a loop that closes at once and for one that defers the close while a "
         "registration exists): with the current code a closed socket never has a registration and no removal is "
         "ever attempted on a closed descriptor, aclose() resolves every waiter, in a closing state nobody is "
         "waiting and every resumption ends with ClosedResourceError (or the task's own cancellation), and it "
         "does so within two steps; the same model with the pre-repair aclose() has the F13 livelock (deferring "
         "loop) and the bad removals (stock loop) as decide-checked witnesses. PARTIAL: real TCP-loopback and UNIX sockets on asyncio and uvloop (floods "
         "against stalled readers, full duplex, EOF, close, concurrent use) are judged by an oracle; the "
         "protocol is also driven through a fake transport and replayed line by line in the model.",
    design="5/C18",
    note=BASE_NOTE + "Modelled, not verified: the kernel's stream sockets, the discipline of asyncio's "
         "selector transport and of uvloop's transport (data_received only while reading, pause/resume "
         "alternate, connection_lost last), the fake transport's mimicry of write after EOF/loss, the fake raw socket's and fake loop's mimicry of "
         "add_reader/remove_reader and of uvloop's deferred close (the raw-socket model is validated against the "
         "real UNIXSocketStream stepping one loop handle at a time; the real-socket scenario close_blocked "
         "exercises the same on both real loops).",
    technique="Lean 4 invariant proof over an LTS + differential testing on real sockets")
CLAIMS["C19"] = dict(
    text="32 Lean theorems: for each function of anyio.itertools a Lean transcription of AnyIO's control flow "
         "equals the textbook definition of the stdlib function for all arguments (including invalid ones: same "
         "error class) and all element lists; reduce equals a left fold on both branches; for tee an LTS "
         "invariant over all interleavings of any number of consumers shows each consumer observes exactly the "
         "source sequence and the source is advanced once per element plus once for the end. Four-way "
         "differential testing (anyio over sync and async sources, CPython's itertools/functools, the model's "
         "impl and spec) ties both Lean definitions to the real code and to the real stdlib; tee schedules are "
         "enumerated and replayed in the model. Tee under cancellation (Props/C19teecancel.lean, 5 theorems "
         "over a second LTS in which every suspension point of __anext__/fill()/Lock.acquire/the sync-source "
         "adaptor is cancellable or shielded exactly as in the code, sync or cancel-safe async source, any "
         "number of consumers, any event list): what a consumer has received is always a prefix of the source "
         "sequence and the whole sequence once it saw the end - a cancelled anext() never skips or repeats an "
         "element; a cancelled call changes nothing but the cancellation count; the source is pulled once per "
         "element plus the end plus once per cancelled pull, never concurrently, and every pulled element is "
         "stored; with all consumers idle the lock is free with an empty queue; no internal RuntimeError. Tied "
         "to the real tee by trace validation with cancellations at every decision point and an oracle.",
    design="5/C19",
    note=BASE_NOTE + "CPython's combinations/permutations/product are parameters of the theorems (trusted, "
         "two stated hypotheses checked against CPython by the harness); batched(strict=) follows the 3.13 "
         "documentation's equivalent; callbacks are a fixed family of pure functions; the async source of the tee-cancellation "
         "model is assumed cancel-safe (a cancelled __anext__ takes nothing; an async generator instead ends on "
         "cancellation, which is a property of the source); native Task.cancel() is outside that model.",
    technique="Lean 4 equational proofs (impl = spec) and an LTS invariant for tee + differential testing")

CLAIMS["C01"].update(
    category="proof",
    text="10 Lean theorems over every reachable state of the kernel model: when a group's __aexit__ has "
         "returned or raised (exited), every task ever spawned into it - by create_task/start_soon/start, by "
         "other children, after cancellation, during the exit checkpoint - is done, its done-callback has run "
         "and the group's task set is empty (C01_join); a done task stays done with the same outcome, is never "
         "the running task again and neither of its loop handles is ever enabled (never runs another step); "
         "spawning/starting into an exited group is refused with the state unchanged; at that moment every "
         "handle's finished event is set, and the handle's recorded exception is exactly what the coroutine "
         "ended with and never changes afterwards. Trace validation on generated task trees plus a join oracle; "
         "corpus of the F6/F11 windows.",
    technique="Lean 4 invariant proof over the kernel LTS + trace validation + join oracle")
CLAIMS["C02"].update(
    category="proof",
    text="15 Lean theorems over every reachable state of the kernel model. __aexit__ of a group runs once: after "
         "the first `.aexit g` no event list ever enables it again (C02_aexit_once, via the host invariant "
         "HInv). Exactly once (C02_exactly_once): while the group has not exited, its recorded exception list "
         "is a permutation of the body's leaves ++ the outcomes of the routed children, the routed children "
         "are distinct, were spawned into this group, have run their done-callback and ended with a "
         "non-cancellation exception. At exit (C02_exactly_once_at_exit): the step that makes the group exited "
         "is a resumption of the task inside __aexit__ and outputs an exception whose non-cancellation leaves "
         "are a permutation of those of body ++ routed children (nothing when nothing failed). None dropped "
         "(routing completeness, covers F2): every child whose done-callback ran with a non-cancellation "
         "outcome is recorded in the group or was delivered to the start() caller's future. A newly recorded "
         "failure cancels the group scope or finds it effectively cancelled already; children's cancellations "
         "are never recorded. (The two `_partial` theorems of Props/C02.lean are superseded by Props/C02full.lean.) "
         "Two planned statements are proved FALSE with witnesses: 'failed group stays cancelled' as a state "
         "invariant, and 'no cancellation among the leaves' for a child raising a user-made group. Trace "
         "validation plus the exactly-once oracle on whole histories tie the model to the code.",
    technique="Lean 4 invariant proofs over the kernel LTS + trace validation + exactly-once oracle")
CLAIMS["C06"].update(
    text="37 Lean theorems. For ALL states: current_effective_deadline equals the declarative spec, _timeout "
         "arms exactly at the deadline or cancels at once, the setter re-arms without stale timers, a timer "
         "callback cancels iff now >= deadline, fail_at raises TimeoutError iff the scope absorbed a "
         "cancellation and the deadline has passed. Over every REACHABLE state (C06_timer_armed and "
         "corollaries): the timer flag holds iff exactly one timeout handle of the scope is pending (in the "
         "timer list strictly before its time, equal to the current deadline; or in the current batch when "
         "due), an active not-yet-cancelled scope with a finite deadline always has one, beginCycle at or past "
         "the deadline puts the handle into the batch which must drain before the next cycle and then cancels "
         "the scope (never missed), byDeadline is only ever set with deadline <= now on an entered, active "
         "scope (never early, never before entry), and after exit no handle exists and byDeadline can never "
         "change again along any event list (never after the scope was left).")
CLAIMS["C03"].update(
    category="proof",
    text="27 Lean theorems over every reachable state of the kernel model. _deliver_cancellation is "
         "characterised exactly (C03_deliverGo_spec): it returns 'retry' iff some not-done task sits in a scope "
         "reachable downward from the cancelled scope through active, unshielded, uncancelled scopes; it cancels "
         "exactly the tasks there that are started, not running, not already marked and whose waiter is not "
         "done (a blocked one is woken with its future cancelled, a runnable one gets _must_cancel) and leaves "
         "every other task unchanged. Level-triggered liveness (C03_delivery_live): an active cancelled scope "
         "that still has such a task has its delivery handle scheduled - F4 was a violation of exactly this; "
         "restart on spawn, on exit of a shielded scope, on shield := False are covered. Supporting invariants "
         "proved over Reach: ancestors of active scopes are active, every effectively cancelled scope holding "
         "a task has an active cancelled origin reaching it (C03_origin), a blocked task never has "
         "_must_cancel, a scheduled delivery handle belongs to a cancelled scope and stays in its batch until "
         "run, a scope that becomes cancelled delivers in the same transition. Bounded latency (C03_latency, "
         "C03_two_cycles, C03_two_cycles_interrupted): for every event list of any length, a task blocked "
         "in an effectively cancelled scope cannot stay so across more than one beginCycle (none if the "
         "delivery is already in the current batch): after two cycle boundaries it has been woken with the "
         "cancellation, left the scope, or the scope stopped being effectively cancelled (somebody shielded "
         "it - the example shows this alternative is necessary). A task spinning in checkpoint_if_cancelled "
         "never completes normally (C03_chkif); a loop cycle cannot begin before the batch is drained "
         "(C03_cycle). Trace validation (stock loop, eager factory), the latency oracle (3 cycles, no clock "
         "advance) and an oracle-only uvloop leg with a per-iteration cycle counter tie this to the code.",
    technique="Lean 4 invariant proofs over the kernel LTS + trace validation + latency oracle")
CLAIMS["C07"].update(
    category="proof",
    text="35 Lean theorems over the kernel model. For every reachable state: every future id in use has exactly "
         "one role (start future of one child, completion future of one group, handle waiter, sleep, user "
         "future) - the start future is private to the handshake (C07_future_roles, _start_future_fresh); a "
         "start future changes state only from pending and only by (a) started() executed by that very child, "
         "(b) that child's done-callback (failure), (c) cancellation of the caller blocked in start() "
         "(C07_start_future_private); start() resumes with a value only if the future carries a result, and a "
         "result on any run implies an earlier started() event executed by the child itself (C07_value, "
         "C07_result_by_started: decomposition of the event list); a child that ends before started() resolves "
         "the future with its exception (RuntimeError if it returned), cancels no scope and records nothing in "
         "the group (C07_early_exit, full); after the caller was cancelled, start() proceeds from the shielded "
         "join only when the child has finished (C07_caller_cancelled_join), and an error raised by the child "
         "after the handshake or after the caller was cancelled is routed to the group (F2); started() on a "
         "resolved/failed future is RuntimeError with the state unchanged, on a cancelled one no error. A task "
         "waiting in start() is never yielded, so its step handle is never enabled and C07_value covers both "
         "handles (C07_value_any). 'After which the child is an ordinary member of the group' "
         "(Props/C07member.lean, 15 theorems): for a child whose start future holds the started() value, the "
         "group's done-callback acts exactly as for a start_soon child - the result states are equal once the "
         "start-future field is erased (C07_member_task_done_same) - so a later error is recorded and routed, "
         "ANY exception outcome including a cancellation cancels the group scope iff it was not effectively "
         "cancelled, and the child leaves the task set and resolves the completion future; started() itself "
         "changes only the future and the caller's wake-up, membership is unchanged across it; a start future "
         "that failed is never seen by the callback again. Trace validation and the handshake oracle tie the model to the code.",
    technique="Lean 4 invariant proofs over the kernel LTS + trace validation + handshake oracle")
CLAIMS["C08"].update(
    category="proof",
    text="75 Lean theorems over the primitive models (Lock, Semaphore, CapacityLimiter, Event, Condition, "
         "memory streams, lru_cache hit path) and the kernel model, each for ALL states of the cell's state "
         "class: entered with a cancelled scope the operation parks without changing any observable field, "
         "can only leave by raising the cancellation, and no other task's event disturbs it (Condition.wait "
         "keeps the lock); otherwise its first segment suspends (yields) and it returns only in a later step; "
         "fast_acquire and *_nowait/close are proved to be the only exemptions, with the cancellation check "
         "still first; checkpoint/sleep(0)/checkpoint_if_cancelled/cancel_shielded_checkpoint/empty-group "
         "exit/TaskHandle.wait in the kernel model; a trace model of the itertools adaptor (a full traversal of "
         "any list has len+1 yields, a cancelled scope raises before consuming anything). The complete "
         "operation x state matrix (312 cells incl. 20 itertools functions x 4 input classes) is probed on the "
         "real code on asyncio, asyncio+eager and asyncio+uvloop, and 19 cells are replayed as scripted event "
         "lists in the Lean models.",
    note="Cells without a Lean model (to_thread.run_sync, anyio.Future, functools.reduce) and the per-function "
         "instantiation of the itertools schema are decided by the exhaustive probe matrix only. "
         "functools.reduce: only the never-invoked-callback cases are claimed (DESIGN section 4). " + BASE_NOTE,
    technique="Lean 4 proofs over the primitive/kernel models + exhaustive probe matrix on the real code")

PENDING = {
}


def main() -> None:
    props = [json.loads(l)["id"] for l in (ROOT / "properties.jsonl").read_text().splitlines() if l.strip()]
    checks = []
    for pid in props:
        if pid not in CLAIMS:
            continue
        c = CLAIMS[pid]
        checks.append({
            "property_id": pid,
            "quick_cmd": f"./check {pid} --tier quick",
            "thorough_cmd": f"./check {pid} --tier thorough",
            "evidence_file": f"/verif/evidence/{pid}.json",
            "replay_cmd_template": f"./check {pid} --replay {{path}}",
            "engine": "lean4-model+correspondence",
            "level_claimed": {
                "category": c.get("category", "proof"),
                "text": c["text"],
                "design_ref": "DESIGN.md section " + c["design"],
            },
            "level_note": c["note"],
            "technique": c["technique"],
        })
    na = [{"property_id": pid,
           "reason": PENDING.get(pid, "not claimed in this commit: model, theorems and correspondence "
                                      "check for this property are still being built (DESIGN.md section 5)")}
          for pid in props if pid not in CLAIMS]
    manifest = {
        "version": 1,
        "setup_cmd": "cd lean && lake build",
        "hooks": {
            "guard": "ANYIO_VERIF",
            "enable": "no hooks were needed: every observation is made through AnyIO's public API or from "
                      "the harness's own event-loop subclass; ./check exports ANYIO_VERIF=1 for uniformity "
                      "and puts /repo/src first on PYTHONPATH so the current working tree is what runs",
            "baseline_off_cmd": "cd /repo && /venv/bin/python -m pytest -ra -q -p no:cacheprovider "
                                "--timeout=900 --continue-on-collection-errors",
            "source_commits": [],
            "add_only": True,
        },
        "engines": [{
            "name": "lean4-model+correspondence",
            "path": "lean/ (models, theorems, drivers) + harness/ (virtual-time loop, bench, oracles) + check",
            "serves_properties": [c["property_id"] for c in checks],
            "kind_free_text": "machine-checked Lean 4 proofs about executable models; the models are tied to "
                              "/repo on every run by differential trace validation",
        }],
        "checks": checks,
        "notes": "fix: commits in /repo (genuine defects F1-F13, see DESIGN.md section 4 and "
                 "known_findings.json): 4638e52 67841a0 5768bf9 6c88bdf 30b537a aa53644 4d3f7cb 42dfeea b9ceb54 "
                 "b31d463 8e74f9e 17e7c0a afa90d6 (F1-F13)",
        "not_applicable": na,
    }
    (ROOT / "MANIFEST.json").write_text(json.dumps(manifest, indent=1) + "\n")
    print(f"{len(checks)} checks, {len(na)} not claimed")


if __name__ == "__main__":
    main()
