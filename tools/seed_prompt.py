#!/usr/bin/env python3
"""Writes the prompt for a seeding sub-agent: property text only, own scratch worktree, nothing from /verif.
usage: seed_prompt.py Cxx <worktree dir> [round]"""
import json
import sys

pid, wt = sys.argv[1], sys.argv[2]
rnd = int(sys.argv[3]) if len(sys.argv) > 3 else 1
prop = next(p for p in map(json.loads, open("/verif/properties.jsonl")) if p["id"] == pid)
extra = ""
if rnd > 1:
    extra = ("\nThis is a later round: other engineers have already produced the most obvious changes for this "
             "property (dropping the re-check at the best-known site, swapping the order of two adjacent tests, "
             "`while` -> `if` in a hand-off loop, taking from the wrong end of a queue). Look for DIFFERENT sites: "
             "less-travelled branches, interactions between two features (e.g. shields with deadlines, start() with "
             "nested groups, clones with closing, typed keys with ttl), error and cancellation paths, state that is "
             "left behind after the operation, values that are computed once and reused, conditions that are "
             "equivalent in ordinary use but differ in a corner.\n")
print(f"""You are a careful adversarial software engineer. You work ONLY inside the git worktree {wt} (a checkout of the Python library AnyIO, asyncio backend; run Python as `PYTHONPATH={wt}/src /venv/bin/python`, run tests as `cd {wt} && PYTHONPATH={wt}/src /venv/bin/python -m pytest -q -p no:cacheprovider <test files>`; there is no network; the trio backend is not installed, ignore it). Do not read or write anything under /verif or /repo, and do not look at other /tmp/seed* directories.

Here is a semantic property that the library is supposed to satisfy:

{pid} {prop['title']}

Statement: {prop['statement']}

Quantified over: {prop['quantifier']['text']}

Anchors (files): {', '.join(prop['anchors']['files'])}
{extra}
Your task: produce 3 DIFFERENT small, realistic source changes (each a separate patch against the clean worktree, each touching only files under src/anyio) such that, with the change applied:
  (1) the library still imports and the existing test suite still passes - at least the test files that exercise the changed code (run them; say which you ran and the pass counts; tests that already fail on the clean worktree for environment reasons such as missing IPv6/DNS do not count);
  (2) the property above is BROKEN, but only under specific circumstances - a particular interleaving, a cancellation or fault at a particular point, a multi-step sequence of operations, an unusual input, or two cooperating sites that each look fine alone - NOT something ordinary use would expose at once;
  (3) you have a demonstration: a small standalone program `demo_<k>.py` that exits 0 on the clean worktree and exits 1 (printing what went wrong) with your change applied. Make the demonstration deterministic (no reliance on wall-clock races; use events/checkpoints to order things).
Think like a plausible refactoring mistake or an "optimisation" a contributor might make: dropping a re-check, reordering two statements, an off-by-one, forgetting one branch, caching a value that can change, swallowing an exception, using the wrong end of a queue.

Procedure per change: start from a clean tree (`git -C {wt} checkout -- . && git -C {wt} status --short` must be empty), edit, run the demo (must exit 1), run the relevant tests (must pass), save the patch with `git -C {wt} diff > {wt}/seeded/<k>/patch.diff`, copy the demo to `{wt}/seeded/<k>/demo.py`, write `{wt}/seeded/<k>/meta.json` with keys: "property" (id), "summary" (one sentence: what the change does), "needs" (what specific circumstance makes it manifest), "tests_run" (commands and pass counts), "demo_clean_exit", "demo_patched_exit". Then revert the source (`git -C {wt} checkout -- src`) and verify the demo exits 0 again. (`seeded/` is untracked, so `git checkout -- src` does not remove it.)

When finished leave the worktree's tracked files clean. Final answer: for each change, the path of its directory, the one-sentence summary, what it needs to manifest, and the test results. Budget: about 60-90 minutes of work; quality over quantity - a change that breaks existing tests or that any trivial use exposes is worthless.""")
