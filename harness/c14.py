"""C14 to_thread.run_sync: real worker threads released through gates, replayed in the Lean
model `thread` (trace validation at settle granularity) + an independent oracle written from
the property text.

A *case* is
  {"loop": "asyncio"|"uvloop", "total": N,
   "calls": [{"kind": K, "ab": bool, "pre": bool}, ...],
   "steps": [["start", i] | ["cancel", i] | ["release", i] | ["fincancel", i] | ["settotal", n]
             | ["age", 0]]}

`age` lets MAX_IDLE_TIME pass for every worker that is idle at that moment (their `idle_since` is
moved back; the clock itself is not touched): the next dispatch has to reuse the most recently idle
worker and stop the other expired ones (model event `prune`), and still run its function.

Every call i is one task doing `to_thread.run_sync(fn_i, abandon_on_cancel=ab, limiter=lim)`
inside its own CancelScope; `pre` = that scope is cancelled before the call.  fn_i logs its entry
(thread id, contextvar, limiter.borrowed_tokens, number of functions executing), blocks on a
`threading.Event` gate, then does what its kind says and leaves.  The controller (a task on the
same loop) performs one step at a time and then *settles*: it polls, with a bound, until every
call in flight is either queued in the limiter or blocked at its gate and every finished
function has been reported to the loop.  `release i` on a call whose function has not been
entered yet is deferred until it is at its gate, so that exactly one function finishes per
settle.  `fincancel i` releases the gate and cancels the caller's scope in the loop *between*
the function's end and the `_report_result` callback (a loop subclass sees the worker thread's
`call_soon_threadsafe` and posts the cancellation in front of it).

kinds: ret | raise | run (from_thread.run) | run_sync (from_thread.run_sync) | check
(from_thread.check_cancelled, result returned) | checkraise (check_cancelled, propagates) | ctx
| retexc (returns an exception instance as its value) | retstop (returns a StopIteration instance)
"""

from __future__ import annotations

import asyncio
import concurrent.futures
import contextvars
import itertools
import random
import threading
import time
from typing import Any

import anyio
from anyio import CancelScope, CapacityLimiter, from_thread, to_thread
from anyio.lowlevel import checkpoint

from .common import Ctx, Disagreement, Result, Violation, load_corpus, run_model

KINDS = ["ret", "raise", "run", "run_sync", "check", "checkraise", "ctx", "retexc", "retstop"]
CV: contextvars.ContextVar = contextvars.ContextVar("c14_cv", default=("cv", "unset"))
CANCELLED = asyncio.CancelledError  # asyncio backend only
SETTLE_TIMEOUT = 6.0
CASE_TIMEOUT = 60.0
NOT_CANCELLED_WAIT = 0.4


class HarnessError(Exception):
    """infrastructure problem (timeout of a bounded wait ...): exit code 2, never a VIOLATION"""


class TagError(Exception):
    pass


class _Hung(Exception):
    pass


def _find_exc(e: BaseException, cls: type) -> Any:
    if isinstance(e, cls):
        return e
    for sub in getattr(e, "exceptions", ()):
        f = _find_exc(sub, cls)
        if f is not None:
            return f
    return None


def _mk_loop_class(base: type) -> type:
    class HookLoop(base):  # type: ignore[misc, valid-type]
        c14_hook = None

        def call_soon_threadsafe(self, callback, *args, context=None):  # type: ignore[override]
            hook = self.c14_hook
            if hook is not None and getattr(callback, "__name__", "") == "_report_result":
                return hook(super().call_soon_threadsafe, callback, args, context)
            return super().call_soon_threadsafe(callback, *args, context=context)

    return HookLoop


_LOOPS: dict[str, type] = {}


def loop_class(name: str) -> type:
    if name not in _LOOPS:
        if name == "uvloop":
            import uvloop

            _LOOPS[name] = _mk_loop_class(uvloop.Loop)
        else:
            _LOOPS[name] = _mk_loop_class(asyncio.SelectorEventLoop)
    return _LOOPS[name]


def _stopping(w: Any) -> bool:
    """a worker that was told to stop (the backend's flag if it has one, else: it has exited)"""
    f = getattr(w, "stopping", None)
    return bool(f) if f is not None else not w.is_alive()


def worker_threads() -> list[threading.Thread]:
    return [t for t in threading.enumerate() if t.name == "AnyIO worker thread"]


class Run:
    """one case on the real code"""

    def __init__(self, case: dict) -> None:
        self.case = case
        self.calls = case["calls"]
        n = len(self.calls)
        self.n = n
        self.lock = threading.Lock()
        self.seq = 0
        self.log: list[tuple] = []  # (seq, kind, ...)
        self.gates = [threading.Event() for _ in range(n)]
        self.started = [False] * n
        self.done = [False] * n
        self.entered = [False] * n
        self.left = [False] * n
        self.reported = [False] * n
        self.released = [False] * n
        self.deferred: list[int] = []
        self.cancel_issued = [False] * n
        self.fin_cancel = [False] * n
        self.fn_out: list[Any] = [None] * n  # ("v", obj) | ("e", exc)
        self.back: list[Any] = [None] * n  # ("v", obj) | ("e", exc)
        self.pend: list[Any] = [None] * n
        self.tid: list[Any] = [None] * n
        self.thread_call: dict[int, int] = {}
        self.executing: set[int] = set()
        self.abandoned: set[int] = set()
        self.lines: list[tuple[str, str | None]] = []  # (request, expected reply or None)
        self.error: str | None = None
        self.loop_tid = 0
        self.scopes: list[CancelScope] = []
        self.lim: CapacityLimiter
        self.end_state: dict[str, Any] = {}
        self.lowered = False
        self.seen_workers: dict[int, Any] = {}  # thread ident -> WorkerThread, every one ever created
        self.pruned: set[int] = set()
        self._wids: dict[int, int] = {}
        self._wobjs: list[Any] = []

    def wid(self, th: Any = None) -> int:
        """a serial number per thread object (OS thread idents are reused once a thread has exited)"""
        th = th or threading.current_thread()
        with self.lock:
            k = self._wids.get(id(th))
            if k is None:
                k = self._wids[id(th)] = len(self._wids) + 1
                self._wobjs.append(th)  # keeps id(th) unique
            return k

    # ---------------------------------------------------------------- logging
    def ev(self, kind: str, *rest: Any) -> int:
        with self.lock:
            self.seq += 1
            self.log.append((self.seq, kind, *rest))
            return self.seq

    # ---------------------------------------------------------------- thread side
    def fn(self, i: int) -> Any:
        spec = self.calls[i]
        tid = self.wid()
        with self.lock:
            self.thread_call[tid] = i
            self.executing.add(i)
            live = len([j for j in self.executing if j not in self.abandoned])
            nexec = len(self.executing)
        self.tid[i] = tid
        self.ev("enter", i, tid, CV.get(), self.lim.borrowed_tokens, self.lim.total_tokens, live, nexec)
        self.entered[i] = True
        out: Any = None
        try:
            if not self.gates[i].wait(SETTLE_TIMEOUT * 3):
                raise HarnessError(f"gate of call {i} never released")
            out = ("v", self.body(i, spec["kind"]))
            return out[1]
        except BaseException as e:
            out = ("e", e)
            raise
        finally:
            self.fn_out[i] = out
            with self.lock:
                self.executing.discard(i)
            self.ev("leave", i, tid, out[0] if out else None)
            self.left[i] = True

    def body(self, i: int, kind: str) -> Any:
        if kind == "ret":
            return ("val", i)
        if kind == "raise":
            raise TagError(i)
        if kind == "retexc":
            return TagError(i)  # a value that happens to be an exception instance
        if kind == "retstop":
            return StopIteration(i)
        if kind == "ctx":
            return CV.get()
        if kind in ("check", "checkraise"):
            expect = self.cancel_issued[i]
            try:
                from_thread.check_cancelled()
            except BaseException as e:
                self.ev("check", i, True, expect, type(e).__name__)
                if kind == "checkraise":
                    raise
                return ("chk", i, True)
            self.ev("check", i, False, expect, None)
            return ("chk", i, False)
        if kind == "run_sync":
            def in_loop(x: int) -> tuple:
                return ("sync", x, self.wid(), CV.get())

            r = from_thread.run_sync(in_loop, i)
            self.ev("cb_sync", i, r == ("sync", i, self.loop_tid, ("cv", i)), r)
            return ("rs", i)
        if kind == "run":
            must_cancel = self.cancel_issued[i]

            async def coro(x: int) -> tuple:
                tid = self.wid()
                try:
                    await anyio.sleep(0)
                    if must_cancel:
                        # the host scope is cancelled: this coroutine lives in a cancelled scope and
                        # has to be interrupted at a checkpoint; give it a few, then a bounded wait
                        # (no cancel scope is entered here: entering one would itself restart the
                        # delivery in the cancelled parent and hide a lost cancellation)
                        for _ in range(3):
                            await anyio.sleep(0)
                        await anyio.sleep(NOT_CANCELLED_WAIT)
                        self.ev("cb_async_not_cancelled", x)
                    return ("async", x, tid, CV.get())
                except CANCELLED:
                    self.ev("cb_async_cancelled", x, must_cancel)
                    raise

            r = from_thread.run(coro, i)
            self.ev("cb_async", i, r == ("async", i, self.loop_tid, ("cv", i)), r)
            return ("ra", i)
        raise ValueError(kind)

    # ---------------------------------------------------------------- loop side
    def hook(self, post, callback, args, context):  # runs in the worker thread
        i = self.thread_call.get(self.wid())
        if i is None:
            return post(callback, *args, context=context)
        tid = self.wid()
        fin = self.fin_cancel[i] and not self.cancel_issued[i]
        if fin:
            self.cancel_issued[i] = True

        def report_and_mark() -> None:
            # ONE loop callback: (for `fincancel`: the cancellation of the caller's scope, then) the
            # real `_report_result`, then the harness's note that it ran.  Separate posts would let
            # the loop run whole cycles in between (waking the caller, dispatching the next job to
            # this or to a new worker) and make the history depend on the GIL.
            try:
                if fin:
                    self._do_cancel(i)
                callback(*args)
            finally:
                self._mark_reported(i, tid)

        return post(report_and_mark, context=context)

    def _do_cancel(self, i: int) -> None:
        self.ev("cancel", i, "fin")
        self.scopes[i].cancel()

    def _mark_reported(self, i: int, tid: int) -> None:
        self.ev("reported", i, tid)
        self.reported[i] = True

    async def caller(self, i: int) -> None:
        spec = self.calls[i]
        try:
            with self.scopes[i]:
                CV.set(("cv", i))
                if spec["pre"]:
                    self.cancel_issued[i] = True
                    self.scopes[i].cancel()
                self.ev("issued", i)
                try:
                    if spec.get("nest"):
                        # the scope that gets cancelled is an ancestor of the caller's innermost scope
                        with CancelScope():
                            v = await to_thread.run_sync(self.fn, i, abandon_on_cancel=spec["ab"],
                                                         limiter=self.lim)
                    else:
                        v = await to_thread.run_sync(self.fn, i, abandon_on_cancel=spec["ab"], limiter=self.lim)
                    out = ("v", v)
                except BaseException as e:
                    out = ("e", e)
                self.back[i] = out
                with self.lock:
                    if self.entered[i] and not self.left[i]:
                        self.abandoned.add(i)
                self.ev("back", i, out[0], self.entered[i], self.left[i], self.cancel_issued[i],
                        self.lim.borrowed_tokens)
                try:
                    await checkpoint()
                    self.pend[i] = False
                except CANCELLED:
                    self.pend[i] = True
                    raise
        finally:
            self.done[i] = True

    def stable(self) -> bool:
        inflight = [i for i in range(self.n) if self.started[i] and not self.done[i]]
        at_gate = [i for i in inflight if self.entered[i] and not self.left[i] and not self.released[i]]
        waiting = self.lim.statistics().tasks_waiting
        if len(inflight) != len(at_gate) + waiting:
            return False
        for w in self.seen_workers.values():
            if _stopping(w) and w.is_alive():
                return False
        for i in range(self.n):
            if self.entered[i] and self.released[i] and not self.left[i]:
                return False
            if self.left[i] and not self.reported[i]:
                return False
        return True

    def describe(self) -> str:
        return (f"started={self.started} done={self.done} entered={self.entered} left={self.left} "
                f"reported={self.reported} released={self.released} "
                f"waiting={self.lim.statistics().tasks_waiting} borrowed={self.lim.borrowed_tokens}")

    async def settle(self) -> None:
        for _ in range(3):
            await asyncio.sleep(0)
        deadline = time.monotonic() + SETTLE_TIMEOUT
        ok = 0
        while True:
            if self.stable():
                ok += 1
                if ok >= 2:
                    return
                await asyncio.sleep(0)
                continue
            ok = 0
            if time.monotonic() > deadline:
                hung = [i for i in range(self.n) if self.started[i] and not self.done[i]
                        and self.left[i] and self.reported[i]]
                if hung:
                    # the function is over and its result was posted to the loop, yet run_sync does
                    # not return: the property failing, not an infrastructure problem
                    self.end_state["hung_calls"] = hung
                    raise _Hung()
                raise HarnessError("settle timed out: " + self.describe())
            await asyncio.sleep(0.0003)

    # ---------------------------------------------------------------- observation
    def got_str(self, i: int) -> str:
        b = self.back[i]
        if b is None:
            return "-"
        kind, obj = b
        for j in range(self.n):
            fo = self.fn_out[j]
            if fo is not None and fo[0] == kind and fo[1] is obj:
                return f"ret:{kind}{j}:p{int(bool(self.pend[i]))}"
        if kind == "e" and isinstance(obj, CANCELLED):
            return "cancelled"
        return f"other:{kind}:{type(obj).__name__}"

    def prev_str(self, i: int) -> str:
        """the call whose function ran on the same thread immediately before call i's"""
        if not self.entered[i]:
            return "-"
        prev = "new"
        for rec in self.log:
            if rec[1] == "enter":
                if rec[2] == i:
                    return prev
                if rec[3] == self.tid[i]:
                    prev = str(rec[2])
        return prev

    def note_workers(self) -> list[int]:
        """register the WorkerThreads of this loop; returns the ones stopped since the last look"""
        try:
            from anyio._backends._asyncio import _threadpool_workers

            for w in _threadpool_workers.get():
                self.seen_workers.setdefault(self.wid(w), w)
        except (ImportError, LookupError):
            pass
        # (independent of the backend's private bookkeeping: the worker threads that are alive)
        for w in worker_threads():
            self.seen_workers.setdefault(self.wid(w), w)
        new = [t for t, w in self.seen_workers.items() if _stopping(w) and t not in self.pruned]
        self.pruned.update(new)
        return new

    def obs(self) -> str:
        self.note_workers()
        per = " ".join(f"{i}={self.got_str(i)}/{self.prev_str(i)}" for i in range(self.n) if self.started[i])
        with self.lock:
            nexec = len(self.executing)
        return (f"borrowed={self.lim.borrowed_tokens} waiting={self.lim.statistics().tasks_waiting} "
                f"workers={len(self.seen_workers)} exec={nexec} | {per}")

    def snap(self) -> None:
        for t in self.note_workers():
            # a worker was stopped in this step: the model's environment event `prune`
            self.ev("pruned", t)
            self.lines.append(("prune", "env"))
        o = self.obs()
        self.ev("obs", o, self.lim.total_tokens)
        self.lines.append(("settle", "ok"))
        self.lines.append(("obs", o))

    def finish_line(self, i: int) -> str:
        fo = self.fn_out[i]
        return f"finish {i} {fo[0]} {i}"

    async def do_release(self, i: int, fin: bool = False) -> None:
        """function i is at its gate: let it finish, settle, record"""
        self.released[i] = True
        if fin:
            self.fin_cancel[i] = True
        self.ev("release", i, fin)
        self.gates[i].set()
        await self.settle()
        self.lines.append((self.finish_line(i), "env"))
        if fin:
            self.lines.append((f"cancel {i}", "env"))
        self.snap()

    async def drain_deferred(self) -> None:
        progress = True
        while progress:
            progress = False
            for i in list(self.deferred):
                if self.done[i] and not self.entered[i]:
                    self.deferred.remove(i)  # never ran: nothing to release
                    self.released[i] = True
                    self.gates[i].set()
                elif self.entered[i] and not self.left[i]:
                    self.deferred.remove(i)
                    await self.do_release(i)
                    progress = True
                    break

    async def main(self) -> None:
        loop = asyncio.get_running_loop()
        self.loop_tid = self.wid()
        type(loop).c14_hook = staticmethod(self.hook)  # type: ignore[attr-defined]
        self.lim = CapacityLimiter(self.case["total"])
        self.scopes = [CancelScope() for _ in range(self.n)]
        self.lines.append((f"new {self.case['total']}", "ok"))
        try:
            async with anyio.create_task_group() as tg:
                try:
                    for step in self.case["steps"]:
                        op, a = step[0], step[1]
                        if op == "start":
                            if self.started[a]:
                                continue
                            self.started[a] = True
                            spec = self.calls[a]
                            tg.start_soon(self.caller, a)
                            await self.settle()
                            self.lines.append((f"call {a} {int(spec['ab'])} {int(spec['pre'])}", "susp"))
                            self.snap()
                        elif op == "cancel":
                            if not self.started[a] or self.cancel_issued[a]:
                                continue
                            self.cancel_issued[a] = True
                            self.ev("cancel", a, "step")
                            self.scopes[a].cancel()
                            await self.settle()
                            self.lines.append((f"cancel {a}", "env"))
                            self.snap()
                        elif op in ("release", "fincancel"):
                            if not self.started[a] or self.released[a] or a in self.deferred:
                                continue
                            if self.entered[a] and not self.left[a]:
                                await self.do_release(a, fin=(op == "fincancel"))
                            else:
                                self.deferred.append(a)
                        elif op == "settotal":
                            if a < self.lim.total_tokens:
                                self.lowered = True
                            self.ev("settotal", a)
                            self.lim.total_tokens = a
                            await self.settle()
                            self.lines.append((f"settotal {a}", "env"))
                            self.snap()
                        elif op == "age":
                            # needs the backend's idle-worker bookkeeping; if its private layout has
                            # changed the step is skipped (the idle-time expiry is then not exercised)
                            try:
                                from anyio._backends._asyncio import WorkerThread, _threadpool_idle_workers

                                idle = list(_threadpool_idle_workers.get())
                                span = WorkerThread.MAX_IDLE_TIME + 1
                                if any(not hasattr(w, "idle_since") for w in idle):
                                    raise AttributeError("idle_since")
                            except (ImportError, LookupError, AttributeError):
                                continue
                            for w in idle:
                                w.idle_since -= span
                            self.ev("age", tuple(self.wid(w) for w in idle))
                        else:
                            raise ValueError(step)
                        await self.drain_deferred()
                    # the end: let every function that is still at its gate finish
                    for i in range(self.n):
                        if self.started[i] and not self.released[i] and i not in self.deferred:
                            self.deferred.append(i)
                    await self.drain_deferred()
                    stuck = [i for i in range(self.n) if self.started[i] and not self.done[i]]
                    self.end_state = {"stuck": stuck, "borrowed": self.lim.borrowed_tokens,
                                      "waiting": self.lim.statistics().tasks_waiting,
                                      "executing": len(self.executing)}
                finally:
                    for g in self.gates:
                        g.set()
                    tg.cancel_scope.cancel()
        finally:
            type(loop).c14_hook = None  # type: ignore[attr-defined]

    def run(self) -> "Run":
        stale = worker_threads()
        if stale:
            for t in stale:
                t.join(2.0)
            if worker_threads():
                raise HarnessError("worker threads of a previous case still alive")
        def in_thread() -> None:
            try:
                anyio.run(self.main,
                          backend_options={"loop_factory": loop_class(self.case.get("loop", "asyncio"))})
            except BaseException as e:  # anything escaping the task group is itself an observation
                he = _find_exc(e, HarnessError)
                if he is not None:
                    self.harness_error = he
                elif _find_exc(e, _Hung) is None:
                    self.error = f"{type(e).__name__}: {e}"

        # the loop runs in a thread of its own so that a call that never returns (shielded wait on a
        # future nobody resolves) cannot hang the check
        self.harness_error: HarnessError | None = None
        t = threading.Thread(target=in_thread, daemon=True, name="c14-loop")
        t.start()
        t0 = time.monotonic()
        hung_at = None
        while t.is_alive() and time.monotonic() - t0 < CASE_TIMEOUT:
            t.join(0.05)
            if self.end_state.get("hung_calls"):
                hung_at = hung_at or time.monotonic()
                if time.monotonic() - hung_at > 2.0:
                    break
        if self.harness_error is not None:
            raise self.harness_error
        if t.is_alive():
            if not self.end_state.get("hung_calls"):
                raise HarnessError("case did not finish: " + self.describe())
            self.end_state["loop_thread_abandoned"] = True
            return self
        for g in self.gates:
            g.set()
        deadline = time.monotonic() + 3.0
        while worker_threads() and time.monotonic() < deadline:
            time.sleep(0.001)
        self.end_state["threads_alive"] = len(worker_threads())
        return self


# --------------------------------------------------------------------------- oracle


def oracle(r: Run) -> str | None:
    """The property text checked on the real history, without the model."""
    case, n = r.case, r.n
    if r.end_state.get("hung_calls"):
        i = r.end_state["hung_calls"][0]
        return (f"call {i}: its function finished and reported its result but run_sync did not return "
                f"within {SETTLE_TIMEOUT} s")
    if r.error:
        return f"unexpected exception escaped the callers' task group: {r.error}"
    enter_seq: dict[int, int] = {}
    leave_seq: dict[int, int] = {}
    back_seq: dict[int, int] = {}
    cancel_seq: dict[int, int] = {}
    idle_stack: list[int] = []
    aged: set[int] = set()  # idle workers whose MAX_IDLE_TIME has passed
    must_prune: set[int] = set()
    pruned: set[int] = set()
    total_now = case["total"]
    lowered = False
    for rec in r.log:
        seq, kind = rec[0], rec[1]
        if kind == "settotal":
            if rec[2] < total_now:
                lowered = True
            total_now = rec[2]
        elif kind == "cancel":
            cancel_seq.setdefault(rec[2], seq)
        elif kind == "enter":
            _, _, i, tid, cv, borrowed, total, live, nexec = rec
            enter_seq[i] = seq
            if not lowered and live > total:
                return (f"{live} non-abandoned functions executing concurrently with a limiter of "
                        f"{total} tokens (call {i} entered)")
            if live > borrowed:
                return (f"call {i}'s function runs without holding a token: {live} live functions, "
                        f"borrowed_tokens={borrowed}")
            if not lowered and borrowed > total:
                return f"borrowed_tokens={borrowed} exceeds total_tokens={total}"
            if cv != ("cv", i):
                return f"call {i}'s function does not see the caller's context variable: {cv!r}"
            if tid == r.loop_tid:
                return f"call {i}'s function ran in the event loop thread"
            if i in cancel_seq and cancel_seq[i] < seq and not case["calls"][i]["pre"]:
                # (the settle step before the cancellation guarantees that the call was either at its
                # gate - entered - or still queued for a token)
                return (f"call {i} was cancelled while it was still waiting for a limiter token, yet its "
                        f"function was started afterwards")
            # worker reuse: most recently idle worker first, a new thread only if none is idle
            if tid in idle_stack:
                if idle_stack[-1] != tid:
                    return (f"worker reuse is not LIFO: call {i} ran on a worker that was not the most "
                            f"recently idle one")
                idle_stack.pop()
            elif idle_stack:
                return f"a new worker thread was started for call {i} although {len(idle_stack)} were idle"
            # this dispatch had to stop every other idle worker whose idle time has expired
            must_prune |= {t for t in idle_stack if t in aged}
            idle_stack[:] = [t for t in idle_stack if t not in aged]
            aged.clear()
        elif kind == "age":
            aged = set(rec[2])
        elif kind == "pruned":
            t = rec[2]
            if t not in must_prune and t not in aged:
                return "a worker thread that had not been idle for MAX_IDLE_TIME was stopped"
            pruned.add(t)
            if t in idle_stack:
                idle_stack.remove(t)
        elif kind == "reported":
            idle_stack.append(rec[3])
        elif kind == "leave":
            leave_seq[rec[2]] = seq
        elif kind == "back":
            _, _, i, okind, entered, left, cancel_issued, borrowed = rec
            back_seq[i] = seq
        elif kind == "check":
            _, _, i, raised, expect, _name = rec
            if raised != expect:
                return (f"from_thread.check_cancelled() in call {i} "
                        f"{'raised' if raised else 'did not raise'} although the host scope was "
                        f"{'cancelled' if expect else 'not cancelled'}")
        elif kind in ("cb_sync", "cb_async"):
            if not rec[3]:
                return f"from_thread.{'run_sync' if kind == 'cb_sync' else 'run'} in call {rec[2]} returned {rec[4]!r}"
        elif kind == "cb_async_not_cancelled" and not case["calls"][rec[2]]["ab"]:
            return (f"coroutine started by from_thread.run from call {rec[2]}'s thread was not interrupted "
                    f"although the host scope is cancelled")
        elif kind == "obs":
            if not must_prune <= pruned:
                return (f"{len(must_prune - pruned)} worker thread(s) idle for longer than MAX_IDLE_TIME "
                        f"were not stopped by the next dispatch")
            f = dict(kv.split("=") for kv in rec[2].split(" | ")[0].split())
            if not lowered and int(f["borrowed"]) > rec[3]:
                return f"borrowed_tokens={f['borrowed']} exceeds total_tokens={rec[3]}"
    for i in range(n):
        spec = case["calls"][i]
        if not r.started[i]:
            continue
        b, fo = r.back[i], r.fn_out[i]
        if i in r.end_state.get("stuck", []):
            return (f"call {i} never completed although every function was released "
                    f"(borrowed_tokens={r.end_state['borrowed']}, waiting={r.end_state['waiting']}, "
                    f"functions executing={r.end_state['executing']})")
        if b is None:
            return f"call {i} finished without an outcome"
        cancelled_back = b[0] == "e" and isinstance(b[1], CANCELLED) and not (
            fo is not None and fo[1] is b[1])
        if i in enter_seq and not spec["ab"]:
            # cancellation must not take effect before the function has finished
            if i not in leave_seq or back_seq[i] < leave_seq[i]:
                return f"call {i} (abandon_on_cancel=False) returned before its function had finished"
            if cancelled_back:
                return (f"call {i} (abandon_on_cancel=False) raised the cancellation instead of handing "
                        f"over its function's outcome")
        if not cancelled_back:
            if fo is None:
                return f"call {i} produced {b[0]}:{b[1]!r} but its function never ran"
            if fo[0] != b[0] or fo[1] is not b[1]:
                return (f"call {i} returned {b[0]}:{b[1]!r} but its function "
                        f"{'returned' if fo[0] == 'v' else 'raised'} {fo[1]!r}")
            # the cancellation that arrived meanwhile is delivered at the next checkpoint
            was_cancelled = i in cancel_seq and cancel_seq[i] < back_seq[i] or spec["pre"]
            if was_cancelled and r.pend[i] is not True:
                return (f"call {i}'s scope was cancelled while its function ran; run_sync returned the "
                        f"outcome but the next checkpoint did not raise")
            if not was_cancelled and r.pend[i] is True:
                return f"call {i} was never cancelled but its next checkpoint raised a cancellation"
        else:
            if not (i in cancel_seq and cancel_seq[i] < back_seq[i]) and not spec["pre"]:
                return f"call {i} raised a cancellation nobody requested"
    if r.end_state:
        if r.end_state["borrowed"] != 0 or r.end_state["waiting"] != 0:
            return (f"after all calls ended the limiter reports borrowed_tokens="
                    f"{r.end_state['borrowed']}, tasks_waiting={r.end_state['waiting']}")
        if r.end_state.get("threads_alive"):
            return f"{r.end_state['threads_alive']} worker threads still alive after the event loop finished"
    return None


# --------------------------------------------------------------------------- model comparison


def canon_model_obs(s: str) -> str:
    head, _, per = s.partition(" | ")
    f = dict(kv.split("=") for kv in head.split())
    out = []
    for tok in per.split():
        c, _, rest = tok.partition("=")
        pc, th, got, prev = rest.split("/")
        if pc == "none":
            continue
        out.append(f"{c}={got}/{prev}")
    return (f"borrowed={f['borrowed']} waiting={f['waiting']} workers={f['workers']} exec={f['exec']} | "
            + " ".join(out))


def compare(lines: list[tuple[str, str | None]], replies: list[str]) -> str | None:
    for k, ((req, exp), got) in enumerate(zip(lines, replies)):
        if req == "obs":
            got = canon_model_obs(got)
        if exp is not None and exp != got:
            return f"line {k}: request {req!r}: implementation {exp!r}, model {got!r}"
    return None


# --------------------------------------------------------------------------- generators


def gen_steps(rng: random.Random, n: int, order: list[int], calls: list[dict], p_cancel: float) -> list[list]:
    """all starts first (so that up to n calls compete for the tokens), then the releases in the
    given order with cancellations sprinkled in between"""
    steps: list[list] = [["start", i] for i in range(n)]
    tail: list[list] = []
    for i in order:
        if rng.random() < p_cancel and not calls[i]["pre"]:
            when = rng.random()
            if when < 0.7:
                # before the release: lands while waiting for a token or while the function runs
                tail.insert(rng.randint(0, len(tail)), ["cancel", i])
                tail.append(["release", i])
            elif when < 0.9:
                tail.append(["fincancel", i])
            else:
                tail.append(["release", i])
                tail.append(["cancel", i])
        else:
            tail.append(["release", i])
    return steps + tail


def gen_calls(rng: random.Random, n: int) -> list[dict]:
    calls = []
    for _ in range(n):
        calls.append({"kind": rng.choice(KINDS), "ab": rng.random() < 0.4, "pre": rng.random() < 0.06,
                      "nest": rng.random() < 0.4})
    return calls


def gen_random(rng: random.Random, max_n: int) -> dict:
    n = rng.randint(1, max_n)
    calls = gen_calls(rng, n)
    order = list(range(n))
    rng.shuffle(order)
    steps = gen_steps(rng, n, order, calls, 0.5)
    # interleave late starts: move some starts behind the first releases
    if n > 1 and rng.random() < 0.5:
        k = rng.randint(1, n - 1)
        late = steps[k:n]
        rest = steps[n:]
        steps = steps[:k]
        for s in late:
            rest.insert(rng.randint(0, len(rest)), s)
        steps += rest
    if rng.random() < 0.15:
        steps.insert(rng.randint(0, len(steps)), ["settotal", rng.randint(3, 4)])
    if n > 1 and rng.random() < 0.3:
        # let the idle time of the workers expire somewhere behind the first release
        first = min(k for k, st_ in enumerate(steps) if st_[0] in ("release", "fincancel"))
        steps.insert(rng.randint(first + 1, len(steps)), ["age", 0])
    return {"loop": rng.choice(["asyncio", "uvloop"]), "total": rng.randint(1, 3), "calls": calls,
            "steps": steps}


def gen_prune(rng: random.Random) -> dict:
    """k calls run concurrently and finish (k idle workers), MAX_IDLE_TIME passes, possibly one more
    worker becomes idle afterwards (fresh), then the remaining calls are started"""
    n = rng.randint(2, 5)
    calls = gen_calls(rng, n)
    for c in calls:
        c["pre"] = False
    k = rng.randint(1, n - 1)
    first = list(range(k))
    rng.shuffle(first)
    steps: list[list] = [["start", i] for i in range(k)]
    fresh = k >= 2 and rng.random() < 0.4
    held = first.pop() if fresh else None
    steps += [["release", i] for i in first] + [["age", 0]]
    if held is not None:
        steps.append(["release", held])
    rest = list(range(k, n))
    steps += [["start", i] for i in rest]
    rng.shuffle(rest)
    for i in rest:
        if rng.random() < 0.25:
            steps.append(["cancel", i])
        steps.append(["release", i])
    return {"loop": rng.choice(["asyncio", "uvloop"]), "total": rng.randint(max(1, k), 5), "calls": calls,
            "steps": steps}


def enum_orders(rng: random.Random, max_n: int, loops: list[str]):
    """every completion order of 1..max_n concurrent calls against limiter sizes 1..3"""
    for n in range(1, max_n + 1):
        for total in (1, 2, 3):
            for order in itertools.permutations(range(n)):
                calls = gen_calls(rng, n)
                yield {"loop": loops[(n + total + sum(order[:1])) % len(loops)], "total": total,
                       "calls": calls, "steps": gen_steps(rng, n, list(order), calls, 0.3)}


# --------------------------------------------------------------------------- run


def run_cases(cases: list[dict], res: Result, ctx: Ctx | None = None) -> None:
    runs: list[Run] = []
    all_lines: list[str] = []
    for case in cases:
        if ctx is not None and ctx.time_left() < 8:
            res.stats["stopped_early"] = True
            break
        r = Run(case).run()
        runs.append(r)
        all_lines += [req for req, _ in r.lines]
        if r.end_state.get("hung_calls"):
            res.stats["aborted_after_hang"] = True
            break
    all_lines.append("hits")
    replies = run_model("thread", all_lines)
    hits = replies[-1]
    pos = 0
    st = res.stats.setdefault("ops", {})
    oc = res.stats.setdefault("outcomes", {})
    for r in runs:
        case = r.case
        rep = replies[pos: pos + len(r.lines)]
        pos += len(r.lines)
        res.evaluations += 1
        st[f"loop:{case.get('loop', 'asyncio')}"] = st.get(f"loop:{case.get('loop', 'asyncio')}", 0) + 1
        st[f"total:{case['total']}"] = st.get(f"total:{case['total']}", 0) + 1
        st[f"ncalls:{r.n}"] = st.get(f"ncalls:{r.n}", 0) + 1
        for i, spec in enumerate(case["calls"]):
            if r.started[i]:
                k = f"kind:{spec['kind']}"
                st[k] = st.get(k, 0) + 1
                st[f"abandon:{int(spec['ab'])}"] = st.get(f"abandon:{int(spec['ab'])}", 0) + 1
                g = r.got_str(i).split(":")
                key = g[0] + (":" + g[1][0] + (":pending-cancel" if g[-1] == "p1" else "") if g[0] == "ret" else "")
                oc[key] = oc.get(key, 0) + 1
        for s in case["steps"]:
            st["step:" + s[0]] = st.get("step:" + s[0], 0) + 1
        waited = any(" waiting=" in (e or "") and " waiting=0" not in (e or "") for q, e in r.lines if q == "obs")
        cancelled = any(s[0] in ("cancel", "fincancel") for s in case["steps"]) or any(
            c["pre"] for c in case["calls"])
        raised = any(fo is not None and fo[0] == "e" for fo in r.fn_out)
        bad = oracle(r)
        if bad:
            res.violations.append(Violation(case, bad, "C14:" + " ".join(bad.split()[:6])))
        d = compare(r.lines, rep)
        if d:
            res.disagreements.append(Disagreement(case, d))
        else:
            res.traces_validated += 1
        if waited or cancelled or raised:
            res.nontrivial.add(hash(tuple(r.lines)))
            if len(res.samples) < 4:
                res.samples.append({"case": case, "trace": [f"{q} -> {e}" for q, e in r.lines[:16]]})
    bh = res.stats.setdefault("model_branch_hits", {})
    for kv in hits.split():
        k, _, v = kv.partition("=")
        bh[k] = bh.get(k, 0) + int(v)


ALL_BRANCHES = [
    "call", "call-pre", "tokenGranted", "dispatch-new-worker", "dispatch-reuse", "threadStart",
    "threadSkip", "threadFinish-val", "threadFinish-exc", "report-resolve", "report-dropped",
    "callerCancelled@waiting", "callerCancelled@awaiting", "callerCancelled@returned", "deliver",
    "resume-ret", "resume-ret-pendingcancel", "resume-early", "resume-wcancel", "resume-abandoned",
    "setTotal", "prune",
]


def check_cancelled_matrix(res: Result, only: dict | None = None, tag: str = "C14") -> None:
    """from_thread.check_cancelled() against the reference reading of the host's scope chain: every
    combination of (outer cancelled?, middle shield?, middle cancelled?, inner shield?) around the
    to_thread.run_sync call (oracle only; the walk itself is theorem C14_check_cancelled_iff)"""
    import itertools as it

    async def probe(oc: bool, ms: bool, mc: bool, ish: bool) -> bool | str:
        seen: list[bool] = []

        def fn() -> None:
            # the scopes are cancelled from inside the thread, once the function is running
            if oc:
                from_thread.run_sync(outer.cancel)
            if mc:
                from_thread.run_sync(middle.cancel)
            try:
                from_thread.check_cancelled()
            except BaseException:
                seen.append(True)
            else:
                seen.append(False)

        with CancelScope() as outer:
            with CancelScope(shield=ms) as middle:
                with CancelScope(shield=ish):
                    # abandon_on_cancel=False: the call itself is shielded, the thread still sees the chain
                    await to_thread.run_sync(fn)
        return seen[0] if seen else "no-result"

    for oc, ms, mc, ish in it.product([False, True], repeat=4):
        if only is not None and (oc, ms, mc, ish) != (only["outer_cancelled"], only["middle_shield"],
                                                       only["middle_cancelled"], only["inner_shield"]):
            continue
        want = (not ish) and (mc or ((not ms) and oc))
        try:
            got = anyio.run(probe, oc, ms, mc, ish)
        except BaseException as e:  # noqa: BLE001
            got = f"raised {type(e).__name__}"
        res.evaluations += 1
        res.stats["check_cancelled_matrix"] = res.stats.get("check_cancelled_matrix", 0) + 1
        if got != want:
            res.violations.append(Violation(
                {"check_cancelled": {"outer_cancelled": oc, "middle_shield": ms, "middle_cancelled": mc,
                                     "inner_shield": ish}},
                f"from_thread.check_cancelled() reported {got} where the scope chain says {want} "
                f"(outer cancelled={oc}, middle shield={ms} cancelled={mc}, inner shield={ish})",
                f"{tag}:check-cancelled-chain"))


def check_cancelled_noscope(res: Result, only: dict | None = None) -> None:
    """run_sync called from a task that is inside no cancel scope at all (top level of anyio.run, a
    native asyncio task): the function's value comes back and check_cancelled() reports nothing"""
    import asyncio as aio

    for ab in (False, True):
        for where in ("anyio.run", "asyncio task"):
            case = {"check_cancelled_noscope": {"abandon_on_cancel": ab, "where": where}}
            if only is not None and only != case["check_cancelled_noscope"]:
                continue

            def fn() -> str:
                from_thread.check_cancelled()
                return "value"

            async def call() -> Any:
                return await to_thread.run_sync(fn, abandon_on_cancel=ab)

            async def main() -> Any:
                if where == "anyio.run":
                    return await call()
                return await aio.get_running_loop().create_task(call())

            try:
                got: Any = anyio.run(main)
            except BaseException as e:  # noqa: BLE001
                got = f"raised {type(e).__name__}: {e}"
            res.evaluations += 1
            if got != "value":
                res.violations.append(Violation(
                    case, f"to_thread.run_sync(abandon_on_cancel={ab}) from a task inside no cancel scope "
                          f"({where}), function calling from_thread.check_cancelled(): {got!r} instead of the "
                          f"function's value", "C14:no-scope-call"))


def run(ctx: Ctx) -> Result:
    res = Result(rule="real threads behind gates: every completion order of <=4 (quick) / <=6 (thorough) "
                      "concurrent calls x limiter size 1..3 x {asyncio, uvloop}, kinds/abandon/cancellation "
                      "points drawn from the PRNG, plus random step lists with late starts and total_tokens "
                      "raises; non-trivial = some call had to wait for a token, a cancellation was issued or a "
                      "function raised; distinct = distinct request/observation traces")
    cases = list(load_corpus("C14"))
    quick = ctx.tier == "quick"
    if ctx.focus is not None:
        cases.append(ctx.focus)
    loops = ["asyncio", "uvloop"]
    if quick:
        cases += list(enum_orders(ctx.rng, 4, ["asyncio"]))
        cases += list(enum_orders(ctx.rng, 4, ["uvloop"]))
        cases += [gen_random(ctx.rng, 4) for _ in range(ctx.n(300, 300))]
        cases += [gen_prune(ctx.rng) for _ in range(ctx.n(60, 60))]
    else:
        cases += list(enum_orders(ctx.rng, 4, ["asyncio"]))
        cases += list(enum_orders(ctx.rng, 4, ["uvloop"]))
        cases += [gen_random(ctx.rng, 6) for _ in range(ctx.n(1500, 1500))]
        cases += [gen_prune(ctx.rng) for _ in range(ctx.n(300, 300))]
        cases += list(enum_orders(ctx.rng, 6, loops))
        res.stats["enumerated_orders_up_to"] = 6
    for k in range(0, len(cases), 100):
        run_cases(cases[k: k + 100], res, ctx)
        if ctx.time_left() < 8 or res.stats.get("aborted_after_hang") or len(res.violations) > 20:
            break
    hit = res.stats.get("model_branch_hits", {})
    res.stats["model_branches_unhit"] = [b for b in ALL_BRANCHES if b not in hit]
    check_cancelled_matrix(res)
    check_cancelled_noscope(res)
    return res


def replay(ctx: Ctx, case: Any) -> Result:
    res = Result(rule="replay")
    if "check_cancelled" in case:
        check_cancelled_matrix(res, only=case["check_cancelled"])
    elif "check_cancelled_noscope" in case:
        check_cancelled_noscope(res, only=case["check_cancelled_noscope"])
    else:
        run_cases([case], res)
    return res


ASSUMPTIONS = [
    "modelled, not verified: OS thread scheduling and the GIL (events threadStart/threadSkip/threadFinish "
    "are free environment events), queue.Queue hand-over to the worker, loop.call_soon_threadsafe "
    "(event `report`: every posted callback runs exactly once, in order), contextvars.copy_context "
    "(oracle only), the CapacityLimiter hand-over cycle under native Task.cancel (C10)",
    "the check's settle step waits (bounded) for the real threads; orders the gates cannot force "
    "(a worker seeing its job's future already cancelled: threadSkip) are covered by the theorems only",
]

if __name__ == "__main__":
    import sys
    from .common import check_main

    try:
        code = check_main("C14", run, replay=replay, models=["thread"], assumptions=ASSUMPTIONS,
                          technique_note="Lean 4 theorems over the run_sync LTS (all event lists: limiter "
                                         "tokens, call life-cycle, shield, worker stack) + real threads "
                                         "released through gates in all completion orders, replayed in the "
                                         "model + history oracle; partial: thread scheduling, queue.Queue, "
                                         "call_soon_threadsafe, contextvars are named assumptions")
    except HarnessError as e:
        print(f"C14 harness error (no verdict): {e}", file=sys.stderr)
        code = 2
    sys.exit(code)
